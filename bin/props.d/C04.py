PROP_ID = "C04"
PROP = dict(
    imports=["Acl.Glob", "Server.KV", "Server.DB", "Server.FSMap", "Server.FS", "Corr.Run_DB", "Corr.Run_C04", "Props.Chain_Server"],
    case_type="Run_C04.case", check="Run_C04.check", shrink_field="ops",
    technique=("Rocq proof (file-system semantics with kill points between and inside operations, verified monitors atomic_replace_ok / error_ok, "
               "model of atomicfile.WriteFile under every single fault; kv.go mutate/undo model: every rollback branch restores exactly the previous state) "
               "+ strace-recorded system calls of a child process doing one real db operation, SIGKILL and EIO/ENOSPC injected at every one of them, judged in the kernel"),
    level_text=("Machine-checked theorems: any system-call trace accepted by the monitor atomic_replace_ok (all bytes go to one temporary created exclusively and owner-only in the "
                "same directory, it holds exactly the new contents, fully fsynced, mode 0600, when it is renamed onto the live file; the live path is touched by nothing else; "
                "the rename is the last mutating call) leaves the complete old or the complete new contents after a kill between or INSIDE any call (any prefix of a write), the "
                "live file is at every instant entirely on stable storage and never written in place; a trace accepted by error_ok leaves the old contents and no temporary; the "
                "line-by-line model of atomicfile.WriteFile satisfies these monitors under every single failing step incl. a partial write. For the in-memory half: every one of "
                "the five rollback branches of kv.go restores exactly the previous state, the write generation advances only on a successful save, and a refused call can be "
                "repeated with the result it would have had. Tied to the code by (a) the monitor evaluated by the kernel on the strace-recorded calls of a child process "
                "performing one real operation (database creation, first put, new version, activate, delete-version, delete); (b) the same call killed at the entry of every "
                "one of these calls and after the last, then db.Open + full dump compared with the file-system model's prediction (pre or post state of the database model); "
                "(c) the same call with every one of these calls failing (EIO, ENOSPC): result class, the state the same process keeps serving, WriteGen, directory listing, a "
                "second db.Open, and the retried call compared with the model; (d) histories with refused saves on the real db.DB compared after every step."),
    level_note=("partial: the kernel's rename/O_EXCL atomicity and what fsync guarantees on power loss are assumptions of the file-system model (tested by kill injection, not proved); "
                "a kill INSIDE one write cannot be produced from outside the kernel and is covered by the theorem and the all-writes-go-to-the-temporary clause only. "
                "Trusted: Coq kernel+VM, strace (recording and injection), the harness's abstraction of system calls to model operations."),
    rule=("per kind of mutating call (create, first put, new version, activate, delete-version, delete) 3 seed-derived pre-states (thorough: 8; creation: 1): one traced baseline run, one kill run "
          "per system call of the save touching the state directory plus one after the last, one fault run per such call and errno (EIO; ENOSPC for openat/write/fsync/renameat; "
          "thorough adds EACCES, EINTR); plus 300 (thorough 10000) histories of 6-30 calls with 35% refused saves. A kill/fault run is counted only if strace reports the injection "
          "on the intended call; non-trivial = a kill run, a fault run in which the call reported an error and was retried, a history reaching a rollback branch; distinct by run description"),
    explain=("the system calls of a save leave the verified atomic-replace protocol, or the database file after a kill / the state served, WriteGen, directory or retried call after an "
             "injected I/O error differ from the model (complete pre-call or post-call state; error => everything is the pre-call state and the call can be repeated)"),
    assumptions=["POSIX: rename replaces atomically, O_EXCL creates a fresh file, fsync makes the file's contents durable",
                 "strace injects at syscall entry without executing the call (measured: a write killed this way transfers nothing)",
                 "values are tokens"],
    harness_timeout={"quick": 600, "thorough": 7200},
)
