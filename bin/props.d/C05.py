PROP_ID = "C05"
PROP = dict(
    imports=["Acl.Glob", "Server.KV", "Server.DB", "Server.DBFacts", "Server.Crypto", "Corr.Run_DB", "Corr.Run_C05"],
    case_type="Run_C05.case", check="Run_C05.check", shrink_field="ops",
    technique=("Rocq proof (symbolic Dolev-Yao model of the files at rest: nothing derivable from all database files, temporaries and audit lines of any history; opening is sound: "
               "error or exactly what a save of the same database wrote; KEK used once) + real AES-256-GCM KEK behind a counting proxy, structure probes, marker scans, mode bits "
               "and db.Open on tampered files compared with the model / judged by the verified monitor in the kernel"),
    level_text=("Machine-checked theorems over symbolic terms (public constants, secret names, secret values, keys, arbitrary structure, arbitrary invertible encodings, AEAD "
                "ciphertexts): for EVERY history of calls of the db.go model, from anything the attacker holds that is free of the keys together with every database file and "
                "temporary and every audit line written, no secret value is derivable, and from the database files and temporaries no secret name either; the audit record has no "
                "value field; opening a wrapper succeeds only if the version is 1, the DEK field is a wrapping of some data key under the caller's key with the v1 DEK context and "
                "the DB field a ciphertext under that very data key with the v1 database context, and then yields exactly the document that save wrote - hence a foreign key, a "
                "wrong version, a wrong context, a damaged field, or the DB field of a database with another data key is an error, and a file differing from a valid one in one "
                "field opens to the original contents or not at all; along any history of calls (each with ANY outcome of its save - accepted or refused - and of its audit record) AND reopens the key-encryption key is used once at creation and exactly once per reopen, by no call (in particular not by the first write "
                "after a reopen; the saved file is a function of the data key and the stored wrapped-key bytes only); every open attempt is a function of the file and the key GIVEN to it, "
                "consults that key at most once, exactly once when it succeeds or the file is undamaged, and no other key. Tied to the code by histories with high-entropy marker names/values on the real db.DB under a real tink "
                "AES-256-GCM KEK behind a counting proxy with the audit log in a real file: after every call the wrapper's member set and version, DEK unwrap with the v1 context and "
                "not with others, DB decryption with the v1 context and not with others, the decrypted document, a scan of every file of the state directory for every marker "
                "(plain, base64 std/url at 3 alignments, hex, JSON-escaped), mode bits and KEK uses are compared with the symbolic model run on the database model; every seventh mutating call has its save REFUSED by the file system (result class, state served and file compared with the model's rollback; 0 KEK uses), in a third of the histories the key service is DOWN between opens (every KEK call after open would fail), the handle is dropped and the file reopened with the same key at random points (KEK uses continue to be compared: 1 per reopen, 0 for every call); "
                "db.Open attempts in ONE process on the database file ITSELF in the live state directory of a database with several saves behind it (everything else in the directory left as the server left it, original bytes restored after each attempt; each attempt must create/modify/remove nothing), each made right after a successful open of the original with the right key and followed by another (bit flips, every "
                "truncation point, foreign keys also in runs without a successful open in between, fields of other databases incl. golden ones, version edits), with the uses of the key given "
                "and of every other key counted per attempt, are compared with the symbolic c_open / judged by the verified monitors error-or-original and open_uses_ok; modes at creation of the temporary come from the strace trace, of the client cache file from a real FileCache."),
    level_note=("partial: real-cipher strength is an assumption (ideal AEAD: a ciphertext opens only under its own key and associated data); the marker scan and the tamper runs are "
                "tests of the real bytes. Wholesale replacement of the file by another complete valid database/snapshot under the same key is undetectable by design and not claimed. "
                "Trusted: Coq kernel+VM, tink/encoding/json as used by the harness to probe files, strace for the creation mode."),
    rule=("150 (thorough 3000) histories of 5-18 calls (every fifth: 30-45 mutation-heavy calls) with reopens of the file at random points (about 2 per history, mostly followed by a write) and 4 marker names and 8 marker values (binary, printable, JSON-escaped) probed after every call; for the first 10 (40) "
          "histories db.Open on altered copies of the final file: every bit of the JSON skeleton + 512 sampled payload bits (thorough: every bit), every truncation point, 3+ foreign "
          "keys, DEK/DB fields of 3 fresh and 2 golden databases incl. duplicate members, 17 version edits - batched per class, any opening to different contents reported on its own; "
          "every attempt interleaved with successful right-key opens of the original on the same path, plus a run of 24 right/foreign-key attempts; KEK uses at creation and 4 reopens; creation modes; modes after FileCache.Write over a pre-existing 0644/0666/0640/0604 file (empty, old document, garbage) and after a save over a valid database file chmod'ed 0644/0666/0640 (fresh and reopened handle). A history is non-trivial with >= 3 successful saves; distinct by marker seed + operations"),
    explain=("a file of the state directory exposes a marker, or the structure/modes/KEK use of the database file differ from the symbolic model, or an altered file opened to contents "
             "different from the original"),
    assumptions=["ideal AEAD (symbolic encryption)", "values are tokens; marker values are random byte strings of 18-67 bytes"],
    harness_timeout={"quick": 600, "thorough": 7200},
)
