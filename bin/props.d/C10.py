PROP_ID = "C10"
PROP = dict(
    imports=["Client.Store", "Client.Init", "Client.InitFile", "Corr.Run_C10"],
    case_type="Run_C10.case",
    check="Run_C10.check",
    shrink=False,
    technique=("Rocq proof (executable model of NewStore/initializeActive over the shared store model, with the service script, the "
               "context deadline, the clock and the map iteration order as explicit inputs; theorems for all inputs) + differential run of "
               "the real setec.NewStore under testing/synctest virtual time against the model in the kernel"),
    level_text=("Machine-checked theorems about the model of NewStore for every configuration, cache document, per-name service script, deadline and "
                "visiting order: success implies every declared name has a value marked declared (from the valid cache entry, never requested, else the "
                "outcome of a successful request); no request for a name after its first success; waits are 1 ms doubling, never above 4096 ms; a complete "
                "valid cache gives success at once with no request and no write; without a deadline no error is returned and construction succeeds as soon "
                "as every missing name has succeeded once; with a deadline the call returns no later than the deadline and cannot succeed while a needed "
                "name keeps failing; a file client fails in the first round; misconfiguration yields an error value; an invalid cache is ignored whole. "
                "Tied to store.go by scenarios run on the real Store inside a synctest bubble (scripted client, real FileClient or the real network client setec.Client over a scripted HTTP transport, crafted caches, "
                "deadlines inside waits and inside rounds): outcome, every request with its virtual instants, instant of return, cache writes, a probe "
                "poll and the values served are compared with the model in the kernel."),
    level_note=("Trusted: Coq kernel+VM; differential tie on sampled scenarios; the scripted client honours cancellation at once (a client that "
                "reacts late delays the return by its own reaction time); deadlines never coincide with another timer (Go picks either branch then); "
                "struct-tag parsing itself is C20's."),
    rule=("random NewStore scenarios (configurations with 17-64 declared names; complete caches holding an empty value with the service unreachable; file-backed clients over generated files with usable members and 10 kinds of members that are not a usable secret; 0-3 entries in StoreConfig.Structs of three struct types with overlapping/disjoint tags and variously spelled prefixes, with and without cfg.Secrets; outages of 4:59-31 virtual minutes under a context without a deadline; 1-7 declared names with duplicates, three client kinds (scripted StoreClient, real FileClient, real setec.Client over a scripted HTTP transport incl. hanging and slow servers), cache absent/empty/syntax error/type error after k valid entries/partial/complete/"
          "invalid, per-name failure scripts with latencies, deadlines at half-millisecond instants, misconfigurations); one case = one call; "
          "non-trivial if the service was contacted or a cache document was supplied; distinct by input"),
    explain=("setec.NewStore (outcome, requests with virtual instants, instant of return, cache writes, probe poll or values served) differs from the "
             "model of store construction that provably satisfies C10"),
    assumptions=["a StoreClient that honours context cancellation while it blocks",
                 "testing/synctest virtual time is faithful to real timers"],
)
