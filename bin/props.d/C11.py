PROP_ID = "C11"
PROP = dict(
    imports=["Client.Store", "Client.Poll", "Corr.Run_C11"],
    case_type="Run_C11.case", check="Run_C11.check", shrink_field="ops",
    technique="Rocq proof (poll = snapshot + one conditional request per live name in any order, interleaved with arbitrary service changes and store calls, all-or-nothing apply; single-flight; jitter arithmetic over Z) + real setec.Store under testing/synctest with every request released one at a time, timeline re-run by the model in the kernel",
    level_text="see docs/C11.md",
    level_note="Trusted: Coq kernel+VM, synctest scheduler; differential tie is sampled.",
    rule="see docs/C11.md",
    explain="the store's requests, Refresh results, cache documents or handle values differ from the poll model on this timeline",
    assumptions=["the scripted StoreClient honours context cancellation", "Cache.Write never fails in these runs"],
)
