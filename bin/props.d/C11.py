PROP_ID = "C11"
PROP = dict(
    imports=["Client.Store", "Client.Poll", "Corr.Run_C11"],
    case_type="Run_C11.case", check="Run_C11.check", shrink_field="ops", max_reports=2,
    technique=("Rocq proof over the shared store model (poll = snapshot + one conditional request per live name in ANY order, interleaved with arbitrary service changes, "
               "handles, reads, lookups and coalesced Refresh calls; all-or-nothing apply; cache document; single flight; jitter arithmetic over Z) + the real setec.Store under "
               "testing/synctest with every request of every poll released one at a time; the recorded timeline is re-run by the model in the kernel"),
    level_text=("Machine-checked theorems about Client/Poll.v (built on Client/Store.v), for ALL event sequences: after a poll in which some caller got nil, every name known before it "
                "was either flagged expired by the snapshot (dropped, or kept untouched if pinned meanwhile) or was requested at an instant within the poll and now holds the version and bytes "
                "active on the service at that instant (exactly so under the protocol's premise that a version number determines the bytes); a successful poll requested every live name, and a "
                "name with a handle is always live (F3); the end of a successful poll writes the document of the whole new state once, or nothing when nothing changed, and along every history "
                "the cache holds (version, bytes) of every name the store yields; if any caller got an error the store is unchanged and nothing was written, and one failed request at any position "
                "fails the poll for every caller; every caller has its own context, the leader's governs the requests: a context ending disturbs nothing but its own caller (who gets its context error at once), the leader's context ending before some live name was requested fails the poll for all callers still waiting with the store untouched, and all waiting callers get one verdict, so no joiner is told success by a poll that applied a strict subset; a later poll against a quiescent service leaves exactly the service's active versions; a Refresh arriving while a poll is in flight issues no "
                "request and gets that poll's result; interval+rand(2*interval/10)-interval/10 is within +/-10% for every interval and draw, and the cadence monitor accepts only a constant such period. "
                "Tied to the code by timelines of the real Store inside a synctest bubble: scripted service (new versions, activation forwards/backwards, deletion, re-creation, answers with and "
                "without not-changed), failures (not-found, access-denied, other) at every request position for 1-6 secrets and at random positions for 1-8, service changes / handle creation / "
                "reads / lookups / explicit Refresh / ticker ticks / the end of the leader's or a joiner's context WHILE a poll is in flight (systematically: leader cancelled at every request position x 0-2 joiners), start-up caches with undeclared names, expiry ages crossed by virtual sleeps; per event the kernel "
                "compares: the version each request carries and its answer, the request set of each poll, every caller's result class (nil / own context error / poll error; leader and coalesced callers), every Cache.Write document, every "
                "handle value, the final flush at Close; plus tick times of the default ticker under virtual time over 48 store instances (12 intervals from 10ns to 1 year)."),
    level_note="Trusted: Coq kernel+VM, testing/synctest scheduler, the scripted StoreClient and its recording; the differential tie is sampled; results of ticker-driven polls are not observable (only their requests, cache writes and later state); Cache.Write never fails in these runs.",
    rule=("36 systematic cases (k=1..6 secrets x failing request position x 2 error kinds, all secrets changed, then a clean poll) + 126 systematic cancellation cases (k=1..5 x position x 0-2 joiners x leader while held / joiner / both / leader right after the answer) + 300 random timelines (8-24 driver actions; a poll has per-position hooks: "
          "45% of positions carry 0-3 interleaved actions, 14% a failure, 8% a value answer for an unchanged version) + 48 cadence runs; a timeline is non-trivial if it has a successful poll, a poll "
          "that installed something and (a failed poll or a change during a poll or a coalesced Refresh); distinct by input text"),
    explain="requests (version carried / set per poll), Refresh results, Cache.Write documents or handle values of the real Store differ from the poll model on this timeline, or the default ticker's tick times are not one admissible constant period",
    assumptions=["the scripted StoreClient honours context cancellation", "Cache.Write never fails in these runs", "intervals below 2^62 ns (no overflow in 2*interval)"],
)
