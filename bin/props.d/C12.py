PROP_ID = "C12"
PROP = dict(
    imports=["Client.Store", "Client.Readers", "Corr.Run_C12"],
    case_type="Run_C12.case", check="Run_C12.check", shrink_field="ops", shrink=False, race=True, max_reports=2,
    harness_timeout={"quick": 170, "thorough": 10000},
    technique=("Rocq proof over the shared store model (interleaving semantics whose atomic steps are store.go's locked steps, requests split into begin/end; invariants over all event sequences; "
               "a decidable monitor proved sound) + REAL goroutines under the race detector, each scenario in its own process; the kernel evaluates the monitor on the recorded install order and read logs"),
    level_text=("Machine-checked theorems about Client/Readers.v (on Client/Store.v + StoreInv.v), for ALL event sequences from any state satisfying the invariant: a handle never dangles (through "
                "polls, expiry marks, successful and failed lookups, Close); the read step of every handle ever handed out is enabled in every later state, whatever requests are in flight, and is ONE "
                "locked step (never panics, never waits for the service); every read returns the latest value installed for THAT name (start-up value, lookup install or poll apply), hence a value "
                "really served for that name, never missing an install completed before the read, and per reader and name the values follow the install order; the monitor reads_ok is sound for "
                "these three clauses. Tied to the code by scenarios with 2-5 reader goroutines spinning on handles of declared, looked-up and start-up-cache names while the driver changes the service, "
                "refreshes (two concurrent refreshers + a controlled ticker), looks up new names, HOLDS the service with a poll and a lookup in flight (readers must keep completing reads), runs failing "
                "polls, runs an expiry sweep with a handle taken between snapshot and apply, uses unclean secret names (svc//key, a/../b, ./x, team/token/) next to their cleaned twins with different values, looks up new names with an ALREADY-ENDED context (error, nothing installed, later live lookup works), creates Updaters (watchers) on declared and looked-up names that are never or only rarely drained while their secrets get new versions in consecutive polls (the takes observed in quiescent windows are judged by Store.v's notify/ready_take in the kernel; every Refresh/NewUpdater/Close of the driver is bounded and a hang is a direct verdict), re-activates OLDER versions (a value may be installed several times), makes the cache's Write FAIL during polls, during lookups and at the poller's final flush, and closes the store (reads go on, also after a failed final flush); values are 200-1500 byte strings encoding (name, version) with a checksum "
                "and are verified whole by the reader; install order = the service's serve order; each read is logged with the number of installs known complete before it began; the kernel evaluates "
                "the monitor. PARTIAL: data-race freedom and absence of torn values are runtime facts - tested with -race (GORACE halt_on_error; a report is a direct violation) and whole-value "
                "verification, not proved."),
    level_note="partial: torn values / data races are tested (race detector, checksummed values, GOMAXPROCS 2-16), not proved; the model assumes mutex-atomic steps. Trusted: Coq kernel+VM, Go race detector, the scripted service's serve log; 'completed before the read' is established by an atomic counter published after Refresh returns (conservative floor).",
    rule=("16 scenarios (thorough: 400), each a fresh process: 1-4 declared, 1-3 lookup and 0-2 cache-only names, 2-5 readers, 15-25 driver phases (change+refresh, racing burst, hold, failing, expiry, lookup), "
          "GOMAXPROCS cycling 2/4/8/16; non-trivial if reads were demanded during a hold with requests in flight, more than 5 installs and more than 10 logged reads; read logs are run-length compressed "
          "(an entry is logged when the value-id changes, or the floor changed and 3 ms passed) - every read is verified at run time"),
    explain="a reader saw a value not served for that name, went back to an older install, or missed an install completed before the read began (monitor, in the kernel); or a runtime fact: data race, panic in a handle, read blocked while requests were held, torn/foreign value",
    assumptions=["the scripted service re-activates older versions (a value may occur several times in the install list; the monitor assigns occurrences greedily)", "polls fail only in phases without pending changes"],
)
