PROP_ID = "C13"

PROP = dict(
    imports=["Client.Store", "Client.CacheDoc", "Client.CacheHist", "Client.CacheFile", "Corr.Run_C13"],
    case_type="Run_C13.case",
    check="Run_C13.check",
    shrink_field="ops",
    shrink_budget_s=45,                      # total wall-clock budget for shrinking all reported disagreements of a run
    harness_timeout=dict(quick=900, thorough=10000),
    technique=("Rocq proof (cache document model at JSON-tree level: encoder, the typed decoder of encoding/json for map[string]*cachedSecret, the file client's decoder; "
               "the store as an event machine over the shared store model with every Cache.Write as an effect; round trip, flush points, all-histories invariant, restart, "
               "file-client agreement, whole-document discard) + differential run: store histories with a restart (dead service) and a FileClient from the cache content after "
               "every cache change, mutated documents and damaged bytes fed as cache, failing Cache.Read/Write, FileCache.Write under strace with kill/error injection"),
    level_text=("Machine-checked theorems about the models of client/setec/store.go (cache loading, validity test, flush call sites), fileclient.go and the JSON shape of "
                "cachedSecret/api.SecretValue: (1) the document written for a state decodes - by the model of the typed decoder NewStore uses - to exactly that state's names, "
                "versions, bytes and access stamps (empty values, arbitrary bytes, negative stamps included) and is a valid cache; (2) every event either writes nothing and changes "
                "nothing but access stamps, or writes the document of the WHOLE resulting state: this happens after a construction that fetched anything, after a successful lookup, "
                "after a poll that applied anything (only then) and at the poller's shutdown; (3) over ALL histories of lookups, reads, polls and Close with working cache writes, the "
                "cache content is the document of a good state differing from the current one in access stamps only; (4) a store constructed from that content with every declared "
                "name in it makes no request, writes nothing and serves exactly the current versions and bytes, whatever the service would answer; (5) NewFileClient accepts a "
                "store-written document and knows exactly the entries with version > 0 and non-empty bytes, with the store's version and bytes; (6) content that is absent, does not "
                "parse, does not decode or decodes to an invalid set is not used at all: construction equals construction without a cache. Tied to the code by: random store histories "
                "(initial caches, lookups, reads, polls with server changes/failures/expiry, Close, failing Cache.Write/Read) where every Cache.Write payload is compared as a JSON tree "
                "with the model's document and, after every cache change, a second real store (dead service) and a real FileClient are started from the content and compared with the "
                "model and with what the first store serves; ~900 structurally mutated documents (nulls anywhere, missing/extra/case-variant/duplicate keys, wrong types, numeric or "
                "malformed lastAccess, out-of-range/fractional versions, bad base64, byte arrays, empty key, top-level null/array/scalar) and ~400 damaged byte strings (every truncation, "
                "flips, BOM, trailing garbage, random bytes) fed as cache: no panic, NewStore succeeds, requests made / versions held / values served / final document compared with "
                "decode_cache + the construction model; FileCache.Write under strace: the trace shape (temporary created O_EXCL 0600 in the same directory, written, synced, closed, "
                "renamed; live path never opened for writing) is judged by a Gallina monitor, and a kill or EIO injected at every system call of the write leaves the old or the new "
                "document and no panic."),
    level_note=("Partial in two respects. (a) OS-level atomicity of rename(2) and durability after fsync are not modelled: the file part is a trace-shape monitor evaluated on strace "
                "output plus kill/error injection outcomes (tested, not proved; the file-system semantics is C04's). (b) Which byte strings encoding/json accepts is not modelled: the "
                "document model works on parsed trees; the harness classifies bytes with json.Valid and parses with encoding/json's own tokenizer. Trusted: Coq kernel+VM; base64 enters "
                "the theorems only through dec(enc b) = Some b and the run through the observed graph of base64.StdEncoding; names are valid UTF-8 without the empty name (a conforming "
                "service never serves it); stamps fit int64 and versions uint32; keys are folded in ASCII only; the tie is differential (sampled histories and documents)."),
    rule=("400 store histories (1-3 declared names of 5, 0-12 calls: lookup/read/poll/Close interleaved with server changes and clock ticks; 60% start from a cache: valid incl. "
          "undeclared/stale/version-0/empty-value entries, unreadable, invalid, truncated; 8% of writing calls have a failing Cache.Write) with restart + FileClient after every cache "
          "change and at the end; 900 mutated documents and ~400 damaged byte strings each run through NewStore + poll + Close + reads; 6 restart-from-FileCache scenarios with cache documents of 0.96-8.4 MB (direct verdict by length and SHA-256); 48 three-lifetime scenarios (good run -> start with additional declared names that fails when the caller's context ends -> start from whatever the cache holds, service dead); 80 histories over caches that RETAIN the slice given to Write (own retaining cache / the real MemCache, a third of the writes failing), every retained payload re-read at the end; 60 histories in which a cache write takes 1-120 virtual seconds (testing/synctest) before further flushes; 150 hand-written FileClient files (Value/TextValue forms, outer white space); secret values with leading/trailing white-space bytes of every kind; 64 blocks of 2-3 CONCURRENT calls (lookups / Refresh / Close) with the first cache write held on a gate; 42 documents with valid entries followed by one the decoder rejects; 1 strace trace + 14 injections (7 system calls x "
          "kill/EIO); a history is non-trivial if it has >= 2 cache writes and >= 2 restarts, a document case if the bytes parse as JSON, an injection if it hit; distinct by input"),
    explain=("a Cache.Write payload, the requests/values/versions of a store started from a given cache content, a restart with a dead service, a FileClient answer or the system-call "
             "shape of FileCache.Write differs from the model that provably satisfies C13"),
    assumptions=["base64: only dec(enc b) = Some b is assumed in the theorems; the run uses the observed graph of encoding/base64.StdEncoding",
                 "cache documents are compared as parsed JSON trees (objects unordered, \"Value\": null = empty value); JSON text syntax is encoding/json's own",
                 "the service never serves the empty name; stamps fit int64, versions uint32",
                 "rename(2) atomicity and fsync durability are POSIX assumptions (tested by injection, not modelled)"],
)
