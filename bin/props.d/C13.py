PROP_ID = "C13"
PROP = dict(
    imports=["Client.Store", "Client.CacheDoc", "Client.CacheHist", "Client.CacheFile", "Corr.Run_C13"],
    case_type="Run_C13.case",
    check="Run_C13.check",
    shrink_field="ops",
    technique="placeholder",
    level_text="placeholder",
    level_note="placeholder",
    rule="placeholder",
    explain="placeholder",
    assumptions=[],
)
