PROP_ID = "C14"
PROP = dict(
    imports=["Acl.Glob", "Server.KV", "Server.DB", "Server.Lin", "Server.LinDB", "Corr.Run_DB", "Corr.Run_C14"],
    case_type="Run_C14.case", check="Run_C14.check", shrink=False, race=True,
    harness_timeout={"quick": 900, "thorough": 9000},
    technique=("Rocq proof (a linearizability checker proved sound AND complete for every sequential specification; every execution of the atomic-step machine "
               "- the one-mutex design - proved linearizable with the final state of that order) + concurrent programs on real goroutines against the real db.DB and "
               "the real HTTP handlers under the race detector, each recorded history decided by the verified checker inside the kernel"),
    level_text=("Machine-checked theorems: (1) for every sequential specification, acceptance relation and final-state predicate the checker lin_check answers true "
                "exactly on the histories that have a total order which is a permutation of the calls, respects real time (a call that returned before another was invoked "
                "comes first), gives every call a response of the specification in the state left by the calls before it, and ends in an accepted final state; "
                "(2) every execution of the atomic-step machine (any number of clients, any interleaving of invocations, single atomic steps on the shared state, and "
                "responses) is linearizable in the order of the steps and its final shared state is the specification's after that order. Tied to the code by generated "
                "concurrent programs (2-4 clients x 2-4 calls on one or two shared names, all nine call kinds, two callers with different rights, a sequential prefix and a "
                "final sequential dump) run on real goroutines against a real db.DB and through the handlers registered by server.New, stamped with one atomic counter; the "
                "kernel decides every recorded history against the sequential database model (Server/DB.v), including the final state served, the file and the write generation. Histories contain calls whose save is REFUSED (state directory unreachable; each mutating kind) at the "
                "quiescent points, specified as 'no change to store or generation' (C14_refused_save_changes_nothing), followed by concurrent reads of every kind."),
    level_note=("PARTIAL: the theorems are about the model and the checker; that the Go code has the one-mutex design and is free of data races is TESTED "
                "(sampled schedules of the Go scheduler under -race, GOMAXPROCS 1-16, injected pauses), not proved. Trusted: Coq kernel+VM, the race detector, "
                "sequentially consistent atomics for the stamp counter."),
    rule=("640 generated programs (thorough 5000): 2/3 direct db.DB, 1/3 through the HTTP mux; shapes random / all-puts / activate-vs-readers / delete-vs-put / "
          "delete-version-vs-info / rotate / poll-activate / refused-saves (refused mutations of every kind before each segment, then reads of every kind with every version; also mixed into a third of the other programs); one case = one recorded history (<= 15 calls, <= 11 concurrent) with the final dump; non-trivial if a successful mutation overlaps in "
          "real time with a call of another client; distinct by stamped history"),
    explain=("no order of the recorded calls that respects real time explains every response and the final state by the sequential model (or: the race detector / "
             "runtime reported a data race, a fatal concurrent map access or a deadlock while the program ran)"),
    assumptions=["the Go scheduler produced the interleavings; the schedule is not an input (a replay re-decides the recorded history and re-runs the program 60 times)",
                 "values are tokens", "Go's atomic counter is sequentially consistent"],
)
