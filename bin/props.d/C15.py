PROP_ID = "C15"
PROP = dict(
    imports=["Client.Store", "Client.Updater", "Corr.Run_C15"],
    case_type="Run_C15.case",
    check="Run_C15.check",
    race=True,
    shrink_field="ops",
    max_reports=2,
    technique="Rocq proof (invariants over all event sequences of an updater/watcher model built on the shared store model) + traces of the real Store/Updater under testing/synctest and -race replayed on the model in the kernel",
    level_text=("Machine-checked theorems over ALL event sequences (installs by polls, lookups, the locked part of a lookup flight finishing at ANY later point in any state, registrations, first reads, builder returns, Get begin/end, Err; any number of updaters on any "
                "secrets) of an updater/watcher model that runs on the shared executable model of store.go: the notification slot of a resting updater is full exactly when a version was installed since "
                "its last Get or its registration, and if empty the value was built from the newest installed bytes (or the last build, which failed, was given them); after any number >= 1 of installs the "
                "next Get calls the builder once with the newest bytes and returns the new value (old value + Err on failure; Err cleared by the next success); without an install since the previous Get or "
                "creation the builder is not called; every replaced Closer value is closed exactly once, the current one never, others never; a watcher registered at any point reads bytes at least as new "
                "as those current at registration and misses no later install; a lookup flight that finishes on a name which already has a value changes neither the value nor any watcher flag (F8, repaired). Tied to the code by traces of the real Store/Updater under testing/synctest with -race (scripted service, Refresh-driven "
                "installs, gated polls, installs during builder calls, concurrent Gets, callers held in the window between a lookup's unknown-name check and its flight by a context whose Deadline() blocks), replayed on the model in the kernel."),
    level_note=("Trusted: Coq kernel+VM; differential tie (sampled traces). PARTIAL: atomicity of Updater.Get (u.mu) and of the store's locked sections is an assumption of the model; data-race freedom is only "
                "tested (-race, concurrent Get callers). The window between LookupSecret's unknown-name check and the start of its flight is INSIDE the model since the F8 repair (event ELate) and exercised by the harness."),
    rule=("400 generated scenarios (6000 thorough) of 10-60 operations on the real Store: 1-3 updaters at start (several on one secret), rounds of 0-3 installs (service put + Refresh, 30% of them "
          "gated mid-flight with NewUpdater/Get/Err inside the gate, 10% failing) followed by 1-4 Gets (20% from 2-4 goroutines, 20% with an install performed during the builder call), builder failures "
          "17-20%, undeclared and non-existent names, both AllowLookup settings; plus 60 (1500) late-flight scenarios (1-2 callers of LookupSecret/NewUpdater held between check and flight, overtaken by NewUpdater/LookupSecret or not, "
          "service version changed/deleted meanwhile, released in either order, then reads, Refresh, Gets) and the F8 witnesses from corpus/C15; one case = one scenario; non-trivial if a value was rebuilt and at least two polls installed something, or a released flight found its name already valued; distinct by trace + 100 rollback/cache-fault scenarios (2500 thorough): 1-3 updaters, a history of 2-4 versions, then 2-5 steps of {the service activates an OLDER or a later existing version again (1-3 activations in a row, same bytes as that version always had) or a new one; in 50% the cache refuses the next 1-3 writes; a plain or gated poll (service moving again / Get / NewUpdater inside the gate); in 50% a further poll answered not-changed; Gets}; the main scenarios also get rollbacks (25% of install steps) and cache faults (12%) from a second random stream; 5 corpus witnesses of the two classes + round 4: 40 scenarios (1000 thorough) with Updaters registered through the lookup of an unknown name (by this NewUpdater, after an earlier lookup, while overtaken by another lookup, next to a declared name) followed by 1-3 rounds of new version / poll / Get"),
    explain="what Refresh returned (error class, cache writes), what Updater.Get returned, a builder call, a Close call, the outcome of NewUpdater/LookupSecret, the bytes the store serves or the version a poll asks about differs from the updater model (which provably never loses an update, rebuilds only after an install, keeps the old value on failure and closes each replaced value exactly once)",
    assumptions=["Updater.Get holds u.mu for the whole call (Gets of one updater serialise); data-race freedom is tested with -race, not proved"],
)
