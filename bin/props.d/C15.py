PROP_ID = "C15"
PROP = dict(
    imports=["Client.Store", "Client.Updater", "Corr.Run_C15"],
    case_type="Run_C15.case",
    check="Run_C15.check",
    race=True,
    shrink_field="ops",
    max_reports=2,
    technique="Rocq proof (invariants over all event sequences of an updater/watcher model built on the shared store model) + traces of the real Store/Updater under testing/synctest and -race replayed on the model in the kernel",
    level_text=("Machine-checked theorems over ALL event sequences (installs by polls, lookups, registrations, first reads, builder returns, Get begin/end, Err; any number of updaters on any "
                "secrets) of an updater/watcher model that runs on the shared executable model of store.go: the notification slot of a resting updater is full exactly when a version was installed since "
                "its last Get or its registration, and if empty the value was built from the newest installed bytes (or the last build, which failed, was given them); after any number >= 1 of installs the "
                "next Get calls the builder once with the newest bytes and returns the new value (old value + Err on failure; Err cleared by the next success); without an install since the previous Get or "
                "creation the builder is not called; every replaced Closer value is closed exactly once, the current one never, others never; a watcher registered at any point reads bytes at least as new "
                "as those current at registration and misses no later install. Tied to the code by traces of the real Store/Updater under testing/synctest with -race (scripted service, Refresh-driven "
                "installs, gated polls, installs during builder calls, concurrent Gets), replayed on the model in the kernel."),
    level_note=("Trusted: Coq kernel+VM; differential tie (sampled traces). PARTIAL: atomicity of Updater.Get (u.mu) and of the store's locked sections is an assumption of the model; data-race freedom is only "
                "tested (-race, concurrent Get callers). The window between LookupSecret's unknown-name check and the start of its flight is outside the model (see docs/C15.md, finding candidate: a late "
                "second flight overwrites a watched secret without notifying)."),
    rule=("400 generated scenarios (6000 thorough) of 10-60 operations on the real Store: 1-3 updaters at start (several on one secret), rounds of 0-3 installs (service put + Refresh, 30% of them "
          "gated mid-flight with NewUpdater/Get/Err inside the gate, 10% failing) followed by 1-4 Gets (20% from 2-4 goroutines, 20% with an install performed during the builder call), builder failures "
          "17-20%, undeclared and non-existent names, both AllowLookup settings; one case = one scenario; non-trivial if a value was rebuilt and at least two polls installed something; distinct by trace"),
    explain="what Updater.Get returned, a builder call, a Close call or the outcome of NewUpdater differs from the updater model (which provably never loses an update, rebuilds only after an install, keeps the old value on failure and closes each replaced value exactly once)",
    assumptions=["Updater.Get holds u.mu for the whole call (Gets of one updater serialise); data-race freedom is tested with -race, not proved",
                 "LookupSecret's unknown-name check and the start of the flight are one atomic step"],
)
