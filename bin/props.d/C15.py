PROP_ID = "C15"
PROP = dict(
    imports=["Client.Store", "Client.Updater", "Corr.Run_C15"],
    case_type="Run_C15.case",
    check="Run_C15.check",
    race=True,
    shrink_field="ops",
    max_reports=2,
    technique="Rocq proof (invariants over all event sequences of an updater/watcher model built on the shared store model) + traces of the real Store/Updater under testing/synctest and -race replayed on the model in the kernel",
    level_text="TODO",
    level_note="TODO",
    rule="TODO",
    explain="what Updater.Get returned, a builder call, a Close call or the outcome of NewUpdater differs from the updater model (which provably never loses an update, rebuilds only after an install, keeps the old value on failure and closes each replaced value exactly once)",
    assumptions=["Updater.Get holds u.mu for the whole call (Gets of one updater serialise); data-race freedom is tested with -race, not proved",
                 "LookupSecret's unknown-name check and the start of the flight are one atomic step"],
)
