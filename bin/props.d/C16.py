PROP_ID = "C16"
PROP = dict(
    imports=["Client.Store", "Client.Lookup", "Corr.Run_C16"],
    case_type="Run_C16.case",
    check="Run_C16.check",
    race=True,
    shrink=False,
    max_reports=3,
    technique="Rocq proof (policy function on the shared store model; timed event model of one name's single-flight table: invariants over all runs) + synctest scenarios of the real Store with concurrent callers, deadlines, cancellations and a scripted service, compared with the model in the kernel",
    level_text="TODO",
    level_note="TODO",
    rule="TODO",
    explain="an entry point's answer to a known/unknown name, a caller's result or virtual return time, the service's request log, or the state of the store/cache after the lookups differs from the lookup model (which provably is gated, single-flight, bounded by each caller's own limit and never fails a caller with someone else's context error)",
    assumptions=["the scripted StoreClient honours context cancellation", "instants of one name's events are pairwise distinct (ties are decided by the Go scheduler)",
                 "LookupSecret's unknown-name check and the start of the flight are one atomic step"],
)
