PROP_ID = "C16"
PROP = dict(
    imports=["Client.Store", "Client.Lookup", "Corr.Run_C16"],
    case_type="Run_C16.case",
    check="Run_C16.check",
    race=True,
    shrink=False,
    max_reports=3,
    technique="Rocq proof (policy function on the shared store model; timed event model of one name's single-flight table: invariants over all runs) + synctest scenarios of the real Store with concurrent callers, deadlines, cancellations and a scripted service, compared with the model in the kernel",
    level_text=("Machine-checked theorems: (1) policy over any state of the shared store model - with lookups disabled an unknown name makes Secret panic and LookupSecret/NewUpdater/Apply report an error, and "
                "no entry point sends a request; a request is sent exactly for an unknown name with lookups enabled through the three fetching entry points; a looked-up secret is installed like any other "
                "(known, handle, requested by every later poll, cache document written at once). (2) a timed model of one name's single-flight table, for any callers/arrival instants/deadlines/"
                "cancellations, any service script (answer, fail, hang forever) and any scheduler choice: at most one request in flight; on success all joined callers get the handle; a failure installs "
                "nothing and starts no request; requests start only at a caller's own arrival or when a live waiter takes over from an owner whose context ended; every caller returns no later than its "
                "own context ends - within 5 minutes of its call if it had no deadline - and a context error is only ever its own, at its own instant. Tied to the code by synctest scenarios on the real "
                "Store (1-5 concurrent callers per name through LookupSecret/NewUpdater/Apply, 1-2 names) compared in the kernel: result class, virtual return instant, value read through the handle, "
                "request log with instants and initiators, maximum concurrency, Secret/poll/cache afterwards."),
    level_note=("Trusted: Coq kernel+VM; differential tie (sampled scenarios; event instants pairwise distinct per name). The behaviour of golang.org/x/sync/singleflight is modelled (one call per key, "
                "joiners receive the same result, key freed before results are delivered), not verified; who starts a retry flight is taken from the observed log as scheduler input and validated. "
                "Whether an undeclared secret is stored with Declared=false is not observable through the API (a looked-up secret always has a handle and therefore never expires) and is not compared."),
    rule=("24 policy cases (both settings x 4 entry points x known / unknown-at-service / unknown-everywhere) + 350 generated flight scenarios (6000 thorough): 1-5 callers per name arriving within "
          "1 s / 60 s / 400 s, 40% own deadline, 33% cancellation, entry point LookupSecret/NewUpdater/Apply at random, 1-6 service scripts (40% answer, 20% fail, 40% hang; delays 5 ms - 450 s), 25% of the "
          "scenarios with two names in parallel; one case = one name of one scenario; non-trivial if >= 2 callers with >= 2 different result classes; distinct by full case text + the 24 policy cases once more with a cache that refuses every write; in the flight scenarios a second random stream makes the scripted cache refuse the first 1-2 writes whose document contains the name (40% of the names); 80 more scenarios (1500 thorough) in which the service answers the first request while the cache refuses the lookup's flush in 75%; 6 corpus witnesses; also non-trivial: the cache refused a lookup's flush + through the REAL network client (setec.Client over a scripted HTTP transport; answers 200+JSON / 200 undecodable / 304 / 403 / 404 / 500 / hang, after 5 ms .. 4 min incl. 29.995 s, 31 s, 45 s, 60 s): the 24 policy cases, 120 flight scenarios (2500 thorough; 30% a single caller without deadline and a service that is merely slow), 28 Refresh-driven polls of two declared names (slow answers, new values, error statuses), 4 corpus witnesses + round 4: 120 scenarios (2500 thorough) with two or three Stores in one process looking up the same name in overlapping windows, each store with its own service/bytes/client/cache and judged by its own model instance; every scenario is followed by a new version at the service, a poll and a re-read through every handle / Updater handed out (watchers registered through the lookup included)"),
    explain="(incl. with a cache that refuses writes) an entry point's answer to a known/unknown name, a caller's result or virtual return time, the service's request log, or the state of the store/cache after the lookups differs from the lookup model (which provably is gated, single-flight, bounded by each caller's own limit and never fails a caller with someone else's context error)",
    assumptions=["the scripted StoreClient / HTTP transport honours context cancellation", "instants of one name's events are pairwise distinct (ties are decided by the Go scheduler)",
                 "in the TIMED flight model LookupSecret's unknown-name check and the DoChan call are one step (the step theorems about the flight's locked part, Store.lookup_finish, hold for any store state incl. a name that became known meanwhile; the window itself is opened in C15's model and harness)"],
)
