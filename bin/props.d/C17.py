PROP_ID = "C17"
PROP = dict(
    imports=["Server.Backup", "Corr.Run_C17"],
    case_type="Run_C17.case", check="Run_C17.check", shrink=True, shrink_field="ops",
    harness_timeout={"quick": 900, "thorough": 9000},
    technique=("Rocq proof (model of the periodicBackup loop over arbitrary timelines: change-driven, >= 60 s apart, retry, catch-up and quiet, bounded wake-ups, "
               "return at cancellation, body = file of the generation read) + the real loop (verif hook) in a testing/synctest bubble against an in-memory object "
               "store behind the real S3 client, upload log and exit instant compared with the model in the kernel"),
    level_text=("Machine-checked theorems about the model of server/backup.go for EVERY timeline (instants of successful writes, of write attempts whose save FAILS and of "
                "reads; per-upload store behaviour: duration, failure, database writes racing the upload; cancellation instant): the task returns exactly at the cancellation and never later than the current wait; the first "
                "upload is at start-up; an iteration uploads iff the generation read differs from the one covered by the last acknowledged upload, and uploads the file "
                "of exactly that generation; iterations (hence uploads) start a full minute after the previous one ended; an unacknowledged upload (failure, 5-minute "
                "limit, abort) is retried by the next iteration; after an acknowledged upload with no further write the newest backup is the current file and no upload "
                "follows; in any window of length W the loop body runs at most W/60s+1 times; client events that do not replace the database file (failed saves, reads) leave the whole run "
                "unchanged, and the number of uploads is at most 1 + successful writes + unacknowledged uploads. Tied to the code by running the real loop (server.VerifRunPeriodicBackup, "
                "real s3.Client with an in-memory HTTPClient, real db.DB) under virtual time on generated timelines (bursts, idle hours, failures at every position, slow "
                "uploads around the 60 s and 5 min marks, writes made from inside the store's handler, cancellation at arbitrary instants incl. mid-upload): upload "
                "instants, which file version each body is byte-identical to (every version is hashed after each write; the body must also open with the key), "
                "acknowledgements and the exit instant are compared with the model by the kernel, together with clause monitors on the observed log - among them: two consecutive "
                "acknowledged uploads never carry identical bytes, and the write generation at the end is exactly 1 + the number of successful writes (timelines contain every "
                "mutating call kind - put incl. de-duplicated, activate incl. no-op, delete-version, delete incl. absent - whether one is a write is decided by the store model "
                "run over the calls (= C02's needs_save and a successful save, proved); calls made while the state directory is unreachable; list/get/info calls), and at the end of "
                "every timeline the newest acknowledged upload is byte-identical to the live file whenever the model has caught up. Restarts (an earlier lifetime wrote the file; db.Open of the existing file; no or later calls) and the task as wired by the real "
                "server.New (Config.BackupBucket/Region, Config.DB or DBPath+Key+AuditLog, the context New hands to the task; object store on a loopback socket; real time) are part of every run; "
                "C17_first_round_uploads: 'nothing uploaded yet' differs from every generation a just-opened database reports. Failing READS of the database file at backup instants "
                "(file moved aside / a directory in its place, virtual time and once in real time): C17_read_failure - nothing is sent, the generation is not recorded, retried one period later; "
                "a zero-length object is a direct violation."),
    level_note=("Trusted: Coq kernel+VM, testing/synctest's virtual clock, the AWS SDK request path; a read of the live file returning one complete version rests on C04 "
                "(atomic replacement) and is tested here by hashing; CPU spinning is detected by a real-time watchdog (virtual time cannot advance), the number of "
                "WriteGen calls itself is not observable without a further hook; no two timeline events fall on the same virtual instant (generator)."),
    trusted_extra=["loopback TCP inside the harness process and the AWS SDK's environment configuration (AWS_ENDPOINT_URL) for the scenarios through server.New; real-time instants snapped to the minute grid (lag <= 3.5 s) by the harness"],
    rule=("260 generated timelines (thorough 6000) of kinds bursts / idle-hours / failures / racing / slow-uploads / cancel-early / mixed / failed-writes / read-faults (the file unreadable for 2 ms around whole minutes, also mixed into a fifth of the others) (every kind mixes in ~12 % failing write attempts and ~12 % reads; "
          "failed-writes: 45 % / 30 %); one case = one run of the task "
          "from start to cancellation (a quarter of them restarts: the file exists when db.Open runs, 40 % of those with no call in this lifetime); plus 9 real-time scenarios in which the task is started by the real server.New with a bucket configured; non-trivial if it has >= 3 uploads and >= 2 mutating calls, or >= 2 failing calls; distinct by timeline"),
    explain=("the uploads the object store received (instants, file versions, acknowledgements) or the instant the task returned differ from the model of the backup loop "
             "(or: the task did not return after cancellation / spun without sleeping)"),
    assumptions=["virtual time: reading the generation, reading the file and issuing the request take no time", "the object store honours the request context",
                 "timeline events have pairwise different instants"],
)
