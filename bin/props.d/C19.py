PROP_ID = "C19"
PROP = dict(
    imports=["Client.Store", "Client.Expiry", "Corr.Run_C10", "Corr.Run_C19"],
    case_type="Run_C19.case",
    check="Run_C19.check",
    shrink_field="ops",
    technique=("Rocq proof (event histories over the shared store model: handles, reads, lookups, watchers, polls split into snapshot and "
               "apply, flushes, restarts from the last cache document; invariant + only-if/if characterisation of every drop, for all histories) + "
               "differential histories on the real setec.Store under testing/synctest virtual time, compared step by step in the kernel"),
    level_text=("Machine-checked theorems over ALL event histories of the store model from any state satisfying the invariant (which every "
                "construction establishes): a known name becomes unknown only at the apply of a successful poll, and only if it was undeclared, an "
                "expiry age > 0 is set, elapsed(now at the poll's snapshot, last access) > age (Go's saturating Duration; stamp 0 = never), and no handle "
                "(hence no watcher) exists - and such a name IS dropped by a successful poll and is not requested in it; declared names, names with a "
                "handle, every name under age <= 0 and names within the window are never dropped; a restart loses nothing; each read sets the stamp to "
                "now; every cache document equals the current contents (names, versions, bytes, stamps; no declared bit); after a restart declared-ness "
                "comes from the new configuration, stamps (0 included) from the document, handles start empty. Tied to store.go by histories on the real "
                "Store in a synctest bubble (crafted stamps, ages 0/1s/30s/large/negative, polls held mid-flight while handles are taken, clean and abrupt "
                "restarts): request logs, every document written and every call result are compared with the model in the kernel after each step."),
    level_note=("Trusted: Coq kernel+VM; differential tie on sampled histories; the service never serves the empty name; cache writes succeed "
                "(write failures are C13's); |LastAccess| far from the int64 range; the narrow race of two concurrent lookups of one name is modelled "
                "(as a re-install) but not exercised."),
    rule=("random histories of 6-24 steps (construction from a crafted cache document, Secret, handle reads, LookupSecret, NewUpdater, ParseFields+Fields.Apply on the live store, Refresh "
          "- a third of them held in mid-flight with 1-3 calls in between -, clock advances incl. exactly age, clean/abrupt restarts with new declared "
          "sets and ages); one case = one history; non-trivial if some name was dropped; distinct by input"),
    explain=("the real Store's observable behaviour (poll request set, a document handed to the cache, a call result) differs at some step from the "
             "store model that provably drops exactly the stale, unreferenced, undeclared secrets"),
    assumptions=["testing/synctest virtual time is faithful to real timers", "Cache.Write succeeds"],
)
