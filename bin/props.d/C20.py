PROP_ID = "C20"

PROP = dict(
    imports=["Client.Store", "Client.Fields", "Corr.Run_C20"],
    case_type="Run_C20.case",
    check="Run_C20.check",
    shrink_field="fields",
    technique=("Rocq proof (model of fields.go on top of the shared store model: VisibleFields for embedded-by-value structs, parseFields, "
               "path.Join/Clean on byte strings, Apply with buffer identities; all shapes, prefixes, values, store states) + differential run of "
               "reflect.StructOf-generated structs through setec.NewStore(Structs) and ParseFields+Apply against the model in the kernel"),
    level_text=("Machine-checked theorems about the model of client/setec/fields.go, for every struct shape (fields of every kind, tagged or not, structs embedded by "
                "value with shadowed/ambiguous promoted fields), prefix, store state satisfying the store invariant, service and decoder behaviour: the requested names "
                "are exactly path.Join(prefix, tag name) of the tagged visible fields for ALL prefixes and names (path.Clean/Join modelled by a byte-level transcription of path.go proved equal to a segment form; result idempotent, no empty or '.' element, '..' only at the front of a relative result; prefix/name on clean inputs), the i-th name Secrets() returns is the name Apply looks up for the i-th field, nothing else is "
                "requested and every unknown one is; each field receives the current value of exactly its own name (fresh buffer for []byte, text, handle of this store "
                "bound to that name, UnmarshalBinary called with exactly the bytes, json.Unmarshal of the bytes); untagged and invisible fields are untouched; a []byte "
                "field never holds a store buffer, so overwriting it cannot change what any store state serves; non-pointer/non-struct arguments (incl. the untyped nil and nil struct pointers of any shape), empty names, unsupported "
                "types without the json verb and structs without tagged fields - and only those - are rejected before any request; with several configured structs NewStore's composed Apply reports an error iff some struct's Apply does and stops at the first such struct, and every applied struct gets the results of its own (prefix, fields) whatever the other entries are (also other values of the same type); every field is processed whatever the "
                "others do, the reported errors are exactly the failing fields, and whether a field fails depends on that field alone. Tied to the code by run-time generated "
                "struct types driven through NewStore(Structs), ParseFields+Apply and ParseFields -> NewStore{Secrets: f.Secrets()} -> Apply with the returned slice scribbled on, several struct values in one process (two or three values, mostly of ONE struct type, through NewStore{Structs: [...]} with failure scripts at every position and through ParseFields in order + Apply in either order; every leaf of every value compared), and ONE parsed Fields applied twice (to a second store with other bytes, or to the same store across a Refresh; fields compared after each Apply) (with and without AllowLookup) against a scripted StoreClient; requested names, both results of Secrets(), "
                "error class, number of joined errors, every field's content, handle binding after a refresh and the store's bytes after overwriting each []byte field "
                "are compared with the model inside coqc."),
    level_note=("Trusted: Coq kernel+VM; the tie is differential (sampled shapes, 0-8 members, one level of embedding by value). Inputs of the model, not predictions: what "
                "encoding/json makes of (field type, bytes) and whether UnmarshalBinary accepts given bytes (both recorded by the harness from the Go library / the harness's "
                "own unmarshaler). The theorems assume the store invariant Inv (proved preserved by every locked step in StoreInv.v); that the store built by NewStore "
                "satisfies it is exercised by the run, not proved here. Not modelled: the allocation of a nil pointer-to-unmarshaler field at parse time, deeper embedding, "
                "embedded pointers (a tagged field promoted through a nil embedded pointer still panics in reflect: outside the domain, docs/C20.md), tagged embedded members. Nil arguments (untyped nil, nil struct pointer) are modelled and compared since the F9 repair."),
    rule=("random struct shapes built with reflect.StructOf (0-8 members, 12 field types incl. named BinaryUnmarshaler types by value/nil pointer/set pointer, 14% members are "
          "structs embedded by value with colliding promoted names; tags name / name,json / other verbs / empty names; 70% of shapes forced valid; argument: pointer 86%, struct by value 4%, non-struct 4%, untyped nil 2%, nil pointer to the struct 4%), clean prefixes (30% empty, "
          "else 1-3 segments) and names, random values incl. empty, non-UTF-8, valid and invalid JSON and values the unmarshaler refuses; 30% through NewStore(Structs), 20% re-apply (one Fields, two Applies), 20% declare-via-Secrets() "
          "(tag names deliberately unsorted, 40% with a name used twice, the returned slice sorted/reversed/overwritten/cleared/rotated before Apply), 30% "
          "ParseFields+Apply on a store with a random declared subset; a quarter of the cases with unclean prefixes/tag names (trailing and doubled slashes, '.', '..', rooted); plus 400 multi-value cases (65% values of one type; NewStore{Structs} with an earlier struct failing and the last clean in ~30% of them); plus 187 exhaustive path.Join rows (136672 pairs; 770k thorough), AllowLookup on/off, 12% of names missing at the service; plus path.Join pairs; one case = one run; "
          "non-trivial if the argument is a struct pointer with at least two tagged leaf fields and the run got as far as Apply; distinct by input"),
    explain=("with several structs: which value was populated, whether NewStore reported the failing struct's error; the names requested or returned by Secrets(), the error class/number of joined errors, a field's content, a handle's binding, an untagged field, or the store's bytes after a []byte field "
             "was overwritten differ from the model of fields.go that provably satisfies the property"),
    assumptions=["encoding/json's verdict on (field type, bytes) and the unmarshaler's verdict on bytes are inputs of the model (recorded per case)",
                 "tag names are non-empty (the code rejects empty ones); in generated struct cases they contain no comma, quote or control byte (struct-tag syntax); prefixes and names are otherwise arbitrary, clean or not (path.Join is compared exhaustively over a 5-letter alphabet up to total length 6/7 and on random longer strings)",
                 "the store invariant Inv holds for the store handed to Apply (preserved by all locked steps: StoreInv.v)"],
)
