"""Per-property configuration of bin/check."""

PROPS = {
    "C07": dict(
        imports=["Acl.Glob", "Corr.Run_C07"],
        case_type="Run_C07.case",
        check="Run_C07.check",
        shrink=False,
        technique="Rocq proof (glob model = declarative spec = independent matcher, alphabet-generic) + exhaustive/random differential run of acl.Match against the model in the kernel",
        level_text=("Machine-checked theorems: the code-shaped matcher (literal short-cut, else anchored regexp of quoted pieces joined by match-anything) "
                    "accepts exactly the whole-name glob language, for every alphabet, pattern and name; equals an independent matcher; rule sets allow iff one "
                    "rule has both action and matching pattern; empty denies; adding rules is monotone. The model is tied to acl.go by an exhaustive sweep over a "
                    "10-symbol alphabet (incl. * / . newline and regexp metacharacters) plus random Unicode pairs and rule sets, compared inside coqc."),
        level_note=("Trusted: Coq kernel+VM; Go regexp implements textbook semantics for the literal/.*/concat fragment; correspondence is differential "
                    "(exhaustive to length 3/4, sampled beyond); valid UTF-8 domain."),
        rule=("exhaustive sweep: every pattern up to length 3 (thorough: 4) over the alphabet "
              "{a b * / . \\n \\\\ ( [ +} against every name up to the same length (one case = one pattern row, "
              "non-trivial if it matches some but not all names); plus random valid-UTF-8 pattern/name pairs "
              "(non-trivial if the pattern has a star) and random rule sets (non-trivial if non-empty); "
              "distinct by pattern / pair / rule-set text"),
        explain=("acl.Secret.Match / Rules.Allow disagrees with the model matcher (proved equivalent to the "
                 "whole-name glob specification and to the independent DP matcher)"),
        assumptions=["Go's regexp implements the textbook set-of-strings semantics for literal/.*/concatenation expressions",
                     "byte-level and rune-level globbing coincide on valid UTF-8 (argued in DESIGN.md, exercised by the random Unicode pairs)"],
    ),
}

_DB_COMMON = dict(imports=["Acl.Glob", "Server.KV", "Server.DB", "Corr.Run_DB"], case_type="Run_DB.case", shrink_field="ops")

PROPS["C02"] = dict(_DB_COMMON,
    check="Run_DB.check_C02",
    technique="Rocq proof (invariant + refinement of the kv.go mutate/undo model to a plain-map specification, all histories) + differential histories on the real db.DB compared in the kernel after every step",
    level_text=("Machine-checked theorems over all operation histories of the model of db/kv.go: invariant, refinement to the plain-map specification, fresh/never-reused "
                "version numbers, exact dedupe rule, put-then-retrievable, active version exists and is undeletable, only activate moves it, bytes immutable, failed calls are "
                "no-ops, frame. The model is tied to the code by generated histories (dedupe, delete-newest-then-put, delete-then-recreate, activate back forced in) run "
                "on the real database as superuser, with result and full state compared with the model by the kernel after every step."),
    level_note="Trusted: Coq kernel+VM; differential tie (sampled histories up to 40 steps, 7 names, 13 values); versions < 2^32; values are tokens (the model never inspects a value).",
    rule=("random+forced operation histories of 4-40 calls on the real db.DB as superuser; one case = one history with result and full state after every step; "
          "non-trivial if it has at least two successful mutations and one failing call; distinct by operation sequence"),
    explain="a result or the state served by db.DB differs from the sequential specification model after the last step of this history",
    assumptions=["the value type is abstract: byte strings are mapped to tokens by exact comparison"],
)

# properties not (yet) claimed, with the reason
NOT_APPLICABLE = {
}
for _p in ["C%02d" % i for i in range(1, 21)]:
    if _p not in PROPS:
        NOT_APPLICABLE[_p] = "check not built yet in this session (planned: see DESIGN.md section 5); not claimed until its model, theorems and correspondence run exist"
