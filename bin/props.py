"""Per-property configuration of bin/check."""

PROPS = {
    "C07": dict(
        imports=["Acl.Glob", "Corr.Run_C07"],
        case_type="Run_C07.case",
        check="Run_C07.check",
        shrink=False,
        technique="Rocq proof (glob model = declarative spec = independent matcher, alphabet-generic) + exhaustive/random differential run of acl.Match against the model in the kernel",
        level_text=("Machine-checked theorems: the code-shaped matcher (literal short-cut, else anchored regexp of quoted pieces joined by match-anything) "
                    "accepts exactly the whole-name glob language, for every alphabet, pattern and name; equals an independent matcher; rule sets allow iff one "
                    "rule has both action and matching pattern; empty denies; adding rules is monotone. The model is tied to acl.go by an exhaustive sweep over a "
                    "10-symbol alphabet (incl. * / . newline and regexp metacharacters) plus random Unicode pairs and rule sets, compared inside coqc."),
        level_note=("Trusted: Coq kernel+VM; Go regexp implements textbook semantics for the literal/.*/concat fragment; correspondence is differential "
                    "(exhaustive to length 3/4, sampled beyond); valid UTF-8 domain."),
        rule=("exhaustive sweep: every pattern up to length 3 (thorough: 4) over the alphabet "
              "{a b * / . \\n \\\\ ( [ +} against every name up to the same length (one case = one pattern row, "
              "non-trivial if it matches some but not all names); plus random valid-UTF-8 pattern/name pairs "
              "(non-trivial if the pattern has a star) and random rule sets (non-trivial if non-empty); "
              "distinct by pattern / pair / rule-set text"),
        explain=("acl.Secret.Match / Rules.Allow disagrees with the model matcher (proved equivalent to the "
                 "whole-name glob specification and to the independent DP matcher)"),
        assumptions=["Go's regexp implements the textbook set-of-strings semantics for literal/.*/concatenation expressions",
                     "byte-level and rune-level globbing coincide on valid UTF-8 (argued in DESIGN.md, exercised by the random Unicode pairs)"],
    ),
}

_DB_COMMON = dict(imports=["Acl.Glob", "Server.KV", "Server.DB", "Corr.Run_DB"], case_type="Run_DB.case", shrink_field="ops")

PROPS["C02"] = dict(_DB_COMMON,
    check="Run_DB.check_C02",
    technique="Rocq proof (invariant + refinement of the kv.go mutate/undo model to a plain-map specification, all histories) + differential histories on the real db.DB compared in the kernel after every step",
    level_text=("Machine-checked theorems over all operation histories of the model of db/kv.go: invariant, refinement to the plain-map specification, fresh/never-reused "
                "version numbers, exact dedupe rule, put-then-retrievable, active version exists and is undeletable, only activate moves it, bytes immutable, failed calls are "
                "no-ops, frame. The model is tied to the code by generated histories (dedupe, delete-newest-then-put, delete-then-recreate, activate back forced in) run "
                "on the real database as superuser, with result and full state compared with the model by the kernel after every step."),
    level_note="Trusted: Coq kernel+VM; differential tie (sampled histories up to 40 steps, 7 names, 13 values); versions < 2^32; values are tokens (the model never inspects a value).",
    rule=("random+forced operation histories of 4-40 calls on the real db.DB as superuser; one case = one history with result and full state after every step; "
          "non-trivial if it has at least two successful mutations and one failing call; distinct by operation sequence"),
    explain="a result or the state served by db.DB differs from the sequential specification model after the last step of this history",
    assumptions=["the value type is abstract: byte strings are mapped to tokens by exact comparison"],
)

PROPS["C01"] = dict(_DB_COMMON,
    check="Run_DB.check_C01",
    technique="Rocq proof (db.go model: no data, no state change, no save without a matching grant; denial blind to state; list exact) + differential histories with mixed callers on the real db.DB judged step by step in the kernel",
    level_text=("Machine-checked theorems about the model of db/db.go for every rule set, caller, operation, name and state: a call carries data, changes the store or saves only if "
                "the rules allow the required action on exactly that name; a well-formed ungranted call is refused as access-denied with state unchanged; the refusal is a function "
                "of caller and request only (identical for existing, absent and reserved names); list returns exactly the info-permitted secrets with names and version numbers only. "
                "Tied to the code by histories with diverse rule sets (empty, exact, wildcard, split action/pattern over two rules) on the real database: the access decision, the "
                "no-change/no-data consequence of a denial and the list payload are compared with the model in the kernel at every step."),
    level_note="Trusted: Coq kernel+VM; differential tie (sampled histories, 3-5 callers); the pattern semantics is C07's; HTTP status mapping is C08.",
    rule=("random histories of 6-30 calls by 3-5 callers with diverse rule sets on the real db.DB; one case = one history; non-trivial if it contains at least one denied and one "
          "allowed call; distinct by callers+operation sequence"),
    explain="the access decision of db.DB (or what a denied call revealed/changed, or the list payload) differs from the model on the last step of this history",
    assumptions=["glob semantics as proved for C07", "values are tokens"],
)

PROPS["C03"] = dict(_DB_COMMON,
    check="Run_DB.check_C03",
    technique="Rocq proof (disk = acknowledged state invariant over all histories and save outcomes; load(doc_of s) = s) + reopen-after-every-operation differential run incl. injected save failures, golden schema-v1 files",
    level_text=("Machine-checked theorems: for every history and every pattern of save failures the file content equals the document of the acknowledged in-memory state (so reopening "
                "loses nothing acknowledged and resurrects nothing), decoding the document of any invariant state returns exactly that state incl. the next-version counters, and "
                "opening an existing file emits no write. Tied to the code by histories where after EVERY operation the file is reopened with db.Open under the same key in a second "
                "handle and independently decoded from the documented schema-v1 layout (names, versions, bytes, active, LatestVersion), compared with the model state in the kernel; "
                "the file hash/inode must be untouched by Open; golden files written by the pinned release must open to their recorded contents."),
    level_note="Trusted: Coq kernel+VM; Go's encoding/json+base64 text layer (model is at tree level); tink for opening files in the harness; differential tie is sampled.",
    rule=("random histories (4-30 calls, 12% refused saves) on the real db.DB with a reopen + independent schema decode after every call, plus golden files; non-trivial if at least "
          "three mutations succeeded; distinct by operation sequence"),
    explain="the reopened database file (contents or next-version counter) differs from the state implied by the acknowledged operations, or Open wrote to the file, or the file is not schema-v1",
    assumptions=["values are tokens", "save failures are injected by making the state directory temporarily unreachable"],
)

PROPS["C06"] = dict(_DB_COMMON,
    check="Run_DB.check_C06",
    technique="Rocq proof (effect-order theorems over db_step: record precedes every disclosure/save, denial logged, fail-closed, unchanged poll silent) + differential histories with failing audit sinks compared in the kernel",
    level_text=("Machine-checked theorems about the ordered effect list of every call of the db.go model: a result carrying a value implies a preceding complete get record for that "
                "principal, name and requested version; every save is preceded by its record; every denial writes an unauthorized record; if the record cannot be written or synced "
                "the call fails with no data, no save and unchanged state (and a write failure is sticky); an unchanged conditional get writes nothing; list writes exactly one record. "
                "Tied to the code by histories with mixed callers and an instrumented sink that records each record together with whether the database file had already changed, and "
                "that fails on write or on sync at chosen records; the observed ordered effects are compared with the model's in the kernel. Concurrent appends to a real audit file "
                "are checked for whole, uninterleaved lines."),
    level_note="Trusted: Coq kernel+VM; O_APPEND single-write atomicity of the OS and data-race freedom are runtime facts (tested, not proved): partial for the concurrency clause.",
    rule=("random histories (6-30 calls, mixed callers, 6% audit faults, 8% refused saves) on the real db.DB with an instrumented audit sink; non-trivial if at least one denial and "
          "three records; distinct by callers+operation sequence"),
    explain="the audit records written by db.DB (content or order relative to the file replacement and the result) differ from the model on the last step of this history",
    assumptions=["the instrumented sink observes order by hashing the database file at every record"],
)

_HTTP_COMMON = dict(imports=["Acl.Glob", "Server.KV", "Server.DB", "Server.Http", "Corr.Run_DB", "Corr.Run_Http"], case_type="Run_Http.case", shrink_field="ops")

PROPS["C08"] = dict(_HTTP_COMMON,
    check="Run_Http.check_C08",
    technique="Rocq proof (gate sound+complete, rejected requests inert, exact outcome->status map, identity function characterised, the HTML listing route = GET + identity + the caller's list call) + in-process HTTP sessions through the real mux compared with the model in the kernel",
    level_text=("Machine-checked theorems about the model of serveJSON/getIdentity: a request is accepted iff it is a POST with Content-Type exactly application/json, header value exactly "
                "setec, an identifiable caller and a decodable body; a rejected request gets a 4xx/5xx constant body and performs no database step (state, audit log untouched); an accepted "
                "request is exactly the db call of the identified caller and its outcome maps to 200+result / 304+empty / 403 / 404 / other error; no non-200 reply carries a result; the "
                "identity/permission function is characterised exactly (tags else login; bare capability first, https:// one only when the bare one yields no rule; malformed grant fails); "
                "the one non-API route (the HTML listing on / and every unmatched path) is accepted iff it is a GET from an identified caller and is then exactly that caller's list call. "
                "Tied to the code by sessions of mostly-valid requests with deviations in method, content type, header, source address, WhoIs answer and body class sent through the real "
                "mux with a recorder: status class, decoded body (the HTML page is parsed back into a list result), audit records (principal, and that each names the node's hostname and the "
                "request's address), database state and a secret-marker scan of non-200 bodies are compared with the model. The scripted tailnet answers only for the request's own ip:port "
                "(asked about the bare IP or another port it reports a different, fully authorized node); nodes keep a stable identity while their grants are rewritten during a session; "
                "grants come as several rules of mixed shape under either capability name; a question is repeated by another caller straight after a not-modified answer."),
    level_note="Trusted: Coq kernel+VM; which byte strings encoding/json accepts is not modelled (bodies are generated in classes of known acceptance); WhoIs answers always carry Node and UserProfile (as LocalClient returns them).",
    rule=("random sessions of 10-40 HTTP requests (7 API endpoints + the HTML listing x methods x content types x header values x source addresses x WhoIs answers x 9 body classes, one or more deviations from a "
          "valid request) through the real handlers on a pre-populated database; non-trivial if the session has at least one accepted and one refused request; distinct by session text"),
    explain="status class, body, audit records or database state after an HTTP request differ from the front-door model",
    assumptions=["request bodies are generated in classes whose JSON acceptance is certain", "values are tokens"],
)

PROPS["C09"] = dict(
    imports=["Acl.Glob", "Server.KV", "Server.DB", "Server.Http", "Corr.Run_DB", "Corr.Run_Http", "Corr.Run_C09"],
    case_type="Run_C09.case", check="Run_C09.check", shrink=False,
    technique="Rocq proof (conditional get = function of the active version: iff / else-active / zero; client status->sentinel map; FileClient function) + differential histories and client probes (DB API, handlers+setec.Client, FileClient) compared in the kernel",
    level_text=("Machine-checked theorems about the model: for a caller allowed to get, a conditional get with V answers not-modified iff the secret's active version is V at that moment, "
                "otherwise returns exactly the active version with its bytes (never a non-active one) or not-found; V=0 is the plain get; the state is untouched and an unchanged poll "
                "writes no record; the network client maps 200/304/404/403 to (value,nil)/ErrValueNotChanged/ErrNotFound/ErrAccessDenied and sends a plain get when V=0; the file "
                "client implements the same function on its static map. Tied to the code by histories of put/activate/delete interleaved with conditional gets carrying current, older, "
                "newer, never-existing and zero versions at the DB API, and by probes through the real handlers with setec.Client and through a real FileClient reading a file holding "
                "the same active versions, all compared with the model in the kernel."),
    level_note="Trusted: Coq kernel+VM; differential tie is sampled; HTTP transport replaced by an in-process recorder.",
    rule=("250 DB-API histories (6-30 calls, 45% conditional gets, three callers) + 250 probe sets (12 probes each on a random database: client/file/file-get with V in {current, older, "
          "newer, never-existing, 0}); a history is non-trivial if it has both a not-modified and a delivered answer, a probe set if the client saw both; distinct by text"),
    explain="a conditional get (DB API, HTTP client or file client) answered differently from the model",
    assumptions=["values are tokens"],
)

PROPS["C18"] = dict(
    imports=["Client.PutText", "Corr.Run_C18"], case_type="Run_C18.case", check="Run_C18.check", shrink=False,
    extra_builds=[dict(out="setec-cli", pkg="./cmd/setec")],
    technique="Rocq proof (value-parametric store theorems; utf8/TrimSpace/flag-policy model with exact send/refuse characterisation) + the built setec CLI, utf8.Valid and bytes.TrimSpace run against the model in the kernel; byte-for-byte round trips through every retrieval path",
    level_text=("Machine-checked theorems: (1) for EVERY value type the store returns for a version exactly the value put, keeps it until deleted, and the persisted document decodes to the same "
                "state (the model never inspects a value, so this covers empty, binary, invalid UTF-8, NUL, newline and arbitrarily large values alike); (2) for the command: what is sent is "
                "the input itself, or - only under --trim-space without --verbatim, for valid UTF-8 with outer white space - the input minus exactly a run of Unicode white space at each end; "
                "it is refused iff text with outer white space has neither flag, or the value to send is empty without --empty-ok; binary input is always sent verbatim. Tied to the code by "
                "running Go's utf8.Valid (exhaustive over a 26-byte boundary alphabet) and bytes.TrimSpace (all Unicode space kinds and look-alikes) and the BUILT cmd/setec binary (all 8 "
                "flag combinations x file/pipe x input classes against a loopback server that records whether a request arrived and the bytes received) against the model in the kernel, and by "
                "byte-for-byte round trips of 7 value classes up to 1 MiB (4 MiB thorough) through DB get/get-version, HTTP client, Store, cache file, cache-only restart, FileClient and server restart."),
    level_note="Trusted: Coq kernel+VM; the round-trip comparison itself is a runtime byte comparison in the harness (values of megabytes are not shipped to the kernel); terminal input of the CLI is not exercised.",
    rule=("26 exhaustive utf8.Valid rows + random valid/invalid strings + TrimSpace texts + `setec put` runs (flag combinations x source x input class) + round trips (class x size); "
          "a text/CLI case is non-trivial if the input is valid UTF-8 with outer white space; distinct by input text and flags"),
    explain="utf8.Valid, bytes.TrimSpace or the `setec put` command behaved differently from the text-policy model, or a value came back altered from some retrieval path",
    assumptions=["loopback HTTP works in the sandbox", "the CLI is exercised with file and pipe input only"],
)

# further properties: one file per property under bin/props.d/ (each defines PROP_ID and PROP),
# so that work on different properties never touches the same file
import os as _os, glob as _glob
for _f in sorted(_glob.glob(_os.path.join(_os.path.dirname(_os.path.abspath(__file__)), "props.d", "C*.py"))):
    _ns = {}
    exec(compile(open(_f).read(), _f, "exec"), _ns)
    PROPS[_ns["PROP_ID"]] = _ns["PROP"]

# properties not (yet) claimed, with the reason
NOT_APPLICABLE = {
}
for _p in ["C%02d" % i for i in range(1, 21)]:
    if _p not in PROPS:
        NOT_APPLICABLE[_p] = "check not built yet in this session (planned: see DESIGN.md section 5); not claimed until its model, theorems and correspondence run exist"
