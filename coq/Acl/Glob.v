(* Model of acl/acl.go : Secret.Match, Rule.Allow, Rules.Allow.
   Executable definitions only (no proofs here, so the model still runs when a
   proof is broken).  Alphabet-generic: the only symbol the definitions can
   distinguish from the others is [star]. *)
From Coq Require Import List Bool NArith.
Import ListNotations.
Set Implicit Arguments.

Section Glob.
Variable A : Type.
Variable eqb : A -> A -> bool.
Variable star : A.

Fixpoint list_eqb (a b : list A) : bool :=
  match a, b with
  | [], [] => true
  | x :: a', y :: b' => eqb x y && list_eqb a' b'
  | _, _ => false
  end.

(* strings.Contains(s, "*") *)
Definition has_star (pat : list A) : bool := existsb (fun c => eqb c star) pat.

(* strings.Split(pat, "*") : a non-empty list of pieces, as (first, rest) *)
Fixpoint pieces (pat : list A) : list A * list (list A) :=
  match pat with
  | [] => ([], [])
  | c :: r => let '(p, ps) := pieces r in
              if eqb c star then ([], p :: ps) else (c :: p, ps)
  end.

(* The regular expressions acl.go can build: quoted literals, [(?s).*] and
   concatenation; the whole expression is anchored by ^ and $. *)
Inductive re := RLit (l : list A) | RAnyStar | RSeq (r1 r2 : re).

(* "^" + join(quoted pieces, ".*") + "$" *)
Fixpoint compile (p : list A) (ps : list (list A)) : re :=
  match ps with
  | [] => RLit p
  | q :: qs => RSeq (RLit p) (RSeq RAnyStar (compile q qs))
  end.

Fixpoint strip_prefix (l s : list A) : option (list A) :=
  match l, s with
  | [], _ => Some s
  | x :: l', y :: s' => if eqb x y then strip_prefix l' s' else None
  | _ :: _, [] => None
  end.

(* executable matcher, continuation-passing: does some prefix of [s] match [r]
   with the remainder accepted by [k]? *)
Fixpoint rmatch (r : re) (k : list A -> bool) (s : list A) : bool :=
  match r with
  | RLit l => match strip_prefix l s with Some s' => k s' | None => false end
  | RAnyStar =>
      (fix go (s : list A) : bool := k s || match s with [] => false | _ :: s' => go s' end) s
  | RSeq r1 r2 => rmatch r1 (rmatch r2 k) s
  end.

Definition is_nil (s : list A) : bool := match s with [] => true | _ => false end.

(* anchored match: regexp.MatchString on "^...$" *)
Definition re_match (r : re) (s : list A) : bool := rmatch r is_nil s.

(* acl.Secret.Match as written: literal short-cut, else the regular expression *)
Definition impl_match (pat name : list A) : bool :=
  (negb (has_star pat) && list_eqb pat name)
  || (let '(p, ps) := pieces pat in re_match (compile p ps) name).

(* An independent dynamic-programming style glob matcher (no pieces, no regexp):
   the reference implementation the property names. *)
Fixpoint glob_dp (pat : list A) : list A -> bool :=
  match pat with
  | [] => fun s => is_nil s
  | c :: p' =>
    if eqb c star then
      fix go (s : list A) : bool :=
        glob_dp p' s || match s with [] => false | _ :: s' => go s' end
    else fun s => match s with [] => false | x :: s' => eqb x c && glob_dp p' s' end
  end.

(* A polynomial-time matcher (simulation of the pattern's position automaton:
   a state is a remaining pattern suffix).  Proved equal to [glob_dp] in
   GlobProofs.v; the correspondence run evaluates this one on long inputs,
   where the two backtracking matchers above are exponential. *)
Fixpoint nullable (pat : list A) : bool :=
  match pat with [] => true | c :: p => eqb c star && nullable p end.

Fixpoint step1 (x : A) (p : list A) : list (list A) :=
  match p with
  | [] => []
  | c :: p' => if eqb c star then p :: step1 x p' else if eqb x c then [p'] else []
  end.

Fixpoint dedupe (l : list (list A)) : list (list A) :=
  match l with
  | [] => []
  | p :: r => let r' := dedupe r in if existsb (list_eqb p) r' then r' else p :: r'
  end.

Fixpoint nfa (ps : list (list A)) (s : list A) : bool :=
  match s with
  | [] => existsb nullable ps
  | x :: s' => nfa (dedupe (flat_map (step1 x) ps)) s'
  end.

Definition glob_fast (pat name : list A) : bool := nfa [pat] name.

End Glob.

(* ---- rules ---- *)

Inductive action := AGet | AInfo | APut | AActivate | ADelete | AOther (n : N).

Definition action_eqb (a b : action) : bool :=
  match a, b with
  | AGet, AGet | AInfo, AInfo | APut, APut | AActivate, AActivate | ADelete, ADelete => true
  | AOther x, AOther y => N.eqb x y
  | _, _ => false
  end.

Definition bytes := list N.
Definition star_byte : N := 42%N.

Definition bmatch : bytes -> bytes -> bool := impl_match N.eqb star_byte.
Definition bglob : bytes -> bytes -> bool := glob_dp N.eqb star_byte.
Definition bfast : bytes -> bytes -> bool := glob_fast N.eqb star_byte.

Record rule := { r_actions : list action; r_secrets : list bytes }.

(* Rule.Allow: the action is listed AND some pattern of the same rule matches *)
Definition rule_allow (r : rule) (a : action) (n : bytes) : bool :=
  existsb (action_eqb a) (r_actions r) && existsb (fun p => bmatch p n) (r_secrets r).

(* Rules.Allow *)
Definition allow (rs : list rule) (a : action) (n : bytes) : bool :=
  existsb (fun r => rule_allow r a n) rs.
