(* Proofs about the ACL model (property C07 and the lemmas C01/C08 use). *)
From Coq Require Import List Bool NArith Lia.
Import ListNotations.
From Setec Require Import Acl.Glob.
Set Implicit Arguments.

Section GlobProofs.
Variable A : Type.
Variable eqb : A -> A -> bool.
Hypothesis eqb_spec : forall a b, eqb a b = true <-> a = b.
Variable star : A.

Notation pieces := (pieces eqb star).
Notation has_star := (has_star eqb star).
Notation impl_match := (impl_match eqb star).
Notation glob_dp := (glob_dp eqb star).
Notation list_eqb := (list_eqb eqb).
Notation strip_prefix := (strip_prefix eqb).
Notation rmatch := (rmatch eqb).
Notation re_match := (re_match eqb).

Lemma eqb_refl a : eqb a a = true.
Proof. apply eqb_spec; reflexivity. Qed.

Lemma list_eqb_spec a b : list_eqb a b = true <-> a = b.
Proof.
  revert b; induction a as [|x a IH]; destruct b as [|y b]; cbn; try (split; congruence).
  rewrite andb_true_iff, eqb_spec, IH. split; [intros [-> ->]; reflexivity|intro Q; injection Q; auto].
Qed.

(* ---- the declarative specification, in the words of the property:
   "the pattern's literal pieces occur in the name in order, anchored at both
   ends, with each star standing for zero or more arbitrary characters" ---- *)
Inductive weave : list A -> list (list A) -> list A -> Prop :=
| W1 p : weave p [] p
| WS p q qs gap rest : weave q qs rest -> weave p (q :: qs) (p ++ gap ++ rest).

Definition glob_spec (pat name : list A) : Prop :=
  let '(p, ps) := pieces pat in weave p ps name.

(* textbook denotation of the regular expressions of the model *)
Inductive matches : re A -> list A -> Prop :=
| MLit l : matches (RLit l) l
| MAny s : matches (RAnyStar A) s
| MSeq r1 r2 s1 s2 : matches r1 s1 -> matches r2 s2 -> matches (RSeq r1 r2) (s1 ++ s2).

Lemma strip_prefix_spec l s s' : strip_prefix l s = Some s' <-> s = l ++ s'.
Proof.
  revert s; induction l as [|x l IH]; intros s; cbn.
  - split; [intro Q; injection Q; auto|intros ->; reflexivity].
  - destruct s as [|y s]; [split; discriminate|].
    destruct (eqb x y) eqn:E.
    + apply eqb_spec in E; subst y. rewrite IH. split; [intros ->; reflexivity|intro Q; injection Q; auto].
    + split; [discriminate|]. intro Q; injection Q as -> _. rewrite eqb_refl in E; discriminate.
Qed.

Lemma anystar_go (k : list A -> bool) s :
  (fix go (s : list A) : bool := k s || match s with [] => false | _ :: s' => go s' end) s = true
  <-> exists g r, s = g ++ r /\ k r = true.
Proof.
  induction s as [|x s IH].
  - rewrite orb_false_r. split.
    + intro H; exists [], []; auto.
    + intros (g & r & E & H). destruct g; destruct r; try discriminate; auto.
  - rewrite orb_true_iff. split.
    + intros [H|H].
      * exists [], (x :: s); auto.
      * apply IH in H. destruct H as (g & r & E & H). exists (x :: g), r; subst; auto.
    + intros (g & r & E & H). destruct g as [|y g].
      * left. cbn in E. subst. assumption.
      * right. apply IH. injection E as -> ->. exists g, r; auto.
Qed.

(* the executable matcher is sound and complete for the denotation *)
Lemma rmatch_spec r : forall k s,
  rmatch r k s = true <-> exists s1 s2, s = s1 ++ s2 /\ matches r s1 /\ k s2 = true.
Proof.
  induction r as [l| |r1 IH1 r2 IH2]; intros k s.
  - cbn [Glob.rmatch]. destruct (strip_prefix l s) as [s'|] eqn:E.
    + apply strip_prefix_spec in E. subst s. split.
      * intro H. exists l, s'. repeat split; auto. constructor.
      * intros (s1 & s2 & E & M & H). inversion M; subst. apply app_inv_head in E. subst. assumption.
    + split; [discriminate|]. intros (s1 & s2 & Q & M & H). inversion M; subst.
      assert (strip_prefix s1 (s1 ++ s2) = Some s2) by (apply strip_prefix_spec; reflexivity). congruence.
  - cbn [Glob.rmatch]. rewrite anystar_go. split.
    + intros (g & r & -> & H). exists g, r. repeat split; auto. constructor.
    + intros (s1 & s2 & -> & _ & H). exists s1, s2; auto.
  - cbn [Glob.rmatch]. rewrite IH1. split.
    + intros (s1 & s2 & -> & M1 & H). apply IH2 in H. destruct H as (t1 & t2 & -> & M2 & H).
      exists (s1 ++ t1), t2. rewrite app_assoc. repeat split; auto. constructor; assumption.
    + intros (s1 & s2 & -> & M & H). inversion M as [| |? ? t1 t2 M1 M2]; subst.
      exists t1, (t2 ++ s2). rewrite app_assoc. repeat split; auto.
      apply IH2. exists t2, s2. auto.
Qed.

Lemma re_match_spec r s : re_match r s = true <-> matches r s.
Proof.
  unfold Glob.re_match. rewrite rmatch_spec. split.
  - intros (s1 & s2 & -> & M & H). destruct s2; [|discriminate]. rewrite app_nil_r. assumption.
  - intro M. exists s, []. rewrite app_nil_r. auto.
Qed.

Lemma compile_weave p ps s : matches (compile p ps) s <-> weave p ps s.
Proof.
  revert p s; induction ps as [|q qs IH]; intros p s; cbn [compile].
  - split; intro H; inversion H; subst; constructor.
  - split; intro H.
    + inversion H as [| |r1 r2 s1 s2 H1 H2]; subst.
      inversion H1; subst. inversion H2 as [| |r1' r2' g rest Hg Hr]; subst.
      apply WS. apply IH; assumption.
    + inversion H; subst. constructor; [constructor|]. constructor; [constructor|]. apply IH; assumption.
Qed.

Lemma pieces_nostar pat : has_star pat = false -> pieces pat = (pat, []).
Proof.
  induction pat as [|c r IH]; cbn; auto.
  rewrite orb_false_iff. intros [Hc Hr]. rewrite (IH Hr), Hc. reflexivity.
Qed.

(* the literal short-cut of acl.go is subsumed by the regular expression *)
Lemma shortcut_subsumed pat name :
  negb (has_star pat) && list_eqb pat name = true -> glob_spec pat name.
Proof.
  rewrite andb_true_iff, negb_true_iff, list_eqb_spec. intros [Hs ->].
  unfold glob_spec. rewrite (pieces_nostar _ Hs). constructor.
Qed.

Theorem impl_match_iff_spec pat name : impl_match pat name = true <-> glob_spec pat name.
Proof.
  unfold Glob.impl_match. rewrite orb_true_iff. split.
  - intros [H|H]; [apply shortcut_subsumed; assumption|].
    unfold glob_spec. destruct (pieces pat) as [p ps]. apply compile_weave, re_match_spec. assumption.
  - intro H. right. unfold glob_spec in H. destruct (pieces pat) as [p ps].
    apply re_match_spec, compile_weave. assumption.
Qed.

(* ---- the independent matcher ---- *)
Lemma glob_star p' s :
  glob_dp (star :: p') s = glob_dp p' s || match s with [] => false | _ :: s' => glob_dp (star :: p') s' end.
Proof. cbn [Glob.glob_dp]. rewrite eqb_refl. destruct s; reflexivity. Qed.

Lemma glob_star_iff p' s : glob_dp (star :: p') s = true <-> exists g r, s = g ++ r /\ glob_dp p' r = true.
Proof.
  induction s as [|x s IH].
  - rewrite glob_star. rewrite orb_false_r. split.
    + intro H; exists [], []; auto.
    + intros (g & r & E & H). destruct g; destruct r; try discriminate; auto.
  - rewrite glob_star. rewrite orb_true_iff. split.
    + intros [H|H].
      * exists [], (x :: s); auto.
      * apply IH in H. destruct H as (g & r & E & H). exists (x :: g), r; subst; auto.
    + intros (g & r & E & H). destruct g as [|y g].
      * left. cbn in E. subst. assumption.
      * right. apply IH. injection E as -> ->. exists g, r; auto.
Qed.

Lemma weave_cons c p ps s : weave (c :: p) ps s <-> exists s', s = c :: s' /\ weave p ps s'.
Proof.
  split.
  - intro H. inversion H; subst.
    + exists p; split; auto; constructor.
    + exists (p ++ gap ++ rest). split; auto. constructor; assumption.
  - intros (s' & -> & H). inversion H; subst.
    + constructor.
    + change (c :: p ++ gap ++ rest) with ((c :: p) ++ gap ++ rest). constructor; assumption.
Qed.

Lemma weave_nil_cons q qs s : weave [] (q :: qs) s <-> exists g r, s = g ++ r /\ weave q qs r.
Proof.
  split.
  - intro H. inversion H; subst. exists gap, rest; auto.
  - intros (g & r & -> & H). change (g ++ r) with ([] ++ g ++ r). constructor; assumption.
Qed.

Theorem glob_dp_iff_spec pat name : glob_dp pat name = true <-> glob_spec pat name.
Proof.
  unfold glob_spec. revert name. induction pat as [|c r IH]; intro name.
  - cbn. split.
    + destruct name; [constructor|discriminate].
    + intro H; inversion H; reflexivity.
  - cbn [Glob.pieces]. destruct (pieces r) as [p ps] eqn:E.
    destruct (eqb c star) eqn:Ec.
    + apply eqb_spec in Ec; subst c. rewrite glob_star_iff. rewrite weave_nil_cons.
      split; intros (g & r' & -> & H); exists g, r'; split; auto; apply IH; assumption.
    + cbn [Glob.glob_dp]. rewrite Ec. rewrite weave_cons. split.
      * destruct name as [|x s]; [discriminate|]. rewrite andb_true_iff. intros [Hx H].
        apply eqb_spec in Hx; subst x. exists s; split; auto. apply IH; assumption.
      * intros (s' & -> & H). rewrite andb_true_iff. split; [apply eqb_refl|apply IH; assumption].
Qed.

Theorem dp_agrees pat name : glob_dp pat name = impl_match pat name.
Proof.
  destruct (glob_dp pat name) eqn:E1, (impl_match pat name) eqn:E2; auto.
  - apply glob_dp_iff_spec, impl_match_iff_spec in E1. congruence.
  - apply impl_match_iff_spec, glob_dp_iff_spec in E2. congruence.
Qed.

(* ---- the polynomial matcher ---- *)
Notation nullable := (nullable eqb star).
Notation step1 := (step1 eqb star).
Notation dedupe := (dedupe eqb).
Notation nfa := (nfa eqb star).
Notation glob_fast := (glob_fast eqb star).

Lemma glob_dp_nil p : glob_dp p [] = nullable p.
Proof.
  induction p as [|c p IH]; [reflexivity|].
  cbn [Glob.glob_dp Glob.nullable]. destruct (eqb c star) eqn:E; [|reflexivity].
  rewrite orb_false_r. exact IH.
Qed.

Lemma glob_dp_cons p x s : glob_dp p (x :: s) = existsb (fun q => glob_dp q s) (step1 x p).
Proof.
  induction p as [|c p IH]; [reflexivity|].
  cbn [Glob.step1]. destruct (eqb c star) eqn:E.
  - apply eqb_spec in E; subst c. rewrite glob_star. cbn [existsb]. rewrite IH. apply orb_comm.
  - cbn [Glob.glob_dp]. rewrite E. destruct (eqb x c); cbn; [rewrite orb_false_r|]; reflexivity.
Qed.

Lemma existsb_dedupe (f : list A -> bool) l : existsb f (dedupe l) = existsb f l.
Proof.
  induction l as [|p r IH]; [reflexivity|].
  cbn [Glob.dedupe]. destruct (existsb (list_eqb p) (dedupe r)) eqn:E; cbn [existsb]; rewrite IH; [|reflexivity].
  rewrite <- IH. apply existsb_exists in E. destruct E as (q & Hq & Eq). apply list_eqb_spec in Eq; subst q.
  destruct (f p) eqn:F; [|reflexivity]. cbn. apply existsb_exists. exists p; auto.
Qed.

Lemma existsb_flat_map {X Y} (f : Y -> bool) (g : X -> list Y) l :
  existsb f (flat_map g l) = existsb (fun x => existsb f (g x)) l.
Proof. induction l as [|x l IH]; [reflexivity|]. cbn. rewrite existsb_app, IH. reflexivity. Qed.

Lemma existsb_ext' {X} (f g : X -> bool) l : (forall x, f x = g x) -> existsb f l = existsb g l.
Proof. intro H. induction l as [|x l IH]; [reflexivity|]. cbn. rewrite H, IH. reflexivity. Qed.

Lemma nfa_spec s : forall ps, nfa ps s = existsb (fun p => glob_dp p s) ps.
Proof.
  induction s as [|x s IH]; intro ps; cbn [Glob.nfa].
  - apply existsb_ext'. intros p. symmetry. apply glob_dp_nil.
  - rewrite IH, existsb_dedupe, existsb_flat_map. apply existsb_ext'. intros p. symmetry. apply glob_dp_cons.
Qed.

Theorem fast_agrees pat name : glob_fast pat name = glob_dp pat name.
Proof. unfold Glob.glob_fast. rewrite nfa_spec. cbn. apply orb_false_r. Qed.

Theorem nostar_exact pat name : has_star pat = false -> (impl_match pat name = true <-> name = pat).
Proof.
  intro Hs. rewrite impl_match_iff_spec. unfold glob_spec. rewrite (pieces_nostar _ Hs).
  split; [intro H; inversion H; reflexivity|intros ->; constructor].
Qed.

Theorem star_matches_all name : impl_match [star] name = true.
Proof.
  apply impl_match_iff_spec. unfold glob_spec. cbn. rewrite eqb_refl.
  replace name with ([] ++ name ++ []) by (cbn; apply app_nil_r). constructor. constructor.
Qed.

(* Expanded reading of the spec: first piece is a prefix, last piece a suffix,
   the middle pieces occur in order in between. *)
Theorem spec_prefix_gap pat name p q qs :
  pieces pat = (p, q :: qs) ->
  (glob_spec pat name <-> exists gap rest, name = p ++ gap ++ rest /\ weave q qs rest).
Proof.
  intro E. unfold glob_spec. rewrite E. split.
  - intro H. inversion H; subst. eauto.
  - intros (g & r & -> & H). constructor. assumption.
Qed.

End GlobProofs.

(* ---- rule sets (byte instance) ---- *)

Lemma Neqb_spec a b : N.eqb a b = true <-> a = b.
Proof. apply N.eqb_eq. Qed.

Definition bspec : bytes -> bytes -> Prop := glob_spec N.eqb star_byte.

Lemma bmatch_iff p n : bmatch p n = true <-> bspec p n.
Proof. apply impl_match_iff_spec, Neqb_spec. Qed.

Lemma action_eqb_spec a b : action_eqb a b = true <-> a = b.
Proof.
  destruct a, b; cbn; try (split; congruence).
  rewrite N.eqb_eq. split; [intros ->; reflexivity|intro Q; injection Q; auto].
Qed.

Theorem rule_allow_iff r a n :
  rule_allow r a n = true <-> In a (r_actions r) /\ exists p, In p (r_secrets r) /\ bspec p n.
Proof.
  unfold rule_allow. rewrite andb_true_iff, !existsb_exists. split.
  - intros [(a' & Ha & E) (p & Hp & M)]. apply action_eqb_spec in E; subst a'.
    split; auto. exists p. split; auto. apply bmatch_iff; assumption.
  - intros [Ha (p & Hp & M)]. split.
    + exists a. split; auto. apply action_eqb_spec; reflexivity.
    + exists p. split; auto. apply bmatch_iff; assumption.
Qed.

(* one single rule both lists the action and has a matching pattern *)
Theorem allow_iff rs a n :
  allow rs a n = true <->
  exists r, In r rs /\ In a (r_actions r) /\ exists p, In p (r_secrets r) /\ bspec p n.
Proof.
  unfold allow. rewrite existsb_exists. split.
  - intros (r & Hr & H). exists r. split; auto. apply rule_allow_iff; assumption.
  - intros (r & Hr & H). exists r. split; auto. apply rule_allow_iff; assumption.
Qed.

Theorem empty_denies a n : allow [] a n = false.
Proof. reflexivity. Qed.

Theorem allow_monotone rs1 r rs2 a n : allow (rs1 ++ rs2) a n = true -> allow (rs1 ++ r :: rs2) a n = true.
Proof.
  unfold allow. rewrite !existsb_app. cbn. rewrite !orb_true_iff. tauto.
Qed.

Theorem allow_app rs1 rs2 a n : allow (rs1 ++ rs2) a n = allow rs1 a n || allow rs2 a n.
Proof. unfold allow. apply existsb_app. Qed.
