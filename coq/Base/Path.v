(* Go's path.Clean and path.Join on byte strings (go1.26 src/path/path.go), twice:

   1. [go_clean] / [go_join] follow the SOURCE: the lazybuf algorithm, byte by byte, with the output
      buffer, its write index w (= the length of the buffer kept here), the index [dotdot] below which
      the output may not be cut back, the look-ahead on path[r+1], path[r+2], the back-tracking loop
      `out.w--; for out.w > dotdot && out.index(out.w) != '/' { out.w-- }`, "." for an empty result;
      Join ignores empty elements, joins the others with "/" and cleans; "" if all are empty.
      (lazybuf's laziness - it aliases the input while the output is a prefix of it - is an allocation
      optimisation: out.index(i) reads the byte written at i either way.  The buffer is a list here.)
   2. [path_clean] / [path_join2]: the same function written over SEGMENTS (split at "/", drop empty
      and "." segments, resolve ".." against a stack, keep rootedness), the form in which the facts
      about the result are proved (Base/PathProofs.v): no "//", no trailing "/", no "." element, ".."
      only at the front of a relative path, idempotence, identity on clean relative paths.
   PathProofs.v proves  go_clean p = path_clean p  for every p; both are compared with the Go library
   in the kernel on an exhaustive sweep (Corr/Run_C20.v).  Executable definitions only. *)
From Coq Require Import List Bool NArith Arith.
Import ListNotations.
Set Implicit Arguments.

Definition bstr := list N.

Definition slash : N := 47%N.
Definition dot : N := 46%N.

(* ---- strings.Split(s, sep) for a one-byte separator; strings.Join *)
Fixpoint split_on (sep : N) (s : bstr) : list bstr :=
  match s with
  | [] => [[]]
  | c :: r =>
    if N.eqb c sep then [] :: split_on sep r
    else match split_on sep r with
         | seg :: segs => (c :: seg) :: segs
         | [] => [[c]]
         end
  end.

Fixpoint join_with (sep : N) (segs : list bstr) : bstr :=
  match segs with
  | [] => []
  | s :: r => match r with [] => s | _ => s ++ sep :: join_with sep r end
  end.

(* ------------------------------------------------------------------ 1. as the source is written *)

(* the output buffer is kept REVERSED (head = last byte written); w = length *)
Definition is_slash (c : N) : bool := N.eqb c slash.
Definition is_dotc (c : N) : bool := N.eqb c dot.

(* path[r] is the last byte or is followed by '/' *)
Definition ends_elem (p : bstr) : bool := match p with [] => true | c :: _ => is_slash c end.

(* out.w--; for out.w > dotdot && out.index(out.w) != '/' { out.w-- } *)
Fixpoint back (rout : bstr) (dotdot : nat) : bstr :=
  match rout with
  | [] => []
  | x :: t => if (dotdot <? length t)%nat && negb (is_slash x) then back t dotdot else t
  end.

(* the main loop.  inseg = we are inside the `for ; r < n && path[r] != '/'; r++` copy loop of the
   default case.  Returns the (reversed) buffer. *)
Fixpoint go_loop (rooted inseg : bool) (p rout : bstr) (dotdot : nat) : bstr :=
  match p with
  | [] => rout
  | c :: p1 =>
    if inseg then
      if is_slash c then go_loop rooted false p1 rout dotdot     (* copy loop ends; the '/' is skipped next *)
      else go_loop rooted true p1 (c :: rout) dotdot
    else if is_slash c then go_loop rooted false p1 rout dotdot  (* empty path element *)
    else if is_dotc c && ends_elem p1 then go_loop rooted false p1 rout dotdot   (* . element *)
    else match p1 with
         | d :: p2 =>
           if is_dotc c && is_dotc d && ends_elem p2 then
             (* .. element: remove to last / *)
             if (dotdot <? length rout)%nat then go_loop rooted false p2 (back rout dotdot) dotdot
             else if rooted then go_loop rooted false p2 rout dotdot
             else (* cannot backtrack, but not rooted, so append .. element *)
               let rout1 := match rout with [] => rout | _ => slash :: rout end in
               let rout2 := dot :: dot :: rout1 in
               go_loop rooted false p2 rout2 (length rout2)
           else
             let rout1 := if (if rooted then negb (length rout =? 1)%nat else negb (length rout =? 0)%nat)
                          then slash :: rout else rout in
             go_loop rooted true p1 (c :: rout1) dotdot
         | [] =>
             let rout1 := if (if rooted then negb (length rout =? 1)%nat else negb (length rout =? 0)%nat)
                          then slash :: rout else rout in
             go_loop rooted true p1 (c :: rout1) dotdot
         end
  end.

Definition go_clean (p : bstr) : bstr :=
  match p with
  | [] => [dot]
  | c :: _ =>
    let rooted := is_slash c in
    let rout := if rooted then go_loop true false p [slash] 1 else go_loop false false p [] 0 in
    match rout with [] => [dot] | _ => rev rout end
  end.

(* Join(elem...) *)
Fixpoint join_elems (buf : bstr) (elems : list bstr) : bstr :=
  match elems with
  | [] => buf
  | e :: r =>
    match buf, e with
    | [], [] => join_elems buf r
    | [], _ => join_elems e r
    | _, _ => join_elems (buf ++ slash :: e) r
    end
  end.
Definition go_join (elems : list bstr) : bstr :=
  if forallb (fun e => match e with [] => true | _ => false end) elems then [] else go_clean (join_elems [] elems).

(* ------------------------------------------------------------------ 2. over segments *)
Definition is_empty (s : bstr) : bool := match s with [] => true | _ => false end.
Definition is_dot (s : bstr) : bool := match s with [c] => N.eqb c dot | _ => false end.
Definition is_dotdot (s : bstr) : bool := match s with [c; d] => N.eqb c dot && N.eqb d dot | _ => false end.

(* stack is kept reversed *)
Fixpoint clean_segs (rooted : bool) (segs stack : list bstr) : list bstr :=
  match segs with
  | [] => rev stack
  | s :: r =>
    if is_empty s || is_dot s then clean_segs rooted r stack
    else if is_dotdot s then
      match stack with
      | top :: rest => if is_dotdot top then clean_segs rooted r (s :: stack) else clean_segs rooted r rest
      | [] => if rooted then clean_segs rooted r [] else clean_segs rooted r [s]
      end
    else clean_segs rooted r (s :: stack)
  end.

Definition path_clean (p : bstr) : bstr :=
  match p with
  | [] => [dot]
  | c :: _ =>
    let rooted := N.eqb c slash in
    let out := join_with slash (clean_segs rooted (split_on slash p) []) in
    if rooted then slash :: out else match out with [] => [dot] | _ => out end
  end.

(* path.Join(a, b): empty elements are ignored, the rest joined by "/" and cleaned; "" if all empty *)
Definition path_join2 (a b : bstr) : bstr :=
  match a, b with
  | [], [] => []
  | [], _ => path_clean b
  | _, [] => path_clean a
  | _, _ => path_clean (a ++ slash :: b)
  end.

(* clean relative paths: slash separated, no empty / "." / ".." segment (so not empty) *)
Definition seg_ok (s : bstr) : bool := negb (is_empty s || is_dot s || is_dotdot s).
Definition clean (p : bstr) : bool := forallb seg_ok (split_on slash p).
