(* Proofs about Base/Path.v: strings.Split/Join facts, path.Clean / path.Join over segments, and the
   equivalence of the byte-level transcription of the Go source with the segment form. *)
From Coq Require Import List Bool NArith Arith Lia.
Import ListNotations.
From Setec Require Import Base.Path.

(* ------------------------------------------------------------------ *)
(* strings.Split / strings.Join / path.Clean / path.Join               *)

Lemma split_on_cons sep s : exists seg segs, split_on sep s = seg :: segs.
Proof.
  destruct s as [|c r]; cbn [split_on]; [eauto|].
  destruct (N.eqb c sep); [eauto|]. destruct (split_on sep r); eauto.
Qed.

Lemma join_split sep s : join_with sep (split_on sep s) = s.
Proof.
  induction s as [|c r IH]; [reflexivity|]. cbn [split_on].
  destruct (N.eqb c sep) eqn:E.
  - apply N.eqb_eq in E. subst c.
    destruct (split_on_cons sep r) as (seg & segs & H). rewrite H in *.
    cbn [join_with app]. cbn [join_with] in IH. rewrite IH. reflexivity.
  - destruct (split_on_cons sep r) as (seg & segs & H). rewrite H in *.
    cbn [join_with] in *. destruct segs; [rewrite IH; reflexivity|].
    rewrite <- IH. reflexivity.
Qed.

Lemma split_app sep a b : split_on sep (a ++ sep :: b) = split_on sep a ++ split_on sep b.
Proof.
  induction a as [|c r IH]; cbn [app split_on].
  - rewrite N.eqb_refl. reflexivity.
  - destruct (N.eqb c sep); [rewrite IH; reflexivity|].
    rewrite IH. destruct (split_on_cons sep r) as (seg & segs & H). rewrite H. reflexivity.
Qed.

Lemma seg_ok_inv s : seg_ok s = true -> (is_empty s || is_dot s) = false /\ is_dotdot s = false.
Proof.
  unfold seg_ok. destruct (is_empty s), (is_dot s), (is_dotdot s); cbn; intuition congruence.
Qed.

Lemma clean_segs_ok segs : forall st, forallb seg_ok segs = true -> clean_segs false segs st = rev st ++ segs.
Proof.
  induction segs as [|s r IH]; intros st H; cbn [clean_segs].
  - rewrite app_nil_r. reflexivity.
  - cbn [forallb] in H. apply andb_true_iff in H. destruct H as [Hs Hr].
    destruct (seg_ok_inv _ Hs) as [E1 E2]. rewrite E1, E2.
    rewrite IH by exact Hr. cbn [rev]. rewrite <- app_assoc. reflexivity.
Qed.

Lemma clean_nonempty p : clean p = true -> p <> [].
Proof. intros H ->. discriminate H. Qed.

Lemma clean_not_rooted c r : clean (c :: r) = true -> N.eqb c slash = false.
Proof.
  unfold clean. cbn [split_on]. destruct (N.eqb c slash); [|reflexivity].
  cbn [forallb seg_ok is_empty orb negb andb]. discriminate.
Qed.

Lemma path_clean_id p : clean p = true -> path_clean p = p.
Proof.
  intro H. destruct p as [|c r]; [discriminate H|].
  unfold path_clean. rewrite (clean_not_rooted _ _ H).
  rewrite clean_segs_ok by exact H. cbn [rev app]. rewrite join_split. reflexivity.
Qed.

Lemma clean_join a b : clean a = true -> clean b = true -> clean (a ++ slash :: b) = true.
Proof. unfold clean. intros Ha Hb. rewrite split_app, forallb_app, Ha, Hb. reflexivity. Qed.

(* path.Join on the property's domain *)
Lemma path_join_clean a b : clean a = true -> clean b = true -> path_join2 a b = a ++ slash :: b.
Proof.
  intros Ha Hb. pose proof (clean_nonempty _ Ha). pose proof (clean_nonempty _ Hb).
  destruct a; [congruence|]. destruct b; [congruence|].
  unfold path_join2. apply path_clean_id. apply clean_join; assumption.
Qed.

Lemma path_join_noprefix b : clean b = true -> path_join2 [] b = b.
Proof.
  intros Hb. pose proof (clean_nonempty _ Hb). destruct b; [congruence|].
  unfold path_join2. apply path_clean_id. assumption.
Qed.


(* ------------------------------------------------------------------ *)
(* the shape of a cleaned path                                          *)
Set Implicit Arguments.

Definition slashfree (s : bstr) : Prop := ~ In slash s.
(* a path element as it may occur in a cleaned path: not empty, not ".", no "/" inside *)
Definition seg_good (s : bstr) : Prop := is_empty s = false /\ is_dot s = false /\ slashfree s.
Definition nd (s : bstr) : bool := negb (is_dotdot s).
(* ".." elements only at the front *)
Fixpoint dd_front (l : list bstr) : bool :=
  match l with [] => true | s :: r => if is_dotdot s then dd_front r else forallb nd r end.
(* the element list of a cleaned path: rooted - no ".." at all; relative - ".." only at the front *)
Definition normal (rooted : bool) (l : list bstr) : Prop :=
  Forall seg_good l /\ (if rooted then forallb nd l = true else dd_front l = true).
Definition render (rooted : bool) (l : list bstr) : bstr :=
  if rooted then slash :: join_with slash l else match l with [] => [dot] | _ => join_with slash l end.

Lemma split_slashfree p : Forall slashfree (split_on slash p).
Proof.
  induction p as [|c r IH]; cbn [split_on].
  - constructor; [intros []|constructor].
  - destruct (N.eqb c slash) eqn:E.
    + constructor; [intros []|exact IH].
    + destruct (split_on slash r) as [|seg segs]; [constructor; [|constructor]|].
      * intros [H|[]]. subst c. rewrite N.eqb_refl in E. discriminate.
      * inversion IH as [|? ? H1 H2]; subst. constructor; [|exact H2].
        intros [H|H]; [subst c; rewrite N.eqb_refl in E; discriminate|exact (H1 H)].
Qed.

(* the stack of clean_segs (reversed): if its top is ".." everything below is ".." *)
Fixpoint st_ok (st : list bstr) : bool :=
  match st with [] => true | s :: r => if is_dotdot s then forallb is_dotdot r else st_ok r end.
Definition stack_ok (rooted : bool) (st : list bstr) : Prop :=
  if rooted then forallb nd st = true else st_ok st = true.

Lemma forallb_rev {A} (f : A -> bool) l : forallb f (rev l) = forallb f l.
Proof.
  induction l as [|x l IH]; [reflexivity|]. cbn [rev forallb]. rewrite forallb_app, IH. cbn [forallb].
  rewrite andb_true_r. apply andb_comm.
Qed.

Lemma dd_front_snoc a s : dd_front (a ++ [s]) = if is_dotdot s then forallb is_dotdot a else dd_front a.
Proof.
  induction a as [|x a IH]; cbn [app dd_front forallb].
  - destruct (is_dotdot s); reflexivity.
  - destruct (is_dotdot x) eqn:Ex.
    + rewrite IH. destruct (is_dotdot s); reflexivity.
    + rewrite forallb_app. cbn [forallb]. unfold nd at 2. destruct (is_dotdot s); cbn [negb andb].
      * rewrite andb_false_r. reflexivity.
      * rewrite !andb_true_r. reflexivity.
Qed.

Lemma st_ok_rev st : dd_front (rev st) = st_ok st.
Proof.
  induction st as [|s st IH]; [reflexivity|]. cbn [rev st_ok]. rewrite dd_front_snoc, IH, forallb_rev. reflexivity.
Qed.

Lemma good_not_empty_dot s : seg_good s -> (is_empty s || is_dot s) = false.
Proof. intros (A & B & _). rewrite A, B. reflexivity. Qed.

Lemma clean_segs_normal rooted : forall segs st,
  Forall slashfree segs -> Forall seg_good st -> stack_ok rooted st -> normal rooted (clean_segs rooted segs st).
Proof.
  induction segs as [|s r IH]; intros st Hs Hg Hk; cbn [clean_segs].
  - split; [apply Forall_rev; exact Hg|]. destruct rooted; cbn [stack_ok] in Hk.
    + rewrite forallb_rev. exact Hk.
    + rewrite st_ok_rev. exact Hk.
  - inversion Hs as [|? ? Hs1 Hs2]; subst.
    destruct (is_empty s || is_dot s) eqn:E; [apply IH; assumption|].
    apply orb_false_iff in E. destruct E as [E1 E2].
    assert (G : seg_good s) by (repeat split; assumption).
    destruct (is_dotdot s) eqn:Ed.
    + destruct st as [|top rest].
      * destruct rooted; [apply IH; assumption|]. apply IH; [assumption|constructor; [exact G|constructor]|].
        cbn [stack_ok st_ok]. rewrite Ed. reflexivity.
      * destruct (is_dotdot top) eqn:Et.
        -- apply IH; [assumption|constructor; assumption|]. destruct rooted; cbn [stack_ok] in *.
           ++ cbn [forallb] in Hk. unfold nd at 1 in Hk. rewrite Et in Hk. discriminate.
           ++ cbn [st_ok] in *. rewrite Et in Hk. rewrite Ed. cbn [forallb]. rewrite Et, Hk. reflexivity.
        -- inversion Hg; subst. apply IH; [assumption|assumption|]. destruct rooted; cbn [stack_ok] in *.
           ++ cbn [forallb] in Hk. apply andb_true_iff in Hk. apply Hk.
           ++ cbn [st_ok] in Hk. rewrite Et in Hk. exact Hk.
    + apply IH; [assumption|constructor; assumption|]. destruct rooted; cbn [stack_ok] in *.
      * cbn [forallb]. unfold nd at 1. rewrite Ed. exact Hk.
      * cbn [st_ok]. rewrite Ed. exact Hk.
Qed.

(* THE SHAPE: every cleaned path is the rendering of a normal element list *)
Theorem path_clean_shape p :
  let rooted := match p with c :: _ => N.eqb c slash | [] => false end in
  exists l, normal rooted l /\ path_clean p = render rooted l.
Proof.
  destruct p as [|c r]; cbn zeta.
  - exists []. split; [split; [constructor|reflexivity]|reflexivity].
  - set (rooted := N.eqb c slash). set (l := clean_segs rooted (split_on slash (c :: r)) []).
    assert (Nl : normal rooted l).
    { apply clean_segs_normal; [apply split_slashfree|constructor|destruct rooted; reflexivity]. }
    exists l. split; [exact Nl|]. unfold path_clean. fold rooted. fold l. unfold render.
    destruct rooted; [reflexivity|]. destruct l as [|s l']; [reflexivity|].
    destruct Nl as [Hg _]. inversion Hg as [|? ? (A & _) _]; subst.
    destruct (join_with slash (s :: l')) eqn:J; [|reflexivity]. exfalso.
    cbn [join_with] in J. destruct s; [discriminate A|]. destruct l'; discriminate J.
Qed.

(* ---- idempotence *)
Lemma dd_front_app_dd a : forall s r, dd_front (a ++ s :: r) = true -> is_dotdot s = true -> forallb is_dotdot a = true.
Proof.
  induction a as [|x a IH]; intros s r H Hs; [reflexivity|]. cbn [app dd_front forallb] in *.
  destruct (is_dotdot x) eqn:Ex; [apply (IH _ _ H Hs)|]. exfalso.
  rewrite forallb_app in H. cbn [forallb] in H. unfold nd at 2 in H. rewrite Hs in H. cbn in H.
  rewrite andb_false_r in H. discriminate.
Qed.

Lemma clean_segs_normal_id rooted : forall l st, normal rooted (rev st ++ l) -> clean_segs rooted l st = rev st ++ l.
Proof.
  induction l as [|s r IH]; intros st N; cbn [clean_segs]; [rewrite app_nil_r; reflexivity|].
  assert (N' : normal rooted (rev (s :: st) ++ r)) by (cbn [rev]; rewrite <- app_assoc; exact N).
  destruct N as [Hg Hd]. apply Forall_app in Hg. destruct Hg as [_ Hg]. inversion Hg as [|? ? G _]; subst.
  rewrite (good_not_empty_dot G).
  destruct (is_dotdot s) eqn:Ed.
  - destruct rooted.
    { rewrite forallb_app in Hd. cbn [forallb] in Hd. unfold nd at 2 in Hd. rewrite Ed in Hd. cbn in Hd.
      rewrite andb_false_r in Hd. discriminate. }
    pose proof (dd_front_app_dd _ _ _ Hd Ed) as A. rewrite forallb_rev in A.
    destruct st as [|top rest].
    + rewrite (IH [s] N'). cbn [rev app]. reflexivity.
    + cbn [forallb] in A. apply andb_true_iff in A. destruct A as [A _]. rewrite A.
      rewrite (IH (s :: top :: rest) N'). cbn [rev]. rewrite <- !app_assoc. reflexivity.
  - rewrite (IH (s :: st) N'). cbn [rev]. rewrite <- app_assoc. reflexivity.
Qed.

Lemma split_slashfree_one s : slashfree s -> split_on slash s = [s].
Proof.
  induction s as [|c r IH]; intros H; [reflexivity|]. cbn [split_on].
  destruct (N.eqb c slash) eqn:E; [apply N.eqb_eq in E; subst c; contradiction H; left; reflexivity|].
  rewrite IH; [reflexivity|]. intros Hin. apply H. right. exact Hin.
Qed.

Lemma split_join l : l <> [] -> Forall slashfree l -> split_on slash (join_with slash l) = l.
Proof.
  induction l as [|s r IH]; intros Hn Hf; [congruence|]. inversion Hf as [|? ? H1 H2]; subst.
  cbn [join_with]. destruct r as [|s' r']; [apply split_slashfree_one; exact H1|].
  rewrite split_app, (split_slashfree_one H1), IH; [reflexivity|discriminate|exact H2].
Qed.

Lemma good_slashfree l : Forall seg_good l -> Forall slashfree l.
Proof. intros H. eapply Forall_impl; [|exact H]. intros s (_ & _ & F). exact F. Qed.

Lemma path_clean_unrooted j c t : j = c :: t -> N.eqb c slash = false ->
  path_clean j = let out := join_with slash (clean_segs false (split_on slash j) []) in
                 match out with [] => [dot] | _ => out end.
Proof. intros -> E. unfold path_clean. rewrite E. reflexivity. Qed.

Lemma render_clean rooted l : normal rooted l -> path_clean (render rooted l) = render rooted l.
Proof.
  intros N. pose proof (good_slashfree (proj1 N)) as Sf. destruct rooted; unfold render.
  - unfold path_clean. rewrite N.eqb_refl. cbn [split_on]. rewrite N.eqb_refl. cbn [clean_segs is_empty orb].
    destruct l as [|s r].
    + reflexivity.
    + rewrite split_join by (try discriminate; exact Sf).
      rewrite (@clean_segs_normal_id true (s :: r) []) by exact N. reflexivity.
  - destruct l as [|s r]; [vm_compute; reflexivity|].
    destruct N as [Hg Hd]. inversion Hg as [|? ? (A & B & F) Hg']; subst.
    destruct s as [|c s']; [discriminate A|].
    assert (Ec : N.eqb c slash = false).
    { destruct (N.eqb c slash) eqn:E; [|reflexivity]. apply N.eqb_eq in E. subst c. contradiction F. left. reflexivity. }
    assert (J : exists t, join_with slash ((c :: s') :: r) = c :: t).
    { cbn [join_with]. destruct r; [eauto|]. cbn [app]. eauto. }
    destruct J as (t & J).
    change (path_clean (join_with slash ((c :: s') :: r)) = join_with slash ((c :: s') :: r)).
    rewrite (path_clean_unrooted J Ec). cbn zeta.
    rewrite split_join by (try discriminate; exact Sf).
    rewrite (@clean_segs_normal_id false ((c :: s') :: r) []) by (split; assumption).
    cbn [rev app]. rewrite J. reflexivity.
Qed.

Lemma render_rooted rooted l : normal rooted l ->
  match render rooted l with c :: _ => N.eqb c slash | [] => false end = rooted.
Proof.
  intros [Hg _]. destruct rooted; unfold render; [reflexivity|].
  destruct l as [|s r]; [reflexivity|]. inversion Hg as [|? ? (A & B & F) _]; subst.
  destruct s as [|c s']; [discriminate A|]. cbn [join_with].
  assert (Ec : N.eqb c slash = false).
  { destruct (N.eqb c slash) eqn:E; [|reflexivity]. apply N.eqb_eq in E. subst c. contradiction F. left. reflexivity. }
  destruct r; cbn [app]; exact Ec.
Qed.

Theorem path_clean_idem p : path_clean (path_clean p) = path_clean p.
Proof. destruct (path_clean_shape p) as (l & N & E). cbn zeta in *. rewrite E. apply render_clean. exact N. Qed.

(* the elements of a cleaned path (split at "/"): "/" alone; or, rooted, an empty first element followed
   by good elements none of which is ".."; or, relative, "." alone or good elements with ".." only at
   the front.  Hence: no empty element except the leading one of a rooted path (no "//", no trailing
   "/" unless the path is "/"), no "." element unless the path is ".", ".." only at the front of a
   relative path *)
Theorem path_clean_elements p :
  let rooted := match p with c :: _ => N.eqb c slash | [] => false end in
  exists l, normal rooted l /\
    split_on slash (path_clean p) =
      match rooted, l with
      | true, [] => [[]; []]            (* "/" *)
      | true, _ => [] :: l
      | false, [] => [[dot]]            (* "." *)
      | false, _ => l
      end.
Proof.
  destruct (path_clean_shape p) as (l & N & E). cbn zeta in *. exists l. split; [exact N|]. rewrite E.
  pose proof (good_slashfree (proj1 N)) as Sf.
  destruct (match p with c :: _ => N.eqb c slash | [] => false end); unfold render.
  - cbn [split_on]. rewrite N.eqb_refl. destruct l as [|s r]; [reflexivity|].
    rewrite split_join by (try discriminate; exact Sf). reflexivity.
  - destruct l as [|s r]; [vm_compute; reflexivity|]. apply split_join; [discriminate|exact Sf].
Qed.

(* path.Join of two elements: idempotent under Clean, and Clean of the "/"-joined non-empty elements *)
Lemma path_join2_clean a b : path_join2 a b <> [] -> path_clean (path_join2 a b) = path_join2 a b.
Proof. unfold path_join2. destruct a, b; try congruence; intros _; apply path_clean_idem. Qed.

(* ------------------------------------------------------------------ *)
(* the transcription of the Go source computes the segment form         *)

(* the output buffer that corresponds to a stack of elements (stack reversed, as in clean_segs) *)
Definition bufs (rooted : bool) (st : list bstr) : bstr :=
  (if rooted then [slash] else []) ++ join_with slash (rev st).

Lemma join_snoc l s : join_with slash (l ++ [s]) = match l with [] => s | _ => join_with slash l ++ slash :: s end.
Proof.
  induction l as [|x l IH]; [reflexivity|]. cbn [app join_with]. destruct l as [|y l']; [reflexivity|].
  cbn [app] in *. rewrite IH. rewrite <- app_assoc. reflexivity.
Qed.

Lemma bufs_cons rooted s st :
  rev (bufs rooted (s :: st)) = rev s ++ (match st with [] => [] | _ => [slash] end) ++ rev (bufs rooted st).
Proof.
  destruct st as [|t st'].
  - unfold bufs. cbn [rev app join_with]. destruct rooted; cbn [app].
    + change (slash :: s) with ([slash] ++ s). rewrite rev_app_distr. reflexivity.
    + rewrite app_nil_r. reflexivity.
  - unfold bufs. change (rev (s :: t :: st')) with (rev (t :: st') ++ [s]).
    assert (E : rev (t :: st') <> []) by (cbn [rev]; destruct (rev st'); discriminate).
    remember (rev (t :: st')) as L eqn:EL. clear EL. rewrite join_snoc.
    destruct L as [|y l']; [congruence|].
    set (J := join_with slash (y :: l')). set (P := if rooted then [slash] else []).
    rewrite !rev_app_distr. cbn [rev]. rewrite <- !app_assoc. reflexivity.
Qed.

Lemma bufs_cons_len rooted s st : length (bufs rooted (s :: st)) = (length s + (match st with [] => 0 | _ => 1 end) + length (bufs rooted st))%nat.
Proof.
  rewrite <- (rev_length (bufs rooted (s :: st))), bufs_cons, !app_length, !rev_length. destruct st; cbn [length]; lia.
Qed.

Lemma good_len s : seg_good s -> (1 <= length s)%nat.
Proof. intros (A & _). destruct s; [discriminate A|cbn; lia]. Qed.

Lemma bufs_len_rooted st : Forall seg_good st -> (length (bufs true st) =? 1)%nat = match st with [] => true | _ => false end.
Proof.
  intros H. destruct st as [|s st']; [reflexivity|]. rewrite bufs_cons_len. inversion H as [|? ? G _]; subst.
  pose proof (good_len G). assert (1 <= length (bufs true st'))%nat by (unfold bufs; cbn [app length]; lia).
  apply Nat.eqb_neq. lia.
Qed.

Lemma bufs_len_rel st : Forall seg_good st -> (length (bufs false st) =? 0)%nat = match st with [] => true | _ => false end.
Proof.
  intros H. destruct st as [|s st']; [reflexivity|]. rewrite bufs_cons_len. inversion H as [|? ? G _]; subst.
  pose proof (good_len G). apply Nat.eqb_neq. lia.
Qed.

(* the part of the stack below which the output may not be cut back: from the topmost ".." down *)
Fixpoint ddpart (st : list bstr) : list bstr :=
  match st with [] => [] | s :: r => if is_dotdot s then s :: r else ddpart r end.
Definition ddvs (rooted : bool) (st : list bstr) : nat := if rooted then 1%nat else length (bufs false (ddpart st)).

Lemma ddpart_le st : (length (bufs false (ddpart st)) <= length (bufs false st))%nat.
Proof.
  induction st as [|s r IH]; [apply le_n|]. cbn [ddpart]. destruct (is_dotdot s); [apply le_n|]. rewrite bufs_cons_len. lia.
Qed.

(* out.w--; for out.w > dotdot && out.index(out.w) != '/' { out.w-- }  removes one element *)
Lemma back_seg u : forall base dd, ~ In slash u -> u <> [] -> (dd <= length base)%nat ->
  back (u ++ base) dd =
    if (dd <? length base)%nat then match base with x :: b0 => if is_slash x then b0 else back base dd | [] => [] end
    else base.
Proof.
  induction u as [|x u IH]; intros base dd Hs Hn Hd; [congruence|]. cbn [app back].
  assert (Hx : is_slash x = false).
  { unfold is_slash. destruct (N.eqb x slash) eqn:E; [|reflexivity]. apply N.eqb_eq in E. subst x. contradiction Hs. left. reflexivity. }
  rewrite Hx. cbn [negb]. rewrite andb_true_r. destruct u as [|y u'].
  - cbn [app]. destruct (dd <? length base)%nat eqn:L; [|reflexivity].
    destruct base as [|b0 base']; [reflexivity|]. cbn [back]. destruct (is_slash b0) eqn:Eb.
    + cbn [negb]. rewrite andb_false_r. reflexivity.
    + reflexivity.
  - assert (L : (dd <? length ((y :: u') ++ base))%nat = true) by (apply Nat.ltb_lt; rewrite app_length; cbn [length]; lia).
    rewrite L. apply IH; [intros H; apply Hs; right; exact H|discriminate|exact Hd].
Qed.

(* the copy loop of the default case *)
Lemma go_loop_copy rooted s : forall rest ro dd, ~ In slash s -> (rest = [] \/ exists q, rest = slash :: q) ->
  go_loop rooted true (s ++ rest) ro dd = go_loop rooted false (tl rest) (rev s ++ ro) dd.
Proof.
  induction s as [|c s IH]; intros rest ro dd Hs Hr.
  - cbn [app rev]. destruct Hr as [->|(q & ->)]; [reflexivity|]. cbn [go_loop tl]. unfold is_slash. rewrite N.eqb_refl. reflexivity.
  - cbn [app go_loop]. assert (Hc : is_slash c = false).
    { unfold is_slash. destruct (N.eqb c slash) eqn:E; [|reflexivity]. apply N.eqb_eq in E. subst c. contradiction Hs. left. reflexivity. }
    rewrite Hc. rewrite IH by (try (intros H; apply Hs; right; exact H); exact Hr). cbn [rev]. rewrite <- app_assoc. reflexivity.
Qed.

Lemma go_loop_nil rooted b ro dd : go_loop rooted b [] ro dd = ro.
Proof. reflexivity. Qed.

Lemma ends_elem_rest rest : (rest = [] \/ exists q, rest = slash :: q) -> ends_elem rest = true.
Proof. intros [->|(q & ->)]; reflexivity. Qed.

Lemma go_loop_skip rooted rest ro dd : (rest = [] \/ exists q, rest = slash :: q) ->
  go_loop rooted false rest ro dd = go_loop rooted false (tl rest) ro dd.
Proof. intros [->|(q & ->)]; [reflexivity|]. cbn [go_loop tl]. unfold is_slash. rewrite N.eqb_refl. reflexivity. Qed.

(* one path element s (followed by the end or by a "/") takes the buffer of stack st to the buffer of
   the stack clean_segs would continue with *)
Definition seg_step (rooted : bool) (s : bstr) (st : list bstr) : list bstr :=
  if is_empty s || is_dot s then st
  else if is_dotdot s then
    match st with
    | top :: rest => if is_dotdot top then s :: st else rest
    | [] => if rooted then [] else [s]
    end
  else s :: st.

Lemma clean_segs_step rooted s r st : clean_segs rooted (s :: r) st = clean_segs rooted r (seg_step rooted s st).
Proof.
  cbn [clean_segs]. unfold seg_step. destruct (is_empty s || is_dot s); [reflexivity|].
  destruct (is_dotdot s); [|reflexivity]. destruct st as [|top rest]; [destruct rooted; reflexivity|].
  destruct (is_dotdot top); reflexivity.
Qed.

Lemma ddpart_all st : forallb is_dotdot st = true -> ddpart st = st.
Proof. destruct st as [|s r]; [reflexivity|]. cbn [forallb ddpart]. intros H. apply andb_true_iff in H. destruct H as [H _]. rewrite H. reflexivity. Qed.

Lemma go_loop_seg rooted s rest st :
  slashfree s -> (rest = [] \/ exists q, rest = slash :: q) -> Forall seg_good st -> stack_ok rooted st ->
  go_loop rooted false (s ++ rest) (rev (bufs rooted st)) (ddvs rooted st)
  = go_loop rooted false (tl rest) (rev (bufs rooted (seg_step rooted s st))) (ddvs rooted (seg_step rooted s st)).
Proof.
  intros Hs Hr Hg Hk. unfold seg_step.
  destruct s as [|c s1].
  { (* empty element *) cbn [app is_empty orb]. apply go_loop_skip. exact Hr. }
  assert (Hc : is_slash c = false).
  { unfold is_slash. destruct (N.eqb c slash) eqn:E; [|reflexivity]. apply N.eqb_eq in E. subst c. contradiction Hs. left. reflexivity. }
  assert (Hs1 : ~ In slash s1) by (intros H; apply Hs; right; exact H).
  cbn [is_empty orb].
  (* the separator the default case writes *)
  assert (Sep : (if (if rooted then negb (length (rev (bufs rooted st)) =? 1)%nat else negb (length (rev (bufs rooted st)) =? 0)%nat)
                 then slash :: rev (bufs rooted st) else rev (bufs rooted st))
                = (match st with [] => [] | _ => [slash] end) ++ rev (bufs rooted st)).
  { rewrite rev_length. destruct rooted; [rewrite (bufs_len_rooted Hg)|rewrite (bufs_len_rel Hg)]; destruct st; reflexivity. }
  assert (Default : is_dot (c :: s1) = false -> is_dotdot (c :: s1) = false ->
           go_loop rooted false ((c :: s1) ++ rest) (rev (bufs rooted st)) (ddvs rooted st)
           = go_loop rooted false (tl rest) (rev (bufs rooted ((c :: s1) :: st))) (ddvs rooted ((c :: s1) :: st))).
  { intros Nd Ndd.
    assert (Dv : ddvs rooted ((c :: s1) :: st) = ddvs rooted st).
    { unfold ddvs. destruct rooted; [reflexivity|]. cbn [ddpart]. rewrite Ndd. reflexivity. }
    rewrite Dv, bufs_cons. cbn [rev]. rewrite <- app_assoc. cbn [app].
    cbn [app go_loop]. rewrite Hc.
    destruct s1 as [|d s2].
    - (* one byte, not "." *)
      assert (Ed : is_dotc c = false) by (unfold is_dotc; cbn [is_dot] in Nd; exact Nd).
      rewrite Ed. cbn [andb app]. destruct rest as [|x q].
      + rewrite Sep. reflexivity.
      + destruct Hr as [Hr|(q' & Hr)]; [discriminate|]. injection Hr as -> ->.
        rewrite Sep. cbn [go_loop tl]. unfold is_slash at 1. rewrite N.eqb_refl. reflexivity.
    - cbn [app]. assert (Hd : is_slash d = false).
      { unfold is_slash. destruct (N.eqb d slash) eqn:E; [|reflexivity]. apply N.eqb_eq in E. subst d. contradiction Hs1. left. reflexivity. }
      cbn [ends_elem]. rewrite Hd, andb_false_r.
      assert (NotDD : (is_dotc c && is_dotc d && ends_elem (s2 ++ rest)) = false).
      { destruct (is_dotc c) eqn:Ec; [|reflexivity]. destruct (is_dotc d) eqn:Ed; [|reflexivity]. cbn [andb].
        destruct s2 as [|e s3].
        - exfalso. cbn [is_dotdot] in Ndd. unfold is_dotc in Ec, Ed. rewrite Ec, Ed in Ndd. discriminate.
        - cbn [app ends_elem]. unfold is_slash. destruct (N.eqb e slash) eqn:E; [|reflexivity].
          apply N.eqb_eq in E. subst e. exfalso. apply Hs1. right. left. reflexivity. }
      rewrite NotDD. rewrite Sep.
      change (d :: s2 ++ rest) with ((d :: s2) ++ rest).
      rewrite (@go_loop_copy rooted (d :: s2) rest _ _ Hs1 Hr). cbn [rev]. rewrite <- !app_assoc. reflexivity. }
  destruct (is_dot (c :: s1)) eqn:Nd.
  { (* "." *)
    destruct s1; [|discriminate Nd]. cbn [is_dot] in Nd. cbn [app go_loop]. rewrite Hc.
    unfold is_dotc. rewrite Nd, (ends_elem_rest Hr). cbn [andb]. apply go_loop_skip. exact Hr. }
  destruct (is_dotdot (c :: s1)) eqn:Ndd; [|apply Default; reflexivity].
  (* ".." *)
  destruct s1 as [|d [|e s3]]; try discriminate Ndd. cbn [is_dotdot] in Ndd. apply andb_true_iff in Ndd. destruct Ndd as [Ec Ed].
  apply N.eqb_eq in Ec, Ed. subst c d. clear Default.
  cbn [app go_loop]. rewrite Hc. change (is_dotc dot) with true. cbn [andb ends_elem].
  change (is_slash dot) with false. cbn [andb]. rewrite (ends_elem_rest Hr). rewrite rev_length.
  destruct st as [|top rest'].
  - (* nothing to cut back *)
    destruct rooted.
    + cbn [ddvs bufs rev join_with app length Nat.ltb Nat.leb]. apply go_loop_skip. exact Hr.
    + cbn [ddvs ddpart bufs rev join_with app length Nat.ltb Nat.leb].
      rewrite (go_loop_skip false _ _ Hr). reflexivity.
  - inversion Hg as [|? ? Gt Hg']; subst.
    destruct (is_dotdot top) eqn:Et.
    + (* the top is "..": relative, everything below is ".." too; append *)
      destruct rooted; cbn [stack_ok] in Hk.
      { cbn [forallb] in Hk. unfold nd at 1 in Hk. rewrite Et in Hk. discriminate. }
      cbn [st_ok] in Hk. rewrite Et in Hk.
      assert (All : forallb is_dotdot (top :: rest') = true) by (cbn [forallb]; rewrite Et, Hk; reflexivity).
      unfold ddvs at 1. rewrite (ddpart_all _ All). rewrite Nat.ltb_irrefl.
      assert (Ne : rev (bufs false (top :: rest')) <> []).
      { intros H. apply (f_equal (@length N)) in H. rewrite rev_length, bufs_cons_len in H. pose proof (good_len Gt). cbn [length] in H. lia. }
      destruct (rev (bufs false (top :: rest'))) as [|z zs] eqn:R; [congruence|].
      rewrite (go_loop_skip false _ _ Hr).
      match goal with |- _ = go_loop _ _ _ (rev (bufs false ?x)) _ =>
        assert (B : rev (bufs false x) = dot :: dot :: slash :: z :: zs) by (rewrite bufs_cons, R; reflexivity);
        rewrite B; unfold ddvs; cbn [ddpart]; change (is_dotdot [dot; dot]) with true; cbn iota;
        rewrite <- (rev_length (bufs false x)), B
      end. reflexivity.
    + (* cut the top element off *)
      assert (Dv : ddvs rooted (top :: rest') = ddvs rooted rest').
      { unfold ddvs. destruct rooted; [reflexivity|]. cbn [ddpart]. rewrite Et. reflexivity. }
      assert (Le : (ddvs rooted rest' <= length (bufs rooted rest'))%nat).
      { unfold ddvs. destruct rooted; [unfold bufs; cbn [app length]; lia|apply ddpart_le]. }
      assert (Lt : (ddvs rooted (top :: rest') <? length (bufs rooted (top :: rest')))%nat = true).
      { rewrite Dv. apply Nat.ltb_lt. rewrite bufs_cons_len. pose proof (good_len Gt). lia. }
      rewrite Lt. rewrite Dv. rewrite bufs_cons.
      destruct Gt as (Gt1 & Gt2 & Gt3).
      assert (Hu : ~ In slash (rev top)) by (intros H; apply Gt3; apply in_rev; exact H).
      assert (Hn : rev top <> []) by (destruct top; [discriminate Gt1|cbn [rev]; destruct (rev top); discriminate]).
      rewrite (go_loop_skip rooted _ _ Hr).
      f_equal.
      destruct rest' as [|t2 rest''].
      * (* the stack becomes empty *)
        cbn [app]. rewrite (@back_seg (rev top) (rev (bufs rooted [])) (ddvs rooted []) Hu Hn) by (rewrite rev_length; exact Le).
        rewrite rev_length. destruct rooted; reflexivity.
      * cbn [app].
        rewrite (@back_seg (rev top) (slash :: rev (bufs rooted (t2 :: rest''))) (ddvs rooted (t2 :: rest'')) Hu Hn)
          by (cbn [length]; rewrite rev_length; lia).
        cbn [length]. rewrite rev_length.
        assert (L2 : (ddvs rooted (t2 :: rest'') <? S (length (bufs rooted (t2 :: rest''))))%nat = true) by (apply Nat.ltb_lt; lia).
        rewrite L2. unfold is_slash. rewrite N.eqb_refl. reflexivity.
Qed.

Lemma seg_step_ok rooted s st : slashfree s -> Forall seg_good st -> stack_ok rooted st ->
  Forall seg_good (seg_step rooted s st) /\ stack_ok rooted (seg_step rooted s st).
Proof.
  intros Hs Hg Hk. unfold seg_step.
  destruct (is_empty s || is_dot s) eqn:E; [split; assumption|].
  apply orb_false_iff in E. destruct E as [E1 E2].
  assert (G : seg_good s) by (repeat split; assumption).
  destruct (is_dotdot s) eqn:Ed.
  - destruct st as [|top rest].
    + destruct rooted; [split; [constructor|reflexivity]|]. split; [constructor; [exact G|constructor]|].
      cbn [stack_ok st_ok]. rewrite Ed. reflexivity.
    + destruct (is_dotdot top) eqn:Et.
      * split; [constructor; assumption|]. destruct rooted; cbn [stack_ok] in *.
        -- cbn [forallb] in Hk. unfold nd at 1 in Hk. rewrite Et in Hk. discriminate.
        -- cbn [st_ok] in *. rewrite Et in Hk. rewrite Ed. cbn [forallb]. rewrite Et, Hk. reflexivity.
      * inversion Hg; subst. split; [assumption|]. destruct rooted; cbn [stack_ok] in *.
        -- cbn [forallb] in Hk. apply andb_true_iff in Hk. apply Hk.
        -- cbn [st_ok] in Hk. rewrite Et in Hk. exact Hk.
  - split; [constructor; assumption|]. destruct rooted; cbn [stack_ok] in *.
    + cbn [forallb]. unfold nd at 1. rewrite Ed. exact Hk.
    + cbn [st_ok]. rewrite Ed. exact Hk.
Qed.

Lemma go_loop_segs rooted : forall segs st, Forall slashfree segs -> Forall seg_good st -> stack_ok rooted st ->
  go_loop rooted false (join_with slash segs) (rev (bufs rooted st)) (ddvs rooted st)
  = rev ((if rooted then [slash] else []) ++ join_with slash (clean_segs rooted segs st)).
Proof.
  induction segs as [|s r IH]; intros st Hs Hg Hk.
  - reflexivity.
  - inversion Hs as [|? ? Hs1 Hs2]; subst. destruct (seg_step_ok rooted Hs1 Hg Hk) as (Hg' & Hk').
    rewrite clean_segs_step. cbn [join_with]. destruct r as [|s2 r'].
    + rewrite <- (app_nil_r s) at 1. rewrite (@go_loop_seg rooted s [] st Hs1 (or_introl eq_refl) Hg Hk). reflexivity.
    + rewrite (@go_loop_seg rooted s (slash :: join_with slash (s2 :: r')) st Hs1 (or_intror (ex_intro _ _ eq_refl)) Hg Hk).
      cbn [tl]. apply IH; assumption.
Qed.

Lemma match_rev_nonempty (x : list N) : x <> [] -> match rev x with [] => [dot] | _ => rev (rev x) end = x.
Proof.
  intros H. destruct (rev x) eqn:R.
  - apply (f_equal (@length N)) in R. rewrite rev_length in R. destruct x; [congruence|discriminate R].
  - rewrite <- R. apply rev_involutive.
Qed.

(* THE TIE between the two forms: the byte-level transcription of path.Clean computes path_clean *)
Theorem go_clean_is_path_clean p : go_clean p = path_clean p.
Proof.
  destruct p as [|c r]; [reflexivity|]. unfold go_clean, path_clean, is_slash. cbv zeta.
  set (p := c :: r).
  destruct (N.eqb c slash) eqn:E.
  - pose proof (@go_loop_segs true (split_on slash p) [] (split_slashfree p) (Forall_nil _) eq_refl) as H.
    change (rev (bufs true [])) with [slash] in H. change (ddvs true []) with 1%nat in H. rewrite join_split in H. rewrite H.
    apply match_rev_nonempty. discriminate.
  - pose proof (@go_loop_segs false (split_on slash p) [] (split_slashfree p) (Forall_nil _) eq_refl) as H.
    change (rev (bufs false [])) with (@nil N) in H. change (ddvs false []) with 0%nat in H. rewrite join_split in H. rewrite H.
    cbn [app]. destruct (join_with slash (clean_segs false (split_on slash p) [])) as [|x o]; [reflexivity|].
    apply match_rev_nonempty. discriminate.
Qed.

(* a trailing "/" does not matter (Join appends one when a later element is empty) *)
Lemma clean_segs_trailing_empty rooted : forall l st, clean_segs rooted (l ++ [[]]) st = clean_segs rooted l st.
Proof.
  induction l as [|s r IH]; intros st; [reflexivity|]. cbn [app clean_segs].
  destruct (is_empty s || is_dot s); [apply IH|]. destruct (is_dotdot s); [|apply IH].
  destruct st as [|top rest]; [destruct rooted; apply IH|]. destruct (is_dotdot top); apply IH.
Qed.

Lemma path_clean_trailing_slash x a : path_clean ((x :: a) ++ [slash]) = path_clean (x :: a).
Proof.
  unfold path_clean. cbn [app]. change (x :: a ++ [slash]) with ((x :: a) ++ slash :: []).
  rewrite split_app. change (split_on slash []) with [@nil N]. rewrite clean_segs_trailing_empty. reflexivity.
Qed.

(* path.Join of two elements *)
Theorem go_join2_is_path_join2 a b : go_join [a; b] = path_join2 a b.
Proof.
  unfold go_join, path_join2. destruct a as [|x a], b as [|y b]; cbn [forallb andb join_elems]; try reflexivity;
    rewrite go_clean_is_path_clean; try reflexivity. apply path_clean_trailing_slash.
Qed.

(* `normal` in plain words *)
Lemma is_dotdot_eq s : is_dotdot s = true <-> s = [dot; dot].
Proof.
  split; [|intros ->; reflexivity]. destruct s as [|c [|d [|e r]]]; cbn [is_dotdot]; try discriminate.
  intros H. apply andb_true_iff in H. destruct H as [A B]. apply N.eqb_eq in A, B. subst. reflexivity.
Qed.

Lemma dd_front_spec l : dd_front l = true -> forall a s b, l = a ++ s :: b -> s = [dot; dot] -> Forall (fun x => x = [dot; dot]) a.
Proof.
  intros H a s b -> Hs. apply is_dotdot_eq in Hs. pose proof (dd_front_app_dd _ _ _ H Hs) as F.
  apply Forall_forall. intros x Hx. apply is_dotdot_eq. rewrite forallb_forall in F. apply F. exact Hx.
Qed.

Lemma normal_spelled rooted l : normal rooted l ->
  Forall (fun s => s <> [] /\ s <> [dot] /\ ~ In slash s) l /\
  (rooted = true -> Forall (fun s => s <> [dot; dot]) l) /\
  (rooted = false -> forall a s b, l = a ++ s :: b -> s = [dot; dot] -> Forall (fun x => x = [dot; dot]) a).
Proof.
  intros [Hg Hd]. split; [|split].
  - eapply Forall_impl; [|exact Hg]. intros s (A & B & C). repeat split.
    + intros ->. discriminate A.
    + intros ->. discriminate B.
    + exact C.
  - intros ->. apply Forall_forall. intros s Hs E. rewrite forallb_forall in Hd. specialize (Hd s Hs).
    unfold nd in Hd. apply is_dotdot_eq in E. rewrite E in Hd. discriminate.
  - intros ->. apply dd_front_spec. exact Hd.
Qed.
