(* Proofs about Base/Path.v: strings.Split/Join facts, path.Clean / path.Join over segments, and the
   equivalence of the byte-level transcription of the Go source with the segment form. *)
From Coq Require Import List Bool NArith Arith Lia.
Import ListNotations.
From Setec Require Import Base.Path.

(* ------------------------------------------------------------------ *)
(* strings.Split / strings.Join / path.Clean / path.Join               *)

Lemma split_on_cons sep s : exists seg segs, split_on sep s = seg :: segs.
Proof.
  destruct s as [|c r]; cbn [split_on]; [eauto|].
  destruct (N.eqb c sep); [eauto|]. destruct (split_on sep r); eauto.
Qed.

Lemma join_split sep s : join_with sep (split_on sep s) = s.
Proof.
  induction s as [|c r IH]; [reflexivity|]. cbn [split_on].
  destruct (N.eqb c sep) eqn:E.
  - apply N.eqb_eq in E. subst c.
    destruct (split_on_cons sep r) as (seg & segs & H). rewrite H in *.
    cbn [join_with app]. cbn [join_with] in IH. rewrite IH. reflexivity.
  - destruct (split_on_cons sep r) as (seg & segs & H). rewrite H in *.
    cbn [join_with] in *. destruct segs; [rewrite IH; reflexivity|].
    rewrite <- IH. reflexivity.
Qed.

Lemma split_app sep a b : split_on sep (a ++ sep :: b) = split_on sep a ++ split_on sep b.
Proof.
  induction a as [|c r IH]; cbn [app split_on].
  - rewrite N.eqb_refl. reflexivity.
  - destruct (N.eqb c sep); [rewrite IH; reflexivity|].
    rewrite IH. destruct (split_on_cons sep r) as (seg & segs & H). rewrite H. reflexivity.
Qed.

Lemma seg_ok_inv s : seg_ok s = true -> (is_empty s || is_dot s) = false /\ is_dotdot s = false.
Proof.
  unfold seg_ok. destruct (is_empty s), (is_dot s), (is_dotdot s); cbn; intuition congruence.
Qed.

Lemma clean_segs_ok segs : forall st, forallb seg_ok segs = true -> clean_segs false segs st = rev st ++ segs.
Proof.
  induction segs as [|s r IH]; intros st H; cbn [clean_segs].
  - rewrite app_nil_r. reflexivity.
  - cbn [forallb] in H. apply andb_true_iff in H. destruct H as [Hs Hr].
    destruct (seg_ok_inv _ Hs) as [E1 E2]. rewrite E1, E2.
    rewrite IH by exact Hr. cbn [rev]. rewrite <- app_assoc. reflexivity.
Qed.

Lemma clean_nonempty p : clean p = true -> p <> [].
Proof. intros H ->. discriminate H. Qed.

Lemma clean_not_rooted c r : clean (c :: r) = true -> N.eqb c slash = false.
Proof.
  unfold clean. cbn [split_on]. destruct (N.eqb c slash); [|reflexivity].
  cbn [forallb seg_ok is_empty orb negb andb]. discriminate.
Qed.

Lemma path_clean_id p : clean p = true -> path_clean p = p.
Proof.
  intro H. destruct p as [|c r]; [discriminate H|].
  unfold path_clean. rewrite (clean_not_rooted _ _ H).
  rewrite clean_segs_ok by exact H. cbn [rev app]. rewrite join_split. reflexivity.
Qed.

Lemma clean_join a b : clean a = true -> clean b = true -> clean (a ++ slash :: b) = true.
Proof. unfold clean. intros Ha Hb. rewrite split_app, forallb_app, Ha, Hb. reflexivity. Qed.

(* path.Join on the property's domain *)
Lemma path_join_clean a b : clean a = true -> clean b = true -> path_join2 a b = a ++ slash :: b.
Proof.
  intros Ha Hb. pose proof (clean_nonempty _ Ha). pose proof (clean_nonempty _ Hb).
  destruct a; [congruence|]. destruct b; [congruence|].
  unfold path_join2. apply path_clean_id. apply clean_join; assumption.
Qed.

Lemma path_join_noprefix b : clean b = true -> path_join2 [] b = b.
Proof.
  intros Hb. pose proof (clean_nonempty _ Hb). destruct b; [congruence|].
  unfold path_join2. apply path_clean_id. assumption.
Qed.


(* ------------------------------------------------------------------ *)
(* the shape of a cleaned path                                          *)
Set Implicit Arguments.

Definition slashfree (s : bstr) : Prop := ~ In slash s.
(* a path element as it may occur in a cleaned path: not empty, not ".", no "/" inside *)
Definition seg_good (s : bstr) : Prop := is_empty s = false /\ is_dot s = false /\ slashfree s.
Definition nd (s : bstr) : bool := negb (is_dotdot s).
(* ".." elements only at the front *)
Fixpoint dd_front (l : list bstr) : bool :=
  match l with [] => true | s :: r => if is_dotdot s then dd_front r else forallb nd r end.
(* the element list of a cleaned path: rooted - no ".." at all; relative - ".." only at the front *)
Definition normal (rooted : bool) (l : list bstr) : Prop :=
  Forall seg_good l /\ (if rooted then forallb nd l = true else dd_front l = true).
Definition render (rooted : bool) (l : list bstr) : bstr :=
  if rooted then slash :: join_with slash l else match l with [] => [dot] | _ => join_with slash l end.

Lemma split_slashfree p : Forall slashfree (split_on slash p).
Proof.
  induction p as [|c r IH]; cbn [split_on].
  - constructor; [intros []|constructor].
  - destruct (N.eqb c slash) eqn:E.
    + constructor; [intros []|exact IH].
    + destruct (split_on slash r) as [|seg segs]; [constructor; [|constructor]|].
      * intros [H|[]]. subst c. rewrite N.eqb_refl in E. discriminate.
      * inversion IH as [|? ? H1 H2]; subst. constructor; [|exact H2].
        intros [H|H]; [subst c; rewrite N.eqb_refl in E; discriminate|exact (H1 H)].
Qed.

(* the stack of clean_segs (reversed): if its top is ".." everything below is ".." *)
Fixpoint st_ok (st : list bstr) : bool :=
  match st with [] => true | s :: r => if is_dotdot s then forallb is_dotdot r else st_ok r end.
Definition stack_ok (rooted : bool) (st : list bstr) : Prop :=
  if rooted then forallb nd st = true else st_ok st = true.

Lemma forallb_rev {A} (f : A -> bool) l : forallb f (rev l) = forallb f l.
Proof.
  induction l as [|x l IH]; [reflexivity|]. cbn [rev forallb]. rewrite forallb_app, IH. cbn [forallb].
  rewrite andb_true_r. apply andb_comm.
Qed.

Lemma dd_front_snoc a s : dd_front (a ++ [s]) = if is_dotdot s then forallb is_dotdot a else dd_front a.
Proof.
  induction a as [|x a IH]; cbn [app dd_front forallb].
  - destruct (is_dotdot s); reflexivity.
  - destruct (is_dotdot x) eqn:Ex.
    + rewrite IH. destruct (is_dotdot s); reflexivity.
    + rewrite forallb_app. cbn [forallb]. unfold nd at 2. destruct (is_dotdot s); cbn [negb andb].
      * rewrite andb_false_r. reflexivity.
      * rewrite !andb_true_r. reflexivity.
Qed.

Lemma st_ok_rev st : dd_front (rev st) = st_ok st.
Proof.
  induction st as [|s st IH]; [reflexivity|]. cbn [rev st_ok]. rewrite dd_front_snoc, IH, forallb_rev. reflexivity.
Qed.

Lemma good_not_empty_dot s : seg_good s -> (is_empty s || is_dot s) = false.
Proof. intros (A & B & _). rewrite A, B. reflexivity. Qed.

Lemma clean_segs_normal rooted : forall segs st,
  Forall slashfree segs -> Forall seg_good st -> stack_ok rooted st -> normal rooted (clean_segs rooted segs st).
Proof.
  induction segs as [|s r IH]; intros st Hs Hg Hk; cbn [clean_segs].
  - split; [apply Forall_rev; exact Hg|]. destruct rooted; cbn [stack_ok] in Hk.
    + rewrite forallb_rev. exact Hk.
    + rewrite st_ok_rev. exact Hk.
  - inversion Hs as [|? ? Hs1 Hs2]; subst.
    destruct (is_empty s || is_dot s) eqn:E; [apply IH; assumption|].
    apply orb_false_iff in E. destruct E as [E1 E2].
    assert (G : seg_good s) by (repeat split; assumption).
    destruct (is_dotdot s) eqn:Ed.
    + destruct st as [|top rest].
      * destruct rooted; [apply IH; assumption|]. apply IH; [assumption|constructor; [exact G|constructor]|].
        cbn [stack_ok st_ok]. rewrite Ed. reflexivity.
      * destruct (is_dotdot top) eqn:Et.
        -- apply IH; [assumption|constructor; assumption|]. destruct rooted; cbn [stack_ok] in *.
           ++ cbn [forallb] in Hk. unfold nd at 1 in Hk. rewrite Et in Hk. discriminate.
           ++ cbn [st_ok] in *. rewrite Et in Hk. rewrite Ed. cbn [forallb]. rewrite Et, Hk. reflexivity.
        -- inversion Hg; subst. apply IH; [assumption|assumption|]. destruct rooted; cbn [stack_ok] in *.
           ++ cbn [forallb] in Hk. apply andb_true_iff in Hk. apply Hk.
           ++ cbn [st_ok] in Hk. rewrite Et in Hk. exact Hk.
    + apply IH; [assumption|constructor; assumption|]. destruct rooted; cbn [stack_ok] in *.
      * cbn [forallb]. unfold nd at 1. rewrite Ed. exact Hk.
      * cbn [st_ok]. rewrite Ed. exact Hk.
Qed.

(* THE SHAPE: every cleaned path is the rendering of a normal element list *)
Theorem path_clean_shape p :
  let rooted := match p with c :: _ => N.eqb c slash | [] => false end in
  exists l, normal rooted l /\ path_clean p = render rooted l.
Proof.
  destruct p as [|c r]; cbn zeta.
  - exists []. split; [split; [constructor|reflexivity]|reflexivity].
  - set (rooted := N.eqb c slash). set (l := clean_segs rooted (split_on slash (c :: r)) []).
    assert (Nl : normal rooted l).
    { apply clean_segs_normal; [apply split_slashfree|constructor|destruct rooted; reflexivity]. }
    exists l. split; [exact Nl|]. unfold path_clean. fold rooted. fold l. unfold render.
    destruct rooted; [reflexivity|]. destruct l as [|s l']; [reflexivity|].
    destruct Nl as [Hg _]. inversion Hg as [|? ? (A & _) _]; subst.
    destruct (join_with slash (s :: l')) eqn:J; [|reflexivity]. exfalso.
    cbn [join_with] in J. destruct s; [discriminate A|]. destruct l'; discriminate J.
Qed.

(* ---- idempotence *)
Lemma dd_front_app_dd a : forall s r, dd_front (a ++ s :: r) = true -> is_dotdot s = true -> forallb is_dotdot a = true.
Proof.
  induction a as [|x a IH]; intros s r H Hs; [reflexivity|]. cbn [app dd_front forallb] in *.
  destruct (is_dotdot x) eqn:Ex; [apply (IH _ _ H Hs)|]. exfalso.
  rewrite forallb_app in H. cbn [forallb] in H. unfold nd at 2 in H. rewrite Hs in H. cbn in H.
  rewrite andb_false_r in H. discriminate.
Qed.

Lemma clean_segs_normal_id rooted : forall l st, normal rooted (rev st ++ l) -> clean_segs rooted l st = rev st ++ l.
Proof.
  induction l as [|s r IH]; intros st N; cbn [clean_segs]; [rewrite app_nil_r; reflexivity|].
  assert (N' : normal rooted (rev (s :: st) ++ r)) by (cbn [rev]; rewrite <- app_assoc; exact N).
  destruct N as [Hg Hd]. apply Forall_app in Hg. destruct Hg as [_ Hg]. inversion Hg as [|? ? G _]; subst.
  rewrite (good_not_empty_dot G).
  destruct (is_dotdot s) eqn:Ed.
  - destruct rooted.
    { rewrite forallb_app in Hd. cbn [forallb] in Hd. unfold nd at 2 in Hd. rewrite Ed in Hd. cbn in Hd.
      rewrite andb_false_r in Hd. discriminate. }
    pose proof (dd_front_app_dd _ _ _ Hd Ed) as A. rewrite forallb_rev in A.
    destruct st as [|top rest].
    + rewrite (IH [s] N'). cbn [rev app]. reflexivity.
    + cbn [forallb] in A. apply andb_true_iff in A. destruct A as [A _]. rewrite A.
      rewrite (IH (s :: top :: rest) N'). cbn [rev]. rewrite <- !app_assoc. reflexivity.
  - rewrite (IH (s :: st) N'). cbn [rev]. rewrite <- app_assoc. reflexivity.
Qed.

Lemma split_slashfree_one s : slashfree s -> split_on slash s = [s].
Proof.
  induction s as [|c r IH]; intros H; [reflexivity|]. cbn [split_on].
  destruct (N.eqb c slash) eqn:E; [apply N.eqb_eq in E; subst c; contradiction H; left; reflexivity|].
  rewrite IH; [reflexivity|]. intros Hin. apply H. right. exact Hin.
Qed.

Lemma split_join l : l <> [] -> Forall slashfree l -> split_on slash (join_with slash l) = l.
Proof.
  induction l as [|s r IH]; intros Hn Hf; [congruence|]. inversion Hf as [|? ? H1 H2]; subst.
  cbn [join_with]. destruct r as [|s' r']; [apply split_slashfree_one; exact H1|].
  rewrite split_app, (split_slashfree_one H1), IH; [reflexivity|discriminate|exact H2].
Qed.

Lemma good_slashfree l : Forall seg_good l -> Forall slashfree l.
Proof. intros H. eapply Forall_impl; [|exact H]. intros s (_ & _ & F). exact F. Qed.

Lemma path_clean_unrooted j c t : j = c :: t -> N.eqb c slash = false ->
  path_clean j = let out := join_with slash (clean_segs false (split_on slash j) []) in
                 match out with [] => [dot] | _ => out end.
Proof. intros -> E. unfold path_clean. rewrite E. reflexivity. Qed.

Lemma render_clean rooted l : normal rooted l -> path_clean (render rooted l) = render rooted l.
Proof.
  intros N. pose proof (good_slashfree (proj1 N)) as Sf. destruct rooted; unfold render.
  - unfold path_clean. rewrite N.eqb_refl. cbn [split_on]. rewrite N.eqb_refl. cbn [clean_segs is_empty orb].
    destruct l as [|s r].
    + reflexivity.
    + rewrite split_join by (try discriminate; exact Sf).
      rewrite (@clean_segs_normal_id true (s :: r) []) by exact N. reflexivity.
  - destruct l as [|s r]; [vm_compute; reflexivity|].
    destruct N as [Hg Hd]. inversion Hg as [|? ? (A & B & F) Hg']; subst.
    destruct s as [|c s']; [discriminate A|].
    assert (Ec : N.eqb c slash = false).
    { destruct (N.eqb c slash) eqn:E; [|reflexivity]. apply N.eqb_eq in E. subst c. contradiction F. left. reflexivity. }
    assert (J : exists t, join_with slash ((c :: s') :: r) = c :: t).
    { cbn [join_with]. destruct r; [eauto|]. cbn [app]. eauto. }
    destruct J as (t & J).
    change (path_clean (join_with slash ((c :: s') :: r)) = join_with slash ((c :: s') :: r)).
    rewrite (path_clean_unrooted J Ec). cbn zeta.
    rewrite split_join by (try discriminate; exact Sf).
    rewrite (@clean_segs_normal_id false ((c :: s') :: r) []) by (split; assumption).
    cbn [rev app]. rewrite J. reflexivity.
Qed.

Lemma render_rooted rooted l : normal rooted l ->
  match render rooted l with c :: _ => N.eqb c slash | [] => false end = rooted.
Proof.
  intros [Hg _]. destruct rooted; unfold render; [reflexivity|].
  destruct l as [|s r]; [reflexivity|]. inversion Hg as [|? ? (A & B & F) _]; subst.
  destruct s as [|c s']; [discriminate A|]. cbn [join_with].
  assert (Ec : N.eqb c slash = false).
  { destruct (N.eqb c slash) eqn:E; [|reflexivity]. apply N.eqb_eq in E. subst c. contradiction F. left. reflexivity. }
  destruct r; cbn [app]; exact Ec.
Qed.

Theorem path_clean_idem p : path_clean (path_clean p) = path_clean p.
Proof. destruct (path_clean_shape p) as (l & N & E). cbn zeta in *. rewrite E. apply render_clean. exact N. Qed.

(* the elements of a cleaned path (split at "/"): "/" alone; or, rooted, an empty first element followed
   by good elements none of which is ".."; or, relative, "." alone or good elements with ".." only at
   the front.  Hence: no empty element except the leading one of a rooted path (no "//", no trailing
   "/" unless the path is "/"), no "." element unless the path is ".", ".." only at the front of a
   relative path *)
Theorem path_clean_elements p :
  let rooted := match p with c :: _ => N.eqb c slash | [] => false end in
  exists l, normal rooted l /\
    split_on slash (path_clean p) =
      match rooted, l with
      | true, [] => [[]; []]            (* "/" *)
      | true, _ => [] :: l
      | false, [] => [[dot]]            (* "." *)
      | false, _ => l
      end.
Proof.
  destruct (path_clean_shape p) as (l & N & E). cbn zeta in *. exists l. split; [exact N|]. rewrite E.
  pose proof (good_slashfree (proj1 N)) as Sf.
  destruct (match p with c :: _ => N.eqb c slash | [] => false end); unfold render.
  - cbn [split_on]. rewrite N.eqb_refl. destruct l as [|s r]; [reflexivity|].
    rewrite split_join by (try discriminate; exact Sf). reflexivity.
  - destruct l as [|s r]; [vm_compute; reflexivity|]. apply split_join; [discriminate|exact Sf].
Qed.

(* path.Join of two elements: idempotent under Clean, and Clean of the "/"-joined non-empty elements *)
Lemma path_join2_clean a b : path_join2 a b <> [] -> path_clean (path_join2 a b) = path_join2 a b.
Proof. unfold path_join2. destruct a, b; try congruence; intros _; apply path_clean_idem. Qed.
