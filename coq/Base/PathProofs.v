(* Proofs about Base/Path.v: strings.Split/Join facts, path.Clean / path.Join over segments, and the
   equivalence of the byte-level transcription of the Go source with the segment form. *)
From Coq Require Import List Bool NArith Arith Lia.
Import ListNotations.
From Setec Require Import Base.Path.

(* ------------------------------------------------------------------ *)
(* strings.Split / strings.Join / path.Clean / path.Join               *)

Lemma split_on_cons sep s : exists seg segs, split_on sep s = seg :: segs.
Proof.
  destruct s as [|c r]; cbn [split_on]; [eauto|].
  destruct (N.eqb c sep); [eauto|]. destruct (split_on sep r); eauto.
Qed.

Lemma join_split sep s : join_with sep (split_on sep s) = s.
Proof.
  induction s as [|c r IH]; [reflexivity|]. cbn [split_on].
  destruct (N.eqb c sep) eqn:E.
  - apply N.eqb_eq in E. subst c.
    destruct (split_on_cons sep r) as (seg & segs & H). rewrite H in *.
    cbn [join_with app]. cbn [join_with] in IH. rewrite IH. reflexivity.
  - destruct (split_on_cons sep r) as (seg & segs & H). rewrite H in *.
    cbn [join_with] in *. destruct segs; [rewrite IH; reflexivity|].
    rewrite <- IH. reflexivity.
Qed.

Lemma split_app sep a b : split_on sep (a ++ sep :: b) = split_on sep a ++ split_on sep b.
Proof.
  induction a as [|c r IH]; cbn [app split_on].
  - rewrite N.eqb_refl. reflexivity.
  - destruct (N.eqb c sep); [rewrite IH; reflexivity|].
    rewrite IH. destruct (split_on_cons sep r) as (seg & segs & H). rewrite H. reflexivity.
Qed.

Lemma seg_ok_inv s : seg_ok s = true -> (is_empty s || is_dot s) = false /\ is_dotdot s = false.
Proof.
  unfold seg_ok. destruct (is_empty s), (is_dot s), (is_dotdot s); cbn; intuition congruence.
Qed.

Lemma clean_segs_ok segs : forall st, forallb seg_ok segs = true -> clean_segs false segs st = rev st ++ segs.
Proof.
  induction segs as [|s r IH]; intros st H; cbn [clean_segs].
  - rewrite app_nil_r. reflexivity.
  - cbn [forallb] in H. apply andb_true_iff in H. destruct H as [Hs Hr].
    destruct (seg_ok_inv _ Hs) as [E1 E2]. rewrite E1, E2.
    rewrite IH by exact Hr. cbn [rev]. rewrite <- app_assoc. reflexivity.
Qed.

Lemma clean_nonempty p : clean p = true -> p <> [].
Proof. intros H ->. discriminate H. Qed.

Lemma clean_not_rooted c r : clean (c :: r) = true -> N.eqb c slash = false.
Proof.
  unfold clean. cbn [split_on]. destruct (N.eqb c slash); [|reflexivity].
  cbn [forallb seg_ok is_empty orb negb andb]. discriminate.
Qed.

Lemma path_clean_id p : clean p = true -> path_clean p = p.
Proof.
  intro H. destruct p as [|c r]; [discriminate H|].
  unfold path_clean. rewrite (clean_not_rooted _ _ H).
  rewrite clean_segs_ok by exact H. cbn [rev app]. rewrite join_split. reflexivity.
Qed.

Lemma clean_join a b : clean a = true -> clean b = true -> clean (a ++ slash :: b) = true.
Proof. unfold clean. intros Ha Hb. rewrite split_app, forallb_app, Ha, Hb. reflexivity. Qed.

(* path.Join on the property's domain *)
Lemma path_join_clean a b : clean a = true -> clean b = true -> path_join2 a b = a ++ slash :: b.
Proof.
  intros Ha Hb. pose proof (clean_nonempty _ Ha). pose proof (clean_nonempty _ Hb).
  destruct a; [congruence|]. destruct b; [congruence|].
  unfold path_join2. apply path_clean_id. apply clean_join; assumption.
Qed.

Lemma path_join_noprefix b : clean b = true -> path_join2 [] b = b.
Proof.
  intros Hb. pose proof (clean_nonempty _ Hb). destruct b; [congruence|].
  unfold path_join2. apply path_clean_id. assumption.
Qed.

