From Coq Require Import List Bool Arith NArith Lia Sorting.Sorted.
Import ListNotations.
Set Implicit Arguments.

Class Ord (K : Type) := {
  cmp : K -> K -> comparison;
  cmp_eq : forall a b, cmp a b = Eq <-> a = b;
  cmp_opp : forall a b, cmp b a = CompOpp (cmp a b);
  cmp_trans : forall a b c, cmp a b = Lt -> cmp b c = Lt -> cmp a c = Lt
}.

#[global] Program Instance Ord_N : Ord N := {| cmp := N.compare |}.
Next Obligation. apply N.compare_eq_iff. Qed.
Next Obligation. apply N.compare_antisym. Qed.
Next Obligation. rewrite N.compare_lt_iff in *. lia. Qed.

(* lexicographic order on lists *)
Fixpoint lcmp {K} `{Ord K} (a b : list K) : comparison :=
  match a, b with
  | [], [] => Eq
  | [], _ :: _ => Lt
  | _ :: _, [] => Gt
  | x :: a', y :: b' => match cmp x y with Eq => lcmp a' b' | c => c end
  end.

Lemma lcmp_eq {K} `{Ord K} (a b : list K) : lcmp a b = Eq <-> a = b.
Proof.
  revert b; induction a as [|x a IH]; destruct b as [|y b]; cbn; try (split; [discriminate|discriminate]); [tauto|].
  destruct (cmp x y) eqn:E.
  - apply cmp_eq in E; subst. rewrite IH. split; [intros ->; reflexivity|intro Q; injection Q; auto].
  - split; [discriminate|]. intro Q; injection Q as -> ->. assert (cmp y y = Eq) by (apply cmp_eq; reflexivity). congruence.
  - split; [discriminate|]. intro Q; injection Q as -> ->. assert (cmp y y = Eq) by (apply cmp_eq; reflexivity). congruence.
Qed.

Lemma lcmp_opp {K} `{Ord K} (a b : list K) : lcmp b a = CompOpp (lcmp a b).
Proof.
  revert b; induction a as [|x a IH]; destruct b as [|y b]; cbn; auto.
  rewrite (cmp_opp x y). destruct (cmp x y); cbn; auto.
Qed.

Lemma lcmp_trans {K} `{Ord K} (a b c : list K) : lcmp a b = Lt -> lcmp b c = Lt -> lcmp a c = Lt.
Proof.
  revert b c; induction a as [|x a IH]; intros [|y b] [|z c]; cbn; try discriminate; auto.
  destruct (cmp x y) eqn:E1; try discriminate.
  - apply cmp_eq in E1; subst y. destruct (cmp x z); try discriminate; auto. apply IH.
  - intros _. destruct (cmp y z) eqn:E2; try discriminate.
    + apply cmp_eq in E2; subst z. rewrite E1. auto.
    + intros _. rewrite (cmp_trans _ _ _ E1 E2). reflexivity.
Qed.

#[global] Instance Ord_list {K} `{Ord K} : Ord (list K) :=
  {| cmp := lcmp; cmp_eq := lcmp_eq; cmp_opp := lcmp_opp; cmp_trans := lcmp_trans |}.

Section SMap.
Context {K V : Type} `{OK : Ord K}.

Definition smap := list (K * V).

Lemma cmp_refl (a : K) : cmp a a = Eq. Proof. apply cmp_eq; reflexivity. Qed.
Lemma cmp_gt_lt (a b : K) : cmp a b = Gt -> cmp b a = Lt.
Proof. intro H. rewrite cmp_opp, H. reflexivity. Qed.

Fixpoint find (k : K) (m : smap) : option V :=
  match m with [] => None | (k', v) :: m' => match cmp k k' with Eq => Some v | _ => find k m' end end.

Fixpoint upd (k : K) (v : V) (m : smap) : smap :=
  match m with
  | [] => [(k, v)]
  | (k', v') :: m' => match cmp k k' with
                      | Lt => (k, v) :: m
                      | Eq => (k, v) :: m'
                      | Gt => (k', v') :: upd k v m' end
  end.

Fixpoint del (k : K) (m : smap) : smap :=
  match m with
  | [] => []
  | (k', v') :: m' => match cmp k k' with Eq => m' | _ => (k', v') :: del k m' end
  end.

(* canonical form: strictly increasing keys *)
Inductive sorted : smap -> Prop :=
| s_nil : sorted []
| s_cons k v m : (forall k' v', In (k', v') m -> cmp k k' = Lt) -> sorted m -> sorted ((k, v) :: m).

Lemma find_upd_eq k v m : find k (upd k v m) = Some v.
Proof.
  induction m as [|[k' v'] m IH]; cbn; [rewrite cmp_refl; auto|].
  destruct (cmp k k') eqn:E; cbn; [rewrite cmp_refl|rewrite cmp_refl|rewrite E]; auto.
Qed.

Lemma find_upd_neq k k2 v m : k2 <> k -> find k2 (upd k v m) = find k2 m.
Proof.
  intro N. assert (NE : cmp k2 k <> Eq) by (intro Q; apply cmp_eq in Q; contradiction).
  induction m as [|[k' v'] m IH]; cbn.
  - destruct (cmp k2 k); congruence.
  - destruct (cmp k k') eqn:E; cbn.
    + apply cmp_eq in E; subst k'. destruct (cmp k2 k); congruence.
    + destruct (cmp k2 k); congruence.
    + destruct (cmp k2 k'); auto.
Qed.

Lemma find_not_in k m : (forall k' v', In (k', v') m -> cmp k k' = Lt) -> find k m = None.
Proof.
  induction m as [|[k' v'] m IH]; cbn; intro H; auto.
  rewrite (H k' v') by auto. apply IH. intros; eapply H; eauto.
Qed.

Lemma find_del_eq k m : sorted m -> find k (del k m) = None.
Proof.
  induction 1 as [|k' v' m Hlt Hs IH]; cbn; auto.
  destruct (cmp k k') eqn:E; cbn.
  - apply cmp_eq in E; subst. apply find_not_in; auto.
  - rewrite E. auto.
  - rewrite E. auto.
Qed.

Lemma find_del_neq k k2 m : k2 <> k -> find k2 (del k m) = find k2 m.
Proof.
  intro N. assert (NE : cmp k2 k <> Eq) by (intro Q; apply cmp_eq in Q; contradiction).
  induction m as [|[k' v'] m IH]; cbn; auto.
  destruct (cmp k k') eqn:E; cbn.
  - apply cmp_eq in E; subst k'. destruct (cmp k2 k); congruence.
  - destruct (cmp k2 k'); auto.
  - destruct (cmp k2 k'); auto.
Qed.

Lemma in_upd k v m k' v' : In (k', v') (upd k v m) -> (k' = k /\ v' = v) \/ In (k', v') m.
Proof.
  induction m as [|[k2 v2] m IH]; cbn.
  - intros [Q|[]]; injection Q; auto.
  - destruct (cmp k k2); cbn; intros [Q|Q]; auto; try (injection Q; auto).
    apply IH in Q. tauto.
Qed.

Lemma in_del k m k' v' : In (k', v') (del k m) -> In (k', v') m.
Proof.
  induction m as [|[k2 v2] m IH]; cbn; auto.
  destruct (cmp k k2); cbn; auto; intros [Q|Q]; auto.
Qed.

Lemma sorted_upd k v m : sorted m -> sorted (upd k v m).
Proof.
  induction 1 as [|k' v' m Hlt Hs IH]; cbn.
  - constructor; [intros ? ? []|constructor].
  - destruct (cmp k k') eqn:E.
    + apply cmp_eq in E; subst. constructor; auto.
    + constructor; [|constructor; auto]. intros k2 v2 [Q|Q]; [injection Q as <- <-; auto|].
      eapply cmp_trans; eauto.
    + constructor; auto. intros k2 v2 Q. apply in_upd in Q. destruct Q as [[-> ->]|Q]; [apply cmp_gt_lt; auto|eauto].
Qed.

Lemma sorted_del k m : sorted m -> sorted (del k m).
Proof.
  induction 1 as [|k' v' m Hlt Hs IH]; cbn; [constructor|].
  destruct (cmp k k'); auto; constructor; auto; intros k2 v2 Q; apply in_del in Q; eauto.
Qed.

Lemma find_in k v m : find k m = Some v -> In (k, v) m.
Proof.
  induction m as [|[k' v'] m IH]; cbn; [discriminate|].
  destruct (cmp k k') eqn:E; auto. apply cmp_eq in E; subst. intro Q; injection Q as ->; auto.
Qed.

Lemma in_find k v m : sorted m -> In (k, v) m -> find k m = Some v.
Proof.
  induction 1 as [|k' v' m Hlt Hs IH]; cbn; [intros []|].
  intros [Q|Q].
  - injection Q as -> ->. rewrite cmp_refl. reflexivity.
  - pose proof (Hlt _ _ Q) as L. rewrite cmp_opp, L. cbn. auto.
Qed.

(* canonical: extensionally equal sorted maps are equal *)
Theorem sorted_ext m1 : forall m2, sorted m1 -> sorted m2 -> (forall k, find k m1 = find k m2) -> m1 = m2.
Proof.
  induction m1 as [|[k1 v1] m1 IH]; intros m2 S1 S2 E.
  - destruct m2 as [|[k2 v2] m2]; auto. specialize (E k2). cbn in E. rewrite cmp_refl in E. discriminate.
  - destruct m2 as [|[k2 v2] m2].
    + specialize (E k1). cbn in E. rewrite cmp_refl in E. discriminate.
    + inversion S1 as [|? ? ? L1 S1']; subst. inversion S2 as [|? ? ? L2 S2']; subst.
      assert (k1 = k2).
      { destruct (cmp k1 k2) eqn:C.
        - apply cmp_eq; auto.
        - pose proof (E k1) as E1. cbn in E1. rewrite cmp_refl, C in E1. symmetry in E1. apply find_in in E1.
          apply L2 in E1. rewrite cmp_opp, C in E1. discriminate.
        - pose proof (E k2) as E2. cbn in E2. rewrite cmp_refl in E2. rewrite cmp_opp, C in E2. cbn in E2.
          apply find_in in E2. apply L1 in E2. congruence. }
      subst k2. pose proof (E k1) as E1. cbn in E1. rewrite cmp_refl in E1. injection E1 as ->.
      f_equal. apply IH; auto. intro k. specialize (E k). cbn in E.
      destruct (cmp k k1) eqn:C; auto.
      apply cmp_eq in C; subst k. rewrite (find_not_in _ _ L1), (find_not_in _ _ L2). reflexivity.
Qed.

(* the rollback identities *)
Corollary del_upd_absent k v m : sorted m -> find k m = None -> del k (upd k v m) = m.
Proof.
  intros S N. apply sorted_ext; auto using sorted_del, sorted_upd.
  intro k2. destruct (cmp k2 k) eqn:C.
  - apply cmp_eq in C; subst. rewrite find_del_eq by auto using sorted_upd. auto.
  - assert (k2 <> k) by (intros ->; rewrite cmp_refl in C; discriminate). rewrite find_del_neq, find_upd_neq; auto.
  - assert (k2 <> k) by (intros ->; rewrite cmp_refl in C; discriminate). rewrite find_del_neq, find_upd_neq; auto.
Qed.

Corollary upd_del_present k v m : sorted m -> find k m = Some v -> upd k v (del k m) = m.
Proof.
  intros S N. apply sorted_ext; auto using sorted_del, sorted_upd.
  intro k2. destruct (cmp k2 k) eqn:C.
  - apply cmp_eq in C; subst. rewrite find_upd_eq. auto.
  - assert (k2 <> k) by (intros ->; rewrite cmp_refl in C; discriminate). rewrite find_upd_neq, find_del_neq; auto.
  - assert (k2 <> k) by (intros ->; rewrite cmp_refl in C; discriminate). rewrite find_upd_neq, find_del_neq; auto.
Qed.

Corollary upd_same k v m : sorted m -> find k m = Some v -> upd k v m = m.
Proof.
  intros S N. apply sorted_ext; auto using sorted_upd.
  intro k2. destruct (cmp k2 k) eqn:C.
  - apply cmp_eq in C; subst. rewrite find_upd_eq. auto.
  - assert (k2 <> k) by (intros ->; rewrite cmp_refl in C; discriminate). rewrite find_upd_neq; auto.
  - assert (k2 <> k) by (intros ->; rewrite cmp_refl in C; discriminate). rewrite find_upd_neq; auto.
Qed.

Corollary upd_upd k v v' m : sorted m -> upd k v (upd k v' m) = upd k v m.
Proof.
  intros S. apply sorted_ext; auto using sorted_upd.
  intro k2. destruct (cmp k2 k) eqn:C.
  - apply cmp_eq in C; subst. rewrite !find_upd_eq. auto.
  - assert (k2 <> k) by (intros ->; rewrite cmp_refl in C; discriminate). rewrite !find_upd_neq; auto.
  - assert (k2 <> k) by (intros ->; rewrite cmp_refl in C; discriminate). rewrite !find_upd_neq; auto.
Qed.

End SMap.


