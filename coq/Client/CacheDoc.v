(* C13 - the cache document of client/setec/store.go at the level of PARSED JSON trees.

   encode_cache : what json.Marshal(map[string]*cachedSecret) produces (store.go:634 flushCacheLocked,
     cachedSecret's tags at store.go:827: "secret", "lastAccess,string", Declared "-";
     api.SecretValue has no tags: "Value" (base64 of []byte), "Version" (number)).
   decode_cache : what json.Unmarshal(data, &map[string]*cachedSecret) yields for a document that
     PARSES to the given tree (store.go:211), rule by rule as probed against encoding/json of
     go1.26.8 (each rule with its probe is listed in docs/C13.md).  None = Unmarshal reports an error.
   fc_*         : NewFileClient's decoding of the same document (fileclient.go:43-74) and its Get /
     GetIfChanged.

   Secret values are byte strings here (the instance V := bytes of Client/Store.v), because the
   decoder can build a value from an array of numbers and the file client looks at the length.
   base64 (encoding/base64.StdEncoding) is a pair of section variables; the theorems assume only
   dec (enc b) = Some b, the correspondence run supplies the real decoder's graph as a table.

   Domain (stated in docs/C13.md): keys are compared with ASCII case folding only (encoding/json
   folds a few non-ASCII letters too); a "Value" array with null elements is modelled for a fresh
   slice only (no earlier "Value" in the same secret).  Executable definitions only. *)
From Coq Require Import List Bool NArith ZArith Decimal DecimalN.
Import ListNotations.
From Setec Require Import Base.SMap Client.Store.
Set Implicit Arguments.

Definition bytes := list N.

(* a number literal: a plain integer literal -?(0|[1-9][0-9]* ) other than "-0", or anything else
   (fraction, exponent, "-0": all of these are refused by every numeric destination in the cache
   types, which are unsigned) *)
Inductive num := NInt (z : Z) | NOther.

Inductive json :=
| JNull
| JBool (b : bool)
| JNum (n : num)
| JStr (s : bytes)
| JArr (l : list json)
| JObj (l : list (bytes * json)).

(* ---- key matching: exact or, failing that, case-insensitive (ASCII part) *)
Definition lower (c : N) : N := if (65 <=? c)%N && (c <=? 90)%N then (c + 32)%N else c.
Definition key_is (k folded : bytes) : bool := neqb (map lower k) folded.

Definition k_secret : bytes := [115;101;99;114;101;116]%N.
Definition k_lastAccess : bytes := [108;97;115;116;65;99;99;101;115;115]%N.
Definition k_Value : bytes := [86;97;108;117;101]%N.
Definition k_Version : bytes := [86;101;114;115;105;111;110]%N.
Definition k_TextValue : bytes := [84;101;120;116;86;97;108;117;101]%N.
Definition f_secret : bytes := map lower k_secret.
Definition f_lastaccess : bytes := map lower k_lastAccess.
Definition f_value : bytes := map lower k_Value.
Definition f_version : bytes := map lower k_Version.
Definition f_textvalue : bytes := map lower k_TextValue.
Definition s_null : bytes := [110;117;108;108]%N.

(* ---- decimal text of an int64 (strconv.FormatInt / ParseInt base 10) *)
Fixpoint digits (u : uint) : bytes :=
  match u with
  | Nil => []
  | D0 r => 48 :: digits r | D1 r => 49 :: digits r | D2 r => 50 :: digits r | D3 r => 51 :: digits r
  | D4 r => 52 :: digits r | D5 r => 53 :: digits r | D6 r => 54 :: digits r | D7 r => 55 :: digits r
  | D8 r => 56 :: digits r | D9 r => 57 :: digits r
  end%N.

Definition digit_of (c : N) : option (uint -> uint) :=
  match c with
  | 48 => Some D0 | 49 => Some D1 | 50 => Some D2 | 51 => Some D3 | 52 => Some D4
  | 53 => Some D5 | 54 => Some D6 | 55 => Some D7 | 56 => Some D8 | 57 => Some D9
  | _ => None
  end%N.

Fixpoint undigits (s : bytes) : option uint :=
  match s with
  | [] => Some Nil
  | c :: r => match digit_of c, undigits r with Some d, Some u => Some (d u) | _, _ => None end
  end.

Definition dec_of_N (n : N) : bytes := digits (N.to_uint n).
Definition dec_of_Z (z : Z) : bytes :=
  if (z <? 0)%Z then 45%N :: dec_of_N (Z.to_N (- z)) else dec_of_N (Z.to_N z).

Definition max_i64 : Z := 9223372036854775807%Z.

(* what encoding/json accepts as the CONTENT of a ",string" int64: optional '-', one or more
   decimal digits (leading zeros allowed), value within int64 *)
Definition parse_nat (s : bytes) : option N :=
  match s with
  | [] => None
  | _ => option_map N.of_uint (undigits s)
  end.
Definition parse_pos (s : bytes) : option Z :=
  match parse_nat s with
  | Some n => if (Z.of_N n <=? max_i64)%Z then Some (Z.of_N n) else None
  | None => None
  end.
Definition parse_i64 (s : bytes) : option Z :=
  match s with
  | c :: r => if (c =? 45)%N
              then match parse_nat r with
                   | Some n => if (Z.of_N n <=? max_i64 + 1)%Z then Some (- Z.of_N n)%Z else None
                   | None => None end
              else parse_pos s
  | [] => None
  end.

Definition max_u32 : Z := 4294967295%Z.

Section Doc.
Variable b64enc : bytes -> bytes.
Variable b64dec : bytes -> option bytes.

(* ---- encoding *)
Definition enc_secret (v : N) (b : bytes) : json :=
  JObj [(k_Value, JStr (b64enc b)); (k_Version, JNum (NInt (Z.of_N v)))].
Definition enc_entry (e : option (N * bytes * Z)) : json :=
  match e with
  | None => JNull
  | Some (v, b, t) => JObj [(k_secret, enc_secret v b); (k_lastAccess, JStr (dec_of_Z t))]
  end.
Definition encode_cache (d : list (doc_entry bytes)) : json :=
  JObj (map (fun '(n, e) => (n, enc_entry e)) d).

(* ---- decoding *)
(* one element of a JSON array decoded into a fresh []byte: a number 0..255, or null (leaves 0) *)
Definition arr_byte (j : json) : option N :=
  match j with
  | JNull => Some 0%N
  | JNum (NInt z) => if (0 <=? z)%Z && (z <=? 255)%Z then Some (Z.to_N z) else None
  | _ => None
  end.
Fixpoint arr_bytes (l : list json) : option bytes :=
  match l with
  | [] => Some []
  | j :: r => match arr_byte j, arr_bytes r with Some c, Some bs => Some (c :: bs) | _, _ => None end
  end.

(* []byte destination: null -> nil; string -> base64; array -> element-wise; else error *)
Definition dec_bytes (j : json) : option bytes :=
  match j with
  | JNull => Some []
  | JStr s => b64dec s
  | JArr l => arr_bytes l
  | _ => None
  end.

(* uint32 destination: null leaves the field alone (None = "leave"); a plain integer literal within
   range; anything else is an error *)
Inductive fieldres (X : Type) := FLeave | FSet (x : X) | FErr.
Arguments FLeave {X}.
Arguments FErr {X}.
Definition dec_u32 (j : json) : fieldres N :=
  match j with
  | JNull => FLeave
  | JNum (NInt z) => if (0 <=? z)%Z && (z <=? max_u32)%Z then FSet (Z.to_N z) else FErr
  | _ => FErr
  end.

(* int64 with the ",string" option: null leaves; a JSON string whose content is an int64 literal,
   or the four letters null (leaves); every unquoted value and every other string is an error *)
Definition dec_i64_string (j : json) : fieldres Z :=
  match j with
  | JNull => FLeave
  | JStr s => match parse_i64 s with
              | Some z => FSet z
              | None => if neqb s s_null then FLeave else FErr
              end
  | _ => FErr
  end.

(* api.SecretValue being filled, as (Value, Version); duplicate keys are applied in order *)
Definition sec_field (acc : option (bytes * N)) (kv : bytes * json) : option (bytes * N) :=
  match acc with
  | None => None
  | Some (b, v) =>
    let '(k, j) := kv in
    if key_is k f_value then option_map (fun b' => (b', v)) (dec_bytes j)
    else if key_is k f_version then
      match dec_u32 j with FLeave => acc | FSet v' => Some (b, v') | FErr => None end
    else acc
  end.
Definition dec_secret (init : bytes * N) (kvs : list (bytes * json)) : option (bytes * N) :=
  fold_left sec_field kvs (Some init).

(* cachedSecret being filled, as (Secret pointer, LastAccess) *)
Definition ent_field (acc : option (option (bytes * N) * Z)) (kv : bytes * json) : option (option (bytes * N) * Z) :=
  match acc with
  | None => None
  | Some (sec, la) =>
    let '(k, j) := kv in
    if key_is k f_secret then
      match j with
      | JNull => Some (None, la)
      | JObj kvs => match dec_secret (match sec with Some x => x | None => ([], 0%N) end) kvs with
                    | Some x => Some (Some x, la)
                    | None => None end
      | _ => None
      end
    else if key_is k f_lastaccess then
      match dec_i64_string j with FLeave => acc | FSet z => Some (sec, z) | FErr => None end
    else acc
  end.

(* *cachedSecret as a map element (always a fresh one): null -> nil pointer *)
Definition dec_entry (j : json) : option (rentry bytes) :=
  match j with
  | JNull => Some None
  | JObj kvs => match fold_left ent_field kvs (Some (None, 0%Z)) with
                | Some (sec, la) => Some (Some (option_map (fun '(b, v) => (v, b)) sec, la))
                | None => None end
  | _ => None
  end.

Definition top_field (acc : option (@smap name (rentry bytes))) (kv : bytes * json) : option (@smap name (rentry bytes)) :=
  match acc with
  | None => None
  | Some mm => let '(k, j) := kv in option_map (fun e => upd k e mm) (dec_entry j)
  end.

(* map[string]*cachedSecret: an object (a repeated key replaces the earlier element) or null (the
   nil map, re-made empty by NewStore: the F7 repair); anything else is an error *)
Definition decode_cache (j : json) : option (@smap name (rentry bytes)) :=
  match j with
  | JNull => Some []
  | JObj kvs => fold_left top_field kvs (Some [])
  | _ => None
  end.

(* what NewStore starts from (store.go:204-223): the cache bytes are absent/empty/unreadable
   (None), do not parse (Some None) or parse to a tree *)
Definition cache_input : Type := option (option json).
Definition usable (c : cache_input) : option (@smap name (rentry bytes)) :=
  match c with
  | Some (Some j) => match decode_cache j with
                     | Some d => if cache_valid d then Some d else None
                     | None => None end
  | _ => None
  end.
Definition start_map (c : cache_input) : @smap name (option (centry bytes)) :=
  load_cache (match c with Some (Some j) => decode_cache j | _ => None end).

(* ---- the file client (fileclient.go:43-74): entries are structs (not pointers), the secret has an
   additional TextValue *)
Definition fcsec : Type := (bytes * bytes * N)%type.   (* Value, TextValue, Version *)
Definition fc_sec_field (acc : option fcsec) (kv : bytes * json) : option fcsec :=
  match acc with
  | None => None
  | Some (b, t, v) =>
    let '(k, j) := kv in
    if key_is k f_value then option_map (fun b' => (b', t, v)) (dec_bytes j)
    else if key_is k f_textvalue then
      match j with JNull => acc | JStr s => Some (b, s, v) | _ => None end
    else if key_is k f_version then
      match dec_u32 j with FLeave => acc | FSet v' => Some (b, t, v') | FErr => None end
    else acc
  end.
Definition fc_ent_field (acc : option (option fcsec)) (kv : bytes * json) : option (option fcsec) :=
  match acc with
  | None => None
  | Some sec =>
    let '(k, j) := kv in
    if key_is k f_secret then
      match j with
      | JNull => Some None
      | JObj kvs => match fold_left fc_sec_field kvs (Some (match sec with Some x => x | None => ([], [], 0%N) end)) with
                    | Some x => Some (Some x)
                    | None => None end
      | _ => None
      end
    else acc
  end.
Definition fc_entry (j : json) : option (option fcsec) :=
  match j with
  | JNull => Some None
  | JObj kvs => fold_left fc_ent_field kvs (Some None)
  | _ => None
  end.
Definition fc_top (acc : option (@smap name (option fcsec))) (kv : bytes * json) :=
  match acc with
  | None => None
  | Some mm => let '(k, j) := kv in option_map (fun e => upd k e mm) (fc_entry j)
  end.
(* None = NewFileClient reports an error *)
Definition fc_raw (j : json) : option (@smap name (option fcsec)) :=
  match j with
  | JNull => Some []
  | JObj kvs => fold_left fc_top kvs (Some [])
  | _ => None
  end.
Definition is_nil (b : bytes) : bool := match b with [] => true | _ => false end.
(* the db built at fileclient.go:57-72, as a lookup function: version and bytes, or absent *)
Definition fc_lookup (raw : @smap name (option fcsec)) (n : name) : option (N * bytes) :=
  match n, find n raw with
  | [], _ => None
  | _, Some (Some (b, t, v)) =>
    if (v =? 0)%N || (is_nil t && is_nil b) then None
    else if is_nil t then Some (v, b) else Some (v, t)
  | _, _ => None
  end.

Inductive fcres := FCValue (v : N) (b : bytes) | FCNotFound | FCNotChanged.
Definition fc_get (raw : @smap name (option fcsec)) (n : name) : fcres :=
  match fc_lookup raw n with Some (v, b) => FCValue v b | None => FCNotFound end.
Definition fc_get_if_changed (raw : @smap name (option fcsec)) (n : name) (old : N) : fcres :=
  match fc_lookup raw n with
  | Some (v, b) => if (v =? old)%N then FCNotChanged else FCValue v b
  | None => FCNotFound
  end.

End Doc.

(* the rentry map a store's own document decodes to *)
Definition rents (mm : @smap name (option (centry bytes))) : @smap name (rentry bytes) :=
  map (fun '(n, oe) => (n, match oe with
                           | Some e => Some (Some (ver e, val e), last e)
                           | None => None end)) mm.

(* stamps fit int64, versions fit uint32 (the Go field types) *)
Definition entry_in_range (e : centry bytes) : Prop :=
  (- max_i64 - 1 <= last e <= max_i64)%Z /\ (Z.of_N (ver e) <= max_u32)%Z.
Definition in_range (mm : @smap name (option (centry bytes))) : Prop :=
  forall n e, In (n, Some e) mm -> entry_in_range e.
