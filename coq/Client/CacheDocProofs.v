(* C13 - proofs about the cache document model (Client/CacheDoc.v). *)
From Coq Require Import List Bool NArith ZArith Lia Decimal DecimalN DecimalPos.
Import ListNotations.
From Setec Require Import Base.SMap Client.Store Client.StoreInv Client.CacheDoc.
Set Implicit Arguments.

(* ---- decimal text *)
Lemma undigits_digits u : undigits (digits u) = Some u.
Proof. induction u; cbn [digits undigits digit_of]; try rewrite IHu; reflexivity. Qed.

Lemma digits_nonnil u : u <> Nil -> digits u <> [].
Proof. destruct u; cbn [digits]; congruence. Qed.

Lemma to_uint_nonnil n : N.to_uint n <> Nil.
Proof. destruct n; cbn; [discriminate | apply Unsigned.to_uint_nonnil]. Qed.

Lemma parse_nat_dec n : parse_nat (dec_of_N n) = Some n.
Proof.
  unfold parse_nat, dec_of_N.
  destruct (digits (N.to_uint n)) eqn:E.
  - exfalso. apply (digits_nonnil (to_uint_nonnil n)). exact E.
  - rewrite <- E, undigits_digits. cbn [option_map]. f_equal. apply DecimalN.Unsigned.of_to.
Qed.

Lemma dec_of_N_head n : match dec_of_N n with c :: _ => (c =? 45)%N = false | [] => False end.
Proof.
  unfold dec_of_N. pose proof (to_uint_nonnil n) as NN.
  destruct (N.to_uint n); cbn [digits]; try reflexivity. congruence.
Qed.

Lemma parse_i64_dec z : (- max_i64 - 1 <= z <= max_i64)%Z -> parse_i64 (dec_of_Z z) = Some z.
Proof.
  intros R. unfold dec_of_Z. destruct (z <? 0)%Z eqn:Neg.
  - apply Z.ltb_lt in Neg. cbn [parse_i64]. change (45 =? 45)%N with true. cbv iota.
    rewrite parse_nat_dec. rewrite Z2N.id by lia.
    destruct (- z <=? max_i64 + 1)%Z eqn:Le; [f_equal; lia|]. apply Z.leb_gt in Le. lia.
  - apply Z.ltb_ge in Neg. unfold parse_i64.
    pose proof (dec_of_N_head (Z.to_N z)) as H.
    pose proof (parse_nat_dec (Z.to_N z)) as P.
    destruct (dec_of_N (Z.to_N z)) as [|c r] eqn:E; [contradiction|].
    rewrite H. unfold parse_pos. rewrite P. rewrite Z2N.id by lia.
    destruct (z <=? max_i64)%Z eqn:Le; [reflexivity|]. apply Z.leb_gt in Le. lia.
Qed.

(* ---- maps built by repeated upd from a sorted list *)
Section Build.
Context {A : Type}.

Lemma upd_snoc (k : name) (v : A) (mm : @smap name A) :
  (forall k' v', In (k', v') mm -> cmp k' k = Lt) -> upd k v mm = mm ++ [(k, v)].
Proof.
  induction mm as [|[k0 v0] mm IH]; intros H; cbn [upd app]; auto.
  assert (L : cmp k0 k = Lt) by (apply (H k0 v0); left; reflexivity).
  rewrite (cmp_opp k0 k), L. cbn [CompOpp]. rewrite <- app_comm_cons. f_equal. apply IH. intros k' v' I. apply (H k' v'). right. exact I.
Qed.

Lemma sorted_app_inv (a b : @smap name A) : sorted (a ++ b) ->
  sorted a /\ sorted b /\ (forall k v k' v', In (k, v) a -> In (k', v') b -> cmp k k' = Lt).
Proof.
  induction a as [|[k0 v0] a IH]; cbn [app]; intros S.
  - split; [constructor|]. split; auto. intros ? ? ? ? [].
  - inversion S as [|? ? ? Hlt Ha]; subst. destruct (IH Ha) as (Sa & Sb & X).
    split; [|split; auto].
    + constructor; auto. intros k' v' I. apply (Hlt k' v'). apply in_or_app. left. exact I.
    + intros k v k' v' [E|I] I'.
      * inversion E; subst. apply (Hlt k' v'). apply in_or_app. right. exact I'.
      * eapply X; eauto.
Qed.

Lemma sorted_snoc_lt (a : @smap name A) k v b : sorted (a ++ (k, v) :: b) ->
  forall k' v', In (k', v') a -> cmp k' k = Lt.
Proof.
  intros S k' v' I. destruct (sorted_app_inv _ _ S) as (_ & _ & X). eapply X; eauto. left. reflexivity.
Qed.
End Build.

Section Doc.
Variable b64enc : bytes -> bytes.
Variable b64dec : bytes -> option bytes.
Hypothesis b64_round : forall b, b64dec (b64enc b) = Some b.

Lemma dec_secret_enc init v b : (Z.of_N v <= max_u32)%Z ->
  dec_secret b64dec init [(k_Value, JStr (b64enc b)); (k_Version, JNum (NInt (Z.of_N v)))] = Some (b, v).
Proof.
  intros R. destruct init as [b0 v0]. unfold dec_secret. cbn [fold_left].
  unfold sec_field at 2. change (key_is k_Value f_value) with true. cbv iota.
  cbn [dec_bytes]. rewrite b64_round. cbn [option_map].
  unfold sec_field. change (key_is k_Version f_value) with false. change (key_is k_Version f_version) with true. cbv iota.
  cbn [dec_u32].
  assert (E : ((0 <=? Z.of_N v)%Z && (Z.of_N v <=? max_u32)%Z) = true).
  { apply andb_true_iff. split; apply Z.leb_le; lia. }
  rewrite E. rewrite N2Z.id. reflexivity.
Qed.

Lemma dec_entry_enc v b t : (Z.of_N v <= max_u32)%Z -> (- max_i64 - 1 <= t <= max_i64)%Z ->
  dec_entry b64dec (enc_entry b64enc (Some (v, b, t))) = Some (Some (Some (v, b), t)).
Proof.
  intros Rv Rt. cbn [enc_entry dec_entry fold_left].
  unfold ent_field at 2. change (key_is k_secret f_secret) with true. cbv iota.
  unfold enc_secret. rewrite dec_secret_enc by exact Rv.
  unfold ent_field. change (key_is k_lastAccess f_secret) with false. change (key_is k_lastAccess f_lastaccess) with true. cbv iota.
  cbn [dec_i64_string]. rewrite parse_i64_dec by exact Rt. reflexivity.
Qed.

Definition rent_of (oe : option (centry bytes)) : rentry bytes :=
  match oe with Some e => Some (Some (ver e, val e), last e) | None => None end.
Definition doce_of (oe : option (centry bytes)) : option (N * bytes * Z) :=
  match oe with Some e => Some (ver e, val e, last e) | None => None end.

Lemma dec_entry_doce oe : (forall e, oe = Some e -> entry_in_range e) ->
  dec_entry b64dec (enc_entry b64enc (doce_of oe)) = Some (rent_of oe).
Proof.
  intros R. destruct oe as [e|]; cbn [doce_of rent_of].
  - destruct (R e eq_refl) as [Rt Rv]. apply dec_entry_enc; auto.
  - reflexivity.
Qed.

Lemma rents_map mm : rents mm = map (fun '(n, oe) => (n, rent_of oe)) mm.
Proof. unfold rents. apply map_ext. intros [n [e|]]; reflexivity. Qed.

Lemma sorted_map_keys {A B} (g : A -> B) (mm : @smap name A) : sorted mm -> sorted (map (fun '(k, a) => (k, g a)) mm).
Proof.
  induction 1 as [|k v mm Hlt S IH]; cbn [map]; constructor; auto.
  intros k' v' I. apply in_map_iff in I. destruct I as ([k2 a2] & E & I). inversion E; subst. eapply Hlt; eauto.
Qed.

(* ROUND TRIP: the document written for a map decodes to exactly that map (names, versions, bytes,
   stamps; stubs as null entries) *)
Theorem decode_encode (mm : @smap name (option (centry bytes))) :
  sorted mm -> in_range mm ->
  decode_cache b64dec (encode_cache b64enc (map (fun '(n, oe) => (n, doce_of oe)) mm)) = Some (rents mm).
Proof.
  intros S R. unfold encode_cache, decode_cache. rewrite map_map.
  (* generalise over the members that remain *)
  assert (G : forall l acc, (forall n e, In (n, Some e) l -> entry_in_range e) ->
              sorted (acc ++ map (fun '(n, oe) => (n, rent_of oe)) l) ->
              fold_left (top_field b64dec) (map (fun x : name * option (centry bytes) => let '(n, e) := let '(n, oe) := x in (n, doce_of oe) in (n, enc_entry b64enc e)) l) (Some acc)
              = Some (acc ++ map (fun '(n, oe) => (n, rent_of oe)) l)).
  { induction l as [|[n oe] l IH]; intros acc Rl Sl; cbn [map fold_left].
    - rewrite app_nil_r. reflexivity.
    - cbn [top_field]. rewrite dec_entry_doce.
      + cbn [option_map]. cbn [map] in Sl. rewrite upd_snoc by (eapply sorted_snoc_lt; exact Sl).
        rewrite IH.
        * rewrite <- app_assoc. reflexivity.
        * intros n' e' I. apply (Rl n' e'). right. exact I.
        * rewrite <- app_assoc. exact Sl.
      + intros e ->. apply (Rl n e). left. reflexivity. }
  rewrite (G mm []); cbn [app].
  - unfold rents, rent_of. reflexivity.
  - exact R.
  - apply sorted_map_keys. exact S.
Qed.

Lemma doc_is_map (s : store bytes) : doc s = map (fun '(n, oe) => (n, doce_of oe)) (m s).
Proof. unfold doc. apply map_ext. intros [n [e|]]; reflexivity. Qed.

Theorem decode_encode_doc (s : store bytes) : sorted (m s) -> in_range (m s) ->
  decode_cache b64dec (encode_cache b64enc (doc s)) = Some (rents (m s)).
Proof. intros. rewrite doc_is_map. apply decode_encode; auto. Qed.

(* ---- the file client on a store-written document *)
Definition fc_of (oe : option (centry bytes)) : option fcsec :=
  match oe with Some e => Some (val e, [], ver e) | None => None end.

Lemma fc_entry_doce oe : (forall e, oe = Some e -> entry_in_range e) ->
  fc_entry b64dec (enc_entry b64enc (doce_of oe)) = Some (fc_of oe).
Proof.
  intros R. destruct oe as [e|]; cbn [doce_of fc_of enc_entry fc_entry]; [|reflexivity].
  destruct (R e eq_refl) as [_ Rv].
  cbn [fold_left]. unfold fc_ent_field at 2. change (key_is k_secret f_secret) with true. cbv iota.
  unfold enc_secret. cbn [fold_left].
  unfold fc_sec_field at 2. change (key_is k_Value f_value) with true. cbv iota.
  cbn [dec_bytes]. rewrite b64_round. cbn [option_map].
  unfold fc_sec_field. change (key_is k_Version f_value) with false. change (key_is k_Version f_textvalue) with false.
  change (key_is k_Version f_version) with true. cbv iota. cbn [dec_u32].
  assert (E : ((0 <=? Z.of_N (ver e))%Z && (Z.of_N (ver e) <=? max_u32)%Z) = true).
  { apply andb_true_iff. split; apply Z.leb_le; lia. }
  rewrite E. rewrite N2Z.id.
  unfold fc_ent_field. change (key_is k_lastAccess f_secret) with false. reflexivity.
Qed.

Theorem fc_raw_encode (mm : @smap name (option (centry bytes))) :
  sorted mm -> in_range mm ->
  fc_raw b64dec (encode_cache b64enc (map (fun '(n, oe) => (n, doce_of oe)) mm)) = Some (map (fun '(n, oe) => (n, fc_of oe)) mm).
Proof.
  intros S R. unfold encode_cache, fc_raw. rewrite map_map.
  assert (G : forall l acc, (forall n e, In (n, Some e) l -> entry_in_range e) ->
              sorted (acc ++ map (fun '(n, oe) => (n, fc_of oe)) l) ->
              fold_left (fc_top b64dec) (map (fun x : name * option (centry bytes) => let '(n, e) := let '(n, oe) := x in (n, doce_of oe) in (n, enc_entry b64enc e)) l) (Some acc)
              = Some (acc ++ map (fun '(n, oe) => (n, fc_of oe)) l)).
  { induction l as [|[n oe] l IH]; intros acc Rl Sl; cbn [map fold_left].
    - rewrite app_nil_r. reflexivity.
    - cbn [fc_top]. rewrite fc_entry_doce.
      + cbn [option_map]. cbn [map] in Sl. rewrite upd_snoc by (eapply sorted_snoc_lt; exact Sl).
        rewrite IH.
        * rewrite <- app_assoc. reflexivity.
        * intros n' e' I. apply (Rl n' e'). right. exact I.
        * rewrite <- app_assoc. exact Sl.
      + intros e ->. apply (Rl n e). left. reflexivity. }
  rewrite (G mm []); cbn [app]; auto.
  apply sorted_map_keys. exact S.
Qed.

Lemma find_map_keys {A B} (g : A -> B) (mm : @smap name A) n :
  find n (map (fun '(k, a) => (k, g a)) mm) = option_map g (find n mm).
Proof.
  induction mm as [|[k a] mm IH]; cbn [map find]; auto. destruct (cmp n k); auto.
Qed.

(* FILE CLIENT AGREEMENT: on the store's own document the file client knows exactly the entries
   with a version > 0 and non-empty bytes, and answers with the store's version and bytes *)
Theorem fc_agrees (s : store bytes) raw n :
  sorted (m s) -> in_range (m s) ->
  fc_raw b64dec (encode_cache b64enc (doc s)) = Some raw ->
  fc_lookup raw n =
  match n, find n (m s) with
  | [], _ => None
  | _, Some (Some e) => if (ver e =? 0)%N || is_nil (val e) then None else Some (ver e, val e)
  | _, _ => None
  end.
Proof.
  intros S R F. rewrite doc_is_map, fc_raw_encode in F by auto. inversion F as [F']. clear F F'.
  unfold fc_lookup. destruct n as [|c n]; auto. rewrite (find_map_keys fc_of).
  match goal with |- context [@find ?K ?V ?O ?a ?b] => destruct (@find K V O a b) as [[e|]|] end; cbn [option_map fc_of]; auto.
Qed.

(* ---- validity of a store's own document *)
Lemma cache_valid_rents (mm : @smap name (option (centry bytes))) :
  no_stubs mm -> find [] mm = None -> sorted mm -> cache_valid (rents mm) = true.
Proof.
  intros NS NE S. unfold cache_valid, rents. rewrite forallb_forall. intros [k e] I.
  apply in_map_iff in I. destruct I as ([n oe] & E & I). inversion E as [[E1 E2]]. clear E. subst k e.
  pose proof (in_find _ _ S I) as F.
  destruct n as [|c n]; [pose proof (eq_trans (eq_sym NE) F); discriminate|].
  destruct oe as [e|]; auto. exfalso. apply (NS (c :: n)). exact F.
Qed.

End Doc.
