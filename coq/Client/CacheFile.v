(* C13 - the shape of one FileCache.Write (cache.go:74 -> tailscale.com/atomicfile.WriteFile) as a
   boolean over the file operations observed by strace inside the cache directory.  Paths are
   numbered by the observer: 0 = the live cache path, 1..999 = other paths in the SAME directory,
   >= 1000 = paths elsewhere.  Modes are the numeric permission bits (0600 = 384).
   Kept deliberately small and self-contained (the file-system semantics that turn this shape
   into crash atomicity are C04's model).  Executable definitions only. *)
From Coq Require Import List Bool NArith.
Import ListNotations.
Set Implicit Arguments.
Open Scope N_scope.

Inductive fop :=
| FOpen (p : N) (wr creat excl trunc : bool) (mode : N)
| FWrite (p : N)
| FChmod (p : N) (mode : N)
| FSync (p : N)
| FClose (p : N)
| FRename (src dst : N)
| FUnlink (p : N)
| FTrunc (p : N).

Definition live : N := 0.
Definition mode_0600 : N := 384.

(* does the operation modify (or open for modification) path q? *)
Definition touches (q : N) (o : fop) : bool :=
  match o with
  | FOpen p wr creat _ trunc _ => (p =? q) && (wr || creat || trunc)
  | FWrite p | FChmod p _ | FUnlink p | FTrunc p => p =? q
  | FRename s d => (s =? q) || (d =? q)
  | FSync _ | FClose _ => false
  end.

Definition is_rename (o : fop) : bool := match o with FRename _ _ => true | _ => false end.

(* splits at the first rename *)
Fixpoint split_rename (t : list fop) : option (list fop * (N * N) * list fop) :=
  match t with
  | [] => None
  | FRename s d :: r => Some ([], (s, d), r)
  | o :: r => match split_rename r with
              | Some (a, x, b) => Some (o :: a, x, b)
              | None => None end
  end.

(* the life of the temporary file before the rename: created exclusively with mode 0600, then
   writes, optional chmod to 0600 only, an fsync after the last write, closed; st: 0 = not yet
   created, 1 = open (dirty), 2 = open and synced, 3 = closed synced *)
Fixpoint tmp_life (tmp : N) (st : N) (t : list fop) : bool :=
  match t with
  | [] => st =? 3
  | o :: r =>
    match o with
    | FOpen p wr creat excl trunc mode =>
      if p =? tmp then (st =? 0) && wr && creat && excl && (mode =? mode_0600) && tmp_life tmp 1 r
      else negb (wr || creat || trunc) && tmp_life tmp st r     (* other files: reading only *)
    | FWrite p => (p =? tmp) && ((st =? 1) || (st =? 2)) && tmp_life tmp 1 r
    | FChmod p mode => (p =? tmp) && (mode =? mode_0600) && negb (st =? 0) && tmp_life tmp st r
    | FSync p => if p =? tmp then ((st =? 1) || (st =? 2)) && tmp_life tmp 2 r else tmp_life tmp st r
    | FClose p => if p =? tmp then (st =? 2) && tmp_life tmp 3 r else tmp_life tmp st r
    | FRename _ _ | FUnlink _ | FTrunc _ => false
    end
  end.

(* a successful atomic replacement: temp file in the same directory, O_EXCL, 0600, fully written
   and synced, closed, then renamed onto the live path; the live path is never opened for
   writing, written, truncated, chmod'ed or unlinked, before or after *)
Definition atomic_write_ok (t : list fop) : bool :=
  match split_rename t with
  | Some (before, (src, dst), after) =>
    (dst =? live) && negb (src =? live) && (src <? 1000)
    && tmp_life src 0 before
    && forallb (fun o => negb (touches live o)) before
    && forallb (fun o => negb (touches live o) && negb (touches src o) && negb (is_rename o)) after
  | None => false
  end.

(* a Write that reported an error (or was killed): whatever it did, it did not modify the live
   path other than by ONE rename of a fully prepared temporary onto it *)
Definition failed_write_ok (t : list fop) : bool :=
  match split_rename t with
  | None => forallb (fun o => negb (touches live o)) t
  | Some _ => atomic_write_ok t
  end.
