(* C13 - the store as a machine over caller-visible events, composed from the shared locked steps of
   Client/Store.v, with the cache as an explicit component: every Cache.Write the code performs
   is an effect `Flush d`; `pers` is the document the cache currently holds (the last write that
   succeeded, initially the usable content loaded at construction).  Executable definitions only. *)
From Coq Require Import List Bool NArith ZArith.
Import ListNotations.
From Setec Require Import Base.SMap Client.Store.
Set Implicit Arguments.

Section Hist.
Variable V : Type.
Notation store := (store V).
Notation doc_entry := (doc_entry V).

(* ---- NewStore (store.go:177-274) with a service that answers every request of the single
   initialisation round (retries and waiting are C10's): None = construction fails.
   Result: the store, the cache writes performed, the names requested from the service. *)
Definition new_store (c : option (@smap name (rentry V))) (names : list name) (allow_lookup : bool) (age_ns : Z)
                     (ans : name -> option (N * V)) (now_s : Z)
  : option (store * list (effect V) * list name) :=
  let names' := norm_names names in
  if names_ok names' allow_lookup then
    let '(m0, want) := declare (load_cache c) names' in
    let '(m1, missing) := init_round m0 ans now_s in
    match missing with
    | O => let s := ST m1 [] [] allow_lookup age_ns in
           Some (s, (if want : bool then [Flush (doc s)] else []), stubs m0)
    | S _ => None
    end
  else None.

(* the cache writes of one start, successful or not: NewStore returns the error of
   initializeActive (store.go:242-244) BEFORE the `wantFlush` write (245-249) and before anything
   else touches the cache, so a start that fails performs no cache write at all *)
Definition start_fx (c : option (@smap name (rentry V))) (names : list name) (allow_lookup : bool) (age_ns : Z)
                    (ans : name -> option (N * V)) (now_s : Z) : list (effect V) :=
  match new_store c names allow_lookup age_ns ans now_s with
  | Some (_, fx, _) => fx
  | None => []
  end.

(* ---- events after construction *)
Inductive ev :=
| ELookup (n : name) (ans : option (N * V)) (now_s : Z)   (* Store.LookupSecret; ans = the service's answer to Get *)
| ERead (n : name) (now_s : Z)                            (* Store.Secret(n).Get(): nil handle (no value) for an unknown name *)
| EPoll (now_ns : Z) (ans : list (name * resp V))         (* Store.Refresh; per-name answers to GetIfChanged *)
| EClose.                                                 (* Store.Close: the poller's shutdown flush *)

Inductive res :=
| RLookup (requested : bool) (ok : bool)
| RRead (v : option V)
| RPoll (reqs : list (name * N)) (ok : bool)
| RClose.

Fixpoint assoc_resp (l : list (name * resp V)) (n : name) : resp V :=
  match l with
  | [] => RErr
  | (k, r) :: t => if neqb k n then r else assoc_resp t n
  end.

Definition step (s : store) (e : ev) : store * list (effect V) * res :=
  match e with
  | ELookup n ans now_s =>
    let '(s1, ok) := secret_locked s n in
    if ok then (s1, [], RLookup false true)
    else if allow s then
      match ans with
      | Some (v, b) => let '(s2, fx) := lookup_install s n v b now_s in (s2, fx, RLookup true true)
      | None => (s, [], RLookup true false)
      end
    else (s, [], RLookup false false)
  | ERead n now_s =>
    let '(s1, ok) := secret_locked s n in
    if ok then let '(s2, v) := read s1 n now_s in (s2, [], RRead v) else (s, [], RRead None)
  | EPoll now_ns ans =>
    let snap := snapshot s now_ns in
    let '(s1, fx, ok) := refresh s now_ns (fun n _ => assoc_resp ans n) in
    (s1, fx, RPoll (requests snap) ok)
  | EClose => (s, shutdown_flush s, RClose)
  end.

(* the poller stops (and flushes) once: a second Close finds it gone *)
Definition step_alive (alive : bool) (s : store) (e : ev) : store * list (effect V) * res * bool :=
  match e with
  | EClose => if alive then (step s e, false) else (s, [], RClose, false)
  | _ => (step s e, alive)
  end.

(* the cache content: replaced by each write that succeeds *)
Definition persist (p : option (list doc_entry)) (fx : list (effect V)) (write_ok : bool) : option (list doc_entry) :=
  if write_ok then fold_left (fun _ f => match f with Flush d => Some d end) fx p else p.

Record hstate := HS { hst : store; pers : option (list doc_entry); polling : bool }.

Definition hstep (h : hstate) (ew : ev * bool) : hstate :=
  let '(e, wok) := ew in
  let '(s', fx, _, alive') := step_alive (polling h) (hst h) e in
  HS s' (persist (pers h) fx wok) alive'.

Definition hrun (h : hstate) (es : list (ev * bool)) : hstate := fold_left hstep es h.

(* a run of locked steps (any serialization of concurrent calls is such a run: each call's
   install + cache write happens inside one critical section of the store's mutex): the state
   after each step with what that step wrote *)
Fixpoint run_trace (s : store) (alive : bool) (es : list ev) : list (store * list (effect V)) :=
  match es with
  | [] => []
  | e :: r => let '(s', fx, _, alive') := step_alive alive s e in (s', fx) :: run_trace s' alive' r
  end.
Definition writes_of (tr : list (store * list (effect V))) : list (list doc_entry) :=
  flat_map (fun '(_, fx) => flat_map (fun f => match f with Flush d => [d] end) fx) tr.
Definition final_of (s : store) (tr : list (store * list (effect V))) : store := List.last (map fst tr) s.

(* the document with the access stamps projected away *)
Definition nostamp (d : list doc_entry) : list (name * option (N * V)) :=
  map (fun '(n, e) => (n, option_map (fun '(v, b, _) => (v, b)) e)) d.

(* what a store serves for a name: version and bytes *)
Definition served (mm : @smap name (option (centry V))) (n : name) : option (N * V) :=
  match find n mm with Some (Some e) => Some (ver e, val e) | _ => None end.

End Hist.

Arguments ERead {V}.
Arguments EClose {V}.
Arguments RLookup {V}.
Arguments RPoll {V}.
Arguments RClose {V}.
