(* C13 - proofs about the store-with-cache machine (Client/CacheHist.v) on top of the shared store
   model and its invariant, and their composition with the document model. *)
From Coq Require Import List Bool NArith ZArith Lia.
Import ListNotations.
From Setec Require Import Base.SMap Client.Store Client.StoreInv Client.CacheDoc Client.CacheDocProofs Client.CacheHist.
Set Implicit Arguments.

(* ---- generic facts about sorted maps *)
Section MapFacts.
Context {A B : Type}.

Lemma map_upd_same (f : name * A -> B) n x y (mm : @smap name A) :
  sorted mm -> find n mm = Some x -> f (n, y) = f (n, x) -> map f (upd n y mm) = map f mm.
Proof.
  intros S. induction S as [|k v mm Hlt S IH]; cbn [find upd map]; [discriminate|].
  intros F E. destruct (cmp n k) eqn:C.
  - apply cmp_eq in C. subst k. inversion F; subst. cbn [map]. rewrite E. reflexivity.
  - exfalso. apply find_in in F. specialize (Hlt _ _ F). rewrite (cmp_opp n k), C in Hlt. discriminate.
  - cbn [map]. f_equal. apply IH; auto.
Qed.

Lemma find_map_val (g : A -> B) (mm : @smap name A) n :
  find n (map (fun '(k, a) => (k, g a)) mm) = option_map g (find n mm).
Proof. induction mm as [|[k a] mm IH]; cbn [map find]; auto. destruct (cmp n k); auto. Qed.
End MapFacts.

Section Hist.
Variable V : Type.
Notation store := (store V).

Definition nsv (oe : option (centry V)) : option (N * V) := option_map (fun e => (ver e, val e)) oe.

Lemma nostamp_doc (s : store) : nostamp (doc s) = map (fun '(n, oe) => (n, nsv oe)) (m s).
Proof.
  unfold nostamp, doc. rewrite map_map. apply map_ext. intros [n [e|]]; reflexivity.
Qed.

Lemma doc_m (a b : store) : m a = m b -> doc a = doc b.
Proof. unfold doc. intros ->. reflexivity. Qed.

Lemma secret_locked_m (s : store) n : m (fst (secret_locked s n)) = m s.
Proof. unfold secret_locked. destruct (known s n); cbn [fst]; auto. destruct (has_handle s n); reflexivity. Qed.

Lemma secret_locked_allow (s : store) n : allow (fst (secret_locked s n)) = allow s.
Proof. unfold secret_locked. destruct (known s n); cbn [fst]; auto. destruct (has_handle s n); reflexivity. Qed.

Lemma served_nostamp (a b : store) n : nostamp (doc a) = nostamp (doc b) -> served (m a) n = served (m b) n.
Proof.
  rewrite !nostamp_doc. intros E.
  assert (F : option_map nsv (find n (m a)) = option_map nsv (find n (m b))).
  { rewrite <- !(find_map_val nsv). rewrite E. reflexivity. }
  unfold served. destruct (find n (m a)) as [[ea|]|], (find n (m b)) as [[eb|]|]; cbn in F; congruence.
Qed.

Lemma known_nostamp (a b : store) n : nostamp (doc a) = nostamp (doc b) -> known a n = known b n.
Proof.
  rewrite !nostamp_doc. intros E.
  assert (F : option_map nsv (find n (m a)) = option_map nsv (find n (m b))).
  { rewrite <- !(find_map_val nsv). rewrite E. reflexivity. }
  unfold known. destruct (find n (m a)), (find n (m b)); cbn in F; congruence.
Qed.

(* ---- each event either leaves everything but access stamps alone and writes nothing, or writes
   the document of the WHOLE resulting state *)
Lemma read_nostamp (s : store) n now : sorted (m s) -> nostamp (doc (fst (read s n now))) = nostamp (doc s).
Proof.
  intros S. unfold read. destruct (find n (m s)) as [[e|]|] eqn:F; cbn [fst]; auto.
  rewrite !nostamp_doc. cbn [m with_m]. eapply map_upd_same; eauto.
Qed.

Theorem step_flush_or_stamps (s : store) e s' fx r :
  sorted (m s) -> step s e = (s', fx, r) ->
  (fx = [] /\ nostamp (doc s') = nostamp (doc s)) \/ fx = [Flush (doc s')].
Proof.
  intros S H. destruct e as [n ans now|n now|now ans|]; cbn [step] in H.
  - pose proof (secret_locked_m s n) as M. destruct (secret_locked s n) as [s1 ok]. cbn [fst] in M.
    destruct ok.
    + inversion H; subst. left. split; auto. rewrite (doc_m _ _ M). reflexivity.
    + destruct (allow s).
      * destruct ans as [[v b]|].
        -- unfold lookup_install in H. inversion H; subst. right. f_equal. f_equal.
           apply doc_m. symmetry. apply secret_locked_m.
        -- inversion H; subst. left. auto.
      * inversion H; subst. left. auto.
  - pose proof (secret_locked_m s n) as M. destruct (secret_locked s n) as [s1 ok]. cbn [fst] in M.
    destruct ok.
    + pose proof (@read_nostamp s1 n now) as RN. destruct (read s1 n now) as [s2 v]. cbn [fst] in RN.
      inversion H; subst. left. split; auto. rewrite RN by (rewrite M; exact S). rewrite (doc_m _ _ M). reflexivity.
    + inversion H; subst. left. auto.
  - unfold refresh in H. destruct (poll (snapshot s now) (fun (n : name) (_ : N) => assoc_resp ans n)) as [ups|].
    + unfold apply_updates in H. destruct ups as [|u ups].
      * inversion H; subst. left. auto.
      * inversion H; subst. right. reflexivity.
    + inversion H; subst. left. auto.
  - unfold shutdown_flush in H. inversion H; subst. right. reflexivity.
Qed.

(* FLUSH POINTS, one by one *)
(* a successful lookup of an unknown name writes the whole new state, which now serves the value *)
Theorem lookup_flushes (s : store) n v b now s' fx r :
  known s n = false -> allow s = true -> step s (ELookup n (Some (v, b)) now) = (s', fx, r) ->
  fx = [Flush (doc s')] /\ served (m s') n = Some (v, b) /\ r = RLookup true true.
Proof.
  intros K A H. cbn [step] in H. unfold secret_locked in H. rewrite K, A in H.
  unfold lookup_install in H. inversion H; subst. clear H.
  split; [|split; auto].
  - f_equal. f_equal. apply doc_m. symmetry. apply secret_locked_m.
  - unfold served. rewrite secret_locked_m. cbn [m with_m]. rewrite find_upd_eq. reflexivity.
Qed.

(* a poll that has anything to apply writes the whole new state; one that has not (or failed)
   changes nothing at all *)
Theorem poll_flushes (s : store) now ans s' fx r :
  step s (EPoll now ans) = (s', fx, r) ->
  match poll (snapshot s now) (fun n _ => assoc_resp ans n) with
  | Some (_ :: _) => fx = [Flush (doc s')]
  | _ => fx = [] /\ s' = s
  end.
Proof.
  intros H. cbn [step] in H. unfold refresh in H.
  destruct (poll (snapshot s now) (fun (n : name) (_ : N) => assoc_resp ans n)) as [[|u ups]|];
    cbn [apply_updates] in H; inversion H; subst; auto.
Qed.

(* the poller's shutdown writes the whole state; only the first Close finds a poller *)
Theorem close_flushes (s : store) : step_alive true s EClose = (s, [Flush (doc s)], RClose, false).
Proof. reflexivity. Qed.

Lemma step_Inv (s : store) e : Inv s -> Inv (fst (fst (step s e))).
Proof.
  intros I. destruct e as [n ans now|n now|now ans|]; cbn [step].
  - pose proof (secret_locked_Inv n I) as I1. destruct (secret_locked s n) as [s1 ok]. cbn [fst] in I1.
    destruct ok; cbn [fst]; auto. destruct (allow s); cbn [fst]; auto.
    destruct ans as [[v b]|]; cbn [fst]; auto.
    pose proof (lookup_install_Inv n v b now I) as I2. destruct (lookup_install s n v b now). exact I2.
  - pose proof (secret_locked_Inv n I) as I1. destruct (secret_locked s n) as [s1 ok]. cbn [fst] in I1.
    destruct ok; cbn [fst]; auto.
    pose proof (read_Inv n now I1) as I2. destruct (read s1 n now). exact I2.
  - pose proof (refresh_Inv now (fun n _ => assoc_resp ans n) I) as I2.
    destruct (refresh s now (fun (n : name) (_ : N) => assoc_resp ans n)) as [[s1 fx] ok]. exact I2.
  - cbn [fst]. exact I.
Qed.

(* ---- WRITES ARE TOTALLY ORDERED WITH THE INSTALLS: along any run of locked steps every write is
   the document of the state right after the step that made it, and the last document written
   differs from the final state in access stamps only *)
Lemma step_alive_cases (s : store) alive e :
  (fst (step_alive alive s e) = step s e) \/ (step_alive alive s e = (s, [], RClose, false)).
Proof. destruct e; cbn [step_alive fst]; auto. destruct alive; auto. Qed.

Theorem writes_are_state_docs es : forall (s : store) alive, Inv s ->
  Forall (fun x : store * list (effect V) => snd x = [] \/ snd x = [Flush (doc (fst x))]) (run_trace s alive es).
Proof.
  induction es as [|e es IH]; intros s alive I; cbn [run_trace]; [constructor|].
  destruct (step_alive alive s e) as [[[s' fx] r] alive'] eqn:E.
  destruct (step_alive_cases s alive e) as [C|C]; rewrite E in C; cbn [fst] in C.
  - constructor.
    + cbn [fst snd]. destruct (@step_flush_or_stamps _ _ _ _ _ (inv_sorted I) (eq_sym C)) as [[-> _] | -> ]; auto.
    + apply IH. pose proof (step_Inv e I) as I'. rewrite <- C in I'. exact I'.
  - inversion C; subst. constructor; [left; reflexivity|]. apply IH. exact I.
Qed.

Lemma last_nonempty_default {A} (l : list A) : forall y d d', List.last (y :: l) d = List.last (y :: l) d'.
Proof. induction l as [|z l IH]; intros y d d'; [reflexivity|]. change (List.last (z :: l) d = List.last (z :: l) d'). apply IH. Qed.

Lemma last_cons {A} (l : list A) x d : List.last (x :: l) d = List.last l x.
Proof. destruct l as [|y l]; [reflexivity|]. change (List.last (y :: l) d = List.last (y :: l) x). apply last_nonempty_default. Qed.

Theorem last_write_is_final_state es : forall (s : store) alive d0, Inv s ->
  nostamp d0 = nostamp (doc s) ->
  nostamp (List.last (writes_of (run_trace s alive es)) d0) = nostamp (doc (final_of s (run_trace s alive es))).
Proof.
  unfold final_of. induction es as [|e es IH]; intros s alive d0 I D; cbn [run_trace writes_of flat_map map List.last]; auto.
  destruct (step_alive alive s e) as [[[s' fx] r] alive'] eqn:E.
  assert (X : Inv s' /\ ((fx = [] /\ nostamp (doc s') = nostamp (doc s)) \/ fx = [Flush (doc s')])).
  { destruct (step_alive_cases s alive e) as [C|C]; rewrite E in C; cbn [fst] in C.
    - split.
      + pose proof (step_Inv e I) as I'. rewrite <- C in I'. exact I'.
      + apply (@step_flush_or_stamps _ _ _ _ _ (inv_sorted I) (eq_sym C)).
    - inversion C; subst. split; auto. }
  destruct X as [I' [[-> NS] | -> ]]; cbn [map fst flat_map app].
  - fold (writes_of (run_trace s' alive' es)).
    transitivity (nostamp (doc (List.last (map fst (run_trace s' alive' es)) s'))).
    + apply IH; auto. congruence.
    + rewrite last_cons. reflexivity.
  - fold (writes_of (run_trace s' alive' es)).
    transitivity (nostamp (List.last (writes_of (run_trace s' alive' es)) (doc s'))).
    + rewrite last_cons. reflexivity.
    + rewrite (IH s' alive' (doc s') I' eq_refl). rewrite last_cons. reflexivity.
Qed.

(* ---- WRITES LAND IN THE ORDER THEY ARE OFFERED: Cache.Write is called synchronously inside the
   locked step and the step ends only when it has returned, so (writes succeeding) the cache content
   at rest after any run is the LAST document offered - however long any single write took *)
Theorem content_is_last_offered es : forall (h : hstate V),
  pers (hrun h (map (fun e => (e, true)) es))
  = List.last (map (@Some _) (writes_of (run_trace (hst h) (polling h) es))) (pers h).
Proof.
  induction es as [|e es IH]; intros h; cbn [map hrun fold_left run_trace writes_of flat_map List.last]; auto.
  change (fold_left (@hstep V) (map (fun e0 => (e0, true)) es) (hstep h (e, true))) with (hrun (hstep h (e, true)) (map (fun e0 => (e0, true)) es)).
  rewrite IH. unfold hstep.
  destruct (step_alive (polling h) (hst h) e) as [[[s' fx] r] alive'] eqn:E. cbn [hst polling pers].
  assert (F : fx = [] \/ exists d, fx = [Flush d]).
  { destruct (step_alive_cases (hst h) (polling h) e) as [C|C]; rewrite E in C; cbn [fst] in C.
    - destruct e as [n ans now|n now|now ans|]; cbn [step] in C.
      + destruct (secret_locked (hst h) n) as [s1 ok]. destruct ok; [inversion C; auto|].
        destruct (allow (hst h)); [|inversion C; auto]. destruct ans as [[v b]|]; [|inversion C; auto].
        unfold lookup_install in C. inversion C. right. eexists. reflexivity.
      + destruct (secret_locked (hst h) n) as [s1 ok]. destruct ok; [|inversion C; auto].
        destruct (read s1 n now). inversion C; auto.
      + unfold refresh in C. destruct (poll (snapshot (hst h) now) (fun (n : name) (_ : N) => assoc_resp ans n)) as [[|u ups]|];
          cbn [apply_updates] in C; inversion C; auto. right. eexists. reflexivity.
      + unfold shutdown_flush in C. inversion C. right. eexists. reflexivity.
    - inversion C; auto. }
  destruct F as [->|[d ->]]; cbn [persist fold_left flat_map app map].
  - reflexivity.
  - unfold writes_of. rewrite last_cons. reflexivity.
Qed.

(* ---- the cache content tracks the state: invariant over all histories with working writes *)
Definition clean (P : store -> Prop) (h : hstate V) : Prop :=
  match pers h with
  | Some d => exists s0, d = doc s0 /\ P s0 /\ nostamp (doc s0) = nostamp (doc (hst h))
  | None => m (hst h) = []
  end.

Lemma nostamp_nil (s : store) : nostamp (doc s) = [] -> m s = [].
Proof. rewrite nostamp_doc. destruct (m s); [auto|discriminate]. Qed.

Theorem hstep_clean (P : store -> Prop) (h : hstate V) e :
  (forall s, P s -> Inv s) ->
  P (hst h) -> P (fst (fst (step (hst h) e))) ->
  clean P h -> clean P (hstep h (e, true)).
Proof.
  intros PI P0 P1 C. unfold hstep, step_alive.
  assert (S : sorted (m (hst h))) by (apply inv_sorted, PI, P0).
  destruct e as [n ans now|n now|now ans|].
  1-3: match goal with |- context [step ?a ?b] => destruct (step a b) as [[s' fx] r] eqn:E end;
       cbn [fst] in P1;
       destruct (@step_flush_or_stamps _ _ _ _ _ S E) as [[-> NS] | -> ]; unfold clean; cbn [pers hst persist fold_left];
       [ unfold clean in C; destruct (pers h) as [d|];
         [ destruct C as (s0 & D & Ps0 & N0); exists s0; repeat split; auto; congruence
         | apply nostamp_nil; rewrite NS; rewrite nostamp_doc, C; reflexivity ]
       | exists s'; auto ].
  destruct (polling h).
  - cbn [step shutdown_flush]. unfold clean. cbn [pers hst persist fold_left]. exists (hst h). auto.
  - unfold clean in *. cbn [pers hst persist fold_left]. exact C.
Qed.

(* the cache content after a step that wrote successfully IS the document of the state *)
Theorem hstep_written (h : hstate V) e s' d r :
  sorted (m (hst h)) -> step (hst h) e = (s', [Flush d], r) -> d = doc s'.
Proof.
  intros S E. destruct (@step_flush_or_stamps _ _ _ _ _ S E) as [[X _]|X]; [discriminate|]. inversion X; auto.
Qed.

(* ---- construction *)
Lemma norm_names_in names n : In n (norm_names names) -> In n names.
Proof.
  unfold norm_names.
  assert (G : forall l acc k, In (k, tt) (fold_left (fun (a : @smap name unit) x => upd x tt a) l acc) -> In (k, tt) acc \/ In k l).
  { induction l as [|x l IH]; cbn [fold_left]; auto. intros acc k I.
    destruct (IH _ _ I) as [I2|I2]; [|right; right; exact I2].
    apply in_upd in I2. destruct I2 as [[-> _]|I2]; [right; left; reflexivity|left; exact I2]. }
  intros I. apply in_map_iff in I. destruct I as ([k []] & <- & I). cbn [fst].
  destruct (G _ _ _ I) as [[]|]; auto.
Qed.

Lemma no_stub_in (mm : @smap name (option (centry V))) : sorted mm -> no_stubs mm -> forall n, ~ In (n, None) mm.
Proof. intros S NS n I. apply (NS n). apply in_find; auto. Qed.

Lemma stubs_nil (mm : @smap name (option (centry V))) : (forall n, ~ In (n, None) mm) -> stubs mm = [].
Proof.
  unfold stubs. induction mm as [|[k [e|]] mm IH]; intros H; cbn [flat_map]; auto.
  - cbn [app]. apply IH. intros n I. apply (H n). right. exact I.
  - exfalso. apply (H k). left. reflexivity.
Qed.

Definition undecl (oe : option (centry V)) : option (centry V) :=
  match oe with Some e => Some (CE (ver e) (val e) (last e) false) | None => None end.

End Hist.

(* ---- composition with the document model (values are bytes) *)
Section Restart.
Variable b64enc : bytes -> bytes.
Variable b64dec : bytes -> option bytes.
Hypothesis b64_round : forall b, b64dec (b64enc b) = Some b.
Notation store := (store bytes).

(* what the round trip needs of a state: the shared invariant, field ranges of the Go types, and
   no secret under the empty name (the service refuses the empty name) *)
Record good (s : store) : Prop := {
  g_inv : Inv s;
  g_range : in_range (m s);
  g_noempty : find [] (m s) = None
}.

Lemma of_cache_rents (mm : @smap name (option (centry bytes))) :
  (forall n, ~ In (n, None) mm) -> of_cache (rents mm) = map (fun '(n, oe) => (n, undecl oe)) mm.
Proof.
  unfold of_cache, rents. induction mm as [|[k [e|]] mm IH]; intros H; cbn [map flat_map]; auto.
  - cbn [app undecl]. f_equal. apply IH. intros n I. apply (H n). right. exact I.
  - exfalso. apply (H k). left. reflexivity.
Qed.

(* the declare loop over names that are all cached only sets declared bits *)
Definition same_served (a b : @smap name (option (centry bytes))) : Prop :=
  forall n, served a n = served b n /\ (find n a = None <-> find n b = None) /\ find n a <> Some None.

Lemma declare_cached (names : list name) : forall (mm m0 : @smap name (option (centry bytes))),
  sorted mm -> same_served mm m0 -> (forall n, In n names -> find n m0 <> None) ->
  exists mm', declare mm names = (mm', false) /\ sorted mm' /\ same_served mm' m0.
Proof.
  unfold declare. induction names as [|x names IH]; intros mm m0 S SS K; cbn [fold_left].
  - exists mm. auto.
  - destruct (SS x) as (Sv & Kn & NSt).
    assert (Kx : find x m0 <> None) by (apply K; left; reflexivity).
    unfold declare1 at 2. destruct (find x mm) as [[e|]|] eqn:F.
    + apply IH.
      * apply sorted_upd; auto.
      * intros n. destruct (SS n) as (Sv' & Kn' & NSt'). unfold served in *. rewrite !find_upd_cases.
        destruct (neqb n x) eqn:E.
        -- apply neqb_true in E. subst n. rewrite F in Sv'. cbn [ver val]. repeat split; auto; try congruence.
        -- auto.
      * intros n I. apply K. right. exact I.
    + congruence.
    + exfalso. apply Kx. apply Kn. reflexivity.
Qed.

Lemma same_served_undecl (mm : @smap name (option (centry bytes))) : no_stubs mm ->
  same_served (map (fun '(n, oe) => (n, undecl oe)) mm) mm.
Proof.
  intros NS n. unfold served. rewrite (find_map_val (@undecl bytes)).
  specialize (NS n). destruct (find n mm) as [[e|]|]; cbn [option_map undecl ver val]; repeat split; auto; try congruence; try tauto.
Qed.

(* ---- `good` is preserved by every event whose inputs fit the Go field types *)
Definition i64 (z : Z) : Prop := (- max_i64 - 1 <= z <= max_i64)%Z.
Definition u32 (v : N) : Prop := (Z.of_N v <= max_u32)%Z.
Definition ev_ok (e : ev bytes) : Prop :=
  match e with
  | ELookup n ans now => i64 now /\ match ans with Some (v, _) => u32 v /\ n <> [] | None => True end
  | ERead _ now => i64 now
  | EPoll _ ans => forall n v b, In (n, RValue v b) ans -> u32 v
  | EClose => True
  end.

Definition rn (mm : @smap name (option (centry bytes))) : Prop := in_range mm /\ find [] mm = None.

Lemma rn_upd mm n e : rn mm -> entry_in_range e -> n <> [] -> rn (upd n (Some e) mm).
Proof.
  intros [R NE] Re Nn. split.
  - intros k e' I. apply in_upd in I. destruct I as [[_ X]|I]; [inversion X; subst; exact Re|eapply R; eauto].
  - rewrite find_upd_neq; auto.
Qed.

Lemma rn_upd_present mm n e0 e : rn mm -> find n mm = Some (Some e0) -> entry_in_range e -> rn (upd n (Some e) mm).
Proof.
  intros RN F Re. apply rn_upd; auto. intros ->. destruct RN as [_ NE].
  pose proof (eq_trans (eq_sym NE) F). discriminate.
Qed.

Lemma rn_del mm n : sorted mm -> rn mm -> rn (del n mm).
Proof.
  intros S [R NE]. split.
  - intros k e I. apply in_del in I. eapply R; eauto.
  - destruct (name_eq_dec [] n) as [<-|D]; [apply find_del_eq; auto|rewrite find_del_neq; auto].
Qed.

Lemma rn_entry mm n e : rn mm -> find n mm = Some (Some e) -> entry_in_range e.
Proof. intros [R _] F. apply (R n e). apply find_in. exact F. Qed.

Lemma secret_locked_good (s : store) n : good s -> good (fst (secret_locked s n)).
Proof.
  intros [I R NE]. constructor; [apply secret_locked_Inv; auto| |]; rewrite secret_locked_m; auto.
Qed.

Lemma assoc_resp_in (l : list (name * resp bytes)) n v b : assoc_resp l n = RValue v b -> exists k, In (k, RValue v b) l.
Proof.
  induction l as [|[k r] l IH]; cbn [assoc_resp]; [discriminate|].
  destruct (neqb k n).
  - intros ->. exists k. left. reflexivity.
  - intros H. destruct (IH H) as (k' & I). exists k'. right. exact I.
Qed.

Lemma poll_installs (snap : list (snap_entry)) (f : name -> N -> resp bytes) : forall ups n v b,
  poll snap f = Some ups -> In (n, Install v b) ups -> exists k old, f k old = RValue v b.
Proof.
  induction snap as [|[k [ex old]] snap IH]; cbn [poll]; intros ups n v b H I.
  - inversion H; subst. destruct I.
  - destruct ex.
    + destruct (poll snap f) as [r|]; [|discriminate]. inversion H; subst. destruct I as [X|I]; [discriminate|]. eapply IH; eauto.
    + destruct (f k old) as [|v' b'|] eqn:F; [eapply IH; eauto| |discriminate].
      destruct (v' =? old)%N; [eapply IH; eauto|].
      destruct (poll snap f) as [r|]; [|discriminate]. inversion H; subst.
      destruct I as [X|I]; [inversion X; subst; eauto|eapply IH; eauto].
Qed.

Lemma apply1_rn (s : store) u : sorted (m s) -> rn (m s) ->
  (forall n v b, u = (n, Install v b) -> u32 v) -> rn (m (apply1 s u)).
Proof.
  intros S RN U. destruct u as [n [|v b]]; cbn [apply1].
  - destruct (has_handle s n); auto. cbn [m with_m]. apply rn_del; auto.
  - destruct (find n (m s)) as [[e|]|] eqn:F; auto.
    cbn [m notify with_ws with_m]. eapply rn_upd_present; eauto.
    destruct (@rn_entry _ _ _ RN F) as [Rt _]. split; cbn [last ver]; auto. apply (U n v b). reflexivity.
Qed.

Lemma fold_apply1_rn ups : forall (s : store), Inv s -> rn (m s) ->
  (forall n v b, In (n, Install v b) ups -> u32 v) -> rn (m (fold_left (@apply1 bytes) ups s)).
Proof.
  induction ups as [|u ups IH]; cbn [fold_left]; auto. intros s I RN U. apply IH.
  - apply apply1_Inv. exact I.
  - apply apply1_rn; auto. apply I. intros n v b ->. apply (U n v b). left. reflexivity.
  - intros n v b X. apply (U n v b). right. exact X.
Qed.

Theorem step_good (s : store) e : good s -> ev_ok e -> good (fst (fst (step s e))).
Proof.
  intros G EO. pose proof (step_Inv e (g_inv G)) as I'.
  constructor; [exact I'| |]; clear I'.
  all: destruct e as [n ans now|n now|now ans|]; cbn [step].
  all: try (pose proof (secret_locked_good n G) as G1; pose proof (secret_locked_m s n) as M1;
            destruct (secret_locked s n) as [s1 ok]; cbn [fst] in G1, M1).
  (* in_range *)
  - destruct ok; cbn [fst]; [apply G1|]. destruct (allow s); cbn [fst]; [|apply G].
    destruct ans as [[v b]|]; cbn [fst]; [|apply G]. unfold lookup_install. cbn [fst]. rewrite secret_locked_m. cbn [m with_m].
    destruct EO as [Tn [Vn Nn]]. apply rn_upd; auto; [split; apply G|split; cbn [last ver]; auto].
  - destruct ok; cbn [fst]; [|apply G]. unfold read. destruct (find n (m s1)) as [[e0|]|] eqn:F; cbn [fst m with_m]; try apply G1.
    eapply rn_upd_present; eauto; [split; apply G1|].
    destruct (@rn_entry (m s1) n e0) as [_ Rv]; [split; apply G1|exact F|]. split; cbn [last ver]; auto.
  - unfold refresh. destruct (poll (snapshot s now) (fun (n : name) (_ : N) => assoc_resp ans n)) as [ups|] eqn:P; cbn [fst]; [|apply G].
    unfold apply_updates. destruct ups as [|u ups]; cbn [fst]; [apply G|].
    apply fold_apply1_rn; [apply G|split; apply G|].
    intros n v b X. destruct (@poll_installs _ _ _ _ _ _ P X) as (k & old & A). apply assoc_resp_in in A. destruct A as (k' & A). eapply EO; eauto.
  - cbn [fst]. apply G.
  (* no empty name *)
  - destruct ok; cbn [fst]; [apply G1|]. destruct (allow s); cbn [fst]; [|apply G].
    destruct ans as [[v b]|]; cbn [fst]; [|apply G]. unfold lookup_install. cbn [fst]. rewrite secret_locked_m. cbn [m with_m].
    destruct EO as [Tn [Vn Nn]]. rewrite find_upd_neq; auto. apply G.
  - destruct ok; cbn [fst]; [|apply G]. unfold read. destruct (find n (m s1)) as [[e0|]|] eqn:F; cbn [fst m with_m]; try apply G1.
    rewrite find_upd_neq; [apply G1|]. intros <-. pose proof (g_noempty G1) as NE. pose proof (eq_trans (eq_sym NE) F). discriminate.
  - unfold refresh. destruct (poll (snapshot s now) (fun (n : name) (_ : N) => assoc_resp ans n)) as [ups|] eqn:P; cbn [fst]; [|apply G].
    unfold apply_updates. destruct ups as [|u ups]; cbn [fst]; [apply G|].
    apply fold_apply1_rn; [apply G|split; apply G|].
    intros n v b X. destruct (@poll_installs _ _ _ _ _ _ P X) as (k & old & A). apply assoc_resp_in in A. destruct A as (k' & A). eapply EO; eauto.
  - cbn [fst]. apply G.
Qed.

(* ALL HISTORIES: with a cache whose writes succeed, after every history the cache content is the
   document of a good state that differs from the current state in access stamps only (and is
   exactly the current state's document right after each write, theorem hstep_written) *)
Theorem history_clean (es : list (ev bytes)) : forall (h0 : hstate bytes),
  good (hst h0) -> clean good h0 -> Forall ev_ok es ->
  good (hst (hrun h0 (map (fun e => (e, true)) es))) /\ clean good (hrun h0 (map (fun e => (e, true)) es)).
Proof.
  induction es as [|e es IH]; intros h0 G C F; cbn [map hrun fold_left]; auto.
  inversion F as [|? ? Fe Fes]; subst.
  assert (G1 : good (fst (fst (step (hst h0) e)))) by (apply step_good; auto).
  assert (HS1 : hst (hstep h0 (e, true)) = fst (fst (step (hst h0) e))).
  { unfold hstep, step_alive. destruct e; try (destruct (step (hst h0) _) as [[? ?] ?]; reflexivity).
    destruct (polling h0); reflexivity. }
  apply IH; auto.
  - rewrite HS1. exact G1.
  - apply hstep_clean; auto. intros s Gs. apply Gs.
Qed.

(* RESTART: a store constructed from the document of a good state, with every declared name
   present in it, makes NO request, writes nothing and serves exactly that state's versions
   and bytes - whatever the service would answer *)
Theorem restart_same (s0 : store) names allow_lookup age ans now :
  good s0 -> names_ok (norm_names names) allow_lookup = true ->
  (forall n, In n names -> known s0 n = true) ->
  exists s2, new_store (decode_cache b64dec (encode_cache b64enc (doc s0))) names allow_lookup age ans now = Some (s2, [], [])
             /\ forall n, served (m s2) n = served (m s0) n.
Proof.
  intros [I R NE] NO K. destruct I as [S NS H].
  rewrite (decode_encode_doc b64enc b64dec b64_round s0 S R).
  unfold new_store. rewrite NO. unfold load_cache.
  rewrite (cache_valid_rents NS NE S).
  pose proof (no_stub_in S NS) as NI.
  rewrite (of_cache_rents _ NI).
  destruct (@declare_cached (norm_names names) (map (fun '(n, oe) => (n, undecl oe)) (m s0)) (m s0)) as (mm' & D & S' & SS').
  - apply (sorted_map_keys (@undecl bytes)). exact S.
  - apply same_served_undecl. exact NS.
  - intros n I. apply norm_names_in in I. specialize (K n I). unfold known in K. destruct (find n (m s0)); congruence.
  - rewrite D.
    assert (ST0 : stubs mm' = []).
    { apply stubs_nil. intros n I. destruct (SS' n) as (_ & _ & X). apply X. apply in_find; auto. }
    unfold init_round. rewrite ST0. cbn [fold_left].
    eexists. split; [reflexivity|]. cbn [m]. intros n. apply (SS' n).
Qed.

(* the same after any history: the cache content (last successful write) restarts to what the
   running store serves NOW, although access stamps may have moved since that write *)
Theorem restart_from_persisted (h : hstate bytes) d names allow_lookup age ans now :
  clean good h -> pers h = Some d ->
  names_ok (norm_names names) allow_lookup = true ->
  (forall n, In n names -> known (hst h) n = true) ->
  exists s2, new_store (decode_cache b64dec (encode_cache b64enc d)) names allow_lookup age ans now = Some (s2, [], [])
             /\ forall n, served (m s2) n = served (m (hst h)) n.
Proof.
  intros C P NO K. unfold clean in C. rewrite P in C. destruct C as (s0 & -> & G & NSt).
  destruct (@restart_same s0 names allow_lookup age ans now G NO) as (s2 & E & Sv).
  - intros n I. rewrite (known_nostamp _ _ n NSt). apply K. exact I.
  - exists s2. split; auto. intros n. rewrite Sv. apply served_nostamp. exact NSt.
Qed.

(* BAD CACHE: contents that do not decode, or decode to an invalid set, are not used at all:
   construction is exactly construction without a cache *)
Theorem bad_cache_ignored (c : cache_input) names allow_lookup age ans now :
  usable b64dec c = None ->
  new_store (match c with Some (Some j) => decode_cache b64dec j | _ => None end) names allow_lookup age ans now
  = new_store None names allow_lookup age ans now.
Proof.
  intros U. unfold new_store.
  assert (L : load_cache (match c with Some (Some j) => decode_cache b64dec j | _ => None end) = @load_cache bytes None).
  { unfold usable in U. destruct c as [[j|]|]; auto. unfold load_cache.
    destruct (decode_cache b64dec j) as [d|]; auto. destruct (cache_valid d); [discriminate|reflexivity]. }
  rewrite L. reflexivity.
Qed.

(* INIT: construction that had to fetch anything writes the whole resulting state *)
Lemma declare_want (names : list name) : forall (mm : @smap name (option (centry bytes))) want mm' want',
  fold_left (@declare1 bytes) names (mm, want) = (mm', want') ->
  (want = false -> stubs mm = []) -> (want' = false -> stubs mm' = []).
Proof.
  induction names as [|x names IH]; cbn [fold_left]; intros mm want mm' want' H W.
  - inversion H; subst. exact W.
  - unfold declare1 at 2 in H. destruct (find x mm) as [[e|]|] eqn:F.
    + eapply IH; [exact H|]. intros Wf. specialize (W Wf).
      (* replacing a non-stub by a non-stub creates no stub *)
      clear - W F. unfold stubs in *. induction mm as [|[k oe] mm IHm]; cbn [upd flat_map] in *; auto.
      cbn [find] in F. destruct (cmp x k) eqn:C.
      * inversion F; subst. cbn [flat_map]. exact W.
      * cbn [flat_map app]. exact W.
      * cbn [flat_map]. destruct oe; cbn [app] in *; [apply IHm; auto|discriminate].
    + eapply IH; eauto.
    + eapply IH; [exact H|]. discriminate.
Qed.

Theorem init_fetch_flushes c names allow_lookup age ans now (s : store) fx reqs :
  new_store c names allow_lookup age ans now = Some (s, fx, reqs) ->
  stubs (load_cache c) = [] ->
  reqs <> [] -> fx = [Flush (doc s)].
Proof.
  unfold new_store. destruct (names_ok (norm_names names) allow_lookup); [|discriminate].
  destruct (declare (load_cache c) (norm_names names)) as [m0 want] eqn:D.
  destruct (init_round m0 ans now) as [m1 missing]. destruct missing; [|discriminate].
  intros H L NE. inversion H; subst. clear H.
  destruct want; auto. exfalso. apply NE.
  unfold declare in D. eapply declare_want; eauto.
Qed.

Lemma load_cache_no_stubs (c : option (@smap name (rentry bytes))) : stubs (load_cache c) = [].
Proof.
  unfold load_cache. destruct c as [d|]; auto. destruct (cache_valid d); auto.
  unfold of_cache, stubs. induction d as [|[k [[[[v b]|] t]|]] d IH]; cbn [flat_map app]; auto.
Qed.

End Restart.
