(* C13 - construction: the state NewStore builds is `good` (so the all-histories theorems apply from
   the very first event), the decoder only produces values that fit the Go field types, and when
   construction writes nothing the cache content already IS the document of the constructed state. *)
From Coq Require Import List Bool NArith ZArith Lia.
Import ListNotations.
From Setec Require Import Base.SMap Client.Store Client.StoreInv Client.CacheDoc Client.CacheDocProofs
                          Client.CacheHist Client.CacheHistProofs.
Set Implicit Arguments.

Definition rrange (d : @smap name (rentry bytes)) : Prop :=
  forall k v b t, In (k, Some (Some (v, b), t)) d -> u32 v /\ i64 t.

Lemma find_none_keys {A} (mm : @smap name A) n : (forall k v, In (k, v) mm -> k <> n) -> find n mm = None.
Proof.
  induction mm as [|[k v] mm IH]; intros H; cbn [find]; auto.
  destruct (cmp n k) eqn:C.
  - apply cmp_eq in C. exfalso. apply (H k v); [left; reflexivity|auto].
  - apply IH. intros k' v' I. apply (H k' v'). right. exact I.
  - apply IH. intros k' v' I. apply (H k' v'). right. exact I.
Qed.

(* ---- what the decoder can produce *)
Lemma parse_i64_range s z : parse_i64 s = Some z -> i64 z.
Proof.
  unfold parse_i64, i64. destruct s as [|c r]; [discriminate|].
  destruct (c =? 45)%N.
  - destruct (parse_nat r) as [n|]; [|discriminate].
    destruct (Z.of_N n <=? max_i64 + 1)%Z eqn:L; [|discriminate]. apply Z.leb_le in L. intros E. inversion E. unfold max_i64 in *. lia.
  - unfold parse_pos. destruct (parse_nat (c :: r)) as [n|]; [|discriminate].
    destruct (Z.of_N n <=? max_i64)%Z eqn:L; [|discriminate]. apply Z.leb_le in L. intros E. inversion E. unfold max_i64 in *. lia.
Qed.

Section Dec.
Variable b64dec : bytes -> option bytes.

Lemma dec_secret_range kvs : forall b0 v0 b v, u32 v0 -> dec_secret b64dec (b0, v0) kvs = Some (b, v) -> u32 v.
Proof.
  unfold dec_secret. induction kvs as [|[k j] kvs IH]; cbn [fold_left]; intros b0 v0 b v U H.
  - inversion H; subst. exact U.
  - unfold sec_field at 2 in H. destruct (key_is k f_value).
    + destruct (dec_bytes b64dec j) as [b'|]; cbn [option_map] in H.
      * eapply IH; eauto.
      * exfalso. clear - H. induction kvs as [|[k' j'] kvs IHk]; cbn [fold_left] in H; [discriminate|]. apply IHk. exact H.
    + destruct (key_is k f_version).
      * unfold dec_u32 in H. destruct j as [| |[z|]| | |]; try (exfalso; clear - H; induction kvs as [|[k' j'] kvs IHk]; cbn [fold_left] in H; [discriminate|apply IHk; exact H]).
        -- eapply IH; eauto.
        -- destruct ((0 <=? z)%Z && (z <=? max_u32)%Z) eqn:R.
           ++ apply andb_true_iff in R. destruct R as [R1 R2]. apply Z.leb_le in R1, R2.
              eapply IH; [|exact H]. unfold u32. rewrite Z2N.id; auto.
           ++ exfalso. clear - H. induction kvs as [|[k' j'] kvs IHk]; cbn [fold_left] in H; [discriminate|apply IHk; exact H].
      * eapply IH; eauto.
Qed.

Lemma fold_none {A B} (f : option A -> B -> option A) (l : list B) :
  (forall x, f None x = None) -> fold_left f l None = None.
Proof. intros H. induction l; cbn [fold_left]; auto. rewrite H. auto. Qed.

Definition acc_ok (a : option (bytes * N) * Z) : Prop :=
  i64 (snd a) /\ forall b v, fst a = Some (b, v) -> u32 v.

Lemma ent_fold_range kvs : forall a r, acc_ok a -> fold_left (ent_field b64dec) kvs (Some a) = Some r -> acc_ok r.
Proof.
  induction kvs as [|[k j] kvs IH]; cbn [fold_left]; intros a r A H.
  - inversion H; subst. exact A.
  - destruct a as [sec la]. unfold ent_field at 2 in H.
    assert (N0 : fold_left (ent_field b64dec) kvs None = None) by (apply fold_none; reflexivity).
    destruct (key_is k f_secret).
    + destruct j; try (rewrite N0 in H; discriminate).
      * eapply IH; [|exact H]. destruct A as [A1 A2]. split; cbn [fst snd]; auto. discriminate.
      * destruct (dec_secret b64dec match sec with Some x => x | None => ([], 0%N) end l) as [[b v]|] eqn:D; [|rewrite N0 in H; discriminate].
        eapply IH; [|exact H]. destruct A as [A1 A2]. split; cbn [fst snd] in *; auto.
        intros b' v' E. inversion E; subst. destruct sec as [[b0 v0]|].
        -- eapply dec_secret_range; [|exact D]. eapply A2. reflexivity.
        -- eapply dec_secret_range; [|exact D]. unfold u32, max_u32. cbn. lia.
    + destruct (key_is k f_lastaccess).
      * destruct (dec_i64_string j) as [|z|] eqn:D; [eapply IH; eauto| |rewrite N0 in H; discriminate].
        eapply IH; [|exact H]. destruct A as [A1 A2]. split; cbn [fst snd] in *; auto.
        unfold dec_i64_string in D. destruct j; try discriminate.
        destruct (parse_i64 s) as [z'|] eqn:P; [inversion D; subst; eapply parse_i64_range; eauto|].
        destruct (neqb s s_null); discriminate.
      * eapply IH; eauto.
Qed.

Lemma dec_entry_range j v b t : dec_entry b64dec j = Some (Some (Some (v, b), t)) -> u32 v /\ i64 t.
Proof.
  unfold dec_entry. destruct j; try discriminate.
  destruct (fold_left (ent_field b64dec) l (Some (None, 0%Z))) as [[sec la]|] eqn:F; [|discriminate].
  intros E. inversion E; subst. clear E.
  assert (A : acc_ok (sec, t)).
  { eapply ent_fold_range; [|exact F]. split; cbn [fst snd]; [unfold i64, max_i64; lia|discriminate]. }
  destruct A as [A1 A2]. cbn [fst snd] in *. split; auto.
  destruct sec as [[b0 v0]|]; cbn [option_map] in *; [|discriminate].
  match goal with H : Some _ = Some _ |- _ => inversion H; subst end. eapply A2. reflexivity.
Qed.

Lemma top_fold_ok kvs : forall acc d, sorted acc -> rrange acc ->
  fold_left (top_field b64dec) kvs (Some acc) = Some d -> sorted d /\ rrange d.
Proof.
  induction kvs as [|[k j] kvs IH]; cbn [fold_left]; intros acc d S R H.
  - inversion H; subst. auto.
  - cbn [top_field] in H. destruct (dec_entry b64dec j) as [e|] eqn:D; cbn [option_map] in H.
    + eapply IH; [| |exact H].
      * apply sorted_upd. exact S.
      * intros k' v b t I. apply in_upd in I. destruct I as [[_ E]|I]; [|eapply R; eauto].
        subst e. eapply dec_entry_range. exact D.
    + rewrite fold_none in H by reflexivity. discriminate.
Qed.

(* the decoder yields a canonical map whose versions fit uint32 and stamps int64 *)
Theorem decode_ok j d : decode_cache b64dec j = Some d -> sorted d /\ rrange d.
Proof.
  unfold decode_cache. destruct j; try discriminate.
  - intros E. inversion E; subst. split; [constructor|]. intros ? ? ? ? [].
  - apply top_fold_ok; [constructor|]. intros ? ? ? ? [].
Qed.
End Dec.

(* ---- the map loaded from a cache *)
Lemma of_cache_in (d : @smap name (rentry bytes)) n e : In (n, e) (of_cache d) ->
  exists v b t, e = Some (CE v b t false) /\ In (n, Some (Some (v, b), t)) d.
Proof.
  unfold of_cache. induction d as [|[k re] d IH]; cbn [flat_map]; intros I; [destruct I|].
  apply in_app_or in I. destruct I as [I|I].
  - destruct re as [[[[v b]|] t]|]; cbn in I; try (destruct I; fail).
    destruct I as [E|[]]. inversion E; subst. exists v, b, t. split; auto. left. reflexivity.
  - destruct (IH I) as (v & b & t & E & I'). exists v, b, t. split; auto. right. exact I'.
Qed.

Lemma sorted_of_cache (d : @smap name (rentry bytes)) : sorted d -> sorted (of_cache d).
Proof.
  induction 1 as [|k e d Hlt S IH]; [constructor|].
  assert (T : forall k' v', In (k', v') (of_cache d) -> cmp k k' = Lt).
  { intros k' v' I. destruct (of_cache_in _ _ _ I) as (v & b & t & _ & I'). eapply Hlt; eauto. }
  unfold of_cache in *. cbn [flat_map]. destruct e as [[[[v b]|] t]|]; cbn [app]; auto. constructor; auto.
Qed.

Definition P3 (mm : @smap name (option (centry bytes))) : Prop := sorted mm /\ in_range mm /\ find [] mm = None.

Lemma P3_nil : P3 [].
Proof. split; [constructor|]. split; [intros ? ? []|reflexivity]. Qed.

Lemma P3_load (c : option (@smap name (rentry bytes))) :
  (forall d, c = Some d -> sorted d /\ rrange d) -> P3 (load_cache c).
Proof.
  intros H. unfold load_cache. destruct c as [d|]; [|apply P3_nil].
  destruct (H d eq_refl) as [S R].
  destruct (cache_valid d) eqn:CV; [|apply P3_nil].
  split; [apply sorted_of_cache; exact S|]. split.
  - intros n e I. destruct (of_cache_in _ _ _ I) as (v & b & t & E & I'). inversion E; subst.
    destruct (R _ _ _ _ I') as [U T]. split; cbn [last ver]; auto.
  - apply find_none_keys. intros k v I. destruct (of_cache_in _ _ _ I) as (v' & b & t & _ & I').
    unfold cache_valid in CV. rewrite forallb_forall in CV. specialize (CV _ I'). cbn in CV.
    destruct k; [discriminate|discriminate].
Qed.

Lemma P3_upd_some mm n e : P3 mm -> entry_in_range e -> n <> [] -> P3 (upd n (Some e) mm).
Proof.
  intros (S & R & NE) Re Nn. split; [apply sorted_upd; auto|].
  destruct (@rn_upd mm n e) as [R' NE']; auto. split; auto.
Qed.

Lemma P3_upd_none mm n : P3 mm -> n <> [] -> P3 (upd n None mm).
Proof.
  intros (S & R & NE) Nn. split; [apply sorted_upd; auto|]. split.
  - intros k e I. apply in_upd in I. destruct I as [[_ X]|I]; [discriminate|eapply R; eauto].
  - rewrite find_upd_neq; auto.
Qed.

Lemma declare_P3 (names : list name) : forall mm want mm' want',
  (forall n, In n names -> n <> []) -> P3 mm ->
  fold_left (@declare1 bytes) names (mm, want) = (mm', want') -> P3 mm'.
Proof.
  induction names as [|x names IH]; cbn [fold_left]; intros mm want mm' want' NN P H.
  - inversion H; subst. exact P.
  - assert (Nx : x <> []) by (apply NN; left; reflexivity).
    assert (NN' : forall n, In n names -> n <> []) by (intros n I; apply NN; right; exact I).
    unfold declare1 at 2 in H. destruct (find x mm) as [[e|]|] eqn:F.
    + eapply IH; [exact NN'| |exact H]. apply P3_upd_some; auto.
      destruct P as (S & R & NE). destruct (R x e (find_in _ _ F)) as [R1 R2]. split; cbn [last ver]; auto.
    + eapply IH; eauto.
    + eapply IH; [exact NN'| |exact H]. apply P3_upd_none; auto.
Qed.

Lemma names_ok_nonempty names al : names_ok names al = true -> forall n, In n names -> n <> [].
Proof.
  unfold names_ok. intros H n I ->. apply andb_true_iff in H. destruct H as [H _].
  apply negb_true_iff in H. apply not_true_iff_false in H. apply H.
  apply existsb_exists. exists []. auto.
Qed.

Lemma stub_find (mm : @smap name (option (centry bytes))) n : sorted mm -> In n (stubs mm) -> find n mm = Some None.
Proof.
  intros S I. unfold stubs in I. apply in_flat_map in I. destruct I as ([k oe] & I & J).
  destruct oe; [destruct J|]. destruct J as [<-|[]]. apply in_find; auto.
Qed.

Lemma find_stub (mm : @smap name (option (centry bytes))) n : find n mm = Some None -> In n (stubs mm).
Proof.
  intros F. apply find_in in F. unfold stubs. apply in_flat_map. exists (n, None). split; auto. left. reflexivity.
Qed.

Definition init_f (ans : name -> option (N * bytes)) (now : Z) :=
  (fun '(acc, missing) (n : name) =>
     match ans n with
     | Some (v, b) => (upd n (Some (CE v b now true)) acc, missing)
     | None => (acc, S missing)
     end) : @smap name (option (centry bytes)) * nat -> name -> @smap name (option (centry bytes)) * nat.

Lemma init_fold_missing (ans : name -> option (N * bytes)) now (l : list name) : forall acc k m1,
  fold_left (init_f ans now) l (acc, S k) <> (m1, O).
Proof.
  induction l as [|y l IHl]; cbn [fold_left]; intros acc k m1; [congruence|].
  unfold init_f at 2. destruct (ans y) as [[v b]|]; apply IHl.
Qed.

Lemma init_fold (ans : name -> option (N * bytes)) now (l : list name) : forall acc missing m1,
  (forall n v b, ans n = Some (v, b) -> u32 v) -> i64 now ->
  (forall n, In n l -> n <> []) -> P3 acc ->
  (missing = O -> forall n, find n acc = Some None -> In n l) ->
  fold_left (init_f ans now) l (acc, missing) = (m1, O) ->
  P3 m1 /\ no_stubs m1.
Proof.
  induction l as [|x l IH]; cbn [fold_left]; intros acc missing m1 UA Tn NN P W H.
  - inversion H; subst. split; auto. intros n F. destruct (W eq_refl n F).
  - assert (Nx : x <> []) by (apply NN; left; reflexivity).
    assert (NN' : forall n, In n l -> n <> []) by (intros n I; apply NN; right; exact I).
    unfold init_f at 2 in H. destruct (ans x) as [[v b]|] eqn:A.
    + eapply IH; [exact UA|exact Tn|exact NN'| | |exact H].
      * apply P3_upd_some; auto. split; cbn [last ver]; auto. eapply UA; eauto.
      * intros M n F. rewrite find_upd_cases in F. destruct (neqb n x) eqn:E; [discriminate|].
        destruct (W M n F) as [<-|I]; auto. apply neqb_false in E. congruence.
    + (* a failed fetch: the missing counter can never return to 0 *)
      exfalso. eapply init_fold_missing. exact H.
Qed.

(* CONSTRUCTION YIELDS A GOOD STATE *)
Theorem new_store_good c names al age ans now (s : store bytes) fx reqs :
  new_store c names al age ans now = Some (s, fx, reqs) ->
  (forall d, c = Some d -> sorted d /\ rrange d) ->
  (forall n v b, ans n = Some (v, b) -> u32 v) -> i64 now ->
  good s.
Proof.
  unfold new_store. destruct (names_ok (norm_names names) al) eqn:NO; [|discriminate].
  destruct (declare (load_cache c) (norm_names names)) as [m0 want] eqn:D.
  destruct (init_round m0 ans now) as [m1 missing] eqn:I. destruct missing; [|discriminate].
  intros H HC UA Tn. inversion H; subst. clear H.
  pose proof (names_ok_nonempty _ _ NO) as NN.
  assert (P0 : P3 m0) by (eapply declare_P3; [exact NN|apply P3_load; exact HC|exact D]).
  destruct (@init_fold ans now (stubs m0) m0 O m1 UA Tn) as [(S1 & R1 & NE1) NS1].
  - intros n In0. destruct P0 as (S0 & _ & NE0). pose proof (stub_find _ S0 In0) as F. intros ->.
    pose proof (eq_trans (eq_sym NE0) F). discriminate.
  - exact P0.
  - intros _ n F. apply find_stub. exact F.
  - exact I.
  - constructor; cbn [m hs]; auto. constructor; cbn [m hs]; auto.
Qed.

(* ---- construction that writes nothing: the cache content is already the state's document *)
Lemma rents_of_cache (d : @smap name (rentry bytes)) : cache_valid d = true -> rents (of_cache d) = d.
Proof.
  unfold cache_valid, of_cache, rents. induction d as [|[k e] d IH]; cbn [forallb flat_map map]; auto.
  intros H. apply andb_true_iff in H. destruct H as [H1 H2].
  destruct k; [discriminate|]. destruct e as [[[[v b]|] t]|]; try discriminate.
  cbn [app map ver val last]. rewrite IH by exact H2. reflexivity.
Qed.

Lemma declare_want_mono (names : list name) : forall (mm : @smap name (option (centry bytes))) mm' want',
  fold_left (@declare1 bytes) names (mm, true) = (mm', want') -> want' = true.
Proof.
  induction names as [|x names IH]; cbn [fold_left]; intros mm mm' want' H; [inversion H; auto|].
  unfold declare1 at 2 in H. destruct (find x mm) as [[e|]|]; eapply IH; eauto.
Qed.

Lemma declare_rents (names : list name) : forall (mm mm' : @smap name (option (centry bytes))),
  sorted mm -> fold_left (@declare1 bytes) names (mm, false) = (mm', false) -> rents mm' = rents mm.
Proof.
  induction names as [|x names IH]; cbn [fold_left]; intros mm mm' S H; [inversion H; auto|].
  unfold declare1 at 2 in H. destruct (find x mm) as [[e|]|] eqn:F.
  - rewrite (IH _ _ (sorted_upd _ _ S) H). unfold rents. eapply map_upd_same; eauto.
  - apply IH; auto.
  - apply declare_want_mono in H. discriminate.
Qed.

Theorem unwritten_cache_is_state d names al age ans now (s : store bytes) reqs :
  new_store (Some d) names al age ans now = Some (s, [], reqs) ->
  cache_valid d = true -> sorted d ->
  rents (m s) = d /\ reqs = [].
Proof.
  unfold new_store. destruct (names_ok (norm_names names) al); [|discriminate].
  unfold load_cache. intros H CV S. rewrite CV in H.
  destruct (declare (of_cache d) (norm_names names)) as [m0 want] eqn:D.
  destruct want.
  - destruct (init_round m0 ans now) as [m1 [|k]]; discriminate.
  - assert (ST0 : stubs m0 = []).
    { unfold declare in D. eapply declare_want; [exact D| |reflexivity]. intros _.
      pose proof (load_cache_no_stubs (Some d)) as L. unfold load_cache in L. rewrite CV in L. exact L. }
    unfold init_round in H. rewrite ST0 in H. cbn [fold_left] in H. inversion H; subst. cbn [m].
    split; auto. unfold declare in D. rewrite (declare_rents _ (sorted_of_cache S) D). apply rents_of_cache. exact CV.
Qed.
