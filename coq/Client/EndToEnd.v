(* The chain client model -> HTTP front door model -> database model, composed.

   Client/Poll.v answers a poll's request from an abstract service `name -> active (version,
   bytes)` by "GetIfChanged semantics".  In the real system that answer is produced by
   setec.Client.GetIfChanged / Get (client.go) -> serveJSON + the get handler (server.go) ->
   db.GetConditional / db.Get (db.go), modelled in Server/Http.v and Server/DB.v.  This file defines
   the abstraction from a database state to Poll.v's service and the composed answer; the proofs
   that the two coincide are in EndToEndProofs.v.  Executable definitions only. *)
From Coq Require Import List Bool NArith ZArith.
Import ListNotations.
From Setec Require Import Base.SMap Acl.Glob Server.KV Server.DB Server.Http Client.Store Client.Poll.
Set Implicit Arguments.

Section EndToEnd.
Variable V : Type.
Variable veqb : V -> V -> bool.

(* ---- 1a. the service Poll.v talks about, as a function of the database state *)
Definition srv_of_kv (k : kvs V) : server V :=
  flat_map (fun '(n, x) => match find (active x) (vers x) with
                           | Some b => [(n, (active x, b))]
                           | None => [] end) k.
Definition srv_of_db (s : dbstate V) : server V := srv_of_kv (kv s).

(* ---- 1b. what setec.Client sends and what it makes of the reply *)
(* the request of Client.Get / Client.GetIfChanged as it reaches serveJSON: POST, JSON, the
   no-browsers header, a parsable peer address, the WhoIs answer w of the calling node *)
Definition client_request (w : whois) (q : apireq V) (empty : V) : request V :=
  {| rq_endpoint := EGet; rq_meth := MPost; rq_ctype := CTJson; rq_hdr := HSetec; rq_addr_ok := true;
     rq_whois := w; rq_body := BObj q; rq_empty := empty |}.

(* one GetIfChanged(n, v) call (v = 0: a plain Get) against a server in state s:
   client status map o handler o db_step *)
Definition getifchanged_via_http (ev : env) (s : dbstate V) (w : whois) (n : name) (v : N) (empty : V)
  : dbstate V * cres V * list DB.effect :=
  let '(s', rsp, fx) := http_step veqb ev s (client_request w (@client_getifchanged_req V n v) empty) in
  (s', client_of_response rsp, fx).

(* how store.go's poll reads the client's outcome: a value, ErrValueNotChanged, or an error *)
Definition resp_of_cres (c : cres V) : resp V :=
  match c with
  | CResult (RVal ver b) => RValue ver b
  | CNotChanged => RNotChanged
  | _ => RErr
  end.

Definition answer_via_http (ev : env) (s : dbstate V) (w : whois) (n : name) (v : N) (empty : V) : resp V :=
  resp_of_cres (snd (fst (getifchanged_via_http ev s w n v empty))).

(* ---- 3. a poll against a database that other callers keep changing *)
(* an item of the combined timeline: an event of the store's world (Poll.event, not ESrv), or a call
   of some caller at the database *)
Inductive citem :=
| CStore (e : event V)
| CDb (ev : env) (c : caller) (o : op V).

(* the change of the service that a database call amounts to: it concerns the call's target only *)
Definition sop_of_db (s' : dbstate V) (o : op V) : sop V :=
  let n := target o in
  match find n (srv_of_db s') with
  | Some (v, b) => SSet n v b
  | None => SDel n
  end.

Fixpoint db_after (s : dbstate V) (l : list citem) : dbstate V :=
  match l with
  | [] => s
  | CStore _ :: r => db_after s r
  | CDb ev c o :: r => db_after (fst (fst (db_step veqb ev s c o))) r
  end.

(* the combined timeline as a Poll.v timeline *)
Fixpoint translate (s : dbstate V) (l : list citem) : list (event V) :=
  match l with
  | [] => []
  | CStore e :: r => e :: translate s r
  | CDb ev c o :: r => let s' := fst (fst (db_step veqb ev s c o)) in ESrv (sop_of_db s' o) :: translate s' r
  end.

Definition is_srv (e : event V) : bool := match e with ESrv _ => true | _ => false end.
(* the store's own events are not service changes, and the poll's end is not among them *)
Definition pure (l : list citem) : Prop :=
  forall e, In (CStore e) l -> is_srv e = false /\ is_end e = false.

(* audit records and saves caused at the server by the requests of a timeline *)
Definition effects_of (ev : env) (s : dbstate V) (w : whois) (reqs : list (name * N)) (empty : V)
  : dbstate V * list DB.effect :=
  fold_left (fun '(s, fx) '(n, v) =>
               let '(s', _, fx') := getifchanged_via_http ev s w n v empty in (s', fx ++ fx'))
            reqs (s, []).

End EndToEnd.
