(* Proofs for Client/EndToEnd.v: Poll.v's service semantics IS the composition of the client,
   handler and database models. *)
From Coq Require Import List Bool NArith ZArith Lia.
Import ListNotations.
From Setec Require Import Base.SMap Acl.Glob Server.KV Server.KVProofs Server.DB Server.DBFacts Server.DBProofs
  Server.Http Server.HttpProofs Client.Store Client.StoreInv Client.Poll Client.PollProofs Client.EndToEnd.
Set Implicit Arguments.

Local Arguments Glob.allow : simpl never.
Local Arguments kv_get : simpl never.
Local Arguments reserved : simpl never.
Local Arguments is_empty : simpl never.
Local Arguments kv_delete_secret : simpl never.
Local Arguments kv_delete_version : simpl never.
Local Arguments kv_set_active : simpl never.
Local Arguments kv_put : simpl never.

(* KV.v and Store.v each define `name := list N`: make them syntactically equal before rewriting *)
Ltac nm := unfold Store.name, KV.name, Glob.bytes in *.

Section EndToEndProofs.
Variable V : Type.
Variable veqb : V -> V -> bool.
Hypothesis veqb_spec : forall a b, veqb a b = true <-> a = b.

Notation dbstate := (dbstate V).
Notation KInv := (@KVProofs.Inv V).

(* ---------- the abstraction *)
Lemma in_srv_of_kv (k : kvs V) n y : In (n, y) (srv_of_kv k) -> exists x, In (n, x) k.
Proof.
  induction k as [|[k0 x] r IH]; cbn [srv_of_kv flat_map]; [intros []|].
  intro H. apply in_app_or in H. destruct H as [H|H].
  - destruct (find (active x) (vers x)); [|destruct H]. destruct H as [H|[]]. injection H as <- _. exists x. left; auto.
  - destruct (IH H) as [x' Hx]. exists x'. right; auto.
Qed.

Lemma srv_sorted (k : kvs V) : sorted k -> sorted (srv_of_kv k).
Proof.
  induction 1 as [|k0 x r L S IH]; cbn [srv_of_kv flat_map]; [constructor|].
  destruct (find (active x) (vers x)); cbn [app]; auto.
  constructor; auto. intros k' y H. apply in_srv_of_kv in H. destruct H as [x' Hx]. eauto.
Qed.

Lemma srv_find (k : kvs V) n : sorted k ->
  find n (srv_of_kv k) =
  match find n k with
  | Some x => match find (active x) (vers x) with Some b => Some (active x, b) | None => None end
  | None => None
  end.
Proof.
  induction 1 as [|k0 x r L S IH]; [reflexivity|].
  cbn [srv_of_kv flat_map]. fold (srv_of_kv r). cbn [find]. destruct (cmp n k0) eqn:C.
  - apply cmp_eq in C. subst k0. destruct (find (active x) (vers x)) as [b|]; cbn [app find].
    + rewrite cmp_refl. reflexivity.
    + apply find_not_in. intros k' y H. apply in_srv_of_kv in H. destruct H as [x' Hx]. eauto.
  - destruct (find (active x) (vers x)); cbn [app find]; rewrite ?C; exact IH.
  - destruct (find (active x) (vers x)); cbn [app find]; rewrite ?C; exact IH.
Qed.

Lemma srv_find_inv (k : kvs V) n : KInv k ->
  find n (srv_of_kv k) = match find n k with
                         | Some x => match find (active x) (vers x) with Some b => Some (active x, b) | None => None end
                         | None => None end
  /\ (forall v b, find n (srv_of_kv k) = Some (v, b) -> (v =? 0)%N = false)
  /\ kv_get k n = match find n (srv_of_kv k) with Some (v, b) => KVal v b | None => KNotFound end.
Proof.
  intros [S Hs]. rewrite (srv_find n S). split; [reflexivity|].
  unfold kv_get. nm. destruct (find n k) as [x|] eqn:F; [|split; [discriminate|reflexivity]].
  destruct (Hs n x F) as (_ & Hv & (b & Fa)). rewrite Fa. split; [|reflexivity].
  intros v b' E. injection E as <- <-. apply find_in, Hv in Fa. apply N.eqb_neq. lia.
Qed.

(* ---------- one request through the front door *)
Lemma gate_client (w : whois) c (q : apireq V) empty : identity true w = Some c -> endpoint_of q = EGet ->
  gate (client_request w q empty) = Accept c q.
Proof.
  intros I E. unfold gate, client_request. cbn [rq_endpoint is_api]. unfold api_gate.
  cbn [rq_meth rq_ctype rq_hdr rq_addr_ok rq_whois rq_endpoint rq_body rq_empty].
  rewrite I. unfold decode. rewrite E. reflexivity.
Qed.

Lemma req_endpoint (n : name) v : endpoint_of (@client_getifchanged_req V n v) = EGet.
Proof. unfold client_getifchanged_req. destruct (v =? 0)%N; reflexivity. Qed.

Lemma via_http_unfold ev (s : dbstate) w c n v empty : identity true w = Some c ->
  getifchanged_via_http veqb ev s w n v empty =
  let '(s', r, fx) := db_step veqb ev s c (if (v =? 0)%N then OGet n else OGetCond n v) in
  (s', client_of_response (respond r), fx).
Proof.
  intro I. unfold getifchanged_via_http, http_step. rewrite (@gate_client w c (@client_getifchanged_req V n v) empty I (req_endpoint n v)).
  unfold client_getifchanged_req. destruct (v =? 0)%N eqn:Z; cbn [dispatch negb].
  - rewrite N.eqb_refl. cbn [negb]. destruct (db_step veqb ev s c (OGet n)) as [[s' r] fx]. reflexivity.
  - rewrite Z. cbn [negb]. destruct (db_step veqb ev s c (OGetCond n v)) as [[s' r] fx]. reflexivity.
Qed.

(* THE CHAIN, one request.  For an invariant database state, a caller the front door identifies
   and whose rules allow `get` on the name, and a working audit sink: what the client gets, read
   the way store.go's poll reads it, is exactly what Poll.v's request step computes from the
   abstraction of the database state. *)
Theorem chain_answer ev (s : dbstate) w c n v empty :
  KInv (kv s) -> identity true w = Some c -> Glob.allow (rules c) AGet n = true ->
  audit_dead s = false -> audit ev = AOk ->
  answer_via_http veqb ev s w n v empty = get_if_changed (srv_of_db s) n v false.
Proof.
  intros I Id Al Dd Au. unfold answer_via_http. rewrite (@via_http_unfold ev s w c n v empty Id).
  destruct (@srv_find_inv (kv s) n I) as (_ & Pos & KG). unfold srv_of_db, get_if_changed.
  destruct (v =? 0)%N eqn:Z.
  - cbn [db_step]. unfold check_and_log, audit_write. rewrite Dd, Au, Al. cbn [negb]. rewrite KG.
    nm. destruct (find n (srv_of_kv (kv s))) as [[ver b]|] eqn:F; cbn [res_of_kres respond fst snd].
    + apply N.eqb_eq in Z. subst v. rewrite (Pos ver b eq_refl). reflexivity.
    + reflexivity.
  - cbn [db_step]. rewrite Al. cbn [negb]. rewrite KG.
    nm. destruct (find n (srv_of_kv (kv s))) as [[ver b]|] eqn:F.
    + destruct (ver =? v)%N eqn:E; cbn [andb negb].
      * reflexivity.
      * unfold check_and_log, audit_write. rewrite Dd, Au, Al. reflexivity.
    + reflexivity.
Qed.

(* whatever the audit sink does, the answer is the one Poll.v computes for a request that
   succeeds or fails (the `fail` input of Poll.EReq): an audit failure turns a delivery into a
   failed request, never into a wrong value *)
Theorem chain_answer_any ev (s : dbstate) w c n v empty :
  KInv (kv s) -> identity true w = Some c -> Glob.allow (rules c) AGet n = true ->
  exists fail, answer_via_http veqb ev s w n v empty = answer (srv_of_db s, fail, false) n v.
Proof.
  intros I Id Al. unfold answer_via_http, answer. rewrite (@via_http_unfold ev s w c n v empty Id).
  destruct (@srv_find_inv (kv s) n I) as (_ & Pos & KG). unfold srv_of_db, get_if_changed.
  destruct (v =? 0)%N eqn:Z.
  - cbn [db_step]. unfold check_and_log, audit_write. rewrite Al.
    destruct (audit_dead s); [exists true; reflexivity|]. destruct (audit ev); [|exists true; reflexivity..].
    exists false. cbn [negb]. rewrite KG.
    nm. destruct (find n (srv_of_kv (kv s))) as [[ver b]|] eqn:F; cbn [res_of_kres respond fst snd]; auto.
    apply N.eqb_eq in Z. subst v. rewrite (Pos ver b eq_refl). reflexivity.
  - cbn [db_step]. rewrite Al. cbn [negb]. rewrite KG.
    nm. destruct (find n (srv_of_kv (kv s))) as [[ver b]|] eqn:F; [|exists false; reflexivity].
    destruct (ver =? v)%N eqn:E; cbn [andb negb]; [exists false; reflexivity|].
    unfold check_and_log, audit_write. rewrite Al.
    destruct (audit_dead s); [exists true; reflexivity|]. destruct (audit ev); [exists false|exists true..]; reflexivity.
Qed.

(* a caller NOT allowed to get the name: access denied, i.e. a failed request - in every state,
   whatever the audit sink does *)
Theorem chain_denied ev (s : dbstate) w c n v empty :
  identity true w = Some c -> Glob.allow (rules c) AGet n = false ->
  answer_via_http veqb ev s w n v empty = RErr.
Proof.
  intros Id Al. unfold answer_via_http. rewrite (@via_http_unfold ev s w c n v empty Id).
  destruct (v =? 0)%N; cbn [db_step]; rewrite ?Al; cbn [negb]; unfold check_and_log, audit_write; rewrite Al;
    destruct (audit_dead s); try destruct (audit ev); reflexivity.
Qed.

(* ---------- a database call as a change of the service *)
Definition kop_of (o : op V) : option (kop V) :=
  match o with
  | OPut n b => Some (KPut n b)
  | OActivate n v => Some (KSetActive n v)
  | ODelVer n v => Some (KDelVer n v)
  | ODel n => Some (KDel n)
  | _ => None
  end.

(* a db call leaves the store alone or is exactly the kv operation of the same name and arguments *)
Lemma db_step_kop ev (s : dbstate) c o s' r fx : db_step veqb ev s c o = (s', r, fx) ->
  kv s' = kv s \/ exists ko kr sv, kop_of o = Some ko /\ kv_step veqb (save_ok ev) (kv s) ko = (kv s', kr, sv).
Proof.
  destruct o as [|n|n|n v|n v|n b|n v|n v|n]; cbn [DB.db_step].
  - audit_split s ev; intro H; injection H as <- <- <-; left; auto.
  - destruct (Glob.allow (rules c) AInfo n) eqn:A; audit_split s ev; cbn; rewrite ?A; cbn; intro H; injection H as <- <- <-; left; auto.
  - destruct (Glob.allow (rules c) AGet n) eqn:A; audit_split s ev; cbn; rewrite ?A; cbn; intro H; injection H as <- <- <-; left; auto.
  - destruct (Glob.allow (rules c) AGet n) eqn:A; cbn [negb].
    + destruct (@DBFacts.kv_get_cases V (kv s) n) as [(ver & b & K)|[K|K]]; rewrite K; try (intro H; injection H as <- <- <-; left; auto; fail).
      destruct (ver =? v)%N; [intro H; injection H as <- <- <-; left; auto|].
      audit_split s ev; cbn; rewrite ?A; cbn; intro H; injection H as <- <- <-; left; auto.
    + audit_split s ev; cbn; rewrite ?A; cbn; intro H; injection H as <- <- <-; left; auto.
  - destruct (Glob.allow (rules c) AGet n) eqn:A; audit_split s ev; cbn; rewrite ?A; cbn; intro H; injection H as <- <- <-; left; auto.
  - destruct (is_empty n); [intro H; injection H as <- <- <-; left; auto|].
    destruct (Glob.allow (rules c) APut n) eqn:A; audit_split s ev; cbn; rewrite ?A; cbn;
      try destruct (reserved n); try (intro H; injection H as <- <- <-; left; auto; fail).
    destruct (kv_put veqb (save_ok ev) (kv s) n b) as [[k' kr] sv] eqn:K. unfold mutate. intro H; injection H as <- <- <-.
    right. exists (KPut n b), kr, sv. split; [reflexivity|exact K].
  - destruct (is_empty n); [intro H; injection H as <- <- <-; left; auto|].
    destruct (Glob.allow (rules c) AActivate n) eqn:A; audit_split s ev; cbn; rewrite ?A; cbn;
      try destruct (reserved n); try (intro H; injection H as <- <- <-; left; auto; fail).
    destruct (kv_set_active (save_ok ev) (kv s) n v) as [[k' kr] sv] eqn:K. unfold mutate. intro H; injection H as <- <- <-.
    right. exists (KSetActive n v), kr, sv. split; [reflexivity|exact K].
  - destruct (Glob.allow (rules c) ADelete n) eqn:A; audit_split s ev; cbn; rewrite ?A; cbn;
      try destruct (reserved n); try (intro H; injection H as <- <- <-; left; auto; fail).
    destruct (kv_delete_version (save_ok ev) (kv s) n v) as [[k' kr] sv] eqn:K. unfold mutate. intro H; injection H as <- <- <-.
    right. exists (KDelVer n v), kr, sv. split; [reflexivity|exact K].
  - destruct (Glob.allow (rules c) ADelete n) eqn:A; audit_split s ev; cbn; rewrite ?A; cbn;
      try destruct (reserved n); try (intro H; injection H as <- <- <-; left; auto; fail).
    destruct (kv_delete_secret (save_ok ev) (kv s) n) as [[k' kr] sv] eqn:K. unfold mutate. intro H; injection H as <- <- <-.
    right. exists (KDel n), kr, sv. split; [reflexivity|exact K].
Qed.

Lemma kop_target o ko : kop_of o = Some ko -> ktarget ko = Some (target o).
Proof. destruct o; cbn [kop_of]; intro H; try discriminate; injection H as <-; reflexivity. Qed.

Lemma db_inv ev (s : dbstate) c o : KInv (kv s) -> KInv (kv (fst (fst (db_step veqb ev s c o)))).
Proof.
  intro I. destruct (db_step veqb ev s c o) as [[s' r] fx] eqn:D. cbn [fst].
  first [exact (proj1 (@db_step_inv V veqb veqb_spec ev s c o s' r fx I D)) | exact (proj1 (@db_step_inv V veqb ev s c o s' r fx I D))].
Qed.

Lemma db_frame ev (s : dbstate) c o (k : KV.name) : KInv (kv s) -> k <> target o ->
  find k (kv (fst (fst (db_step veqb ev s c o)))) = find k (kv s).
Proof.
  intros I N. destruct (db_step veqb ev s c o) as [[s' r] fx] eqn:D. cbn [fst].
  destruct (db_step_kop _ _ _ _ D) as [->|(ko & kr & sv & KO & KS)]; auto.
  first [eapply (@frame V veqb veqb_spec) | eapply (@frame V veqb)]; eauto. rewrite (kop_target _ KO). congruence.
Qed.

(* the service after a database call = the service before, changed at the call's target only *)
Theorem srv_step ev (s : dbstate) c o : KInv (kv s) ->
  let s' := fst (fst (db_step veqb ev s c o)) in
  srv_of_db s' = sstep (srv_of_db s) (sop_of_db s' o).
Proof.
  intros I s'. pose proof (@db_inv ev s c o I) as I'. fold s' in I'.
  assert (S : sorted (srv_of_db s)) by (apply srv_sorted, I).
  assert (S' : sorted (srv_of_db s')) by (apply srv_sorted, I').
  apply sorted_ext; auto.
  - unfold sop_of_db. destruct (find (target o) (srv_of_db s')) as [[v b]|]; cbn [sstep]; [apply sorted_upd|apply sorted_del]; auto.
  - intro k. destruct (KVProofs.name_eq_dec k (target o)) as [->|N].
    + unfold sop_of_db. destruct (find (target o) (srv_of_db s')) as [[v b]|] eqn:F; cbn [sstep].
      * rewrite find_upd_eq. exact F.
      * rewrite find_del_eq by auto. exact F.
    + assert (E : find k (srv_of_db s') = find k (srv_of_db s)).
      { unfold srv_of_db. rewrite (srv_find k (proj1 I')), (srv_find k (proj1 I)). unfold s'. rewrite db_frame by auto. reflexivity. }
      unfold sop_of_db. destruct (find (target o) (srv_of_db s')) as [[v b]|]; cbn [sstep].
      * rewrite find_upd_neq by auto. exact E.
      * rewrite find_del_neq by auto. exact E.
Qed.

(* ---------- the combined timeline *)
Lemma srv_after_store (sv : server V) (e : event V) : is_srv e = false -> srv_after sv [e] = sv.
Proof. destruct e; cbn; auto; discriminate. Qed.

Lemma pure_tail (x : citem V) l : pure (x :: l) -> pure l.
Proof. intros P e H. apply P. right; auto. Qed.

Lemma translate_srv : forall (l : list (citem V)) (s : dbstate), KInv (kv s) -> pure l ->
  srv_after (srv_of_db s) (translate veqb s l) = srv_of_db (db_after veqb s l) /\ KInv (kv (db_after veqb s l)).
Proof.
  induction l as [|[e|ev c o] r IH]; intros s I P; cbn [translate db_after].
  - split; auto.
  - rewrite srv_after_cons, srv_after_store by (apply (P e); left; auto). apply IH; auto. eapply pure_tail; eauto.
  - rewrite srv_after_cons. change (srv_after (srv_of_db s) [ESrv ?x]) with (sstep (srv_of_db s) x).
    rewrite <- srv_step by auto. apply IH; [apply db_inv; auto|eapply pure_tail; eauto].
Qed.

Lemma translate_no_end : forall (l : list (citem V)) (s : dbstate), pure l -> no_end (translate veqb s l).
Proof.
  induction l as [|[e|ev c o] r IH]; intros s P x Hx; cbn [translate] in Hx; [destruct Hx| |].
  - destruct Hx as [<-|Hx]; [apply (P e); left; auto|]. eapply IH; eauto. eapply pure_tail; eauto.
  - destruct Hx as [<-|Hx]; [reflexivity|]. eapply IH; eauto. eapply pure_tail; eauto.
Qed.

Lemma translate_split : forall (l : list (citem V)) (s : dbstate) mid1 n f u mid2,
  translate veqb s l = mid1 ++ EReq n f u :: mid2 ->
  exists l1 l2, l = l1 ++ CStore (EReq n f u) :: l2 /\ mid1 = translate veqb s l1.
Proof.
  induction l as [|[e|ev c o] r IH]; intros s mid1 n f u mid2 H; cbn [translate] in H.
  - destruct mid1; discriminate.
  - destruct mid1 as [|x m1]; cbn [app] in H.
    + injection H as -> _. exists [], r. split; reflexivity.
    + injection H as -> H. destruct (IH _ _ _ _ _ _ H) as (l1 & l2 & -> & ->).
      exists (CStore x :: l1), l2. split; reflexivity.
  - destruct mid1 as [|x m1]; cbn [app] in H; [discriminate|].
    injection H as <- H. destruct (IH _ _ _ _ _ _ H) as (l1 & l2 & -> & ->).
    exists (CDb ev c o :: l1), l2. split; reflexivity.
Qed.

Lemma translate_app : forall (l1 : list (citem V)) l2 (s : dbstate),
  translate veqb s (l1 ++ l2) = translate veqb s l1 ++ translate veqb (db_after veqb s l1) l2.
Proof.
  induction l1 as [|[e|ev c o] r IH]; intros l2 s; cbn [app translate db_after]; auto; rewrite IH; reflexivity.
Qed.

Lemma pure_app_l (l1 l2 : list (citem V)) : pure (l1 ++ l2) -> pure l1.
Proof. intros P e H. apply P. apply in_or_app. auto. Qed.

(* what `find n (srv_of_db s)` says about the database *)
Lemma srv_is_active (s : dbstate) n v b : KInv (kv s) -> find n (srv_of_db s) = Some (v, b) ->
  exists x, find n (kv s) = Some x /\ active x = v /\ find v (vers x) = Some b.
Proof.
  intros I H. unfold srv_of_db in H. rewrite (srv_find n (proj1 I)) in H. nm.
  destruct (find n (kv s)) as [x|]; [|discriminate]. destruct (find (active x) (vers x)) as [b'|] eqn:F; [|discriminate].
  injection H as <- <-. eauto.
Qed.

(* CHAIN, a whole poll.  The store polls a database that any callers keep changing by any calls
   (puts, activations forwards and backwards, delete-version, delete) between and during the
   requests.  After a successful poll every name known before either was flagged expired, or was
   requested at some point l1 of the timeline and now holds the database's ACTIVE version with the
   bytes stored under that version at that instant - or its version number equals the active one
   and the store kept its bytes. *)
Theorem chain_fresh (st : store V) (s0 : dbstate) now (l : list (citem V)) :
  Inv st -> KInv (kv s0) -> pure l ->
  let wk := run_w (WD st (srv_of_db s0) None) (ERefresh now :: translate veqb s0 l) in
  In (ORes true) (snd (step wk EEnd)) ->
  forall n ver0 b0, vv st n = Some (ver0, b0) ->
    let r := vv (wst (fst (step wk EEnd))) n in
    (flagged st now n = true /\ (r = None \/ r = Some (ver0, b0)))
    \/ (exists l1 f u l2 x b,
          l = l1 ++ CStore (EReq n f u) :: l2 /\
          find n (kv (db_after veqb s0 l1)) = Some x /\ find (active x) (vers x) = Some b /\
          (r = Some (active x, b) \/ (active x = ver0 /\ r = Some (ver0, b0)))).
Proof.
  intros I KI P wk R n ver0 b0 V0.
  destruct (@poll_fresh V (WD st (srv_of_db s0) None) now (translate veqb s0 l) I eq_refl (translate_no_end s0 P) R n ver0 b0 V0)
    as [L|(mid1 & f & u & mid2 & v & b & E & Fs & D)]; [left; exact L|right].
  destruct (@translate_split l s0 mid1 n f u mid2 E) as (l1 & l2 & El & Em). subst mid1.
  cbn [wsv] in Fs. rewrite El in P. destruct (@translate_srv l1 s0 KI (@pure_app_l l1 _ P)) as [TS KI1]. rewrite TS in Fs.
  destruct (@srv_is_active (db_after veqb s0 l1) n v b KI1 Fs) as (x & Fx & <- & Fb).
  exists l1, f, u, l2, x, b. split; [exact El|]. split; [exact Fx|]. split; [exact Fb|exact D].
Qed.

(* the bytes stored under (n, v) stay put as long as nobody deletes the secret or that version *)
Lemma bytes_kept n v b : forall (l : list (citem V)) (s : dbstate) x,
  KInv (kv s) -> find n (kv s) = Some x -> find v (vers x) = Some b ->
  (forall ev c, ~ In (CDb ev c (ODel n)) l) -> (forall ev c, ~ In (CDb ev c (ODelVer n v)) l) ->
  exists x', find n (kv (db_after veqb s l)) = Some x' /\ find v (vers x') = Some b.
Proof.
  induction l as [|[e|ev c o] r IH]; intros s x I F Fv Q1 Q2; cbn [db_after]; eauto.
  - apply (IH s x); auto; intros ev c H; [apply (Q1 ev c)|apply (Q2 ev c)]; right; auto.
  - pose proof (@db_inv ev s c o I) as I'. destruct (db_step veqb ev s c o) as [[s' rr] fx] eqn:D. cbn [fst] in *.
    assert (K : exists x', find n (kv s') = Some x' /\ find v (vers x') = Some b).
    { destruct (db_step_kop _ _ _ _ D) as [->|(ko & kr & sv & KO & KS)]; eauto.
      assert (BI : (exists x', find n (kv s') = Some x' /\ find v (vers x') = Some b) \/ ko = KDelVer n v \/ ko = KDel n) by (first [exact (@bytes_immutable V veqb veqb_spec (save_ok ev) (kv s) ko (kv s') kr sv n x v b I KS F Fv) | exact (@bytes_immutable V veqb (save_ok ev) (kv s) ko (kv s') kr sv n x v b I KS F Fv)]).
      destruct BI as [H|[H|H]]; auto; subst ko; exfalso.
      - destruct o; cbn [kop_of] in KO; try discriminate. injection KO as -> ->. apply (Q2 ev c). left; auto.
      - destruct o; cbn [kop_of] in KO; try discriminate. injection KO as ->. apply (Q1 ev c). left; auto. }
    destruct K as (x' & F' & Fv'). apply (IH s' x'); auto; intros ev0 c0 H; [apply (Q1 ev0 c0)|apply (Q2 ev0 c0)]; right; auto.
Qed.

(* ... and EXACTLY the database's active (version, bytes) at the instant of the request, as long as
   the version the store holds is still stored under that number with those bytes when the poll
   begins and nobody deletes the secret or that version during the poll (the explicit form of
   "a version number determines the bytes": C02's bytes_immutable does the rest) *)
Theorem chain_fresh_exact (st : store V) (s0 : dbstate) now (l : list (citem V)) :
  Inv st -> KInv (kv s0) -> pure l ->
  let wk := run_w (WD st (srv_of_db s0) None) (ERefresh now :: translate veqb s0 l) in
  In (ORes true) (snd (step wk EEnd)) ->
  forall n ver0 b0 x0, vv st n = Some (ver0, b0) -> flagged st now n = false ->
    find n (kv s0) = Some x0 -> find ver0 (vers x0) = Some b0 ->
    (forall ev c, ~ In (CDb ev c (ODel n)) l) -> (forall ev c, ~ In (CDb ev c (ODelVer n ver0)) l) ->
    exists l1 f u l2 x b,
      l = l1 ++ CStore (EReq n f u) :: l2 /\
      find n (kv (db_after veqb s0 l1)) = Some x /\ find (active x) (vers x) = Some b /\
      vv (wst (fst (step wk EEnd))) n = Some (active x, b).
Proof.
  intros I KI P wk R n ver0 b0 x0 V0 Fl F0 Fv0 Q1 Q2.
  destruct (@chain_fresh st s0 now l I KI P R n ver0 b0 V0) as [[Fl' _]|(l1 & f & u & l2 & x & b & E & Fx & Fb & D)]; [congruence|].
  exists l1, f, u, l2, x, b. repeat split; auto.
  destruct D as [D|[A D]]; auto. fold wk in D. rewrite D.
  assert (Q1' : forall ev c, ~ In (CDb ev c (ODel n)) l1) by (intros ev c H; apply (Q1 ev c); rewrite E; apply in_or_app; auto).
  assert (Q2' : forall ev c, ~ In (CDb ev c (ODelVer n ver0)) l1) by (intros ev c H; apply (Q2 ev c); rewrite E; apply in_or_app; auto).
  destruct (@bytes_kept n ver0 b0 l1 s0 x0 KI F0 Fv0 Q1' Q2') as (x' & Fx' & Fv').
  nm. rewrite Fx in Fx'. injection Fx' as <-. rewrite A in Fb. rewrite Fb in Fv'. injection Fv' as ->. rewrite A. reflexivity.
Qed.

Lemma translate_in : forall (l : list (citem V)) (s : dbstate) n f u,
  In (EReq n f u) (translate veqb s l) -> In (CStore (EReq n f u)) l.
Proof.
  induction l as [|[e|ev c o] r IH]; intros s n f u H; cbn [translate] in H; [destruct H| |].
  - destruct H as [->|H]; [left; auto|right; eauto].
  - destruct H as [H|H]; [discriminate|right; eauto].
Qed.

(* a caller that is not allowed to get a live name: its request is a failed one (chain_denied), so
   the whole poll fails for every caller and nothing is applied - at whatever position the request
   comes and whatever the other callers do to the database meanwhile *)
Theorem chain_denied_poll (st : store V) (s0 : dbstate) now (l l1 : list (citem V)) n u l2 e :
  Inv st -> pure l -> entry st n = Some e -> flagged st now n = false ->
  l = l1 ++ CStore (EReq n true u) :: l2 -> (forall f' u', ~ In (CStore (EReq n f' u')) l1) ->
  let wk := run_w (WD st (srv_of_db s0) None) (ERefresh now :: translate veqb s0 l) in
  wst (fst (step wk EEnd)) = wst wk /\ exists k, snd (step wk EEnd) = repeat (ORes false) k.
Proof.
  intros I P En Fl E NI.
  apply (@poll_failure V (WD st (srv_of_db s0) None) now (translate veqb s0 l) (translate veqb s0 l1) n true u
           (translate veqb (db_after veqb s0 l1) l2) e); auto.
  - apply translate_no_end; auto.
  - rewrite E, translate_app. reflexivity.
  - intros f' u' H. apply (NI f' u'). eapply translate_in; eauto.
Qed.

(* ---------- steady-state polling is invisible at the server *)
Lemma silent_one ev (s : dbstate) w c n v b empty :
  KInv (kv s) -> identity true w = Some c -> Glob.allow (rules c) AGet n = true ->
  find n (srv_of_db s) = Some (v, b) ->
  getifchanged_via_http veqb ev s w n v empty = (s, CNotChanged, []).
Proof.
  intros I Id Al F. rewrite (@via_http_unfold ev s w c n v empty Id).
  destruct (@srv_find_inv (kv s) n I) as (_ & Pos & KG). unfold srv_of_db in F. nm. rewrite F in KG.
  rewrite (Pos v b F). cbn [db_step]. rewrite Al. cbn [negb]. rewrite KG, N.eqb_refl. reflexivity.
Qed.

(* a poll in which every request finds its version still active leaves no trace at the server:
   the database state (contents, generation, audit sink) is untouched and NO audit record is
   written - whatever the audit sink would do *)
Theorem chain_conditional_silent ev (s : dbstate) w c empty : forall reqs,
  KInv (kv s) -> identity true w = Some c ->
  (forall n v, In (n, v) reqs -> Glob.allow (rules c) AGet n = true /\ exists b, find n (srv_of_db s) = Some (v, b)) ->
  effects_of veqb ev s w reqs empty = (s, []).
Proof.
  intros reqs I Id. unfold effects_of. induction reqs as [|[n v] r IH]; intro H; [reflexivity|].
  cbn [fold_left]. destruct (H n v (or_introl eq_refl)) as (Al & b & F).
  rewrite (@silent_one ev s w c n v b empty I Id Al F). cbn [app]. apply IH. intros n' v' Hin. apply H. right; auto.
Qed.

Lemma get_never_notchanged ev (s : dbstate) c n s' fx : db_step veqb ev s c (OGet n) = (s', DB.RNotChanged, fx) -> False.
Proof.
  cbn [db_step]. unfold check_and_log, audit_write.
  destruct (Glob.allow (rules c) AGet n); destruct (audit_dead s); try destruct (audit ev); cbn; intro D;
    assert (E := f_equal (fun p => snd (fst p)) D); cbn [fst snd] in E; try discriminate E; destruct (kv_get (kv s) n); discriminate E.
Qed.

Lemma getcond_notchanged_state ev (s : dbstate) c n v s' fx :
  db_step veqb ev s c (OGetCond n v) = (s', DB.RNotChanged, fx) -> s' = s.
Proof.
  cbn [db_step]. destruct (Glob.allow (rules c) AGet n) eqn:Al; cbn [negb].
  - destruct (kv_get (kv s) n) as [v0| |ver b|vs act| | | | | |l0] eqn:KG;
      try (intro D; exact (eq_sym (f_equal (fun p => fst (fst p)) D))).
    destruct (ver =? v)%N; [intro D; exact (eq_sym (f_equal (fun p => fst (fst p)) D))|].
    unfold check_and_log, audit_write. rewrite Al. destruct (audit_dead s); try destruct (audit ev); cbn; intro D;
      assert (E := f_equal (fun p => snd (fst p)) D); cbn [fst snd] in E; discriminate E.
  - unfold check_and_log, audit_write. rewrite Al. destruct (audit_dead s); try destruct (audit ev); cbn; intro D;
      assert (E := f_equal (fun p => snd (fst p)) D); cbn [fst snd] in E; discriminate E.
Qed.

(* conversely: whenever the client is told "not changed" nothing was recorded and nothing changed *)
Theorem not_changed_is_silent ev (s : dbstate) w c n v empty : identity true w = Some c ->
  snd (fst (getifchanged_via_http veqb ev s w n v empty)) = CNotChanged ->
  fst (fst (getifchanged_via_http veqb ev s w n v empty)) = s /\ snd (getifchanged_via_http veqb ev s w n v empty) = [].
Proof.
  intros Id. rewrite (@via_http_unfold ev s w c n v empty Id).
  destruct (db_step veqb ev s c (if (v =? 0)%N then OGet n else OGetCond n v)) as [[s' r] fx] eqn:D. cbn [fst snd].
  intro H. assert (r = DB.RNotChanged) by (destruct r; cbn in H; try discriminate; reflexivity). subst r.
  split; [|eapply unchanged_poll_silent; exact D].
  destruct (v =? 0)%N; [exfalso; eapply get_never_notchanged; exact D|eapply getcond_notchanged_state; exact D].
Qed.

End EndToEndProofs.
