(* C19: histories of a store over its whole life - handles, reads, lookups, polls (snapshot and
   apply as separate events, so that anything may happen in between), cache flushes, restarts from
   the last cache document - composed from the locked steps of the shared model Client/Store.v.
   Time and the service's answers are explicit inputs of the events.  Executable definitions only. *)
From Coq Require Import List Bool NArith ZArith.
Import ListNotations.
From Setec Require Import Base.SMap Client.Store.
Set Implicit Arguments.

Section Expiry.
Variable V : Type.
Notation store := (store V).
Notation doc_entry := (doc_entry V).

(* the store, the poll in flight (instant of its snapshot in ns, and the snapshot), and the last
   document handed to Cache.Write (or found in the cache at construction) *)
Record hstate := HS { st : store; pend : option (Z * list snap_entry); cdoc : list doc_entry }.

Inductive event :=
| ESecret (n : name)                                 (* Store.Secret(n), or LookupSecret of a known name: hands out the handle *)
| ERead (n : name) (now_s : Z)                       (* calling the handle of n at Unix second now_s *)
| ELookupOk (n : name) (v : N) (b : V) (now_s : Z)   (* the locked part of a successful lookup of n (store.go:400-407) *)
| ELookupFail (n : name)                             (* a lookup that failed: nothing is installed *)
| EWatch (n : name)                                  (* watcher/updater registration for a known name *)
| ESnap (now_ns : Z)                                 (* a poll starts: snapshotActive at now_ns (joins the poll in flight if any) *)
| EApply (ans : name -> N -> resp V)                 (* its requests are answered: applyUpdates iff none failed *)
| ETick                                              (* the clock advances; nothing happens in the store *)
| EFlush                                             (* the poller's shutdown flush *)
| ERestart (names : list name) (allow_lookup : bool) (age_ns : Z) (fetch : name -> N * V) (now_s : Z).
                                                     (* a new process: NewStore from the last cache document *)

Definition last_doc (fx : list (effect V)) (old : list doc_entry) : list doc_entry :=
  fold_left (fun _ e => match e with Flush d => d end) fx old.

(* a cache document read back by encoding/json *)
Definition rentry_of_doc (d : list doc_entry) : @smap name (rentry V) :=
  map (fun '(n, x) => (n, match x with Some (v, b, t) => Some (Some (v, b), t) | None => None end)) d.

(* NewStore from document d (store.go:204-249) with a service that answers every missing declared
   name in the first round; a misconfigured restart does not produce a store (the state is kept) *)
Definition restart (h : hstate) (names : list name) (allow_lookup : bool) (age_ns : Z)
           (fetch : name -> N * V) (now_s : Z) : hstate :=
  if names_ok names allow_lookup then
    let m0 := load_cache (Some (rentry_of_doc (cdoc h))) in
    let '(m1, want) := declare m0 (norm_names names) in
    let m2 := fst (init_round m1 (fun n => Some (fetch n)) now_s) in
    let s := ST m2 [] [] allow_lookup age_ns in
    HS s None (if want : bool then doc s else cdoc h)
  else h.

Definition step (h : hstate) (e : event) : hstate :=
  match e with
  | ESecret n => HS (fst (secret (st h) n)) (pend h) (cdoc h)
  | ERead n t => if has_handle (st h) n then HS (fst (read (st h) n t)) (pend h) (cdoc h) else h
  | ELookupOk n v b t =>
    if allow (st h) then
      let '(s', fx) := lookup_install (st h) n v b t in HS s' (pend h) (last_doc fx (cdoc h))
    else h
  | ELookupFail _ => h
  | EWatch n =>
    if known (st h) n then HS (fst (add_watcher (fst (secret_locked (st h) n)) n)) (pend h) (cdoc h) else h
  | ESnap now =>
    match pend h with
    | Some _ => h
    | None => HS (st h) (Some (now, snapshot (st h) now)) (cdoc h)
    end
  | EApply ans =>
    match pend h with
    | None => h
    | Some (_, snap) =>
      match poll snap ans with
      | None => HS (st h) None (cdoc h)
      | Some ups => let '(s', fx) := apply_updates (st h) ups in HS s' None (last_doc fx (cdoc h))
      end
    end
  | ETick => h
  | EFlush => HS (st h) (pend h) (doc (st h))
  | ERestart names al ag fetch t => restart h names al ag fetch t
  end.

Definition run (h : hstate) (es : list event) : hstate := fold_left step es h.

(* LookupSecret(n) as the caller sees it (store.go:360): a known name gives its handle without
   contacting the service; otherwise the service's answer decides *)
Definition lookup_event (h : hstate) (n : name) (ans : option (N * V)) (now_s : Z) : event :=
  if known (st h) n then ESecret n
  else match ans with Some (v, b) => ELookupOk n v b now_s | None => ELookupFail n end.

Definition is_restart (e : event) : bool := match e with ERestart _ _ _ _ _ => true | _ => false end.

End Expiry.

Arguments ESecret {V}.
Arguments ERead {V}.
Arguments ELookupFail {V}.
Arguments EWatch {V}.
Arguments ESnap {V}.
Arguments ETick {V}.
Arguments EFlush {V}.
