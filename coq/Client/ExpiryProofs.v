(* C19: proofs about histories of a store (Client/Expiry.v): a secret is dropped only at a poll and only if
   it is undeclared, an expiry age is set, it is stale, and no handle exists; reads stamp, stamps persist. *)
From Coq Require Import List Bool NArith ZArith Lia ZifyN ZifyNat.
Import ListNotations.
From Setec Require Import Base.SMap Client.Store Client.StoreInv Client.Expiry.
Set Implicit Arguments.
Open Scope Z_scope.

(* ---------------------------------------------------------------- generic facts on sorted maps *)
Section MapFacts.
Variables A B : Type.
Implicit Types (mm : @smap name A).

Lemma xp_find_keys n mm : find n mm <> None <-> In n (map fst mm).
Proof.
  induction mm as [|[k v] mm IH]; cbn [find map fst In].
  - split; [congruence|tauto].
  - destruct (cmp n k) eqn:E.
    + apply cmp_eq in E. subst. split; [auto|discriminate].
    + rewrite IH. split; [auto|]. intros [Q|Q]; auto. subst. rewrite cmp_refl in E. discriminate.
    + rewrite IH. split; [auto|]. intros [Q|Q]; auto. subst. rewrite cmp_refl in E. discriminate.
Qed.

Lemma xp_find_none_keys n mm : find n mm = None <-> ~ In n (map fst mm).
Proof.
  rewrite <- xp_find_keys. destruct (find n mm).
  - split; [discriminate|]. intro H. exfalso. apply H. discriminate.
  - split; auto.
Qed.

Lemma xp_in_keys n (x : A) mm : In (n, x) mm -> In n (map fst mm).
Proof. intro H. apply in_map_iff. exists (n, x). auto. Qed.

Lemma xp_keys_upd_present n (x : A) mm : sorted mm -> find n mm <> None -> map fst (upd n x mm) = map fst mm.
Proof.
  induction 1 as [|k v mm Hlt Hs IH]; cbn [find upd map fst].
  - congruence.
  - destruct (cmp n k) eqn:E; cbn [map fst].
    + apply cmp_eq in E. subst. reflexivity.
    + intro F. exfalso. apply F. apply find_not_in. intros k' v' Hin. eapply cmp_trans; eauto.
    + intro F. f_equal. apply IH. exact F.
Qed.

(* sortedness depends on the keys only *)
Lemma xp_sorted_keys mm (m2 : @smap name B) : sorted mm -> map fst mm = map fst m2 -> sorted m2.
Proof.
  intros S. revert m2. induction S as [|k v mm Hlt Hs IH]; intros [|[k2 v2] m2]; cbn [map fst]; intro E; try discriminate.
  - constructor.
  - injection E as E1 E2. subst k2. constructor.
    + intros k' v' Hin0. assert (In k' (map fst m2)) as Hin by (apply in_map_iff; exists (k', v'); auto).
      rewrite <- E2 in Hin.
      apply in_map_iff in Hin. destruct Hin as ([k'' v''] & Q & Hin). cbn [fst] in Q. subst k''. eapply Hlt; eauto.
    + apply IH; auto.
Qed.

(* mapping the values *)
Variable f : A -> B.
Definition xp_mapv mm : @smap name B := map (fun '(k, x) => (k, f x)) mm.

Lemma xp_mapv_keys mm : map fst (xp_mapv mm) = map fst mm.
Proof. induction mm as [|[k v] mm IH]; cbn [xp_mapv map fst]; auto. f_equal. exact IH. Qed.

Lemma xp_mapv_find n mm : find n (xp_mapv mm) = option_map f (find n mm).
Proof.
  induction mm as [|[k v] mm IH]; cbn [xp_mapv map find]; auto.
  destruct (cmp n k); auto.
Qed.

Lemma xp_mapv_in n y mm : In (n, y) (xp_mapv mm) <-> exists x, In (n, x) mm /\ y = f x.
Proof.
  unfold xp_mapv. rewrite in_map_iff. split.
  - intros ([k x] & Q & Hin). injection Q as Q1 Q2. subst. eauto.
  - intros (x & Hin & ->). exists (n, x). auto.
Qed.

Lemma xp_mapv_sorted mm : sorted mm -> sorted (xp_mapv mm).
Proof. intro S. eapply xp_sorted_keys; eauto. symmetry. apply xp_mapv_keys. Qed.

End MapFacts.

Lemma xp_neqb_refl (a : name) : neqb a a = true.
Proof. apply neqb_true. reflexivity. Qed.

Lemma xp_mem_cons n a l : mem n (a :: l) = neqb n a || mem n l.
Proof. reflexivity. Qed.

Lemma xp_mem_false n l : mem n l = false <-> ~ In n l.
Proof. rewrite <- mem_In. destruct (mem n l); split; congruence. Qed.

Lemma xp_find_upd_cases (A : Type) (n k : name) (x : A) mm :
  find k (upd n x mm) = if neqb k n then Some x else find k mm.
Proof.
  destruct (neqb k n) eqn:E.
  - apply neqb_true in E. subst. apply find_upd_eq.
  - apply neqb_false in E. apply find_upd_neq. auto.
Qed.

(* ---------------------------------------------------------------- name normalisation *)
Lemma xp_norm_fold_keys l : forall (acc : @smap name unit) n,
  In n (map fst (fold_left (fun acc n => upd n tt acc) l acc)) <-> In n l \/ In n (map fst acc).
Proof.
  induction l as [|a l IH]; cbn [fold_left In]; intros acc n.
  - tauto.
  - rewrite IH. rewrite <- !xp_find_keys. rewrite xp_find_upd_cases.
    destruct (neqb n a) eqn:E.
    + apply neqb_true in E. subst. split; [auto|]. intros _. right. discriminate.
    + apply neqb_false in E. split; [tauto|]. intros [[Q|Q]|Q]; auto; congruence.
Qed.

Lemma xp_norm_names_in l n : In n (norm_names l) <-> In n l.
Proof. unfold norm_names. rewrite xp_norm_fold_keys. cbn. tauto. Qed.

Lemma xp_mem_norm n l : mem n (norm_names l) = mem n l.
Proof.
  destruct (mem n l) eqn:E.
  - apply mem_In. apply xp_norm_names_in. apply mem_In. exact E.
  - apply xp_mem_false. intro H. apply (proj1 (xp_norm_names_in l n)) in H. apply (proj2 (mem_In n l)) in H. congruence.
Qed.

Lemma xp_names_ok_noempty names al : names_ok names al = true -> ~ In [] names.
Proof.
  unfold names_ok. intro H. apply andb_true_iff in H. destruct H as [H _]. apply negb_true_iff in H.
  intro Hin. rewrite <- not_true_iff_false in H. apply H. apply existsb_exists. exists []. auto.
Qed.

(* two sorted maps with the same domain have the same key list *)
Lemma xp_keys_ext (A B : Type) (m1 : @smap name A) (m2 : @smap name B) :
  sorted m1 -> sorted m2 -> (forall k, find k m1 <> None <-> find k m2 <> None) -> map fst m1 = map fst m2.
Proof.
  intros S1 S2 E.
  rewrite <- (xp_mapv_keys (fun _ : A => tt) m1), <- (xp_mapv_keys (fun _ : B => tt) m2). f_equal.
  apply sorted_ext; auto using xp_mapv_sorted.
  intro k. rewrite !xp_mapv_find. specialize (E k).
  destruct (find k m1), (find k m2); cbn [option_map]; auto; exfalso.
  - assert (@None B <> None) as Q by (apply E; discriminate). apply Q. reflexivity.
  - assert (@None A <> None) as Q by (apply E; discriminate). apply Q. reflexivity.
Qed.

Section ExpiryProofs.
Variable V : Type.
Notation store := (store V).
Notation hstate := (hstate V).
Notation event := (event V).
Implicit Types (h : hstate) (s : store) (n : name).

(* the poll in flight is consistent with the store: a name it marked expired either has a handle by now
   or is still the undeclared, stale entry it was when the snapshot was taken *)
Definition pend_ok h : Prop :=
  match pend h with
  | None => True
  | Some (now, snap) =>
    forall n v, In (n, (true, v)) snap ->
      has_handle (st h) n = true \/
      exists e0, find n (m (st h)) = Some (Some e0) /\ decl e0 = false /\ 0 < age (st h) /\ age (st h) < elapsed now (last e0)
  end.

Record HInv h : Prop := {
  hi_inv : Inv (st h);                                                       (* sorted, no stub, handles never dangle *)
  hi_noempty : find [] (m (st h)) = None;                                    (* the empty name is never a key *)
  hi_watch : forall w, In w (ws (st h)) -> has_handle (st h) (wname w) = true; (* a watcher wraps a handle *)
  hi_keys : map fst (cdoc h) = map fst (m (st h));                           (* the cache document names exactly the known secrets *)
  hi_docnn : forall n x, In (n, x) (cdoc h) -> x <> None;
  hi_pend : pend_ok h
}.

(* what can happen: the locked part of a lookup of n runs only for a non-empty name (the service never serves
   the empty name: neither the real server nor FileClient does) that was unknown when LookupSecret looked - so, if it
   is known by now (a concurrent lookup won the race), it is not a declared one (declared names are known from
   construction on) *)
Definition ev_ok h (e : event) : Prop :=
  match e with
  | ELookupOk n _ _ _ => n <> [] /\ forall e0, find n (m (st h)) = Some (Some e0) -> decl e0 = false
  | _ => True
  end.
Fixpoint ok_run h (es : list event) : Prop :=
  match es with [] => True | e :: r => ev_ok h e /\ ok_run (step h e) r end.
Definition no_restart (es : list event) : Prop := forall e, In e es -> is_restart e = false.

(* ---------------------------------------------------------------- documents *)
Definition xp_docf (oe : option (centry V)) : option (N * V * Z) :=
  match oe with Some e => Some (ver e, val e, last e) | None => None end.
Definition xp_rdocf (x : option (N * V * Z)) : rentry V :=
  match x with Some (v, b, t) => Some (Some (v, b), t) | None => None end.

Lemma xp_doc_mapv s : doc s = xp_mapv xp_docf (m s).
Proof. reflexivity. Qed.
Lemma xp_rdoc_mapv (d : list (doc_entry V)) : rentry_of_doc d = xp_mapv xp_rdocf d.
Proof. reflexivity. Qed.

Lemma xp_doc_keys s : map fst (doc s) = map fst (m s).
Proof. rewrite xp_doc_mapv. apply xp_mapv_keys. Qed.

Lemma doc_exact s n x : Inv s ->
  (In (n, x) (doc s) <-> exists e0, find n (m s) = Some (Some e0) /\ x = Some (ver e0, val e0, last e0)).
Proof.
  intros [S Ns H]. rewrite xp_doc_mapv, xp_mapv_in. split.
  - intros (oe & Hin & ->). apply (in_find _ _ S) in Hin. destruct oe as [e|].
    + exists e. auto.
    + exfalso. exact (Ns n Hin).
  - intros (e0 & F & ->). exists (Some e0). split; [apply find_in; exact F|reflexivity].
Qed.

Lemma xp_doc_nn s n x : Inv s -> In (n, x) (doc s) -> x <> None.
Proof. intros I Hin. apply (doc_exact n x I) in Hin. destruct Hin as (e0 & _ & ->). discriminate. Qed.

(* ---------------------------------------------------------------- the cache document read back *)
Lemma xp_of_cache_in k x (c : @smap name (rentry V)) : In (k, x) (of_cache c) -> exists e, In (k, e) c.
Proof.
  unfold of_cache. rewrite in_flat_map. intros ([k' e] & Hin & H).
  destruct e as [[[[v b]|] t]|]; cbn [In] in H; try contradiction.
  destruct H as [Q|[]]. injection Q as Q1 Q2. subst. eauto.
Qed.

Lemma xp_of_cache_cons k e (c : @smap name (rentry V)) :
  of_cache ((k, e) :: c) =
  match e with Some (Some (v, b), t) => [(k, Some (CE v b t false))] | _ => [] end ++ of_cache c.
Proof. reflexivity. Qed.

Lemma xp_of_cache_sorted (c : @smap name (rentry V)) : sorted c -> sorted (of_cache c).
Proof.
  induction 1 as [|k e c Hlt Hs IH]; [constructor|].
  rewrite xp_of_cache_cons. destruct e as [[[[v b]|] t]|]; cbn [app]; auto.
  constructor; auto. intros k' v' Hin. apply xp_of_cache_in in Hin. destruct Hin as (e' & Hin). eauto.
Qed.

Lemma xp_of_cache_find n (c : @smap name (rentry V)) : sorted c ->
  find n (of_cache c) = match find n c with
                        | Some (Some (Some (v, b), t)) => Some (Some (CE v b t false))
                        | _ => None end.
Proof.
  induction 1 as [|k e c Hlt Hs IH]; [reflexivity|].
  rewrite xp_of_cache_cons. cbn [find]. destruct (cmp n k) eqn:C.
  - apply cmp_eq in C. subst k.
    assert (find n (of_cache c) = None) as Nn.
    { apply find_not_in. intros k' v' Hin. apply xp_of_cache_in in Hin. destruct Hin as (e' & Hin). eauto. }
    destruct e as [[[[v b]|] t]|]; cbn [app find]; auto. rewrite cmp_refl. reflexivity.
  - destruct e as [[[[v b]|] t]|]; cbn [app find]; auto. rewrite C. exact IH.
  - destruct e as [[[[v b]|] t]|]; cbn [app find]; auto. rewrite C. exact IH.
Qed.

Lemma xp_cache_valid_spec (c : @smap name (rentry V)) : cache_valid c = true ->
  forall k e, In (k, e) c -> k <> [] /\ exists v b t, e = Some (Some (v, b), t).
Proof.
  unfold cache_valid. rewrite forallb_forall. intros H k e Hin. specialize (H _ Hin). cbn beta iota in H.
  destruct k as [|a k]; [discriminate|]. split; [discriminate|].
  destruct e as [[[[v b]|] t]|]; try discriminate. eauto.
Qed.

(* a document all of whose entries are present and none of whose names is empty is valid *)
Lemma xp_cache_valid_doc (d : list (doc_entry V)) :
  (forall n x, In (n, x) d -> x <> None) -> ~ In [] (map fst d) -> cache_valid (rentry_of_doc d) = true.
Proof.
  intros Nn Ne. unfold cache_valid. apply forallb_forall. intros [k e] Hin.
  rewrite xp_rdoc_mapv in Hin. apply xp_mapv_in in Hin. destruct Hin as (x & Hin & ->).
  destruct k as [|a k].
  - exfalso. apply Ne. apply in_map_iff. exists ([], x). auto.
  - destruct x as [[[v b] t]|]; [reflexivity|]. exfalso. exact (Nn _ _ Hin eq_refl).
Qed.

(* ---------------------------------------------------------------- declare *)
Definition xp_D (x : option (option (centry V))) : option (option (centry V)) :=
  match x with Some (Some e) => Some (Some (CE (ver e) (val e) (last e) true)) | _ => Some None end.

Lemma xp_D_idem x : xp_D (xp_D x) = xp_D x.
Proof. destruct x as [[e|]|]; reflexivity. Qed.

Lemma xp_declare1_spec (mm : @smap name (option (centry V))) w a : sorted mm ->
  sorted (fst (declare1 (mm, w) a)) /\
  (forall n, find n (fst (declare1 (mm, w) a)) = if neqb n a then xp_D (find n mm) else find n mm) /\
  (w = true -> snd (declare1 (mm, w) a) = true) /\
  (find a mm = None -> snd (declare1 (mm, w) a) = true).
Proof.
  intro S. unfold declare1. destruct (find a mm) as [[e|]|] eqn:F; cbn [fst snd].
  - split; [apply sorted_upd; exact S|]. split; [|split; [auto|discriminate]].
    intro n. rewrite xp_find_upd_cases. destruct (neqb n a) eqn:E; auto.
    apply neqb_true in E. subst. rewrite F. reflexivity.
  - split; [exact S|]. split; [|split; [auto|discriminate]].
    intro n. destruct (neqb n a) eqn:E; auto. apply neqb_true in E. subst. rewrite F. reflexivity.
  - split; [apply sorted_upd; exact S|]. split; [|split; auto].
    intro n. rewrite xp_find_upd_cases. destruct (neqb n a) eqn:E; auto.
    apply neqb_true in E. subst. rewrite F. reflexivity.
Qed.

Lemma xp_declare_fold l : forall (mm : @smap name (option (centry V))) w, sorted mm ->
  sorted (fst (fold_left (@declare1 V) l (mm, w))) /\
  (forall n, find n (fst (fold_left (@declare1 V) l (mm, w))) = if mem n l then xp_D (find n mm) else find n mm) /\
  (w = true -> snd (fold_left (@declare1 V) l (mm, w)) = true) /\
  ((exists n, In n l /\ find n mm = None) -> snd (fold_left (@declare1 V) l (mm, w)) = true).
Proof.
  induction l as [|a l IH]; intros mm w S; cbn [fold_left].
  - cbn [fst snd]. split; auto. split; [reflexivity|]. split; auto. intros (n & [] & _).
  - destruct (xp_declare1_spec w a S) as (S1 & F1 & W1 & N1).
    destruct (declare1 (mm, w) a) as [mm' w'] eqn:ED. cbn [fst snd] in S1, F1, W1, N1.
    destruct (IH mm' w' S1) as (S2 & F2 & W2 & N2).
    split; [exact S2|]. split; [|split].
    + intro n. rewrite F2, F1, xp_mem_cons. destruct (neqb n a), (mem n l); cbn [orb]; auto using xp_D_idem.
    + intro Q. auto.
    + intros (n & [<-|Hin] & Fn); [auto|].
      destruct (neqb n a) eqn:E.
      * apply neqb_true in E. subst. auto.
      * apply N2. exists n. split; auto. rewrite F1, E. exact Fn.
Qed.

(* ---------------------------------------------------------------- the first round of initializeActive *)
Lemma xp_stubs_in n (mm : @smap name (option (centry V))) : In n (stubs mm) <-> In (n, None) mm.
Proof.
  unfold stubs. rewrite in_flat_map. split.
  - intros ([k [e|]] & Hin & H); cbn [In] in H; [contradiction|]. destruct H as [<-|[]]. exact Hin.
  - intro Hin. exists (n, None). split; [exact Hin|]. cbn. auto.
Qed.

Lemma xp_mem_stubs n (mm : @smap name (option (centry V))) : sorted mm ->
  mem n (stubs mm) = match find n mm with Some None => true | _ => false end.
Proof.
  intro S. destruct (mem n (stubs mm)) eqn:E.
  - apply mem_In, xp_stubs_in in E. apply (in_find _ _ S) in E. rewrite E. reflexivity.
  - destruct (find n mm) as [[e|]|] eqn:F; auto.
    apply find_in, xp_stubs_in, mem_In in F. congruence.
Qed.

Lemma xp_init_fold (ans : name -> option (N * V)) (fetch : name -> N * V) t l :
  (forall n, ans n = Some (fetch n)) ->
  forall (acc : @smap name (option (centry V))) (k : nat), sorted acc ->
  let r := fold_left (fun '(acc, missing) n =>
               match ans n with
               | Some (v, b) => (upd n (Some (CE v b t true)) acc, missing)
               | None => (acc, S missing)
               end) l (acc, k) in
  sorted (fst r) /\
  forall n, find n (fst r) = if mem n l then Some (Some (CE (fst (fetch n)) (snd (fetch n)) t true)) else find n acc.
Proof.
  intro HA. induction l as [|a l IH]; intros acc k S; cbn [fold_left].
  - cbn [fst]. split; auto.
  - rewrite (HA a). destruct (fetch a) as [v b] eqn:Fa.
    destruct (IH (upd a (Some (CE v b t true)) acc) k (sorted_upd _ _ S)) as (S2 & F2).
    split; [exact S2|]. intro n. rewrite F2, xp_mem_cons, xp_find_upd_cases.
    destruct (neqb n a) eqn:E, (mem n l); cbn [orb]; auto.
    apply neqb_true in E. subst. rewrite Fa. reflexivity.
Qed.

Lemma xp_init_round_spec (mm : @smap name (option (centry V))) (fetch : name -> N * V) t : sorted mm ->
  sorted (fst (init_round mm (fun n => Some (fetch n)) t)) /\
  forall n, find n (fst (init_round mm (fun n => Some (fetch n)) t)) =
            match find n mm with
            | Some None => Some (Some (CE (fst (fetch n)) (snd (fetch n)) t true))
            | x => x end.
Proof.
  intro S. unfold init_round.
  destruct (@xp_init_fold (fun n => Some (fetch n)) fetch t (stubs mm) (fun n => eq_refl) mm O S) as (S2 & F2).
  split; [exact S2|]. intro n. rewrite F2, (xp_mem_stubs n S). destruct (find n mm) as [[e|]|]; reflexivity.
Qed.

(* the map NewStore builds from a loaded cache m0 *)
Lemma xp_build_spec (m0 : @smap name (option (centry V))) names (fetch : name -> N * V) t :
  sorted m0 -> no_stubs m0 ->
  let m2 := fst (init_round (fst (declare m0 (norm_names names))) (fun n => Some (fetch n)) t) in
  sorted m2 /\
  (forall n, find n m2 = match find n m0 with
                         | Some (Some e) => Some (Some (if mem n names then CE (ver e) (val e) (last e) true else e))
                         | Some None => Some None
                         | None => if mem n names then Some (Some (CE (fst (fetch n)) (snd (fetch n)) t true)) else None
                         end) /\
  (snd (declare m0 (norm_names names)) = false -> forall n, In n names -> find n m0 <> None).
Proof.
  intros S0 N0. unfold declare.
  destruct (@xp_declare_fold (norm_names names) m0 false S0) as (S1 & F1 & _ & W1).
  destruct (xp_init_round_spec fetch t S1) as (S2 & F2).
  cbn zeta. split; [exact S2|]. split.
  - intro n. rewrite F2, F1, xp_mem_norm. specialize (N0 n).
    destruct (mem n names); destruct (find n m0) as [[e|]|]; cbn [xp_D]; auto; congruence.
  - intros W n Hin F. rewrite W1 in W; [discriminate|]. exists n. split; auto. apply xp_norm_names_in. exact Hin.
Qed.
