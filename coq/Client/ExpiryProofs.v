(* C19: proofs about histories of a store (Client/Expiry.v): a secret is dropped only at a poll and only if
   it is undeclared, an expiry age is set, it is stale, and no handle exists; reads stamp, stamps persist. *)
From Coq Require Import List Bool NArith ZArith Lia ZifyN ZifyNat.
Import ListNotations.
From Setec Require Import Base.SMap Client.Store Client.StoreInv Client.Expiry.
Set Implicit Arguments.
Open Scope Z_scope.

(* ---------------------------------------------------------------- generic facts on sorted maps *)
Section MapFacts.
Variables A B : Type.
Implicit Types (mm : @smap name A).

Lemma xp_find_keys n mm : find n mm <> None <-> In n (map fst mm).
Proof.
  induction mm as [|[k v] mm IH]; cbn [find map fst In].
  - split; [congruence|tauto].
  - destruct (cmp n k) eqn:E.
    + apply cmp_eq in E. subst. split; [auto|discriminate].
    + rewrite IH. split; [auto|]. intros [Q|Q]; auto. subst. rewrite cmp_refl in E. discriminate.
    + rewrite IH. split; [auto|]. intros [Q|Q]; auto. subst. rewrite cmp_refl in E. discriminate.
Qed.

Lemma xp_find_none_keys n mm : find n mm = None <-> ~ In n (map fst mm).
Proof.
  rewrite <- xp_find_keys. destruct (find n mm).
  - split; [discriminate|]. intro H. exfalso. apply H. discriminate.
  - split; auto.
Qed.

Lemma xp_in_keys n (x : A) mm : In (n, x) mm -> In n (map fst mm).
Proof. intro H. apply in_map_iff. exists (n, x). auto. Qed.

Lemma xp_keys_upd_present n (x : A) mm : sorted mm -> find n mm <> None -> map fst (upd n x mm) = map fst mm.
Proof.
  induction 1 as [|k v mm Hlt Hs IH]; cbn [find upd map fst].
  - congruence.
  - destruct (cmp n k) eqn:E; cbn [map fst].
    + apply cmp_eq in E. subst. reflexivity.
    + intro F. exfalso. apply F. apply find_not_in. intros k' v' Hin. eapply cmp_trans; eauto.
    + intro F. f_equal. apply IH. exact F.
Qed.

(* sortedness depends on the keys only *)
Lemma xp_sorted_keys mm (m2 : @smap name B) : sorted mm -> map fst mm = map fst m2 -> sorted m2.
Proof.
  intros S. revert m2. induction S as [|k v mm Hlt Hs IH]; intros [|[k2 v2] m2]; cbn [map fst]; intro E; try discriminate.
  - constructor.
  - injection E as E1 E2. subst k2. constructor.
    + intros k' v' Hin0. assert (In k' (map fst m2)) as Hin by (apply in_map_iff; exists (k', v'); auto).
      rewrite <- E2 in Hin.
      apply in_map_iff in Hin. destruct Hin as ([k'' v''] & Q & Hin). cbn [fst] in Q. subst k''. eapply Hlt; eauto.
    + apply IH; auto.
Qed.

(* mapping the values *)
Variable f : A -> B.
Definition xp_mapv mm : @smap name B := map (fun '(k, x) => (k, f x)) mm.

Lemma xp_mapv_keys mm : map fst (xp_mapv mm) = map fst mm.
Proof. induction mm as [|[k v] mm IH]; cbn [xp_mapv map fst]; auto. f_equal. exact IH. Qed.

Lemma xp_mapv_find n mm : find n (xp_mapv mm) = option_map f (find n mm).
Proof.
  induction mm as [|[k v] mm IH]; cbn [xp_mapv map find]; auto.
  destruct (cmp n k); auto.
Qed.

Lemma xp_mapv_in n y mm : In (n, y) (xp_mapv mm) <-> exists x, In (n, x) mm /\ y = f x.
Proof.
  unfold xp_mapv. rewrite in_map_iff. split.
  - intros ([k x] & Q & Hin). injection Q as Q1 Q2. subst. eauto.
  - intros (x & Hin & ->). exists (n, x). auto.
Qed.

Lemma xp_mapv_sorted mm : sorted mm -> sorted (xp_mapv mm).
Proof. intro S. eapply xp_sorted_keys; eauto. symmetry. apply xp_mapv_keys. Qed.

End MapFacts.

Lemma xp_neqb_refl (a : name) : neqb a a = true.
Proof. apply neqb_true. reflexivity. Qed.

Lemma xp_mem_cons n a l : mem n (a :: l) = neqb n a || mem n l.
Proof. reflexivity. Qed.

Lemma xp_mem_false n l : mem n l = false <-> ~ In n l.
Proof. rewrite <- mem_In. destruct (mem n l); split; congruence. Qed.

Lemma xp_find_upd_cases (A : Type) (n k : name) (x : A) mm :
  find k (upd n x mm) = if neqb k n then Some x else find k mm.
Proof.
  destruct (neqb k n) eqn:E.
  - apply neqb_true in E. subst. apply find_upd_eq.
  - apply neqb_false in E. apply find_upd_neq. auto.
Qed.

(* ---------------------------------------------------------------- name normalisation *)
Lemma xp_norm_fold_keys l : forall (acc : @smap name unit) n,
  In n (map fst (fold_left (fun acc n => upd n tt acc) l acc)) <-> In n l \/ In n (map fst acc).
Proof.
  induction l as [|a l IH]; cbn [fold_left In]; intros acc n.
  - tauto.
  - rewrite IH. rewrite <- !xp_find_keys. rewrite xp_find_upd_cases.
    destruct (neqb n a) eqn:E.
    + apply neqb_true in E. subst. split; [auto|]. intros _. right. discriminate.
    + apply neqb_false in E. split; [tauto|]. intros [[Q|Q]|Q]; auto; congruence.
Qed.

Lemma xp_norm_names_in l n : In n (norm_names l) <-> In n l.
Proof. unfold norm_names. rewrite xp_norm_fold_keys. cbn. tauto. Qed.

Lemma xp_mem_norm n l : mem n (norm_names l) = mem n l.
Proof.
  destruct (mem n l) eqn:E.
  - apply mem_In. apply xp_norm_names_in. apply mem_In. exact E.
  - apply xp_mem_false. intro H. apply (proj1 (xp_norm_names_in l n)) in H. apply (proj2 (mem_In n l)) in H. congruence.
Qed.

Lemma xp_names_ok_noempty names al : names_ok names al = true -> ~ In [] names.
Proof.
  unfold names_ok. intro H. apply andb_true_iff in H. destruct H as [H _]. apply negb_true_iff in H.
  intro Hin. rewrite <- not_true_iff_false in H. apply H. apply existsb_exists. exists []. auto.
Qed.

(* two sorted maps with the same domain have the same key list *)
Lemma xp_keys_ext (A B : Type) (m1 : @smap name A) (m2 : @smap name B) :
  sorted m1 -> sorted m2 -> (forall k, find k m1 <> None <-> find k m2 <> None) -> map fst m1 = map fst m2.
Proof.
  intros S1 S2 E.
  rewrite <- (xp_mapv_keys (fun _ : A => tt) m1), <- (xp_mapv_keys (fun _ : B => tt) m2). f_equal.
  apply sorted_ext; auto using xp_mapv_sorted.
  intro k. rewrite !xp_mapv_find. specialize (E k).
  destruct (find k m1), (find k m2); cbn [option_map]; auto; exfalso.
  - assert (@None B <> None) as Q by (apply E; discriminate). apply Q. reflexivity.
  - assert (@None A <> None) as Q by (apply E; discriminate). apply Q. reflexivity.
Qed.

Section ExpiryProofs.
Variable V : Type.
Notation store := (store V).
Notation hstate := (hstate V).
Notation event := (event V).
Implicit Types (h : hstate) (s : store) (n : name).

(* the poll in flight is consistent with the store: a name it marked expired either has a handle by now
   or is still the undeclared, stale entry it was when the snapshot was taken *)
Definition pend_ok h : Prop :=
  match pend h with
  | None => True
  | Some (now, snap) =>
    forall n v, In (n, (true, v)) snap ->
      has_handle (st h) n = true \/
      exists e0, find n (m (st h)) = Some (Some e0) /\ decl e0 = false /\ 0 < age (st h) /\ age (st h) < elapsed now (last e0)
  end.

Record HInv h : Prop := {
  hi_inv : Inv (st h);                                                       (* sorted, no stub, handles never dangle *)
  hi_noempty : find [] (m (st h)) = None;                                    (* the empty name is never a key *)
  hi_watch : forall w, In w (ws (st h)) -> has_handle (st h) (wname w) = true; (* a watcher wraps a handle *)
  hi_keys : map fst (cdoc h) = map fst (m (st h));                           (* the cache document names exactly the known secrets *)
  hi_docnn : forall n x, In (n, x) (cdoc h) -> x <> None;
  hi_pend : pend_ok h
}.

(* what can happen: the locked part of a lookup of n runs only for a non-empty name (the service never serves
   the empty name: neither the real server nor FileClient does) that was unknown when LookupSecret looked - so, if it
   is known by now (a concurrent lookup won the race), it is not a declared one (declared names are known from
   construction on) *)
Definition ev_ok h (e : event) : Prop :=
  match e with
  | ELookupOk n _ _ _ => n <> [] /\ forall e0, find n (m (st h)) = Some (Some e0) -> decl e0 = false
  | _ => True
  end.
Fixpoint ok_run h (es : list event) : Prop :=
  match es with [] => True | e :: r => ev_ok h e /\ ok_run (step h e) r end.
Definition no_restart (es : list event) : Prop := forall e, In e es -> is_restart e = false.

(* ---------------------------------------------------------------- documents *)
Definition xp_docf (oe : option (centry V)) : option (N * V * Z) :=
  match oe with Some e => Some (ver e, val e, last e) | None => None end.
Definition xp_rdocf (x : option (N * V * Z)) : rentry V :=
  match x with Some (v, b, t) => Some (Some (v, b), t) | None => None end.

Lemma xp_doc_mapv s : doc s = xp_mapv xp_docf (m s).
Proof. reflexivity. Qed.
Lemma xp_rdoc_mapv (d : list (doc_entry V)) : rentry_of_doc d = xp_mapv xp_rdocf d.
Proof. reflexivity. Qed.

Lemma xp_doc_keys s : map fst (doc s) = map fst (m s).
Proof. rewrite xp_doc_mapv. apply xp_mapv_keys. Qed.

Lemma doc_exact s n x : Inv s ->
  (In (n, x) (doc s) <-> exists e0, find n (m s) = Some (Some e0) /\ x = Some (ver e0, val e0, last e0)).
Proof.
  intros [S Ns H]. rewrite xp_doc_mapv, xp_mapv_in. split.
  - intros (oe & Hin & ->). apply (in_find _ _ S) in Hin. destruct oe as [e|].
    + exists e. auto.
    + exfalso. exact (Ns n Hin).
  - intros (e0 & F & ->). exists (Some e0). split; [apply find_in; exact F|reflexivity].
Qed.

Lemma xp_doc_nn s n x : Inv s -> In (n, x) (doc s) -> x <> None.
Proof. intros I Hin. apply (doc_exact n x I) in Hin. destruct Hin as (e0 & _ & ->). discriminate. Qed.

(* ---------------------------------------------------------------- the cache document read back *)
Lemma xp_of_cache_in k x (c : @smap name (rentry V)) : In (k, x) (of_cache c) -> exists e, In (k, e) c.
Proof.
  unfold of_cache. rewrite in_flat_map. intros ([k' e] & Hin & H).
  destruct e as [[[[v b]|] t]|]; cbn [In] in H; try contradiction.
  destruct H as [Q|[]]. injection Q as Q1 Q2. subst. eauto.
Qed.

Lemma xp_of_cache_cons k e (c : @smap name (rentry V)) :
  of_cache ((k, e) :: c) =
  match e with Some (Some (v, b), t) => [(k, Some (CE v b t false))] | _ => [] end ++ of_cache c.
Proof. reflexivity. Qed.

Lemma xp_of_cache_sorted (c : @smap name (rentry V)) : sorted c -> sorted (of_cache c).
Proof.
  induction 1 as [|k e c Hlt Hs IH]; [constructor|].
  rewrite xp_of_cache_cons. destruct e as [[[[v b]|] t]|]; cbn [app]; auto.
  constructor; auto. intros k' v' Hin. apply xp_of_cache_in in Hin. destruct Hin as (e' & Hin). eauto.
Qed.

Lemma xp_of_cache_find n (c : @smap name (rentry V)) : sorted c ->
  find n (of_cache c) = match find n c with
                        | Some (Some (Some (v, b), t)) => Some (Some (CE v b t false))
                        | _ => None end.
Proof.
  induction 1 as [|k e c Hlt Hs IH]; [reflexivity|].
  rewrite xp_of_cache_cons. cbn [find]. destruct (cmp n k) eqn:C.
  - apply cmp_eq in C. subst k.
    assert (find n (of_cache c) = None) as Nn.
    { apply find_not_in. intros k' v' Hin. apply xp_of_cache_in in Hin. destruct Hin as (e' & Hin). eauto. }
    destruct e as [[[[v b]|] t]|]; cbn [app find]; auto. rewrite cmp_refl. reflexivity.
  - destruct e as [[[[v b]|] t]|]; cbn [app find]; auto. rewrite C. exact IH.
  - destruct e as [[[[v b]|] t]|]; cbn [app find]; auto. rewrite C. exact IH.
Qed.

Lemma xp_cache_valid_spec (c : @smap name (rentry V)) : cache_valid c = true ->
  forall k e, In (k, e) c -> k <> [] /\ exists v b t, e = Some (Some (v, b), t).
Proof.
  unfold cache_valid. rewrite forallb_forall. intros H k e Hin. specialize (H _ Hin). cbn beta iota in H.
  destruct k as [|a k]; [discriminate|]. split; [discriminate|].
  destruct e as [[[[v b]|] t]|]; try discriminate. eauto.
Qed.

(* a document all of whose entries are present and none of whose names is empty is valid *)
Lemma xp_cache_valid_doc (d : list (doc_entry V)) :
  (forall n x, In (n, x) d -> x <> None) -> ~ In [] (map fst d) -> cache_valid (rentry_of_doc d) = true.
Proof.
  intros Nn Ne. unfold cache_valid. apply forallb_forall. intros [k e] Hin.
  rewrite xp_rdoc_mapv in Hin. apply xp_mapv_in in Hin. destruct Hin as (x & Hin & ->).
  destruct k as [|a k].
  - exfalso. apply Ne. apply in_map_iff. exists ([], x). auto.
  - destruct x as [[[v b] t]|]; [reflexivity|]. exfalso. exact (Nn _ _ Hin eq_refl).
Qed.

(* ---------------------------------------------------------------- declare *)
Definition xp_D (x : option (option (centry V))) : option (option (centry V)) :=
  match x with Some (Some e) => Some (Some (CE (ver e) (val e) (last e) true)) | _ => Some None end.

Lemma xp_D_idem x : xp_D (xp_D x) = xp_D x.
Proof. destruct x as [[e|]|]; reflexivity. Qed.

Lemma xp_declare1_spec (mm : @smap name (option (centry V))) w a : sorted mm ->
  sorted (fst (declare1 (mm, w) a)) /\
  (forall n, find n (fst (declare1 (mm, w) a)) = if neqb n a then xp_D (find n mm) else find n mm) /\
  (w = true -> snd (declare1 (mm, w) a) = true) /\
  (find a mm = None -> snd (declare1 (mm, w) a) = true).
Proof.
  intro S. unfold declare1. destruct (find a mm) as [[e|]|] eqn:F; cbn [fst snd].
  - split; [apply sorted_upd; exact S|]. split; [|split; [auto|discriminate]].
    intro n. rewrite xp_find_upd_cases. destruct (neqb n a) eqn:E; auto.
    apply neqb_true in E. subst. rewrite F. reflexivity.
  - split; [exact S|]. split; [|split; [auto|discriminate]].
    intro n. destruct (neqb n a) eqn:E; auto. apply neqb_true in E. subst. rewrite F. reflexivity.
  - split; [apply sorted_upd; exact S|]. split; [|split; auto].
    intro n. rewrite xp_find_upd_cases. destruct (neqb n a) eqn:E; auto.
    apply neqb_true in E. subst. rewrite F. reflexivity.
Qed.

Lemma xp_declare_fold l : forall (mm : @smap name (option (centry V))) w, sorted mm ->
  sorted (fst (fold_left (@declare1 V) l (mm, w))) /\
  (forall n, find n (fst (fold_left (@declare1 V) l (mm, w))) = if mem n l then xp_D (find n mm) else find n mm) /\
  (w = true -> snd (fold_left (@declare1 V) l (mm, w)) = true) /\
  ((exists n, In n l /\ find n mm = None) -> snd (fold_left (@declare1 V) l (mm, w)) = true).
Proof.
  induction l as [|a l IH]; intros mm w S; cbn [fold_left].
  - cbn [fst snd]. split; auto. split; [reflexivity|]. split; auto. intros (n & [] & _).
  - destruct (xp_declare1_spec w a S) as (S1 & F1 & W1 & N1).
    destruct (declare1 (mm, w) a) as [mm' w'] eqn:ED. cbn [fst snd] in S1, F1, W1, N1.
    destruct (IH mm' w' S1) as (S2 & F2 & W2 & N2).
    split; [exact S2|]. split; [|split].
    + intro n. rewrite F2, F1, xp_mem_cons. destruct (neqb n a), (mem n l); cbn [orb]; auto using xp_D_idem.
    + intro Q. auto.
    + intros (n & [<-|Hin] & Fn); [auto|].
      destruct (neqb n a) eqn:E.
      * apply neqb_true in E. subst. auto.
      * apply N2. exists n. split; auto. rewrite F1, E. exact Fn.
Qed.

(* ---------------------------------------------------------------- the first round of initializeActive *)
Lemma xp_stubs_in n (mm : @smap name (option (centry V))) : In n (stubs mm) <-> In (n, None) mm.
Proof.
  unfold stubs. rewrite in_flat_map. split.
  - intros ([k [e|]] & Hin & H); cbn [In] in H; [contradiction|]. destruct H as [<-|[]]. exact Hin.
  - intro Hin. exists (n, None). split; [exact Hin|]. cbn. auto.
Qed.

Lemma xp_mem_stubs n (mm : @smap name (option (centry V))) : sorted mm ->
  mem n (stubs mm) = match find n mm with Some None => true | _ => false end.
Proof.
  intro S. destruct (mem n (stubs mm)) eqn:E.
  - apply mem_In, xp_stubs_in in E. apply (in_find _ _ S) in E. rewrite E. reflexivity.
  - destruct (find n mm) as [[e|]|] eqn:F; auto.
    apply find_in, xp_stubs_in, mem_In in F. congruence.
Qed.

Lemma xp_init_fold (ans : name -> option (N * V)) (fetch : name -> N * V) t l :
  (forall n, ans n = Some (fetch n)) ->
  forall (acc : @smap name (option (centry V))) (k : nat), sorted acc ->
  let r := fold_left (fun '(acc, missing) n =>
               match ans n with
               | Some (v, b) => (upd n (Some (CE v b t true)) acc, missing)
               | None => (acc, S missing)
               end) l (acc, k) in
  sorted (fst r) /\
  forall n, find n (fst r) = if mem n l then Some (Some (CE (fst (fetch n)) (snd (fetch n)) t true)) else find n acc.
Proof.
  intro HA. induction l as [|a l IH]; intros acc k S; cbn [fold_left].
  - cbn [fst]. split; auto.
  - rewrite (HA a). destruct (fetch a) as [v b] eqn:Fa.
    destruct (IH (upd a (Some (CE v b t true)) acc) k (sorted_upd _ _ S)) as (S2 & F2).
    split; [exact S2|]. intro n. rewrite F2, xp_mem_cons, xp_find_upd_cases.
    destruct (neqb n a) eqn:E, (mem n l); cbn [orb]; auto.
    apply neqb_true in E. subst. rewrite Fa. reflexivity.
Qed.

Lemma xp_init_round_spec (mm : @smap name (option (centry V))) (fetch : name -> N * V) t : sorted mm ->
  sorted (fst (init_round mm (fun n => Some (fetch n)) t)) /\
  forall n, find n (fst (init_round mm (fun n => Some (fetch n)) t)) =
            match find n mm with
            | Some None => Some (Some (CE (fst (fetch n)) (snd (fetch n)) t true))
            | x => x end.
Proof.
  intro S. unfold init_round.
  destruct (@xp_init_fold (fun n => Some (fetch n)) fetch t (stubs mm) (fun n => eq_refl) mm O S) as (S2 & F2).
  split; [exact S2|]. intro n. rewrite F2, (xp_mem_stubs n S). destruct (find n mm) as [[e|]|]; reflexivity.
Qed.

(* the map NewStore builds from a loaded cache m0 *)
Lemma xp_build_spec (m0 : @smap name (option (centry V))) names (fetch : name -> N * V) t :
  sorted m0 -> no_stubs m0 ->
  let m2 := fst (init_round (fst (declare m0 (norm_names names))) (fun n => Some (fetch n)) t) in
  sorted m2 /\
  (forall n, find n m2 = match find n m0 with
                         | Some (Some e) => Some (Some (if mem n names then CE (ver e) (val e) (last e) true else e))
                         | Some None => Some None
                         | None => if mem n names then Some (Some (CE (fst (fetch n)) (snd (fetch n)) t true)) else None
                         end) /\
  (snd (declare m0 (norm_names names)) = false -> forall n, In n names -> find n m0 <> None).
Proof.
  intros S0 N0. unfold declare.
  destruct (@xp_declare_fold (norm_names names) m0 false S0) as (S1 & F1 & _ & W1).
  destruct (xp_init_round_spec fetch t S1) as (S2 & F2).
  cbn zeta. split; [exact S2|]. split.
  - intro n. rewrite F2, F1, xp_mem_norm. specialize (N0 n).
    destruct (mem n names); destruct (find n m0) as [[e|]|]; cbn [xp_D]; auto; congruence.
  - intros W n Hin F. rewrite W1 in W; [discriminate|]. exists n. split; auto. apply xp_norm_names_in. exact Hin.
Qed.

(* ---------------------------------------------------------------- restart *)
Lemma xp_restart_eq h names al ag fetch t : names_ok names al = true ->
  restart h names al ag fetch t =
  HS (ST (fst (init_round (fst (declare (load_cache (Some (rentry_of_doc (cdoc h)))) (norm_names names))) (fun n => Some (fetch n)) t))
         [] [] al ag)
     None
     (if snd (declare (load_cache (Some (rentry_of_doc (cdoc h)))) (norm_names names))
      then doc (ST (fst (init_round (fst (declare (load_cache (Some (rentry_of_doc (cdoc h)))) (norm_names names))) (fun n => Some (fetch n)) t))
                   [] [] al ag)
      else cdoc h).
Proof.
  intro H. unfold restart. rewrite H. cbv zeta.
  destruct (declare (load_cache (Some (rentry_of_doc (cdoc h)))) (norm_names names)) as [m1 want]. reflexivity.
Qed.

Lemma xp_HInv_build h names al ag fetch t :
  sorted (load_cache (Some (rentry_of_doc (cdoc h)))) -> no_stubs (load_cache (Some (rentry_of_doc (cdoc h)))) ->
  find [] (load_cache (Some (rentry_of_doc (cdoc h)))) = None -> names_ok names al = true ->
  ((forall n, In n names -> find n (load_cache (Some (rentry_of_doc (cdoc h)))) <> None) ->
     map fst (cdoc h) = map fst (load_cache (Some (rentry_of_doc (cdoc h)))) /\ forall n x, In (n, x) (cdoc h) -> x <> None) ->
  HInv (restart h names al ag fetch t).
Proof.
  intros S0 N0 E0 OK P. rewrite (xp_restart_eq h names al ag fetch t OK).
  set (m0 := load_cache (Some (rentry_of_doc (cdoc h)))) in *.
  destruct (@xp_build_spec m0 names fetch t S0 N0) as (S2 & F2 & W). cbv zeta in S2, F2.
  set (m2 := fst (init_round (fst (declare m0 (norm_names names))) (fun n => Some (fetch n)) t)) in *.
  assert (Inv (ST m2 [] [] al ag)) as I.
  { constructor; cbn [m hs].
    - exact S2.
    - intro n. rewrite F2. specialize (N0 n). destruct (mem n names), (find n m0) as [[e|]|]; congruence.
    - intros n []. }
  assert (mem [] names = false) as Me by (apply xp_mem_false; eapply xp_names_ok_noempty; eauto).
  constructor; cbn [st pend cdoc m hs ws].
  - exact I.
  - unfold name in *. rewrite F2, E0, Me. reflexivity.
  - intros w [].
  - destruct (snd (declare m0 (norm_names names))) eqn:Wt.
    + apply xp_doc_keys.
    + specialize (W eq_refl). destruct (P W) as [K _]. rewrite K. apply xp_keys_ext; auto.
      intro k. rewrite F2. destruct (find k m0) as [[e|]|] eqn:F.
      * split; discriminate.
      * split; discriminate.
      * destruct (mem k names) eqn:Mk; [|tauto]. apply mem_In in Mk. exfalso. exact (W k Mk F).
  - destruct (snd (declare m0 (norm_names names))) eqn:Wt.
    + intros n x. apply xp_doc_nn. exact I.
    + specialize (W eq_refl). destruct (P W) as [_ Q]. exact Q.
  - exact Logic.I.
Qed.

(* every freshly constructed store satisfies it (sorted = the document is a JSON object read into a map) *)
Lemma HInv_restart h names al ag fetch t :
  sorted (rentry_of_doc (cdoc h)) -> cache_valid (rentry_of_doc (cdoc h)) = true ->
  names_ok names al = true -> HInv (restart h names al ag fetch t).
Proof.
  intros S Cv OK.
  assert (load_cache (Some (rentry_of_doc (cdoc h))) = of_cache (rentry_of_doc (cdoc h))) as L
    by (unfold load_cache; rewrite Cv; reflexivity).
  pose proof (xp_cache_valid_spec _ Cv) as Sp.
  apply xp_HInv_build; auto; rewrite ?L.
  - apply xp_of_cache_sorted. exact S.
  - intro n. rewrite (xp_of_cache_find n S). destruct (find n (rentry_of_doc (cdoc h))) as [[[[[v b]|] t']|]|]; discriminate.
  - rewrite xp_of_cache_find by exact S. destruct (find _ (rentry_of_doc (cdoc h))) as [e|] eqn:F; [|reflexivity].
    apply find_in, Sp in F. destruct F as [F _]. congruence.
  - intros _. split.
    + rewrite <- (xp_mapv_keys (@xp_rdocf) (cdoc h)). rewrite <- xp_rdoc_mapv. symmetry.
      apply xp_keys_ext; auto using xp_of_cache_sorted.
      intro k. rewrite (xp_of_cache_find k S). destruct (find k (rentry_of_doc (cdoc h))) as [e|] eqn:F; [|tauto].
      apply find_in, Sp in F. destruct F as (_ & v & b & t' & ->). split; discriminate.
    + intros n x Hin ->. assert (In (n, xp_rdocf None) (rentry_of_doc (cdoc h))) as Hin'.
      { rewrite xp_rdoc_mapv. apply xp_mapv_in. exists None. auto. }
      apply Sp in Hin'. destruct Hin' as (_ & v & b & t' & Q). discriminate.
Qed.

(* ... also from an invalid document (discarded whole), provided something is declared (so that the cache is rewritten) *)
Lemma HInv_restart_invalid h names al ag fetch t :
  cache_valid (rentry_of_doc (cdoc h)) = false -> names <> [] ->
  names_ok names al = true -> HInv (restart h names al ag fetch t).
Proof.
  intros Cv Ne OK.
  assert (load_cache (Some (rentry_of_doc (cdoc h))) = []) as L
    by (unfold load_cache; rewrite Cv; reflexivity).
  apply xp_HInv_build; auto; rewrite ?L.
  - constructor.
  - intro n. cbn [find]. discriminate.
  - reflexivity.
  - intro W. exfalso. destruct names as [|a names]; [congruence|]. apply (W a); [left; reflexivity|reflexivity].
Qed.

(* ---------------------------------------------------------------- the expiry predicate and the snapshot *)
Lemma xp_has_expired_true ag now (e : centry V) :
  has_expired ag now e = true <-> decl e = false /\ 0 < ag /\ ag < elapsed now (last e).
Proof. unfold has_expired. rewrite !andb_true_iff, negb_true_iff, !Z.ltb_lt. tauto. Qed.

Lemma xp_in_snapshot s now n b v :
  In (n, (b, v)) (snapshot s now) <->
  exists e, In (n, Some e) (m s) /\ b = negb (has_handle s n) && has_expired (age s) now e /\ v = ver e.
Proof.
  unfold snapshot. rewrite in_flat_map. split.
  - intros ([k [e|]] & Hin & H); cbn [In] in H; [|contradiction]. destruct H as [Q|[]].
    injection Q as Q1 Q2 Q3. subst. eauto.
  - intros (e & Hin & -> & ->). exists (n, Some e). split; [exact Hin|]. left. reflexivity.
Qed.

Lemma snapshot_marks s now n e0 :
  Inv s -> find n (m s) = Some (Some e0) ->
  (In (n, (true, ver e0)) (snapshot s now) <->
   decl e0 = false /\ 0 < age s /\ age s < elapsed now (last e0) /\ has_handle s n = false).
Proof.
  intros [S Ns H] F. rewrite xp_in_snapshot. split.
  - intros (e & Hin & Hb & Hv). apply (in_find _ _ S) in Hin. rewrite F in Hin. injection Hin as <-.
    symmetry in Hb. apply andb_true_iff in Hb. destruct Hb as [Hh He]. apply negb_true_iff in Hh.
    apply xp_has_expired_true in He. tauto.
  - intros (D & A & El & Hh). exists e0. split; [apply find_in; exact F|]. split; [|reflexivity].
    rewrite Hh. cbn [negb andb]. symmetry. apply xp_has_expired_true. auto.
Qed.

Lemma snapshot_sound s now n v :
  Inv s -> In (n, (true, v)) (snapshot s now) ->
  exists e0, find n (m s) = Some (Some e0) /\ v = ver e0 /\ decl e0 = false /\ 0 < age s /\ age s < elapsed now (last e0) /\ has_handle s n = false.
Proof.
  intros I Hin. pose proof Hin as Hin2. apply xp_in_snapshot in Hin2. destruct Hin2 as (e & Hm & _ & ->).
  apply (in_find _ _ (inv_sorted I)) in Hm. exists e. split; [exact Hm|]. split; [reflexivity|].
  apply (@snapshot_marks s now n e I Hm). exact Hin.
Qed.

Lemma xp_requests_cons n ex v (snap : list snap_entry) :
  requests ((n, (ex, v)) :: snap) = (if ex then [] else [(n, v)]) ++ requests snap.
Proof. reflexivity. Qed.

Lemma xp_in_requests n v (snap : list snap_entry) : In (n, v) (requests snap) <-> In (n, (false, v)) snap.
Proof.
  unfold requests. rewrite in_flat_map. split.
  - intros ([k [ex x]] & Hin & H). destruct ex; cbn [In] in H; [contradiction|]. destruct H as [Q|[]].
    injection Q as Q1 Q2. subst. exact Hin.
  - intro Hin. exists (n, (false, v)). split; [exact Hin|]. left. reflexivity.
Qed.

(* a name marked expired is not requested in that poll; every other known name is, with its version *)
Lemma expired_not_polled s now n :
  Inv s -> (In n (map fst (requests (snapshot s now))) <->
            exists e0, find n (m s) = Some (Some e0) /\ ~ In (n, (true, ver e0)) (snapshot s now)).
Proof.
  intros [S Ns H]. split.
  - intro Hr. apply in_map_iff in Hr. destruct Hr as ([n' v] & Q & Hin). cbn [fst] in Q. subst n'.
    apply xp_in_requests, xp_in_snapshot in Hin. destruct Hin as (e & Hin & Hb & Hv).
    apply (in_find _ _ S) in Hin. exists e. split; [exact Hin|]. intro Hin2.
    apply xp_in_snapshot in Hin2. destruct Hin2 as (e' & Hin' & Hb' & _).
    apply (in_find _ _ S) in Hin'. rewrite Hin in Hin'. injection Hin' as <-. congruence.
  - intros (e0 & F & Nin). apply in_map_iff. exists (n, ver e0). split; [reflexivity|].
    apply xp_in_requests, xp_in_snapshot. exists e0. split; [apply find_in; exact F|]. split; [|reflexivity].
    destruct (negb (has_handle s n) && has_expired (age s) now e0) eqn:E; [|reflexivity].
    exfalso. apply Nin. apply xp_in_snapshot. exists e0. split; [apply find_in; exact F|]. auto.
Qed.

Lemma xp_om_some (X Y : Type) (f : X -> Y) o : (exists y, option_map f o = Some y) <-> (exists x, o = Some x).
Proof. destruct o; cbn [option_map]; split; intros [z H]; eauto; discriminate. Qed.

Lemma poll_succeeds_iff (snap : list snap_entry) (ans : name -> N -> resp V) :
  (exists ups, poll snap ans = Some ups) <-> (forall n v, In (n, v) (requests snap) -> ans n v <> RErr).
Proof.
  induction snap as [|[n [ex v]] rest IH].
  - cbn. split; [intros _ k x []|eauto].
  - cbn [poll]. rewrite xp_requests_cons. destruct ex; cbn [app].
    + rewrite xp_om_some. exact IH.
    + transitivity (ans n v <> RErr /\ exists ups, poll rest ans = Some ups).
      * destruct (ans n v) as [|v' b|] eqn:A.
        -- split; [intro H; split; [discriminate|exact H] | intros [_ H]; exact H].
        -- destruct (v' =? v)%N.
           ++ split; [intro H; split; [discriminate|exact H] | intros [_ H]; exact H].
           ++ rewrite xp_om_some. split; [intro H; split; [discriminate|exact H] | intros [_ H]; exact H].
        -- split; [intros [ups H]; discriminate | intros [H _]; congruence].
      * rewrite IH. split.
        -- intros [Hn Hr] k x [Q|Hin]; [injection Q as <- <-; exact Hn | auto].
        -- intro H. split; [apply H; left; reflexivity | intros k x Hin; apply H; right; exact Hin].
Qed.

Lemma poll_drops (snap : list snap_entry) (ans : name -> N -> resp V) ups n :
  poll snap ans = Some ups -> (In (n, Drop) ups <-> exists v, In (n, (true, v)) snap).
Proof.
  revert ups. induction snap as [|[k [ex v]] rest IH]; intros ups H; cbn [poll] in H.
  - injection H as <-. split; [intros []|intros (v & [])].
  - destruct ex.
    + destruct (poll rest ans) as [ups'|]; cbn [option_map] in H; [|discriminate]. injection H as <-.
      specialize (IH ups' eq_refl). cbn [In]. rewrite IH. split.
      * intros [Q|(v0 & Hin)].
        -- injection Q as ->. exists v. left. reflexivity.
        -- exists v0. right. exact Hin.
      * intros (v0 & [Q|Hin]).
        -- injection Q as Q1 Q2. subst. left. reflexivity.
        -- right. eauto.
    + assert ((exists v0, In (n, (true, v0)) ((k, (false, v)) :: rest)) <-> exists v0, In (n, (true, v0)) rest) as R.
      { split; intros (v0 & Hin); exists v0; [destruct Hin as [Q|Hin]; [discriminate|exact Hin] | right; exact Hin]. }
      rewrite R. destruct (ans k v) as [|v' b|]; [apply IH; exact H| |discriminate].
      destruct (v' =? v)%N; [apply IH; exact H|].
      destruct (poll rest ans) as [ups'|]; cbn [option_map] in H; [|discriminate]. injection H as <-.
      rewrite <- (IH ups' eq_refl). cbn [In]. split; [intros [Q|Hin]; [discriminate|exact Hin] | auto].
Qed.

(* ---------------------------------------------------------------- applyUpdates *)
Lemma xp_apply1_hs s u : hs (apply1 s u) = hs s.
Proof.
  destruct u as [n [|v b]]; cbn [apply1].
  - destruct (has_handle s n); reflexivity.
  - destruct (find n (m s)) as [[e|]|]; reflexivity.
Qed.

Lemma xp_apply1_age s u : age (apply1 s u) = age s.
Proof.
  destruct u as [n [|v b]]; cbn [apply1].
  - destruct (has_handle s n); reflexivity.
  - destruct (find n (m s)) as [[e|]|]; reflexivity.
Qed.

Lemma xp_apply1_wnames s u : map (@wname) (ws (apply1 s u)) = map (@wname) (ws s).
Proof.
  destruct u as [n [|v b]]; cbn [apply1].
  - destruct (has_handle s n); reflexivity.
  - destruct (find n (m s)) as [[e|]|]; try reflexivity.
    cbn [notify ws with_ws with_m]. rewrite map_map. apply map_ext. intro w. destruct (neqb (wname w) n); reflexivity.
Qed.

Lemma xp_apply1_none s u k : sorted (m s) -> find k (m s) = None -> find k (m (apply1 s u)) = None.
Proof.
  intros S F. destruct u as [n [|v b]]; cbn [apply1].
  - destruct (has_handle s n); [exact F|]. cbn [m with_m].
    destruct (name_eq_dec k n) as [->|D]; [apply find_del_eq; exact S|]. rewrite find_del_neq by exact D. exact F.
  - destruct (find n (m s)) as [[e|]|] eqn:Fn; try exact F.
    cbn [m notify with_ws with_m]. rewrite find_upd_cases. destruct (neqb k n) eqn:E; [|exact F].
    apply neqb_true in E. subst. congruence.
Qed.

Lemma xp_apply1_shape s u k e : sorted (m s) -> find k (m s) = Some (Some e) ->
  find k (m (apply1 s u)) = None \/
  exists e', find k (m (apply1 s u)) = Some (Some e') /\ decl e' = decl e /\ last e' = last e.
Proof.
  intros S F. destruct u as [n [|v b]]; cbn [apply1].
  - destruct (has_handle s n); [right; eauto|]. cbn [m with_m].
    destruct (name_eq_dec k n) as [->|D]; [left; apply find_del_eq; exact S|].
    right. rewrite find_del_neq by exact D. eauto.
  - destruct (find n (m s)) as [[e1|]|] eqn:Fn; try (right; eauto; fail).
    cbn [m notify with_ws with_m]. rewrite find_upd_cases. destruct (neqb k n) eqn:E; [|right; eauto].
    apply neqb_true in E. subst. rewrite F in Fn. injection Fn as <-. right. eexists. split; [reflexivity|]. auto.
Qed.

Lemma xp_fold_hs ups : forall s, hs (fold_left (@apply1 V) ups s) = hs s.
Proof. induction ups as [|u ups IH]; intro s; cbn [fold_left]; auto. rewrite IH. apply xp_apply1_hs. Qed.

Lemma xp_fold_age ups : forall s, age (fold_left (@apply1 V) ups s) = age s.
Proof. induction ups as [|u ups IH]; intro s; cbn [fold_left]; auto. rewrite IH. apply xp_apply1_age. Qed.

Lemma xp_fold_wnames ups : forall s, map (@wname) (ws (fold_left (@apply1 V) ups s)) = map (@wname) (ws s).
Proof. induction ups as [|u ups IH]; intro s; cbn [fold_left]; auto. rewrite IH. apply xp_apply1_wnames. Qed.

Lemma xp_has_handle_hs s s' k : hs s' = hs s -> has_handle s' k = has_handle s k.
Proof. unfold has_handle. intros ->. reflexivity. Qed.

Lemma xp_fold_none ups : forall s k, Inv s -> find k (m s) = None -> find k (m (fold_left (@apply1 V) ups s)) = None.
Proof.
  induction ups as [|u ups IH]; intros s k I F; cbn [fold_left]; auto.
  apply IH; [apply apply1_Inv; exact I|]. apply xp_apply1_none; [apply I|exact F].
Qed.

Lemma xp_fold_keeps ups : forall s k, Inv s -> find k (m s) <> None -> find k (m (fold_left (@apply1 V) ups s)) = None ->
  In (k, Drop) ups /\ has_handle s k = false.
Proof.
  induction ups as [|u ups IH]; intros s k I P Nn; cbn [fold_left] in Nn.
  - contradiction.
  - destruct (find k (m (apply1 s u))) as [x|] eqn:F.
    + destruct (IH (apply1 s u) k (apply1_Inv u I)) as [Hin Hh]; [rewrite F; discriminate|exact Nn|].
      split; [right; exact Hin|]. rewrite <- Hh. symmetry. apply xp_has_handle_hs. apply xp_apply1_hs.
    + destruct (apply1_keeps s u k (inv_sorted I) P F) as [-> Hh]. split; [left; reflexivity|exact Hh].
Qed.

Lemma xp_fold_drops ups : forall s k, Inv s -> In (k, Drop) ups -> has_handle s k = false ->
  find k (m (fold_left (@apply1 V) ups s)) = None.
Proof.
  induction ups as [|u ups IH]; intros s k I Hin Hh; cbn [fold_left].
  - destruct Hin.
  - destruct Hin as [->|Hin].
    + apply xp_fold_none; [apply apply1_Inv; exact I|]. cbn [apply1]. rewrite Hh. cbn [m with_m].
      apply find_del_eq. apply I.
    + apply IH; [apply apply1_Inv; exact I|exact Hin|]. rewrite <- Hh. apply xp_has_handle_hs. apply xp_apply1_hs.
Qed.

Lemma xp_fold_shape ups : forall s k e, Inv s -> find k (m s) = Some (Some e) ->
  find k (m (fold_left (@apply1 V) ups s)) = None \/
  exists e', find k (m (fold_left (@apply1 V) ups s)) = Some (Some e') /\ decl e' = decl e /\ last e' = last e.
Proof.
  induction ups as [|u ups IH]; intros s k e I F; cbn [fold_left].
  - right. eauto.
  - destruct (@xp_apply1_shape s u k e (inv_sorted I) F) as [Nn|(e1 & F1 & D1 & L1)].
    + left. apply xp_fold_none; [apply apply1_Inv; exact I|exact Nn].
    + destruct (IH (apply1 s u) k e1 (apply1_Inv u I) F1) as [Nn|(e2 & F2 & D2 & L2)]; [left; exact Nn|].
      right. exists e2. split; [exact F2|]. split; congruence.
Qed.

(* ---------------------------------------------------------------- secretLocked, handles *)
Lemma xp_sl_m s n : m (fst (secret_locked s n)) = m s.
Proof. unfold secret_locked. destruct (known s n), (has_handle s n); reflexivity. Qed.
Lemma xp_sl_ws s n : ws (fst (secret_locked s n)) = ws s.
Proof. unfold secret_locked. destruct (known s n), (has_handle s n); reflexivity. Qed.
Lemma xp_sl_age s n : age (fst (secret_locked s n)) = age s.
Proof. unfold secret_locked. destruct (known s n), (has_handle s n); reflexivity. Qed.

Lemma xp_sl_mono s n k : has_handle s k = true -> has_handle (fst (secret_locked s n)) k = true.
Proof.
  unfold secret_locked. destruct (known s n); [|auto]. destruct (has_handle s n) eqn:E; cbn [fst]; auto.
  intro H. unfold has_handle in *. cbn [hs with_hs]. rewrite xp_mem_cons, H. apply orb_true_r.
Qed.

Lemma xp_sl_handle s n : known s n = true -> has_handle (fst (secret_locked s n)) n = true.
Proof.
  intro K. unfold secret_locked. rewrite K. destruct (has_handle s n) eqn:E; cbn [fst]; auto.
  unfold has_handle. cbn [hs with_hs]. rewrite xp_mem_cons, xp_neqb_refl. reflexivity.
Qed.

Lemma xp_secret_fst s n : fst (secret s n) = fst (secret_locked s n).
Proof. unfold secret. destruct (secret_locked s n) as [s' ok]. destruct ok, (allow s); reflexivity. Qed.

Lemma xp_handle_entry s n : Inv s -> has_handle s n = true -> exists e0, find n (m s) = Some (Some e0).
Proof.
  intros [S Ns H] Hh. apply mem_In in Hh. specialize (H n Hh). specialize (Ns n).
  destruct (find n (m s)) as [[e|]|]; [eauto|congruence|congruence].
Qed.

Lemma handle_reads h n : HInv h -> has_handle (st h) n = true -> exists e0, find n (m (st h)) = Some (Some e0).
Proof. intros H Hh. apply xp_handle_entry; [apply H|exact Hh]. Qed.

Lemma xp_pend_ok_mono h h' :
  pend h' = pend h -> age (st h') = age (st h) ->
  (forall k, has_handle (st h) k = true -> has_handle (st h') k = true) ->
  (forall k, has_handle (st h') k = true \/ find k (m (st h')) = find k (m (st h))) ->
  pend_ok h -> pend_ok h'.
Proof.
  intros Ep Ea Hm Hf. unfold pend_ok. rewrite Ep. destruct (pend h) as [[now snap]|]; auto.
  intros P n v Hin. destruct (P n v Hin) as [Hh|(e0 & F & D & A & El)]; [left; auto|].
  destruct (Hf n) as [Hh|Fe]; [left; exact Hh|]. right. exists e0. rewrite Fe, Ea. auto.
Qed.

(* ---------------------------------------------------------------- reachability, event by event *)
Lemma xp_HInv_secret h n : HInv h -> HInv (HS (fst (secret (st h) n)) (pend h) (cdoc h)).
Proof.
  intros [I E W K D P]. rewrite xp_secret_fst. constructor; cbn [st pend cdoc].
  - apply secret_locked_Inv. exact I.
  - rewrite xp_sl_m. exact E.
  - rewrite xp_sl_ws. intros w Hw. apply xp_sl_mono. apply W. exact Hw.
  - rewrite xp_sl_m. exact K.
  - exact D.
  - revert P. apply xp_pend_ok_mono; cbn [st pend].
    + reflexivity.
    + apply xp_sl_age.
    + intros k Hk. apply xp_sl_mono. exact Hk.
    + intro k. right. rewrite xp_sl_m. reflexivity.
Qed.

Lemma xp_read_eq s n t e0 : find n (m s) = Some (Some e0) ->
  read s n t = (with_m s (upd n (Some (CE (ver e0) (val e0) t (decl e0))) (m s)), Some (val e0)).
Proof. intro F. unfold read. rewrite F. reflexivity. Qed.

Lemma xp_HInv_read h n t : HInv h -> has_handle (st h) n = true -> HInv (HS (fst (read (st h) n t)) (pend h) (cdoc h)).
Proof.
  intros [I E W K D P] Hh. destruct (xp_handle_entry n I Hh) as (e0 & F).
  rewrite (@xp_read_eq (st h) n t e0 F). cbn [fst]. constructor; cbn [st pend cdoc].
  - apply Inv_upd_some. exact I.
  - cbn [m with_m]. rewrite find_upd_neq; [exact E|]. intro Q. subst n. unfold name in *. congruence.
  - intros w Hw. exact (W w Hw).
  - cbn [m with_m]. rewrite xp_keys_upd_present; [exact K|apply I|rewrite F; discriminate].
  - exact D.
  - revert P. apply xp_pend_ok_mono; cbn [st pend].
    + reflexivity.
    + reflexivity.
    + intros k Hk. exact Hk.
    + intro k. destruct (name_eq_dec k n) as [->|Dn]; [left; exact Hh|].
      right. cbn [m with_m]. apply find_upd_neq. exact Dn.
Qed.

Lemma xp_HInv_lookup h n v b t : HInv h -> n <> [] ->
  HInv (HS (fst (secret_locked (with_m (st h) (upd n (Some (CE v b t false)) (m (st h)))) n)) (pend h)
           (doc (with_m (st h) (upd n (Some (CE v b t false)) (m (st h)))))).
Proof.
  intros [I E W K D P] Hne.
  assert (Inv (with_m (st h) (upd n (Some (CE v b t false)) (m (st h))))) as I1 by (apply Inv_upd_some; exact I).
  constructor; cbn [st pend cdoc].
  - apply secret_locked_Inv. exact I1.
  - rewrite xp_sl_m. cbn [m with_m]. rewrite find_upd_neq; [exact E|]. intro Q. apply Hne. symmetry. exact Q.
  - rewrite xp_sl_ws. cbn [ws with_m]. intros w Hw. apply xp_sl_mono. exact (W w Hw).
  - rewrite xp_sl_m. apply xp_doc_keys.
  - intros k x. apply xp_doc_nn. exact I1.
  - revert P. apply xp_pend_ok_mono; cbn [st pend].
    + reflexivity.
    + rewrite xp_sl_age. reflexivity.
    + intros k Hk. apply xp_sl_mono. exact Hk.
    + intro k. destruct (name_eq_dec k n) as [->|Dn].
      * left. apply xp_sl_handle. unfold known. cbn [m with_m]. rewrite find_upd_eq. reflexivity.
      * right. rewrite xp_sl_m. cbn [m with_m]. apply find_upd_neq. exact Dn.
Qed.

Lemma xp_HInv_watch h n : HInv h -> known (st h) n = true ->
  HInv (HS (fst (add_watcher (fst (secret_locked (st h) n)) n)) (pend h) (cdoc h)).
Proof.
  intros [I E W K D P] Kn. constructor; cbn [st pend cdoc].
  - apply add_watcher_Inv, secret_locked_Inv. exact I.
  - cbn [add_watcher fst m with_ws]. rewrite xp_sl_m. exact E.
  - cbn [add_watcher fst ws with_ws]. intros w Hw.
    change (has_handle (fst (secret_locked (st h) n)) (wname w) = true).
    apply in_app_or in Hw. destruct Hw as [Hw|[<-|[]]].
    + rewrite xp_sl_ws in Hw. apply xp_sl_mono. exact (W w Hw).
    + cbn [wname]. apply xp_sl_handle. exact Kn.
  - cbn [add_watcher fst m with_ws]. rewrite xp_sl_m. exact K.
  - exact D.
  - revert P. apply xp_pend_ok_mono; cbn [st pend].
    + reflexivity.
    + cbn [add_watcher fst age with_ws]. apply xp_sl_age.
    + intros k Hk. change (has_handle (fst (secret_locked (st h) n)) k = true). apply xp_sl_mono. exact Hk.
    + intro k. right. cbn [add_watcher fst m with_ws]. rewrite xp_sl_m. reflexivity.
Qed.

Lemma xp_HInv_snap h now : HInv h -> HInv (HS (st h) (Some (now, snapshot (st h) now)) (cdoc h)).
Proof.
  intros [I E W K D P]. constructor; cbn [st pend cdoc]; auto.
  unfold pend_ok. cbn [pend st]. intros n v Hin. right.
  destruct (@snapshot_sound _ _ _ _ I Hin) as (e0 & F & _ & Dc & A & El & _). eauto.
Qed.

Lemma xp_HInv_nopend h : HInv h -> HInv (HS (st h) None (cdoc h)).
Proof. intros [I E W K D P]. constructor; cbn [st pend cdoc]; auto. exact Logic.I. Qed.

Lemma xp_HInv_applied h ups : HInv h ->
  HInv (HS (fold_left (@apply1 V) ups (st h)) None (doc (fold_left (@apply1 V) ups (st h)))).
Proof.
  intros [I E W K D P].
  assert (Inv (fold_left (@apply1 V) ups (st h))) as I' by (apply fold_apply1_Inv; exact I).
  constructor; cbn [st pend cdoc].
  - exact I'.
  - apply xp_fold_none; [exact I|exact E].
  - intros w Hw. rewrite (@xp_has_handle_hs (st h) _ (wname w) (xp_fold_hs ups (st h))).
    assert (In (wname w) (map (@wname) (ws (st h)))) as Hn.
    { rewrite <- (xp_fold_wnames ups (st h)). apply in_map. exact Hw. }
    apply in_map_iff in Hn. destruct Hn as (w0 & Q & Hw0). rewrite <- Q. apply W. exact Hw0.
  - apply xp_doc_keys.
  - intros k x. apply xp_doc_nn. exact I'.
  - exact Logic.I.
Qed.

Lemma xp_HInv_flush h : HInv h -> HInv (HS (st h) (pend h) (doc (st h))).
Proof.
  intros [I E W K D P]. constructor; cbn [st pend cdoc]; auto.
  - apply xp_doc_keys.
  - intros k x. apply xp_doc_nn. exact I.
Qed.

Lemma xp_HInv_doc_ok h : HInv h ->
  sorted (rentry_of_doc (cdoc h)) /\ cache_valid (rentry_of_doc (cdoc h)) = true /\ sorted (cdoc h).
Proof.
  intros [I E W K D P].
  assert (sorted (cdoc h)) as Sd by (apply (@xp_sorted_keys _ _ _ (cdoc h) (inv_sorted I)); symmetry; exact K).
  split; [rewrite xp_rdoc_mapv; apply xp_mapv_sorted; exact Sd|]. split; [|exact Sd].
  apply xp_cache_valid_doc; [exact D|]. rewrite K. apply xp_find_none_keys. exact E.
Qed.

Lemma xp_HInv_restart_step h names al ag fetch t : HInv h -> HInv (restart h names al ag fetch t).
Proof.
  intro H. destruct (names_ok names al) eqn:OK.
  - destruct (xp_HInv_doc_ok H) as (S & Cv & _). apply HInv_restart; auto.
  - unfold restart. rewrite OK. exact H.
Qed.

(* ---- reachability *)
Lemma HInv_step h (e : event) : HInv h -> ev_ok h e -> HInv (step h e).
Proof.
  intros H Ok. destruct e as [n|n t|n v b t|n|n|now|ans| | |names al ag fetch t]; cbn [step].
  - apply xp_HInv_secret. exact H.
  - destruct (has_handle (st h) n) eqn:Hh; [apply xp_HInv_read; auto|exact H].
  - destruct (allow (st h)); [|exact H]. destruct Ok as [Hne _]. exact (xp_HInv_lookup v b t H Hne).
  - exact H.
  - destruct (known (st h) n) eqn:Kn; [apply xp_HInv_watch; auto|exact H].
  - destruct (pend h) as [p|] eqn:Ep; [exact H|]. apply xp_HInv_snap. exact H.
  - destruct (pend h) as [[now snap]|] eqn:Ep; [|exact H].
    destruct (poll snap ans) as [ups|]; [|apply xp_HInv_nopend; exact H].
    destruct ups as [|u ups].
    + cbn [apply_updates last_doc fold_left]. apply xp_HInv_nopend. exact H.
    + exact (xp_HInv_applied (u :: ups) H).
  - exact H.
  - apply xp_HInv_flush. exact H.
  - apply xp_HInv_restart_step. exact H.
Qed.

Lemma HInv_run es : forall h, HInv h -> ok_run h es -> HInv (run h es).
Proof.
  induction es as [|e es IH]; intros h H Ok; cbn [run fold_left].
  - exact H.
  - destruct Ok as [Oe Or]. apply IH; [apply HInv_step; assumption|exact Or].
Qed.

(* ---------------------------------------------------------------- the apply step, spelled out *)
Lemma xp_step_apply h ans now snap u ups : pend h = Some (now, snap) -> poll snap ans = Some (u :: ups) ->
  step h (EApply ans) = HS (fold_left (@apply1 V) (u :: ups) (st h)) None (doc (fold_left (@apply1 V) (u :: ups) (st h))).
Proof. intros Ep Epoll. cbn [step]. rewrite Ep, Epoll. reflexivity. Qed.

Lemma xp_step_apply_nil h ans now snap : pend h = Some (now, snap) -> poll snap ans = Some [] ->
  step h (EApply ans) = HS (st h) None (cdoc h).
Proof. intros Ep Epoll. cbn [step]. rewrite Ep, Epoll. reflexivity. Qed.

(* a failed poll applies nothing *)
Lemma failed_poll_noop h ans now snap :
  pend h = Some (now, snap) -> poll snap ans = None -> step h (EApply ans) = HS (st h) None (cdoc h).
Proof. intros Ep Epoll. cbn [step]. rewrite Ep, Epoll. reflexivity. Qed.

(* ---------------------------------------------------------------- restart, pointwise *)
Lemma xp_of_cache_nostub (c : @smap name (rentry V)) : sorted c -> no_stubs (of_cache c).
Proof.
  intros S n. rewrite xp_of_cache_find by exact S.
  destruct (find n c) as [[[[[v b]|] t']|]|]; discriminate.
Qed.

Lemma xp_restart_find h names al ag fetch t : HInv h -> names_ok names al = true ->
  forall n, find n (m (st (restart h names al ag fetch t))) =
            match find n (cdoc h) with
            | Some (Some (v, b, ts)) => Some (Some (CE v b ts (mem n names)))
            | _ => if mem n names then Some (Some (CE (fst (fetch n)) (snd (fetch n)) t true)) else None
            end.
Proof.
  intros H OK n. rewrite (xp_restart_eq h names al ag fetch t OK). cbn [st m].
  destruct (xp_HInv_doc_ok H) as (S & Cv & _).
  assert (load_cache (Some (rentry_of_doc (cdoc h))) = of_cache (rentry_of_doc (cdoc h))) as L
    by (unfold load_cache; rewrite Cv; reflexivity).
  rewrite L.
  destruct (@xp_build_spec (of_cache (rentry_of_doc (cdoc h))) names fetch t (xp_of_cache_sorted S) (xp_of_cache_nostub S))
    as (_ & F2 & _).
  cbv zeta in F2. rewrite F2. rewrite xp_of_cache_find by exact S. rewrite xp_rdoc_mapv, xp_mapv_find.
  destruct (find n (cdoc h)) as [[[[v b] ts]|]|]; cbn [option_map xp_rdocf]; try reflexivity.
  destruct (mem n names); reflexivity.
Qed.

(* ... and a restart from the cache loses nothing either *)
Lemma restart_keeps h names al ag fetch t n :
  HInv h -> known (st h) n = true -> known (st (step h (ERestart names al ag fetch t))) n = true.
Proof.
  intros H Kn. cbn [step]. destruct (names_ok names al) eqn:OK; [|unfold restart; rewrite OK; exact Kn].
  unfold known. rewrite (@xp_restart_find h names al ag fetch t H OK).
  assert (find n (cdoc h) <> None) as Fd.
  { apply xp_find_keys. rewrite (hi_keys H). apply xp_find_keys. unfold known in Kn.
    destruct (find n (m (st h))); [discriminate|discriminate]. }
  destruct (find n (cdoc h)) as [[[[v b] ts]|]|] eqn:F; [reflexivity| |congruence].
  exfalso. apply find_in in F. exact (@hi_docnn h H n None F eq_refl).
Qed.

(* ---------------------------------------------------------------- what each event does to the map *)
Lemma xp_known_upd s k x n : known s n = true -> known (with_m s (upd k (Some x) (m s))) n = true.
Proof. unfold known. cbn [m with_m]. rewrite find_upd_cases. destruct (neqb n k); auto. Qed.

Lemma xp_read_hs s k t : hs (fst (read s k t)) = hs s.
Proof. unfold read. destruct (find k (m s)) as [[e|]|]; reflexivity. Qed.

Lemma xp_read_age s k t : age (fst (read s k t)) = age s.
Proof. unfold read. destruct (find k (m s)) as [[e|]|]; reflexivity. Qed.

Lemma xp_read_known s k t n : known s n = true -> known (fst (read s k t)) n = true.
Proof. intro Kn. unfold read. destruct (find k (m s)) as [[e|]|]; cbn [fst]; auto. apply xp_known_upd. exact Kn. Qed.

(* ---- only-if: the ONLY way a known name becomes unknown *)
Lemma dropped_only_if h (e : event) n :
  HInv h -> ev_ok h e -> known (st h) n = true -> known (st (step h e)) n = false ->
  exists ans now snap ups e0,
    e = EApply ans /\ pend h = Some (now, snap) /\ poll snap ans = Some ups /\ In (n, Drop) ups /\
    find n (m (st h)) = Some (Some e0) /\ decl e0 = false /\ 0 < age (st h) /\ age (st h) < elapsed now (last e0) /\
    has_handle (st h) n = false /\ (forall w, In w (ws (st h)) -> wname w <> n).
Proof.
  intros H Ok Kn Kf.
  destruct e as [k|k t|k v b t|k|k|now|ans| | |names al ag fetch t]; cbn [step] in Kf.
  - exfalso. cbn [st] in Kf. rewrite xp_secret_fst in Kf. unfold known in Kf, Kn. rewrite xp_sl_m in Kf. congruence.
  - exfalso. destruct (has_handle (st h) k); [|congruence]. cbn [st] in Kf.
    rewrite (@xp_read_known (st h) k t n Kn) in Kf. discriminate.
  - exfalso. destruct (allow (st h)); [|congruence]. cbn [lookup_install st] in Kf.
    unfold known in Kf. rewrite xp_sl_m in Kf. cbn [m with_m] in Kf. rewrite find_upd_cases in Kf.
    unfold known in Kn. destruct (neqb n k); [discriminate|]. congruence.
  - congruence.
  - exfalso. destruct (known (st h) k); [|congruence]. cbn [st add_watcher fst] in Kf.
    unfold known in Kf, Kn. cbn [m with_ws] in Kf. rewrite xp_sl_m in Kf. congruence.
  - exfalso. destruct (pend h); cbn [st] in Kf; congruence.
  - destruct (pend h) as [[now snap]|] eqn:Ep; [|congruence].
    destruct (poll snap ans) as [ups|] eqn:Epoll; [|cbn [st] in Kf; congruence].
    destruct ups as [|u ups]; [cbn [apply_updates st] in Kf; congruence|].
    cbn [apply_updates st] in Kf. unfold known in Kn, Kf.
    destruct (find n (m (fold_left (@apply1 V) (u :: ups) (st h)))) as [x|] eqn:F'; [discriminate|].
    assert (find n (m (st h)) <> None) as Pn by (destruct (find n (m (st h))); [discriminate|discriminate]).
    destruct (xp_fold_keeps (u :: ups) n (hi_inv H) Pn F') as [Hd Hh].
    destruct (proj1 (@poll_drops snap ans (u :: ups) n Epoll) Hd) as (v & Hin).
    pose proof (hi_pend H) as P. unfold pend_ok in P. rewrite Ep in P.
    destruct (P n v Hin) as [Hh'|(e0 & F & Dc & A & El)]; [congruence|].
    exists ans, now, snap, (u :: ups), e0. repeat split; auto.
    intros w Hw Q. pose proof (hi_watch H w Hw) as Hw'. rewrite Q in Hw'. congruence.
  - congruence.
  - exfalso. cbn [st] in Kf. congruence.
  - exfalso. pose proof (@restart_keeps h names al ag fetch t n H Kn) as R. cbn [step] in R. congruence.
Qed.

(* ---- if: such a name IS dropped when the poll succeeds *)
Lemma dropped_if h ans now snap v n :
  HInv h -> pend h = Some (now, snap) -> In (n, (true, v)) snap -> has_handle (st h) n = false ->
  (forall k x, In (k, x) (requests snap) -> ans k x <> RErr) ->
  known (st (step h (EApply ans))) n = false /\
  ~ In (n, None) (cdoc (step h (EApply ans))) /\ ~ In n (map fst (cdoc (step h (EApply ans)))).
Proof.
  intros H Ep Hin Hh Hans. destruct (proj2 (poll_succeeds_iff snap ans) Hans) as [ups Epoll].
  assert (In (n, Drop) ups) as Hd by (apply (@poll_drops snap ans ups n Epoll); eauto).
  destruct ups as [|u ups]; [destruct Hd|]. rewrite (xp_step_apply h ans Ep Epoll). cbn [st cdoc].
  pose proof (xp_fold_drops (u :: ups) n (hi_inv H) Hd Hh) as F.
  assert (~ In n (map fst (doc (fold_left (@apply1 V) (u :: ups) (st h))))) as Nk.
  { rewrite xp_doc_keys. apply xp_find_none_keys. exact F. }
  split; [unfold known; rewrite F; reflexivity|]. split; [|exact Nk].
  intro Q. apply Nk. apply in_map_iff. exists (n, None). auto.
Qed.

(* ---------------------------------------------------------------- single steps within one process *)
Lemma xp_step_age h (e : event) : is_restart e = false -> age (st (step h e)) = age (st h).
Proof.
  intro R. destruct e as [k|k t|k v b t|k|k|now|ans| | |names al ag fetch t]; cbn [step]; try reflexivity.
  - cbn [st]. rewrite xp_secret_fst. apply xp_sl_age.
  - destruct (has_handle (st h) k); [|reflexivity]. cbn [st]. apply xp_read_age.
  - destruct (allow (st h)); [|reflexivity]. cbn [lookup_install st]. rewrite xp_sl_age. reflexivity.
  - destruct (known (st h) k); [|reflexivity]. cbn [st add_watcher fst age with_ws]. apply xp_sl_age.
  - destruct (pend h); reflexivity.
  - destruct (pend h) as [[now snap]|]; [|reflexivity]. destruct (poll snap ans) as [ups|]; [|reflexivity].
    destruct ups as [|u ups]; [reflexivity|]. cbn [apply_updates st]. apply xp_fold_age.
  - discriminate.
Qed.

Lemma xp_step_handle h (e : event) n : is_restart e = false ->
  has_handle (st h) n = true -> has_handle (st (step h e)) n = true.
Proof.
  intros R Hh. destruct e as [k|k t|k v b t|k|k|now|ans| | |names al ag fetch t]; cbn [step]; try exact Hh.
  - cbn [st]. rewrite xp_secret_fst. apply xp_sl_mono. exact Hh.
  - destruct (has_handle (st h) k); [|exact Hh]. cbn [st].
    rewrite (@xp_has_handle_hs (st h) _ n (xp_read_hs (st h) k t)). exact Hh.
  - destruct (allow (st h)); [|exact Hh]. cbn [lookup_install st]. apply xp_sl_mono. exact Hh.
  - destruct (known (st h) k); [|exact Hh]. cbn [st add_watcher fst].
    change (has_handle (fst (secret_locked (st h) k)) n = true). apply xp_sl_mono. exact Hh.
  - destruct (pend h); exact Hh.
  - destruct (pend h) as [[now snap]|]; [|exact Hh]. destruct (poll snap ans) as [ups|]; [|exact Hh].
    destruct ups as [|u ups]; [exact Hh|]. cbn [apply_updates st].
    rewrite (@xp_has_handle_hs (st h) _ n (xp_fold_hs (u :: ups) (st h))). exact Hh.
  - discriminate.
Qed.

Lemma xp_step_decl h (e : event) n e0 : HInv h -> ev_ok h e -> is_restart e = false ->
  find n (m (st h)) = Some (Some e0) -> decl e0 = true ->
  exists e1, find n (m (st (step h e))) = Some (Some e1) /\ decl e1 = true.
Proof.
  intros H Ok R F Dc.
  assert (known (st h) n = true) as Kn by (unfold known; rewrite F; reflexivity).
  destruct e as [k|k t|k v b t|k|k|now|ans| | |names al ag fetch t]; cbn [step]; try (exists e0; split; assumption).
  - cbn [st]. rewrite xp_secret_fst, xp_sl_m. eauto.
  - destruct (has_handle (st h) k) eqn:Hh; [|eauto]. cbn [st].
    destruct (xp_handle_entry k (hi_inv H) Hh) as (e' & F'). rewrite (@xp_read_eq (st h) k t e' F'). cbn [fst m with_m].
    rewrite find_upd_cases. destruct (neqb n k) eqn:E; [|eauto].
    apply neqb_true in E. subst k. rewrite F in F'. injection F' as <-. eexists. split; [reflexivity|exact Dc].
  - destruct (allow (st h)); [|eauto]. cbn [lookup_install st]. rewrite xp_sl_m. cbn [m with_m].
    rewrite find_upd_cases. destruct (neqb n k) eqn:E; [|eauto].
    apply neqb_true in E. subst k. destruct Ok as [_ Ok]. rewrite (Ok e0 F) in Dc. discriminate.
  - destruct (known (st h) k); [|eauto]. cbn [st add_watcher fst m with_ws]. rewrite xp_sl_m. eauto.
  - destruct (pend h); cbn [st]; eauto.
  - destruct (pend h) as [[now snap]|] eqn:Ep; [|eauto]. destruct (poll snap ans) as [ups|] eqn:Epoll; [|cbn [st]; eauto].
    destruct ups as [|u ups]; [cbn [apply_updates st]; eauto|]. cbn [apply_updates st].
    destruct (xp_fold_shape (u :: ups) n (hi_inv H) F) as [Nn|(e1 & F1 & D1 & _)].
    + exfalso.
      assert (known (st (step h (EApply ans))) n = false) as Kf.
      { rewrite (xp_step_apply h ans Ep Epoll). cbn [st]. unfold known. rewrite Nn. reflexivity. }
      destruct (@dropped_only_if h (EApply ans) n H Logic.I Kn Kf) as (_ & _ & _ & _ & e0' & _ & _ & _ & _ & F0 & D0 & _).
      rewrite F in F0. injection F0 as <-. congruence.
    + exists e1. split; [exact F1|congruence].
  - discriminate.
Qed.

Lemma xp_no_restart_cons (e : event) es : no_restart (e :: es) -> is_restart e = false /\ no_restart es.
Proof. intro Nr. split; [apply Nr; left; reflexivity|]. intros e' Hin. apply Nr. right. exact Hin. Qed.

(* ---- the four "never" corollaries, over arbitrary histories within one process ... *)
Lemma never_declared es : forall h n e0,
  HInv h -> ok_run h es -> no_restart es ->
  find n (m (st h)) = Some (Some e0) -> decl e0 = true ->
  exists e1, find n (m (st (run h es))) = Some (Some e1) /\ decl e1 = true.
Proof.
  induction es as [|e es IH]; intros h n e0 H Ok Nr F Dc; cbn [run fold_left].
  - eauto.
  - destruct Ok as [Oe Or]. destruct (xp_no_restart_cons Nr) as [Re Nr'].
    destruct (@xp_step_decl h e n e0 H Oe Re F Dc) as (e1 & F1 & D1).
    exact (IH (step h e) n e1 (@HInv_step h e H Oe) Or Nr' F1 D1).
Qed.

Lemma never_with_handle es : forall h n,
  HInv h -> ok_run h es -> no_restart es ->
  has_handle (st h) n = true ->
  has_handle (st (run h es)) n = true /\ known (st (run h es)) n = true.
Proof.
  induction es as [|e es IH]; intros h n H Ok Nr Hh; cbn [run fold_left].
  - split; [exact Hh|]. destruct (@handle_reads h n H Hh) as (e0 & F). unfold known. rewrite F. reflexivity.
  - destruct Ok as [Oe Or]. destruct (xp_no_restart_cons Nr) as [Re Nr'].
    apply IH; auto using HInv_step. apply xp_step_handle; assumption.
Qed.

Lemma never_without_age es : forall h n,
  HInv h -> ok_run h es -> no_restart es ->
  age (st h) <= 0 -> known (st h) n = true -> known (st (run h es)) n = true.
Proof.
  induction es as [|e es IH]; intros h n H Ok Nr Ag Kn; cbn [run fold_left].
  - exact Kn.
  - destruct Ok as [Oe Or]. destruct (xp_no_restart_cons Nr) as [Re Nr'].
    apply IH; auto using HInv_step.
    + rewrite (@xp_step_age h e Re). exact Ag.
    + destruct (known (st (step h e)) n) eqn:Kf; [reflexivity|]. exfalso.
      destruct (@dropped_only_if h e n H Oe Kn Kf) as (_ & _ & _ & _ & _ & _ & _ & _ & _ & _ & _ & A & _). lia.
Qed.

(* read within the window at the instant of the poll's snapshot: this poll does not drop it *)
Lemma never_recent h ans now snap n e0 :
  HInv h -> pend h = Some (now, snap) -> find n (m (st h)) = Some (Some e0) ->
  elapsed now (last e0) <= age (st h) -> known (st (step h (EApply ans))) n = true.
Proof.
  intros H Ep F El. destruct (known (st (step h (EApply ans))) n) eqn:Kf; [reflexivity|]. exfalso.
  assert (known (st h) n = true) as Kn by (unfold known; rewrite F; reflexivity).
  destruct (@dropped_only_if h (EApply ans) n H Logic.I Kn Kf)
    as (ans' & now' & snap' & ups & e0' & _ & Ep' & _ & _ & F' & _ & _ & El' & _).
  rewrite Ep in Ep'. injection Ep' as <- <-. rewrite F in F'. injection F' as <-. lia.
Qed.

(* ---------------------------------------------------------------- reads stamp, stamps are persisted *)
Lemma read_stamps h n t e0 :
  HInv h -> has_handle (st h) n = true -> find n (m (st h)) = Some (Some e0) ->
  snd (read (st h) n t) = Some (val e0) /\
  find n (m (st (step h (ERead n t)))) = Some (Some (CE (ver e0) (val e0) t (decl e0))) /\
  (forall k, k <> n -> find k (m (st (step h (ERead n t)))) = find k (m (st h))).
Proof.
  intros H Hh F. cbn [step]. rewrite Hh. cbn [st]. rewrite (@xp_read_eq (st h) n t e0 F). cbn [fst snd m with_m].
  split; [reflexivity|]. split; [apply find_upd_eq|]. intros k Dk. apply find_upd_neq. exact Dk.
Qed.

Lemma flush_persists h : cdoc (step h (@EFlush V)) = doc (st h) /\ st (step h (@EFlush V)) = st h.
Proof. split; reflexivity. Qed.

Lemma xp_doc_sl s n : doc (fst (secret_locked s n)) = doc s.
Proof. unfold doc. rewrite xp_sl_m. reflexivity. Qed.

Lemma lookup_flushes h n v b t : allow (st h) = true -> cdoc (step h (ELookupOk n v b t)) = doc (st (step h (ELookupOk n v b t))).
Proof.
  intro A. cbn [step]. rewrite A. cbn [lookup_install st cdoc last_doc fold_left]. rewrite xp_doc_sl. reflexivity.
Qed.

Lemma apply_flushes h ans now snap ups : pend h = Some (now, snap) -> poll snap ans = Some ups -> ups <> [] ->
  cdoc (step h (EApply ans)) = doc (st (step h (EApply ans))).
Proof.
  intros Ep Epoll Ne. destruct ups as [|u ups]; [congruence|]. rewrite (xp_step_apply h ans Ep Epoll). reflexivity.
Qed.

Lemma cdoc_step h (e : event) : HInv h -> ev_ok h e -> cdoc (step h e) = cdoc h \/ cdoc (step h e) = doc (st (step h e)).
Proof.
  intros H Ok. destruct e as [k|k t|k v b t|k|k|now|ans| | |names al ag fetch t].
  - left. reflexivity.
  - left. cbn [step]. destruct (has_handle (st h) k); reflexivity.
  - destruct (allow (st h)) eqn:A; [right; apply lookup_flushes; exact A|left; cbn [step]; rewrite A; reflexivity].
  - left. reflexivity.
  - left. cbn [step]. destruct (known (st h) k); reflexivity.
  - left. cbn [step]. destruct (pend h); reflexivity.
  - destruct (pend h) as [[now snap]|] eqn:Ep; [|left; cbn [step]; rewrite Ep; reflexivity].
    destruct (poll snap ans) as [ups|] eqn:Epoll; [|left; cbn [step]; rewrite Ep, Epoll; reflexivity].
    destruct ups as [|u ups]; [left; cbn [step]; rewrite Ep, Epoll; reflexivity|].
    right. apply (@apply_flushes h ans now snap (u :: ups) Ep Epoll). discriminate.
  - left. reflexivity.
  - right. reflexivity.
  - cbn [step]. destruct (names_ok names al) eqn:OK; [|left; unfold restart; rewrite OK; reflexivity].
    rewrite (xp_restart_eq h names al ag fetch t OK). cbn [cdoc st].
    destruct (snd (declare (load_cache (Some (rentry_of_doc (cdoc h)))) (norm_names names))); [right|left]; reflexivity.
Qed.

(* ---------------------------------------------------------------- across a restart *)
Lemma across_restart h names al ag fetch t :
  HInv h -> names_ok names al = true ->
  let h' := step h (ERestart names al ag fetch t) in
  hs (st h') = [] /\ ws (st h') = [] /\ age (st h') = ag /\ allow (st h') = al /\ pend h' = None /\
  (forall n v b ts, In (n, Some (v, b, ts)) (cdoc h) -> find n (m (st h')) = Some (Some (CE v b ts (mem n names)))) /\
  (forall n, ~ In n (map fst (cdoc h)) -> In n names ->
       find n (m (st h')) = Some (Some (CE (fst (fetch n)) (snd (fetch n)) t true))) /\
  (forall n, ~ In n (map fst (cdoc h)) -> ~ In n names -> find n (m (st h')) = None).
Proof.
  intros H OK h'. subst h'. cbn [step].
  pose proof (@xp_restart_find h names al ag fetch t H OK) as Fr.
  destruct (xp_HInv_doc_ok H) as (_ & _ & Sd).
  rewrite (xp_restart_eq h names al ag fetch t OK) in *. cbn [st pend hs ws age allow] in *.
  repeat (split; [reflexivity|]). split; [|split].
  - intros n v b ts Hin. rewrite Fr. rewrite (in_find _ _ Sd Hin). reflexivity.
  - intros n Nk Hn. rewrite Fr. apply xp_find_none_keys in Nk. rewrite Nk.
    apply mem_In in Hn. rewrite Hn. reflexivity.
  - intros n Nk Hn. rewrite Fr. apply xp_find_none_keys in Nk. rewrite Nk.
    apply xp_mem_false in Hn. rewrite Hn. reflexivity.
Qed.

(* ---------------------------------------------------------------- elapsed: Go's saturating Duration; stamp 0 = "never" *)
Lemma elapsed_zero now : elapsed now 0 = maxD.
Proof. reflexivity. Qed.

Lemma elapsed_exact now l : l <> 0 -> - maxD - 1 <= now - l * 1000000000 <= maxD -> elapsed now l = now - l * 1000000000.
Proof.
  intros Hl Hb. unfold elapsed. destruct (Z.eqb_spec l 0) as [Q|Q]; [contradiction|].
  unfold sat. unfold maxD in *. lia.
Qed.

Lemma stamp_zero_always_stale s now n e0 :
  Inv s -> find n (m s) = Some (Some e0) -> last e0 = 0 -> decl e0 = false -> 0 < age s -> age s < maxD -> has_handle s n = false ->
  In (n, (true, ver e0)) (snapshot s now).
Proof.
  intros I F L0 Dc A Am Hh. apply (@snapshot_marks s now n e0 I F). rewrite L0, elapsed_zero. auto.
Qed.

End ExpiryProofs.
