(* Model of client/setec/fields.go (struct-tag plumbing) on top of the shared store model
   (Client/Store.v).  Executable definitions only; the proofs are in FieldsProofs.v.

   What is modelled, as the Go code is written:
     - reflect.VisibleFields for a struct whose embedded members are structs embedded BY VALUE, one
       level deep (`visible`): the embedded member is followed by its promoted fields; a promoted
       field is hidden by a top-level field (or embedded member) of the same name and dropped when
       two embedded members promote the same name (ambiguous selector);
     - parseFields / ParseFields (`parse_fields`): tag lookup, strings.Split(tag, ","), empty first
       part => error, isJSON = "json" among the remaining parts, checkUnmarshal before the
       supported-type switch, first error wins, no tagged field => ErrNoFields, argument that is
       not a pointer to a struct => error;
     - Fields.Secrets (`secrets_of`) with Go's path.Join/path.Clean on byte strings, for ALL prefixes
       and tag names, clean or not (Base/Path.v: `go_join`/`go_clean` transcribe path.go's lazybuf
       algorithm; `path_join2`/`path_clean` are the segment form, proved equal);
     - Fields.Apply / fieldInfo.apply (`apply`): per field LookupSecret(fullName) on the shared
       store (known => handle via secret_locked; unknown and lookups allowed => one request to the
       service, whose answer is an input, then lookup_install; unknown and lookups disabled =>
       error), then Secret.Get (= `read`, stamps the access time) and the per-type assignment; every
       field is processed, the failures are collected;
     - NewStore with StoreConfig.Structs (`new_store`): parse first, names merged/sorted/
       de-duplicated, every name fetched during construction, then apply.

   External behaviour that is an INPUT of the model: the service's answers (`ans`), the time, what
   encoding/json makes of (field type, bytes) (`jdec`: content left in the field and success) and
   whether a field type's UnmarshalBinary accepts given bytes (`unm_ok`).

   Buffers carry identities (`bufid`): the store's buffer of a secret is `BStore name version`, a
   buffer allocated by apply (bytes.Clone) is `BFresh k`; so "the field aliases the store's bytes"
   is expressible (the pinned, pre-F6 code produced `CBytes (BStore ..)`). *)
From Coq Require Import List Bool NArith ZArith.
Import ListNotations.
From Setec Require Import Base.SMap Base.Path Client.Store.
Set Implicit Arguments.

Definition comma : N := 44%N.
Definition json_word : bstr := [106; 115; 111; 110]%N.   (* "json" *)

Definition beqb (a b : bstr) : bool := neqb a b.

(* bstr, slash, dot, split_on (strings.Split), join_with, path.Clean / path.Join (path_clean, path_join2;
   go_clean, go_join as the Go source is written) and the notion `clean` of a clean relative path are in
   Base/Path.v *)

(* ---- struct shapes *)
Inductive ftype :=
| TBytes                    (* []byte *)
| TString                   (* string *)
| THandle                   (* setec.Secret *)
| TUnmVal                   (* a type T whose pointer implements encoding.BinaryUnmarshaler *)
| TUnmPtr (isnil : bool)    (* a field of type *T (T as above), nil or already set *)
| TOther (t : N).           (* anything else (int, bool, struct, map ...): only usable with the json verb *)

(* type identifier used to look the JSON decoder's behaviour up *)
Definition tid (t : ftype) : N :=
  match t with
  | TBytes => 0 | TString => 1 | THandle => 2 | TUnmVal => 3
  | TUnmPtr true => 4 | TUnmPtr false => 5 | TOther t => t
  end%N.

Record field := F { fname : N; ftag : option bstr; fty : ftype }.

(* a struct member: an ordinary field, or a struct embedded by value (its own name, its fields) *)
Inductive item := IF (f : field) | IE (ename : N) (inner : list field).

(* location of a leaf field: (index of the top-level member, 0) or (index of the embedded member, 1+j) *)
Definition loc : Type := (N * N)%type.
Definition loc_eqb (a b : loc) : bool := N.eqb (fst a) (fst b) && N.eqb (snd a) (snd b).

Definition top_names (sh : list item) : list N :=
  map (fun it => match it with IF f => fname f | IE n _ => n end) sh.
Definition inner_names (sh : list item) : list N :=
  flat_map (fun it => match it with IF _ => [] | IE _ l => map fname l end) sh.
Definition occurs (n : N) (l : list N) : nat := length (filter (N.eqb n) l).
Definition promoted (sh : list item) (f : field) : bool :=
  negb (existsb (N.eqb (fname f)) (top_names sh)) && Nat.eqb (occurs (fname f) (inner_names sh)) 1.

Fixpoint number_from {X} (j : N) (l : list X) : list (N * X) :=
  match l with [] => [] | x :: r => (j, x) :: number_from (N.succ j) r end.

(* reflect.VisibleFields restricted to leaf fields (the embedded member itself carries no tag in
   the shapes modelled), in the order the Go function returns them *)
Definition visible_item (sh : list item) (ii : N * item) : list (loc * field) :=
  match ii with
  | (i, IF f) => [((i, 0%N), f)]
  | (i, IE _ l) => flat_map (fun '(j, f) => if promoted sh f then [((i, j), f)] else []) (number_from 1%N l)
  end.
Definition visible (sh : list item) : list (loc * field) :=
  flat_map (visible_item sh) (number_from 0%N sh).

(* every leaf location of the shape, visible or not *)
Definition all_locs (sh : list item) : list (loc * field) :=
  flat_map (fun ii => match ii with
                      | (i, IF f) => [((i, 0%N), f)]
                      | (i, IE _ l) => map (fun '(j, f) => ((i, j), f)) (number_from 1%N l)
                      end) (number_from 0%N sh).

(* ---- parseFields *)
Inductive perr := ENotPtrStruct | ENilPtr | EEmptyName (l : loc) | EUnsupported (l : loc) | ENoFields.
Inductive how := HJson | HUnm | HBytes | HString | HHandle.
Record pfield := PF { ploc : loc; psecret : bstr; phow : how; pty : ftype }.

Definition tag_name (tag : bstr) : bstr := hd [] (split_on comma tag).
Definition tag_json (tag : bstr) : bool := existsb (beqb json_word) (tl (split_on comma tag)).

(* None: no setec tag, the field is skipped *)
Definition parse_field (l : loc) (f : field) : option (perr + pfield) :=
  match ftag f with
  | None => None
  | Some tag =>
    match tag_name tag with
    | [] => Some (inl (EEmptyName l))
    | nm =>
      if tag_json tag then Some (inr (PF l nm HJson (fty f)))
      else match fty f with
           | TUnmVal | TUnmPtr _ => Some (inr (PF l nm HUnm (fty f)))     (* checkUnmarshal comes first *)
           | TBytes => Some (inr (PF l nm HBytes (fty f)))
           | TString => Some (inr (PF l nm HString (fty f)))
           | THandle => Some (inr (PF l nm HHandle (fty f)))
           | TOther _ => Some (inl (EUnsupported l))
           end
    end
  end.

Fixpoint parse_list (vs : list (loc * field)) : perr + list pfield :=
  match vs with
  | [] => inr []
  | (l, f) :: r =>
    match parse_field l f with
    | None => parse_list r
    | Some (inl e) => inl e
    | Some (inr pf) => match parse_list r with inl e => inl e | inr pfs => inr (pf :: pfs) end
    end
  end.

(* what ParseFields is handed: a (non-nil) pointer to a struct, a struct (not a pointer), any other
   non-nil value, the untyped nil (`any(nil)`, also StoreConfig.Structs[i].Value left nil), a nil
   pointer whose element type is a struct of the given shape *)
Inductive arg := AStructPtr (sh : list item) | AStruct (sh : list item) | ANonStruct
               | ANil | ANilStructPtr (sh : list item).

(* fields.go:202-212 (after the F9 repair 94ee9a9): an invalid reflect.Value (untyped nil) and every
   type other than pointer-to-struct are "not a pointer to a struct"; then a nil pointer is refused
   BEFORE any field is looked at - so also when the struct has no tagged field, or a bad tag *)
Definition parse_fields (a : arg) : perr + list pfield :=
  match a with
  | AStructPtr sh => match parse_list (visible sh) with inr [] => inl ENoFields | r => r end
  | ANilStructPtr _ => inl ENilPtr
  | AStruct _ | ANonStruct | ANil => inl ENotPtrStruct
  end.

(* path.Join(prefix, tag name) as the Go source computes it (Base/Path.v: go_join, the lazybuf
   algorithm); = path_join2, the segment form (PathProofs.go_join2_is_path_join2) *)
Definition full_name (pfx : bstr) (pf : pfield) : name := go_join [pfx; psecret pf].
Definition secrets_of (pfx : bstr) (pfs : list pfield) : list name := map (full_name pfx) pfs.

(* the tagged names as one reads them off the struct declaration (independent of parse_list) *)
Definition declared_names (sh : list item) : list bstr :=
  flat_map (fun '(_, f) => match ftag f with Some t => [tag_name t] | None => [] end) (visible sh).

(* ---- Apply *)
Inductive bufid := BStore (n : name) (ver : N) | BFresh (k : nat).
Definition bufid_eqb (a b : bufid) : bool :=
  match a, b with
  | BStore n v, BStore n' v' => neqb n n' && N.eqb v v'
  | BFresh k, BFresh k' => Nat.eqb k k'
  | _, _ => false
  end.

Inductive ferr := ELookupDisabled | ELookupFailed | EUnmarshal | EJson.

Section Apply.
Variable V : Type.      (* secret values (opaque) *)
Variable D : Type.      (* what a JSON decode leaves in a field (opaque) *)
Variable jdec : ftype -> V -> D * bool.   (* encoding/json on (field type, bytes): content, success *)
Variable unm_ok : ftype -> V -> bool.     (* does the type's UnmarshalBinary accept these bytes *)
Variable ans : name -> option (N * V).    (* the service's answer to Get(name): version and bytes *)
Variable now_s : Z.

Inductive content :=
| CUntouched                        (* the field still holds what it held before *)
| CBytes (b : bufid) (v : V)        (* a []byte backed by buffer b, holding v *)
| CString (v : V)
| CHandle (n : name)                (* a handle of the store for name n *)
| CUnm (v : V)                      (* UnmarshalBinary was called with exactly v *)
| CJson (d : D).                    (* what json.Unmarshal left *)

Record fres := FR { rloc : loc; rname : name; rcontent : content; rerr : option ferr }.

(* Store.LookupSecret: (store', handle obtained?, requests made, error) *)
Definition lookup_secret (s : store V) (n : name) : store V * bool * list name * option ferr :=
  let '(s1, ok) := secret_locked s n in
  if ok then (s1, true, [], None)
  else if allow s then
    match ans n with
    | Some (v, b) => (fst (lookup_install s n v b now_s), true, [n], None)
    | None => (s, false, [n], Some ELookupFailed)
    end
  else (s, false, [], Some ELookupDisabled).

(* fieldInfo.apply; k counts the buffers allocated so far *)
Definition apply_field (pfx : bstr) (st : store V * nat) (pf : pfield) : (store V * nat) * fres * list name :=
  let '(s, k) := st in
  let n := full_name pfx pf in
  match lookup_secret s n with
  | (s1, false, rq, e) => ((s1, k), FR (ploc pf) n CUntouched e, rq)
  | (s1, true, rq, _) =>
    match phow pf with
    | HHandle => ((s1, k), FR (ploc pf) n (CHandle n) None, rq)
    | h =>
      match read s1 n now_s with
      | (s2, Some v) =>
        match h with
        | HJson => let '(d, ok) := jdec (pty pf) v in
                   ((s2, k), FR (ploc pf) n (CJson d) (if ok then None else Some EJson), rq)
        | HUnm => ((s2, k), FR (ploc pf) n (CUnm v) (if unm_ok (pty pf) v then None else Some EUnmarshal), rq)
        | HBytes => ((s2, S k), FR (ploc pf) n (CBytes (BFresh k) v) None, rq)
        | _ => ((s2, k), FR (ploc pf) n (CString v) None, rq)
        end
      | (s2, None) => ((s2, k), FR (ploc pf) n CUntouched (Some ELookupFailed), rq)   (* nil dereference: unreachable (Inv) *)
      end
    end
  end.

Fixpoint apply_from (pfx : bstr) (st : store V * nat) (pfs : list pfield) : store V * list fres * list name :=
  match pfs with
  | [] => (fst st, [], [])
  | pf :: r =>
    let '(st1, fr, rq) := apply_field pfx st pf in
    let '(s', frs, rqs) := apply_from pfx st1 r in
    (s', fr :: frs, rq ++ rqs)
  end.

(* Fields.Apply: the final store, one result per tagged field, the requests in order *)
Definition apply (pfx : bstr) (s : store V) (pfs : list pfield) : store V * list fres * list name :=
  apply_from pfx (s, O) pfs.

(* the joined error: one entry per failing field, in field order; Apply returns nil iff this is empty *)
Definition reported (frs : list fres) : list (loc * ferr) :=
  flat_map (fun r => match rerr r with Some e => [(rloc r, e)] | None => [] end) frs.

(* the struct after Apply: the content of a location *)
Fixpoint content_at (frs : list fres) (l : loc) : content :=
  match frs with
  | [] => CUntouched
  | r :: rest => if loc_eqb (rloc r) l then rcontent r else content_at rest l
  end.

(* ParseFields then Apply on an existing store *)
Definition parse_apply (a : arg) (pfx : bstr) (s : store V) : store V * (perr + list fres) * list name :=
  match parse_fields a with
  | inl e => (s, inl e, [])
  | inr pfs => let '(s', frs, rq) := apply pfx s pfs in (s', inr frs, rq)
  end.

(* what the store serves for n when the buffers selected by `poked` have been overwritten:
   None = unknown name, Some None = the served bytes are no longer the secret's *)
Definition served (s : store V) (poked : bufid -> bool) (n : name) : option (option V) :=
  match entry s n with
  | Some e => Some (if poked (BStore n (ver e)) then None else Some (val e))
  | None => None
  end.

(* NewStore with one configured struct (and extra declared names) *)
Inductive nsres :=
| NSReject (e : perr)                 (* secretNames failed: nothing was requested *)
| NSBadNames                          (* empty name / no names *)
| NSInitMissing (init_rq : list name) (* some declared name is not served: NewStore keeps retrying (not modelled further) *)
| NSDone (init_rq : list name) (s : store V) (frs : list fres) (rq : list name).

Definition new_store (allow_lookup : bool) (extra : list name) (a : arg) (pfx : bstr) : nsres :=
  match parse_fields a with
  | inl e => NSReject e
  | inr pfs =>
    let raw := extra ++ secrets_of pfx pfs in
    if negb (names_ok raw allow_lookup) then NSBadNames
    else
      let names := norm_names raw in
      let mm := fst (declare (@nil (name * option (centry V))) names) in
      let '(mm', missing) := init_round mm ans now_s in
      match missing with
      | S _ => NSInitMissing (stubs mm)
      | O => let '(s', frs, rq) := apply pfx (ST mm' [] [] allow_lookup 0%Z) pfs in
             NSDone (stubs mm) s' frs rq
      end
  end.

(* The usage pattern  f := ParseFields(&v, pfx);  st := NewStore{Secrets: f.Secrets() (+ extra)};
   f.Apply(st);  f.Secrets() again.
   [given] is the list the first Secrets() call hands to the caller.  NewStore sorts and compacts the
   slice it is given IN PLACE (store.go secretNames), and the caller may do anything else to it: that
   is [scr].  In the model a list is a value: nothing done to [given] can reach the parsed fields, so
   [scr given] is computed and dropped - Apply pairs every field with full_name pfx of THAT field, and
   a later Secrets() is secrets_of of the same fields.  That the Go object really does not share the
   slice is a fact about memory, carried by the correspondence run (mode "decl"), exactly as buffer
   identities are for []byte fields.  Result: what NewStore + Apply did, and the second Secrets(). *)
Definition declare_apply (allow_lookup : bool) (extra : list name) (scr : list name -> list name)
           (a : arg) (pfx : bstr) : nsres * list name :=
  match parse_fields a with
  | inl e => (NSReject e, [])
  | inr pfs =>
    let given := secrets_of pfx pfs in
    let raw := extra ++ given in
    let _scribbled := scr given in
    (if negb (names_ok raw allow_lookup) then NSBadNames
     else
       let names := norm_names raw in
       let mm := fst (declare (@nil (name * option (centry V))) names) in
       let '(mm', missing) := init_round mm ans now_s in
       match missing with
       | S _ => NSInitMissing (stubs mm)
       | O => let '(s', frs, rq) := apply pfx (ST mm' [] [] allow_lookup 0%Z) pfs in
              NSDone (stubs mm) s' frs rq
       end,
     secrets_of pfx pfs)
  end.

(* The same parsed Fields applied twice: to store sA, then to store sB (another store, or the same
   one after a poll installed new versions, or after the first Apply partly failed).  In the Go code a
   *Fields is a value that Apply could in principle write to (memoise a handle, remember "done");
   in the model `apply` takes the parsed fields, the prefix and THE STORE IT IS GIVEN and nothing else,
   so the second result cannot depend on the first Apply.  That the Go object really keeps no such
   state is carried by the correspondence run (mode "reapply"). *)
Definition apply_twice (pfx : bstr) (pfs : list pfield) (sA sB : store V)
  : (store V * list fres * list name) * (store V * list fres * list name) :=
  let first := apply pfx sA pfs in
  (first, apply pfx sB pfs).

(* ---- several structs: StoreConfig.Structs = [{v1, p1}; {v2, p2}; ...], or ParseFields on several values.
   A parsed struct is (prefix, parsed fields).  Values of ONE struct type are different entries with the
   same shape: each entry's fields are its own (the model has no per-type state to share; that the Go
   code caches nothing per reflect.Type is carried by the correspondence run, mode "structs"). *)

(* secretNames (store.go:872): the structs are parsed in order, the first parse error is returned *)
Fixpoint parse_all (l : list (arg * bstr)) : perr + list (bstr * list pfield) :=
  match l with
  | [] => inr []
  | (a, pfx) :: r =>
    match parse_fields a with
    | inl e => inl e
    | inr pfs => match parse_all r with inl e => inl e | inr ps => inr ((pfx, pfs) :: ps) end
    end
  end.

(* NewStore's loop (store.go:248-252): Apply struct after struct; the FIRST struct whose Apply reports an
   error ends the loop - that error is returned, the structs after it are not touched (the failing struct
   itself has been processed completely, Apply joins its errors).  Result: the store, the results of
   the structs that were applied (in order), the requests, and the index of the failing struct if any *)
Fixpoint apply_structs (s : store V) (l : list (bstr * list pfield))
  : store V * list (list fres) * list name * option nat :=
  match l with
  | [] => (s, [], [], None)
  | (pfx, pfs) :: r =>
    let '(s1, frs, rq) := apply pfx s pfs in
    match reported frs with
    | [] => let '(s2, rest, rq2, e) := apply_structs s1 r in (s2, frs :: rest, rq ++ rq2, option_map S e)
    | _ => (s1, [frs], rq, Some O)
    end
  end.

Inductive nsmres :=
| NMReject (e : perr)
| NMBadNames
| NMInitMissing (init_rq : list name)
| NMDone (init_rq : list name) (s : store V) (frss : list (list fres)) (rq : list name) (failed : option nat).
        (* failed = Some k: NewStore returns the error of struct k's Apply and NO store *)

Definition new_store_structs (allow_lookup : bool) (extra : list name) (l : list (arg * bstr)) : nsmres :=
  match parse_all l with
  | inl e => NMReject e
  | inr ps =>
    let raw := extra ++ flat_map (fun '(pfx, pfs) => secrets_of pfx pfs) ps in
    if negb (names_ok raw allow_lookup) then NMBadNames
    else
      let names := norm_names raw in
      let mm := fst (declare (@nil (name * option (centry V))) names) in
      let '(mm', missing) := init_round mm ans now_s in
      match missing with
      | S _ => NMInitMissing (stubs mm)
      | O => let '(s', frss, rq, e) := apply_structs (ST mm' [] [] allow_lookup 0%Z) ps in
             NMDone (stubs mm) s' frss rq e
      end
  end.

End Apply.

Arguments CUntouched {V D}.
Arguments CBytes {V D} b v.
Arguments CString {V D} v.
Arguments CHandle {V D} n.
Arguments CUnm {V D} v.
Arguments CJson {V D} d.
Arguments NSReject {V D} e.
Arguments NMReject {V D} e.
Arguments NMBadNames {V D}.
Arguments NMInitMissing {V D} init_rq.
Arguments NSBadNames {V D}.
Arguments NSInitMissing {V D} init_rq.
