(* Proofs about the struct-tag plumbing model (Client/Fields.v). *)
From Coq Require Import List Bool NArith ZArith Lia ZifyN ZifyNat.
Import ListNotations.
From Setec Require Import Base.SMap Client.Store Client.StoreInv Client.Fields.

(* ------------------------------------------------------------------ *)
(* strings.Split / strings.Join / path.Clean / path.Join               *)

Lemma split_on_cons sep s : exists seg segs, split_on sep s = seg :: segs.
Proof.
  destruct s as [|c r]; cbn [split_on]; [eauto|].
  destruct (N.eqb c sep); [eauto|]. destruct (split_on sep r); eauto.
Qed.

Lemma join_split sep s : join_with sep (split_on sep s) = s.
Proof.
  induction s as [|c r IH]; [reflexivity|]. cbn [split_on].
  destruct (N.eqb c sep) eqn:E.
  - apply N.eqb_eq in E. subst c.
    destruct (split_on_cons sep r) as (seg & segs & H). rewrite H in *.
    cbn [join_with app]. cbn [join_with] in IH. rewrite IH. reflexivity.
  - destruct (split_on_cons sep r) as (seg & segs & H). rewrite H in *.
    cbn [join_with] in *. destruct segs; [rewrite IH; reflexivity|].
    rewrite <- IH. reflexivity.
Qed.

Lemma split_app sep a b : split_on sep (a ++ sep :: b) = split_on sep a ++ split_on sep b.
Proof.
  induction a as [|c r IH]; cbn [app split_on].
  - rewrite N.eqb_refl. reflexivity.
  - destruct (N.eqb c sep); [rewrite IH; reflexivity|].
    rewrite IH. destruct (split_on_cons sep r) as (seg & segs & H). rewrite H. reflexivity.
Qed.

Lemma seg_ok_inv s : seg_ok s = true -> (is_empty s || is_dot s) = false /\ is_dotdot s = false.
Proof.
  unfold seg_ok. destruct (is_empty s), (is_dot s), (is_dotdot s); cbn; intuition congruence.
Qed.

Lemma clean_segs_ok segs : forall st, forallb seg_ok segs = true -> clean_segs false segs st = rev st ++ segs.
Proof.
  induction segs as [|s r IH]; intros st H; cbn [clean_segs].
  - rewrite app_nil_r. reflexivity.
  - cbn [forallb] in H. apply andb_true_iff in H. destruct H as [Hs Hr].
    destruct (seg_ok_inv _ Hs) as [E1 E2]. rewrite E1, E2.
    rewrite IH by exact Hr. cbn [rev]. rewrite <- app_assoc. reflexivity.
Qed.

Lemma clean_nonempty p : clean p = true -> p <> [].
Proof. intros H ->. discriminate H. Qed.

Lemma clean_not_rooted c r : clean (c :: r) = true -> N.eqb c slash = false.
Proof.
  unfold clean. cbn [split_on]. destruct (N.eqb c slash); [|reflexivity].
  cbn [forallb seg_ok is_empty orb negb andb]. discriminate.
Qed.

Lemma path_clean_id p : clean p = true -> path_clean p = p.
Proof.
  intro H. destruct p as [|c r]; [discriminate H|].
  unfold path_clean. rewrite (clean_not_rooted _ _ H).
  rewrite clean_segs_ok by exact H. cbn [rev app]. rewrite join_split. reflexivity.
Qed.

Lemma clean_join a b : clean a = true -> clean b = true -> clean (a ++ slash :: b) = true.
Proof. unfold clean. intros Ha Hb. rewrite split_app, forallb_app, Ha, Hb. reflexivity. Qed.

(* path.Join on the property's domain *)
Lemma path_join_clean a b : clean a = true -> clean b = true -> path_join2 a b = a ++ slash :: b.
Proof.
  intros Ha Hb. pose proof (clean_nonempty _ Ha). pose proof (clean_nonempty _ Hb).
  destruct a; [congruence|]. destruct b; [congruence|].
  unfold path_join2. apply path_clean_id. apply clean_join; assumption.
Qed.

Lemma path_join_noprefix b : clean b = true -> path_join2 [] b = b.
Proof.
  intros Hb. pose proof (clean_nonempty _ Hb). destruct b; [congruence|].
  unfold path_join2. apply path_clean_id. assumption.
Qed.

(* ------------------------------------------------------------------ *)
(* parseFields                                                         *)

Lemma loc_eqb_eq a b : loc_eqb a b = true <-> a = b.
Proof.
  destruct a as [a1 a2], b as [b1 b2]. unfold loc_eqb. cbn [fst snd].
  rewrite andb_true_iff, !N.eqb_eq. split; [intros [-> ->]; reflexivity | intros [= -> ->]; auto].
Qed.

(* what a successfully parsed field records *)
Lemma parse_field_ok l f pf : parse_field l f = Some (inr pf) ->
  exists tag, ftag f = Some tag /\ ploc pf = l /\ psecret pf = tag_name tag /\ tag_name tag <> [] /\ pty pf = fty f /\
    phow pf = (if tag_json tag then HJson else
               match fty f with
               | TBytes => HBytes | TString => HString | THandle => HHandle | _ => HUnm end) /\
    (tag_json tag = false -> forall t, fty f <> TOther t).
Proof.
  unfold parse_field. destruct (ftag f) as [tag|]; [|discriminate].
  destruct (tag_name tag) as [|c nm] eqn:En; [discriminate|].
  destruct (tag_json tag) eqn:Ej.
  - intros [= <-]. exists tag. rewrite En. cbn. repeat split; auto; try discriminate. intros; discriminate.
  - destruct (fty f) eqn:Et; intros [= <-]; exists tag; rewrite En; cbn; repeat split; auto; try discriminate; intros; discriminate.
Qed.

Lemma parse_list_ok vs : forall pfs, parse_list vs = inr pfs ->
  map psecret pfs = flat_map (fun '(_, f) => match ftag f with Some t => [tag_name t] | None => [] end) vs
  /\ (forall pf, In pf pfs -> exists f, In (ploc pf, f) vs /\ parse_field (ploc pf) f = Some (inr pf)).
Proof.
  induction vs as [|[l f] r IH]; intros pfs H; cbn [parse_list] in H.
  - injection H as <-. split; [reflexivity|]. intros pf [].
  - destruct (parse_field l f) as [[e|pf]|] eqn:Ep.
    + discriminate.
    + destruct (parse_list r) as [e|pfs'] eqn:Er; [discriminate|]. injection H as <-.
      destruct (IH _ eq_refl) as [IH1 IH2].
      destruct (parse_field_ok _ _ Ep) as (tag & Ht & Hl & Hs & _).
      split.
      * cbn [map flat_map]. rewrite Ht, Hs, IH1. reflexivity.
      * intros pf' [<-|Hin].
        -- exists f. rewrite Hl. split; [left; reflexivity | exact Ep].
        -- destruct (IH2 _ Hin) as (f' & Hf' & Hp'). exists f'. split; [right; exact Hf' | exact Hp'].
    + destruct (IH _ H) as [IH1 IH2]. split.
      * cbn [flat_map]. unfold parse_field in Ep. destruct (ftag f) as [tag|]; [|exact IH1].
        exfalso. destruct (tag_name tag); [discriminate|]. destruct (tag_json tag); [discriminate|].
        destruct (fty f); discriminate.
      * intros pf Hin. destruct (IH2 _ Hin) as (f' & Hf' & Hp'). exists f'. split; [right; exact Hf' | exact Hp'].
Qed.

Lemma parse_list_err vs l f e : In (l, f) vs -> parse_field l f = Some (inl e) -> exists e', parse_list vs = inl e'.
Proof.
  induction vs as [|[l0 f0] r IH]; intros Hin Hp; [destruct Hin|]. cbn [parse_list].
  destruct Hin as [[= -> ->]|Hin].
  - rewrite Hp. eauto.
  - destruct (parse_field l0 f0) as [[e0|pf]|]; [eauto| |auto].
    destruct (IH Hin Hp) as (e' & ->). eauto.
Qed.

Lemma parse_list_none vs : (forall l f, In (l, f) vs -> ftag f = None) -> parse_list vs = inr [].
Proof.
  induction vs as [|[l f] r IH]; intros H; [reflexivity|]. cbn [parse_list].
  unfold parse_field. rewrite (H l f (or_introl eq_refl)). apply IH. intros l' f' Hin. apply (H l' f'). right. exact Hin.
Qed.

Lemma parse_fields_inr a pfs : parse_fields a = inr pfs ->
  exists sh, a = AStructPtr sh /\ parse_list (visible sh) = inr pfs /\ pfs <> [].
Proof.
  destruct a as [sh|sh|]; cbn [parse_fields]; try discriminate.
  destruct (parse_list (visible sh)) as [e|[|pf r]] eqn:E; try discriminate.
  intros [= <-]. exists sh. repeat split; auto. discriminate.
Qed.

(* the secrets a parsed struct asks for are exactly the tagged names of its visible fields, in order *)
Lemma secrets_exact sh pfs pfx : parse_fields (AStructPtr sh) = inr pfs ->
  secrets_of pfx pfs = map (path_join2 pfx) (declared_names sh).
Proof.
  intro H. destruct (parse_fields_inr _ H) as (sh' & [= <-] & Hl & _).
  destruct (parse_list_ok _ Hl) as [H1 _]. unfold secrets_of, declared_names.
  rewrite <- H1, map_map. reflexivity.
Qed.

Lemma declared_names_nonempty sh pfs : parse_fields (AStructPtr sh) = inr pfs -> Forall (fun n => n <> []) (declared_names sh).
Proof.
  intro H. destruct (parse_fields_inr _ H) as (sh' & [= <-] & Hl & _).
  destruct (parse_list_ok _ Hl) as [H1 H2]. unfold declared_names. rewrite <- H1.
  apply Forall_forall. intros n Hn. apply in_map_iff in Hn. destruct Hn as (pf & <- & Hpf).
  destruct (H2 _ Hpf) as (f & _ & Hp). destruct (parse_field_ok _ _ Hp) as (tag & _ & _ & -> & Hne & _). exact Hne.
Qed.

(* on the property's domain the joined name is prefix/name, and the bare name without a prefix *)
Lemma secrets_clean sh pfs pfx : parse_fields (AStructPtr sh) = inr pfs ->
  Forall (fun n => clean n = true) (declared_names sh) ->
  (clean pfx = true -> secrets_of pfx pfs = map (fun n => pfx ++ slash :: n) (declared_names sh))
  /\ (pfx = [] -> secrets_of pfx pfs = declared_names sh).
Proof.
  intros H Hc. rewrite (secrets_exact _ _ pfx H). split.
  - intro Hp. apply map_ext_in. intros n Hn. apply path_join_clean; [exact Hp|].
    rewrite Forall_forall in Hc. apply Hc. exact Hn.
  - intros ->. rewrite <- (map_id (declared_names sh)) at 2. apply map_ext_in. intros n Hn.
    apply path_join_noprefix. rewrite Forall_forall in Hc. apply Hc. exact Hn.
Qed.

(* rejected up front *)
Lemma reject_not_ptr sh : parse_fields (AStruct sh) = inl ENotPtrStruct /\ parse_fields ANonStruct = inl ENotPtrStruct.
Proof. split; reflexivity. Qed.

Lemma reject_of_field sh l f e : In (l, f) (visible sh) -> parse_field l f = Some (inl e) ->
  exists e', parse_fields (AStructPtr sh) = inl e'.
Proof.
  intros Hin Hp. destruct (parse_list_err _ _ _ _ Hin Hp) as (e' & He). cbn [parse_fields]. rewrite He. eauto.
Qed.

Lemma reject_empty_name sh l f tag : In (l, f) (visible sh) -> ftag f = Some tag -> tag_name tag = [] ->
  exists e, parse_fields (AStructPtr sh) = inl e.
Proof.
  intros Hin Ht Hn. apply (reject_of_field sh l f (EEmptyName l) Hin). unfold parse_field. rewrite Ht, Hn. reflexivity.
Qed.

Lemma reject_unsupported sh l f tag t : In (l, f) (visible sh) -> ftag f = Some tag -> tag_json tag = false ->
  fty f = TOther t -> exists e, parse_fields (AStructPtr sh) = inl e.
Proof.
  intros Hin Ht Hj Hty. destruct (tag_name tag) as [|c nm] eqn:En.
  - apply (reject_empty_name _ _ _ _ Hin Ht En).
  - apply (reject_of_field sh l f (EUnsupported l) Hin). unfold parse_field. rewrite Ht, En, Hj, Hty. reflexivity.
Qed.

Lemma reject_no_fields sh : (forall l f, In (l, f) (visible sh) -> ftag f = None) -> parse_fields (AStructPtr sh) = inl ENoFields.
Proof. intro H. cbn [parse_fields]. rewrite (parse_list_none _ H). reflexivity. Qed.

(* conversely: a pointer to a struct is refused only for one of these three reasons *)
Lemma reject_only sh e : parse_fields (AStructPtr sh) = inl e ->
  (forall l f, In (l, f) (visible sh) -> ftag f = None)
  \/ exists l f tag, In (l, f) (visible sh) /\ ftag f = Some tag /\
       (tag_name tag = [] \/ (tag_json tag = false /\ exists t, fty f = TOther t)).
Proof.
  cbn [parse_fields]. generalize (visible sh). intros vs.
  destruct (parse_list vs) as [e0|pfs] eqn:E.
  - intros _. right. clear e. revert e0 E. induction vs as [|[l f] r IH]; intros e0 E; [discriminate|].
    cbn [parse_list] in E. destruct (parse_field l f) as [[e1|pf]|] eqn:Ep.
    + exists l, f. unfold parse_field in Ep. destruct (ftag f) as [tag|] eqn:Ht; [|discriminate].
      exists tag. split; [left; reflexivity|]. split; [reflexivity|].
      destruct (tag_name tag); [left; reflexivity|]. right.
      destruct (tag_json tag); [discriminate|]. split; [reflexivity|].
      destruct (fty f); try discriminate. eauto.
    + destruct (parse_list r) as [e1|pfs'] eqn:Er; [|discriminate].
      destruct (IH _ eq_refl) as (l' & f' & tag & Hin & Hrest). exists l', f', tag. split; [right; exact Hin | exact Hrest].
    + destruct (IH _ E) as (l' & f' & tag & Hin & Hrest). exists l', f', tag. split; [right; exact Hin | exact Hrest].
  - destruct pfs as [|pf r]; [|discriminate]. intros _. left.
    revert E. induction vs as [|[l f] r IH]; intros E l' f' Hin; [destruct Hin|].
    cbn [parse_list] in E. destruct (parse_field l f) as [[e1|pf]|] eqn:Ep; [discriminate| |].
    + destruct (parse_list r); discriminate.
    + destruct Hin as [[= <- <-]|Hin]; [|apply (IH E _ _ Hin)].
      unfold parse_field in Ep. destruct (ftag f) as [tag|]; [|reflexivity]. exfalso.
      destruct (tag_name tag); [discriminate|]. destruct (tag_json tag); [discriminate|]. destruct (fty f); discriminate.
Qed.
