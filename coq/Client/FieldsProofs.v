(* Proofs about the struct-tag plumbing model (Client/Fields.v). *)
From Coq Require Import List Bool NArith ZArith Lia ZifyN ZifyNat.
Import ListNotations.
From Setec Require Import Base.SMap Base.Path Base.PathProofs Client.Store Client.StoreInv Client.Fields.

(* ------------------------------------------------------------------ *)
(* parseFields                                                         *)

Lemma loc_eqb_eq a b : loc_eqb a b = true <-> a = b.
Proof.
  destruct a as [a1 a2], b as [b1 b2]. unfold loc_eqb. cbn [fst snd].
  rewrite andb_true_iff, !N.eqb_eq. split; [intros [-> ->]; reflexivity | intros [= -> ->]; auto].
Qed.

(* what a successfully parsed field records *)
Lemma parse_field_ok l f pf : parse_field l f = Some (inr pf) ->
  exists tag, ftag f = Some tag /\ ploc pf = l /\ psecret pf = tag_name tag /\ tag_name tag <> [] /\ pty pf = fty f /\
    phow pf = (if tag_json tag then HJson else
               match fty f with
               | TBytes => HBytes | TString => HString | THandle => HHandle | _ => HUnm end) /\
    (tag_json tag = false -> forall t, fty f <> TOther t).
Proof.
  unfold parse_field. destruct (ftag f) as [tag|]; [|discriminate].
  destruct (tag_name tag) as [|c nm] eqn:En; [discriminate|].
  destruct (tag_json tag) eqn:Ej.
  - intros [= <-]. exists tag. rewrite En, Ej. cbn. repeat split; auto; try discriminate.
  - destruct (fty f) eqn:Et; intros [= <-]; exists tag; rewrite En, Ej; cbn; repeat split; auto; try discriminate; intros; discriminate.
Qed.

Lemma parse_list_ok vs : forall pfs, parse_list vs = inr pfs ->
  map psecret pfs = flat_map (fun '(_, f) => match ftag f with Some t => [tag_name t] | None => [] end) vs
  /\ (forall pf, In pf pfs -> exists f, In (ploc pf, f) vs /\ parse_field (ploc pf) f = Some (inr pf)).
Proof.
  induction vs as [|[l f] r IH]; intros pfs H; cbn [parse_list] in H.
  - injection H as <-. split; [reflexivity|]. intros pf [].
  - destruct (parse_field l f) as [[e|pf]|] eqn:Ep.
    + discriminate.
    + destruct (parse_list r) as [e|pfs'] eqn:Er; [discriminate|]. injection H as <-.
      destruct (IH _ eq_refl) as [IH1 IH2].
      destruct (parse_field_ok _ _ _ Ep) as (tag & Ht & Hl & Hs & _).
      split.
      * cbn [map flat_map]. rewrite Ht, Hs, IH1. reflexivity.
      * intros pf' [<-|Hin].
        -- exists f. rewrite Hl. split; [left; reflexivity | exact Ep].
        -- destruct (IH2 _ Hin) as (f' & Hf' & Hp'). exists f'. split; [right; exact Hf' | exact Hp'].
    + destruct (IH _ H) as [IH1 IH2]. split.
      * cbn [flat_map]. unfold parse_field in Ep. destruct (ftag f) as [tag|]; [|exact IH1].
        exfalso. destruct (tag_name tag); [discriminate|]. destruct (tag_json tag); [discriminate|].
        destruct (fty f); discriminate.
      * intros pf Hin. destruct (IH2 _ Hin) as (f' & Hf' & Hp'). exists f'. split; [right; exact Hf' | exact Hp'].
Qed.

Lemma parse_list_err vs l f e : In (l, f) vs -> parse_field l f = Some (inl e) -> exists e', parse_list vs = inl e'.
Proof.
  induction vs as [|[l0 f0] r IH]; intros Hin Hp; [destruct Hin|]. cbn [parse_list].
  destruct Hin as [[= -> ->]|Hin].
  - rewrite Hp. eauto.
  - destruct (parse_field l0 f0) as [[e0|pf]|]; [eauto| |auto].
    destruct (IH Hin Hp) as (e' & ->). eauto.
Qed.

Lemma parse_list_none vs : (forall l f, In (l, f) vs -> ftag f = None) -> parse_list vs = inr [].
Proof.
  induction vs as [|[l f] r IH]; intros H; [reflexivity|]. cbn [parse_list].
  unfold parse_field. rewrite (H l f (or_introl eq_refl)). apply IH. intros l' f' Hin. apply (H l' f'). right. exact Hin.
Qed.

Lemma parse_fields_inr a pfs : parse_fields a = inr pfs ->
  exists sh, a = AStructPtr sh /\ parse_list (visible sh) = inr pfs /\ pfs <> [].
Proof.
  destruct a as [sh|sh| | |sh]; cbn [parse_fields]; try discriminate.
  destruct (parse_list (visible sh)) as [e|[|pf r]] eqn:E; try discriminate.
  intros [= <-]. exists sh. repeat split; auto. discriminate.
Qed.

(* the secrets a parsed struct asks for are exactly the tagged names of its visible fields, in order *)
Lemma secrets_exact sh pfs pfx : parse_fields (AStructPtr sh) = inr pfs ->
  secrets_of pfx pfs = map (path_join2 pfx) (declared_names sh).
Proof.
  intro H. destruct (parse_fields_inr _ _ H) as (sh' & [= <-] & Hl & _).
  destruct (parse_list_ok _ _ Hl) as [H1 _]. unfold secrets_of, declared_names.
  rewrite <- H1, map_map. apply map_ext. intros pf. unfold full_name. apply go_join2_is_path_join2.
Qed.

Lemma declared_names_nonempty sh pfs : parse_fields (AStructPtr sh) = inr pfs -> Forall (fun n => n <> []) (declared_names sh).
Proof.
  intro H. destruct (parse_fields_inr _ _ H) as (sh' & [= <-] & Hl & _).
  destruct (parse_list_ok _ _ Hl) as [H1 H2]. unfold declared_names. rewrite <- H1.
  apply Forall_forall. intros n Hn. apply in_map_iff in Hn. destruct Hn as (pf & <- & Hpf).
  destruct (H2 _ Hpf) as (f & _ & Hp). destruct (parse_field_ok _ _ _ Hp) as (tag & _ & _ & -> & Hne & _). exact Hne.
Qed.

(* on the property's domain the joined name is prefix/name, and the bare name without a prefix *)
Lemma secrets_clean sh pfs pfx : parse_fields (AStructPtr sh) = inr pfs ->
  Forall (fun n => clean n = true) (declared_names sh) ->
  (clean pfx = true -> secrets_of pfx pfs = map (fun n => pfx ++ slash :: n) (declared_names sh))
  /\ (pfx = [] -> secrets_of pfx pfs = declared_names sh).
Proof.
  intros H Hc. rewrite (secrets_exact _ _ pfx H). split.
  - intro Hp. apply map_ext_in. intros n Hn. apply path_join_clean; [exact Hp|].
    rewrite Forall_forall in Hc. apply Hc. exact Hn.
  - intros ->. rewrite <- (map_id (declared_names sh)) at 2. apply map_ext_in. intros n Hn.
    apply path_join_noprefix. rewrite Forall_forall in Hc. apply Hc. exact Hn.
Qed.

(* rejected up front *)
Lemma reject_not_ptr sh : parse_fields (AStruct sh) = inl ENotPtrStruct /\ parse_fields ANonStruct = inl ENotPtrStruct.
Proof. split; reflexivity. Qed.

(* the untyped nil, and a nil pointer to a struct of ANY shape (tagged, untagged, badly tagged) *)
Lemma reject_nil sh : parse_fields ANil = inl ENotPtrStruct /\ parse_fields (ANilStructPtr sh) = inl ENilPtr.
Proof. split; reflexivity. Qed.

(* every argument that is not a non-nil pointer to a struct is refused, whatever it is *)
Lemma reject_unless_struct_ptr a : (forall sh, a <> AStructPtr sh) -> exists e, parse_fields a = inl e.
Proof. intros H. destruct a as [sh|sh| | |sh]; cbn [parse_fields]; eauto. contradiction (H sh). reflexivity. Qed.

(* conversely, only a non-nil struct pointer is ever accepted *)
Lemma accepted_is_struct_ptr a pfs : parse_fields a = inr pfs -> exists sh, a = AStructPtr sh.
Proof. destruct a as [sh|sh| | |sh]; cbn [parse_fields]; try discriminate. eauto. Qed.

Lemma reject_of_field sh l f e : In (l, f) (visible sh) -> parse_field l f = Some (inl e) ->
  exists e', parse_fields (AStructPtr sh) = inl e'.
Proof.
  intros Hin Hp. destruct (parse_list_err _ _ _ _ Hin Hp) as (e' & He). cbn [parse_fields]. rewrite He. eauto.
Qed.

Lemma reject_empty_name sh l f tag : In (l, f) (visible sh) -> ftag f = Some tag -> tag_name tag = [] ->
  exists e, parse_fields (AStructPtr sh) = inl e.
Proof.
  intros Hin Ht Hn. apply (reject_of_field sh l f (EEmptyName l) Hin). unfold parse_field. rewrite Ht, Hn. reflexivity.
Qed.

Lemma reject_unsupported sh l f tag t : In (l, f) (visible sh) -> ftag f = Some tag -> tag_json tag = false ->
  fty f = TOther t -> exists e, parse_fields (AStructPtr sh) = inl e.
Proof.
  intros Hin Ht Hj Hty. destruct (tag_name tag) as [|c nm] eqn:En.
  - apply (reject_empty_name _ _ _ _ Hin Ht En).
  - apply (reject_of_field sh l f (EUnsupported l) Hin). unfold parse_field. rewrite Ht, En, Hj, Hty. reflexivity.
Qed.

Lemma reject_no_fields sh : (forall l f, In (l, f) (visible sh) -> ftag f = None) -> parse_fields (AStructPtr sh) = inl ENoFields.
Proof. intro H. cbn [parse_fields]. rewrite (parse_list_none _ H). reflexivity. Qed.

(* conversely: a pointer to a struct is refused only for one of these three reasons *)
Lemma reject_only sh e : parse_fields (AStructPtr sh) = inl e ->
  (forall l f, In (l, f) (visible sh) -> ftag f = None)
  \/ exists l f tag, In (l, f) (visible sh) /\ ftag f = Some tag /\
       (tag_name tag = [] \/ (tag_json tag = false /\ exists t, fty f = TOther t)).
Proof.
  cbn [parse_fields]. generalize (visible sh). intros vs.
  destruct (parse_list vs) as [e0|pfs] eqn:E.
  - intros _. right. clear e. revert e0 E. induction vs as [|[l f] r IH]; intros e0 E; [discriminate|].
    cbn [parse_list] in E. destruct (parse_field l f) as [[e1|pf]|] eqn:Ep.
    + exists l, f. unfold parse_field in Ep. destruct (ftag f) as [tag|] eqn:Ht; [|discriminate].
      exists tag. split; [left; reflexivity|]. split; [reflexivity|].
      destruct (tag_name tag); [left; reflexivity|]. right.
      destruct (tag_json tag); [discriminate|]. split; [reflexivity|].
      destruct (fty f); try discriminate. eauto.
    + destruct (parse_list r) as [e1|pfs'] eqn:Er; [|discriminate].
      destruct (IH _ eq_refl) as (l' & f' & tag & Hin & Hrest). exists l', f', tag. split; [right; exact Hin | exact Hrest].
    + destruct (IH _ E) as (l' & f' & tag & Hin & Hrest). exists l', f', tag. split; [right; exact Hin | exact Hrest].
  - destruct pfs as [|pf r]; [|discriminate]. intros _. left.
    revert E. induction vs as [|[l f] r IH]; intros E l' f' Hin; [destruct Hin|].
    cbn [parse_list] in E. destruct (parse_field l f) as [[e1|pf]|] eqn:Ep; [discriminate| |].
    + destruct (parse_list r); discriminate.
    + destruct Hin as [[= <- <-]|Hin]; [|apply (IH E _ _ Hin)].
      unfold parse_field in Ep. destruct (ftag f) as [tag|]; [|reflexivity]. exfalso.
      destruct (tag_name tag); [discriminate|]. destruct (tag_json tag); [discriminate|]. destruct (fty f); discriminate.
Qed.

(* ------------------------------------------------------------------ *)
(* Apply                                                               *)

Section ApplyProofs.
Variables V D : Type.
Variable jdec : ftype -> V -> D * bool.
Variable unm_ok : ftype -> V -> bool.
Variable ans : name -> option (N * V).
Variable now_s : Z.

Notation store := (store V).
Notation content := (content V D).
Notation fres := (fres V D).

(* the bytes the store holds for a name *)
Definition ev (s : store) (n : name) : option V := option_map (@val V) (entry s n).

(* the value a field tagged with n will be given, as a function of the store BEFORE Apply and of
   the service: the store's current value if the name is known, else what a lookup returns *)
Definition value_of (s : store) (n : name) : option V :=
  match ev s n with
  | Some v => Some v
  | None => if allow s then option_map snd (ans n) else None
  end.

Definition spec_content (pf : pfield) (n : name) (v : V) (k : nat) : content :=
  match phow pf with
  | HJson => CJson (fst (jdec (pty pf) v))
  | HUnm => CUnm v
  | HBytes => CBytes (BFresh k) v
  | HString => CString v
  | HHandle => CHandle n
  end.

Definition spec_err (pf : pfield) (v : V) : option ferr :=
  match phow pf with
  | HJson => if snd (jdec (pty pf) v) then None else Some EJson
  | HUnm => if unm_ok (pty pf) v then None else Some EUnmarshal
  | _ => None
  end.

(* does the field fail - a function of that field alone, the initial store and the service *)
Definition fails (s : store) (pfx : bstr) (pf : pfield) : bool :=
  match value_of s (full_name pfx pf) with
  | None => true
  | Some v => match spec_err pf v with Some _ => true | None => false end
  end.

Definition step_rel (s s1 : store) : Prop :=
  Inv s1 /\ allow s1 = allow s /\ incl (hs s) (hs s1) /\
  forall x, ev s1 x = ev s x \/
            (ev s x = None /\ allow s = true /\ ev s1 x = option_map snd (ans x) /\ ev s1 x <> None).

Lemma step_intro (s s1 : store) : Inv s1 -> allow s1 = allow s -> incl (hs s) (hs s1) ->
  (forall x, ev s1 x = ev s x \/
             (ev s x = None /\ allow s = true /\ ev s1 x = option_map snd (ans x) /\ ev s1 x <> None)) ->
  step_rel s s1.
Proof. intros. split; [assumption|]. split; [assumption|]. split; assumption. Qed.

Lemma step_refl (s : store) : Inv s -> step_rel s s.
Proof. intro H. split; [exact H|]. split; [reflexivity|]. split; [apply incl_refl|]. intro x. left. reflexivity. Qed.

Lemma step_trans (s s1 s2 : store) : step_rel s s1 -> step_rel s1 s2 -> step_rel s s2.
Proof.
  intros (I1 & A1 & H1 & E1) (I2 & A2 & H2 & E2).
  split; [exact I2|]. split; [congruence|]. split; [eapply incl_tran; eauto|].
  intro x. destruct (E1 x) as [Ea|(Ea & Eb & Ec & Ed)]; destruct (E2 x) as [Fa|(Fa & Fb & Fc & Fd)].
  - left. congruence.
  - right. rewrite <- Ea, <- A1. auto.
  - right. rewrite Fa. auto.
  - congruence.
Qed.

Lemma value_of_step (s s1 : store) n : step_rel s s1 -> value_of s1 n = value_of s n.
Proof.
  intros (_ & A & _ & E). unfold value_of. rewrite A.
  destruct (E n) as [->|(Ea & Eb & Ec & Ed)]; [reflexivity|].
  rewrite Ea, Eb. destruct (ev s1 n) eqn:E1; congruence.
Qed.

Lemma known_entry (s : store) n : Inv s -> known s n = true -> exists e, entry s n = Some e.
Proof.
  intros I. unfold known, entry. destruct (find n (m s)) as [[e|]|] eqn:E; try discriminate; eauto.
  exfalso. exact (inv_nostub I n E).
Qed.

Lemma unknown_entry (s : store) n : known s n = false -> entry s n = None.
Proof. unfold known, entry. destruct (find n (m s)); [discriminate | reflexivity]. Qed.

Lemma known_ev (s : store) n : Inv s -> (known s n = true <-> ev s n <> None).
Proof.
  intro I. unfold ev. split.
  - intro K. destruct (known_entry _ _ I K) as (e & ->). discriminate.
  - destruct (known s n) eqn:K; [reflexivity|]. rewrite (unknown_entry _ _ K). intro H. exfalso. apply H. reflexivity.
Qed.

Lemma m_secret_locked (s : store) n : m (fst (secret_locked s n)) = m s /\ allow (fst (secret_locked s n)) = allow s.
Proof. unfold secret_locked. destruct (known s n); [destruct (has_handle s n)|]; split; reflexivity. Qed.

Lemma hs_secret_locked (s : store) n : incl (hs s) (hs (fst (secret_locked s n))) /\
  (known s n = true -> In n (hs (fst (secret_locked s n)))).
Proof.
  unfold secret_locked. destruct (known s n).
  - destruct (has_handle s n) eqn:Hh; cbn [fst hs with_hs].
    + split; [apply incl_refl|]. intros _. apply mem_In. exact Hh.
    + split; [apply incl_tl, incl_refl|]. intros _. left. reflexivity.
  - split; [apply incl_refl | discriminate].
Qed.

Lemma ev_same_m (s s1 : store) x : m s1 = m s -> ev s1 x = ev s x.
Proof. unfold ev, entry. intros ->. reflexivity. Qed.

Lemma secret_locked_step (s : store) n : Inv s -> step_rel s (fst (secret_locked s n)).
Proof.
  intro I. destruct (m_secret_locked s n) as [Hm Ha]. destruct (hs_secret_locked s n) as [Hh _].
  apply step_intro; [apply secret_locked_Inv; exact I | exact Ha | exact Hh |].
  intro x. left. apply ev_same_m. exact Hm.
Qed.

Lemma ev_upd (s : store) n e x :
  ev (with_m s (upd n (Some e) (m s))) x = if neqb x n then Some (val e) else ev s x.
Proof.
  unfold ev, entry. cbn [m with_m]. rewrite find_upd_cases. destruct (neqb x n); reflexivity.
Qed.

(* Store.LookupSecret *)
Lemma lookup_secret_spec (s : store) n s1 ok rq e : Inv s ->
  lookup_secret ans now_s s n = (s1, ok, rq, e) ->
  step_rel s s1 /\
  (forall x, x <> n -> ev s1 x = ev s x) /\
  (rq = (if known s n then [] else if allow s then [n] else [])) /\
  (if ok then (exists ce, entry s1 n = Some ce /\ value_of s n = Some (val ce)) /\ In n (hs s1)
   else value_of s n = None /\ e <> None).
Proof.
  intros I. unfold lookup_secret.
  destruct (secret_locked s n) as [s0 ok0] eqn:Esl.
  pose proof (secret_locked_step _ n I) as Hst. pose proof (hs_secret_locked s n) as [_ Hin].
  pose proof (m_secret_locked s n) as [Hm _].
  rewrite Esl in Hst, Hin, Hm. cbn [fst] in Hst, Hin, Hm.
  assert (Hok : ok0 = known s n).
  { unfold secret_locked in Esl. destruct (known s n); injection Esl as _ <-; reflexivity. }
  destruct (known s n) eqn:K; subst ok0.
  - intros [= <- <- <- <-]. split; [exact Hst|]. split; [intros x _; apply ev_same_m; exact Hm|].
    split; [reflexivity|]. split; [|apply Hin; reflexivity].
    destruct (known_entry _ _ I K) as (ce & Hce). exists ce. split.
    + unfold entry in *. rewrite Hm. exact Hce.
    + unfold value_of, ev. rewrite Hce. reflexivity.
  - assert (Es0 : s0 = s). { unfold secret_locked in Esl. rewrite K in Esl. injection Esl as <-. reflexivity. }
    subst s0. pose proof (unknown_entry _ _ K) as Hnone.
    assert (Hev : ev s n = None) by (unfold ev; rewrite Hnone; reflexivity).
    destruct (allow s) eqn:A.
    + destruct (ans n) as [[v b]|] eqn:An.
      * intros [= <- <- <- <-]. unfold lookup_install. cbn [fst].
        set (s' := with_m s (upd n (Some (CE v b now_s false)) (m s))).
        assert (I' : Inv s') by (apply Inv_upd_some; exact I).
        pose proof (secret_locked_step _ n I') as Hst'.
        pose proof (m_secret_locked s' n) as [Hm' _].
        assert (K' : known s' n = true) by (unfold known, s'; cbn [m with_m]; rewrite find_upd_eq; reflexivity).
        pose proof (hs_secret_locked s' n) as [_ Hin']. specialize (Hin' K').
        assert (Hs' : step_rel s s').
        { apply step_intro; [exact I' | reflexivity | apply incl_refl |].
          intro x. unfold s'. rewrite ev_upd. destruct (neqb x n) eqn:Ex.
          - apply neqb_true in Ex. subst x. right. cbn [val]. rewrite An. cbn [option_map snd].
            split; [exact Hev|]. split; [exact A|]. split; [reflexivity | discriminate].
          - left. reflexivity. }
        split; [eapply step_trans; eauto|].
        split. { intros x Hx. rewrite (ev_same_m _ _ _ Hm'). unfold s'. rewrite ev_upd.
                 apply neqb_false in Hx. rewrite Hx. reflexivity. }
        split; [reflexivity|]. split; [|exact Hin'].
        exists (CE v b now_s false). split.
        -- unfold entry. rewrite Hm'. unfold s'. cbn [m with_m]. rewrite find_upd_eq. reflexivity.
        -- unfold value_of. rewrite Hev, A, An. reflexivity.
      * intros [= <- <- <- <-]. split; [apply step_refl; exact I|]. split; [reflexivity|]. split; [reflexivity|].
        split; [|discriminate]. unfold value_of. rewrite Hev, A, An. reflexivity.
    + intros [= <- <- <- <-]. split; [apply step_refl; exact I|]. split; [reflexivity|]. split; [reflexivity|].
      split; [|discriminate]. unfold value_of. rewrite Hev, A. reflexivity.
Qed.

(* Secret.Get through a handle *)
Lemma read_spec (s : store) n ce : Inv s -> entry s n = Some ce ->
  exists s2, read s n now_s = (s2, Some (val ce)) /\ step_rel s s2 /\ (forall x, ev s2 x = ev s x).
Proof.
  intros I He. unfold entry in He. unfold read.
  destruct (find n (m s)) as [[e|]|] eqn:Ef; try discriminate. injection He as ->.
  eexists. split; [reflexivity|].
  assert (Hev : forall x, ev (with_m s (upd n (Some (CE (ver ce) (val ce) now_s (decl ce))) (m s))) x = ev s x).
  { intro x. rewrite ev_upd. destruct (neqb x n) eqn:Ex; [|reflexivity].
    apply neqb_true in Ex. subst x. unfold ev, entry. rewrite Ef. reflexivity. }
  split; [|exact Hev].
  apply step_intro; [apply Inv_upd_some; exact I | reflexivity | apply incl_refl | intro x; left; apply Hev].
Qed.

Definition field_spec (s0 s' : store) (pfx : bstr) (pf : pfield) (r : fres) : Prop :=
  rloc r = ploc pf /\ rname r = full_name pfx pf /\
  match value_of s0 (full_name pfx pf) with
  | None => rcontent r = CUntouched /\ rerr r <> None
  | Some v => (exists k, rcontent r = spec_content pf (full_name pfx pf) v k) /\ rerr r = spec_err pf v /\
              (phow pf = HHandle -> In (full_name pfx pf) (hs s')) /\ ev s' (full_name pfx pf) = Some v
  end.

Lemma field_spec_some s0 s' pfx pf (r : fres) v k :
  rloc r = ploc pf -> rname r = full_name pfx pf -> value_of s0 (full_name pfx pf) = Some v ->
  rcontent r = spec_content pf (full_name pfx pf) v k -> rerr r = spec_err pf v ->
  (phow pf = HHandle -> In (full_name pfx pf) (hs s')) -> ev s' (full_name pfx pf) = Some v ->
  field_spec s0 s' pfx pf r.
Proof.
  intros H1 H2 H3 H4 H5 H6 H7. unfold field_spec. rewrite H3. split; [exact H1|]. split; [exact H2|].
  split; [exists k; exact H4|]. split; [exact H5 |]. split; [exact H6 | exact H7].
Qed.

Lemma field_spec_none s0 s' pfx pf (r : fres) :
  rloc r = ploc pf -> rname r = full_name pfx pf -> value_of s0 (full_name pfx pf) = None ->
  rcontent r = CUntouched -> rerr r <> None -> field_spec s0 s' pfx pf r.
Proof.
  intros H1 H2 H3 H4 H5. unfold field_spec. rewrite H3. split; [exact H1|]. split; [exact H2|]. split; assumption.
Qed.

Lemma apply_field_spec pfx (s : store) k pf s1 k1 r rq : Inv s ->
  apply_field jdec unm_ok ans now_s pfx (s, k) pf = ((s1, k1), r, rq) ->
  step_rel s s1 /\ field_spec s s1 pfx pf r /\
  (forall x, x <> full_name pfx pf -> ev s1 x = ev s x) /\
  rq = (if known s (full_name pfx pf) then [] else if allow s then [full_name pfx pf] else []).
Proof.
  intros I. unfold apply_field. set (n := full_name pfx pf).
  destruct (lookup_secret ans now_s s n) as [[[s0 ok] rq0] e] eqn:El.
  destruct (lookup_secret_spec _ _ _ _ _ _ I El) as (Hst & Hoth & Hrq & Hok).
  destruct ok.
  - destruct Hok as [(ce & Hce & Hv) Hin].
    assert (I0 : Inv s0) by (destruct Hst as (I0 & _); exact I0).
    destruct (read_spec _ n _ I0 Hce) as (s2 & Hr & Hst2 & Hev2).
    assert (Hstep2 : step_rel s s2) by (eapply step_trans; eauto).
    assert (Hin2 : In n (hs s2)) by (destruct Hst2 as (_ & _ & Hi & _); apply Hi; exact Hin).
    assert (Hoth2 : forall x, x <> n -> ev s2 x = ev s x) by (intros x Hx; rewrite Hev2; apply Hoth; exact Hx).
    assert (Hev0 : ev s0 n = Some (val ce)) by (unfold ev; rewrite Hce; reflexivity).
    assert (Hevn : ev s2 n = Some (val ce)) by (rewrite Hev2; exact Hev0).
    destruct (phow pf) eqn:Eh; rewrite ?Hr.
    + destruct (jdec (pty pf) (val ce)) as [d okj] eqn:Ej. intros [= <- <- <- <-].
      split; [exact Hstep2|]. split; [|split; [exact Hoth2 | exact Hrq]].
      apply field_spec_some with (v := val ce) (k := k); cbn [rloc rname rcontent rerr]; try reflexivity.
      * exact Hv.
      * unfold spec_content. rewrite Eh, Ej. reflexivity.
      * unfold spec_err. rewrite Eh, Ej. reflexivity.
      * intro Hh. congruence.
      * exact Hevn.
    + intros [= <- <- <- <-]. split; [exact Hstep2|]. split; [|split; [exact Hoth2 | exact Hrq]].
      apply field_spec_some with (v := val ce) (k := k); cbn [rloc rname rcontent rerr]; try reflexivity.
      * exact Hv.
      * unfold spec_content. rewrite Eh. reflexivity.
      * unfold spec_err. rewrite Eh. reflexivity.
      * intro Hh. congruence.
      * exact Hevn.
    + intros [= <- <- <- <-]. split; [exact Hstep2|]. split; [|split; [exact Hoth2 | exact Hrq]].
      apply field_spec_some with (v := val ce) (k := k); cbn [rloc rname rcontent rerr]; try reflexivity.
      * exact Hv.
      * unfold spec_content. rewrite Eh. reflexivity.
      * unfold spec_err. rewrite Eh. reflexivity.
      * intro Hh. congruence.
      * exact Hevn.
    + intros [= <- <- <- <-]. split; [exact Hstep2|]. split; [|split; [exact Hoth2 | exact Hrq]].
      apply field_spec_some with (v := val ce) (k := k); cbn [rloc rname rcontent rerr]; try reflexivity.
      * exact Hv.
      * unfold spec_content. rewrite Eh. reflexivity.
      * unfold spec_err. rewrite Eh. reflexivity.
      * intro Hh. congruence.
      * exact Hevn.
    + intros [= <- <- <- <-]. split; [exact Hst|]. split; [|split; [exact Hoth | exact Hrq]].
      apply field_spec_some with (v := val ce) (k := k); cbn [rloc rname rcontent rerr]; try reflexivity.
      * exact Hv.
      * unfold spec_content. rewrite Eh. reflexivity.
      * unfold spec_err. rewrite Eh. reflexivity.
      * intros _. exact Hin.
      * exact Hev0.
  - destruct Hok as [Hv He]. intros [= <- <- <- <-]. split; [exact Hst|]. split; [|split; [exact Hoth | exact Hrq]].
    apply field_spec_none; cbn [rloc rname rcontent rerr]; auto.
Qed.

Lemma field_spec_mono s0 s1 s2 pfx pf r : field_spec s0 s1 pfx pf r -> step_rel s1 s2 -> field_spec s0 s2 pfx pf r.
Proof.
  unfold field_spec. intros (Ha & Hb & Hc) (_ & _ & Hi & He). split; [exact Ha|]. split; [exact Hb|].
  destruct (value_of s0 (full_name pfx pf)); [|exact Hc].
  destruct Hc as (Hk & Her & Hh & Hv). split; [exact Hk|]. split; [exact Her|]. split; [auto|].
  destruct (He (full_name pfx pf)) as [->|(Hn & _)]; [exact Hv | congruence].
Qed.

Lemma field_spec_base s0 s s1 pfx pf r : step_rel s0 s -> field_spec s s1 pfx pf r -> field_spec s0 s1 pfx pf r.
Proof. unfold field_spec. intros Hst. rewrite (value_of_step _ _ _ Hst). auto. Qed.

(* Fields.Apply: every field is processed; what each receives and whether it fails depends on that
   field alone (its name's value in the store before Apply, else the service's answer) *)
Lemma apply_from_spec pfx pfs : forall s0 s k s' frs rqs, Inv s0 -> step_rel s0 s ->
  apply_from jdec unm_ok ans now_s pfx (s, k) pfs = (s', frs, rqs) ->
  step_rel s0 s' /\ Forall2 (field_spec s0 s' pfx) pfs frs /\
  (forall x, In x rqs -> In x (secrets_of pfx pfs)) /\
  (forall pf, In pf pfs -> known s (full_name pfx pf) = false -> allow s = true -> In (full_name pfx pf) rqs).
Proof.
  induction pfs as [|pf r IH]; intros s0 s k s' frs rqs I0 Hst; cbn [apply_from].
  - intros [= <- <- <-]. cbn [fst]. split; [exact Hst|]. split; [constructor|]. split; [intros x []|intros pf []].
  - destruct (apply_field jdec unm_ok ans now_s pfx (s, k) pf) as [[[s1 k1] fr] rq] eqn:Ef.
    destruct (apply_from jdec unm_ok ans now_s pfx (s1, k1) r) as [[s2 frs2] rqs2] eqn:Er.
    intros [= <- <- <-].
    assert (I : Inv s) by (destruct Hst as (I & _); exact I).
    destruct (apply_field_spec _ _ _ _ _ _ _ _ I Ef) as (Hst1 & Hfs & Hoth & Hrq).
    assert (Hst01 : step_rel s0 s1) by (eapply step_trans; eauto).
    destruct (IH _ _ _ _ _ _ I0 Hst01 Er) as (Hst2 & HF & Hsub & Hcompl).
    split; [exact Hst2|]. split; [|split].
    + constructor; [|exact HF]. apply (field_spec_base _ _ _ _ _ _ Hst).
      assert (Hst12 : step_rel s1 s2).
      { assert (I1 : Inv s1) by (destruct Hst1 as (I1 & _); exact I1).
        destruct (IH s1 s1 k1 s2 frs2 rqs2 I1 (step_refl _ I1) Er) as (H & _). exact H. }
      eapply field_spec_mono; [exact Hfs | exact Hst12].
    + intros x Hx. apply in_app_or in Hx. destruct Hx as [Hx|Hx].
      * left. rewrite Hrq in Hx. destruct (known s (full_name pfx pf)); [destruct Hx|].
        destruct (allow s); [|destruct Hx]. destruct Hx as [<-|[]]. reflexivity.
      * right. apply Hsub. exact Hx.
    + intros pf' Hin K A. apply in_or_app.
      destruct (name_eq_dec (full_name pfx pf') (full_name pfx pf)) as [Eq|Ne].
      * left. rewrite Hrq. rewrite <- Eq, K, A. left. reflexivity.
      * destruct Hin as [<-|Hin]; [congruence|]. right. apply Hcompl; [exact Hin| |].
        -- destruct Hst1 as (I1 & _). destruct (known s1 (full_name pfx pf')) eqn:K1; [|reflexivity].
           exfalso. apply (known_ev _ _ I1) in K1. rewrite (Hoth _ Ne) in K1.
           apply (known_ev _ _ I) in K1. congruence.
        -- destruct Hst1 as (_ & A1 & _). congruence.
Qed.

(* ---- consequences, in the shape of the property's clauses *)

Lemma Forall2_in_r {A B} (P : A -> B -> Prop) la lb b : Forall2 P la lb -> In b lb -> exists a, In a la /\ P a b.
Proof.
  induction 1 as [|a0 b0 la lb Hp _ IH]; intros Hin; [destruct Hin|].
  destruct Hin as [<-|Hin]; [exists a0; split; [left; reflexivity | exact Hp]|].
  destruct (IH Hin) as (a & Ha & Hpa). exists a. split; [right; exact Ha | exact Hpa].
Qed.

Lemma apply_spec pfx pfs (s s' : store) frs rq : Inv s ->
  apply jdec unm_ok ans now_s pfx s pfs = (s', frs, rq) ->
  step_rel s s' /\ Forall2 (field_spec s s' pfx) pfs frs /\
  (forall x, In x rq -> In x (secrets_of pfx pfs)) /\
  (forall x, In x (secrets_of pfx pfs) -> known s x = false -> allow s = true -> In x rq).
Proof.
  intros I H. unfold apply in H.
  destruct (apply_from_spec pfx pfs s s O s' frs rq I (step_refl _ I) H) as (H1 & H2 & H3 & H4).
  split; [exact H1|]. split; [exact H2|]. split; [exact H3|].
  intros x Hx K A. unfold secrets_of in Hx. apply in_map_iff in Hx. destruct Hx as (pf & <- & Hpf). apply H4; assumption.
Qed.

Lemma results_names pfx pfs (s0 s' : store) frs : Forall2 (field_spec s0 s' pfx) pfs frs ->
  map (@rname V D) frs = secrets_of pfx pfs /\ map (@rloc V D) frs = map ploc pfs.
Proof.
  induction 1 as [|pf r pfs frs (Hl & Hn & _) _ [IH1 IH2]]; [split; reflexivity|].
  cbn [map secrets_of]. unfold secrets_of in IH1. rewrite Hl, Hn, IH1, IH2. split; reflexivity.
Qed.

Lemma content_at_untouched (frs : list fres) l : (forall r, In r frs -> rloc r <> l) -> content_at frs l = CUntouched.
Proof.
  induction frs as [|r rest IH]; intros H; [reflexivity|]. cbn [content_at].
  destruct (loc_eqb (rloc r) l) eqn:E.
  - apply loc_eqb_eq in E. exfalso. apply (H r (or_introl eq_refl)). exact E.
  - apply IH. intros r' Hr'. apply H. right. exact Hr'.
Qed.

Lemma untagged_untouched sh pfx pfs (s s' : store) frs rq : Inv s ->
  parse_fields (AStructPtr sh) = inr pfs ->
  apply jdec unm_ok ans now_s pfx s pfs = (s', frs, rq) ->
  forall l, (forall f, In (l, f) (visible sh) -> ftag f = None) -> content_at frs l = CUntouched.
Proof.
  intros I Hp Ha l Hl. destruct (apply_spec _ _ _ _ _ _ I Ha) as (_ & HF & _).
  destruct (parse_fields_inr _ _ Hp) as (sh' & [= <-] & Hpl & _).
  destruct (parse_list_ok _ _ Hpl) as [_ Hin].
  apply content_at_untouched. intros r Hr Heq.
  destruct (Forall2_in_r _ _ _ _ HF Hr) as (pf & Hpf & (Hloc & _)).
  destruct (Hin _ Hpf) as (f & Hf & Hpar).
  destruct (parse_field_ok _ _ _ Hpar) as (tag & Ht & _).
  rewrite <- Hloc, Heq in Hf. rewrite (Hl _ Hf) in Ht. discriminate.
Qed.

Lemma bytes_private pfx pfs (s s' : store) frs rq : Inv s ->
  apply jdec unm_ok ans now_s pfx s pfs = (s', frs, rq) ->
  forall r b v, In r frs -> rcontent r = CBytes b v ->
  (exists k, b = BFresh k) /\
  forall (st : store) n, served st (bufid_eqb b) n = served st (fun _ => false) n.
Proof.
  intros I Ha r b v Hr Hc. destruct (apply_spec _ _ _ _ _ _ I Ha) as (_ & HF & _).
  destruct (Forall2_in_r _ _ _ _ HF Hr) as (pf & _ & (_ & _ & Hsp)).
  assert (Hk : exists k, b = BFresh k).
  { destruct (value_of s (full_name pfx pf)).
    - destruct Hsp as ((k & Hk) & _). rewrite Hc in Hk. unfold spec_content in Hk.
      destruct (phow pf); try discriminate. injection Hk as -> _. eauto.
    - destruct Hsp as (Hu & _). rewrite Hc in Hu. discriminate. }
  split; [exact Hk|]. destruct Hk as (k & ->). intros st n. unfold served. destruct (entry st n); reflexivity.
Qed.

Lemma reported_spec pfx (s0 s' : store) pfs frs : Forall2 (field_spec s0 s' pfx) pfs frs ->
  length frs = length pfs /\ map fst (reported frs) = map ploc (filter (fails s0 pfx) pfs).
Proof.
  induction 1 as [|pf r pfs frs (Hl & Hn & Hs) _ [IH1 IH2]]; [split; reflexivity|].
  split; [cbn [length]; rewrite IH1; reflexivity|].
  unfold reported in *. cbn [flat_map filter]. rewrite map_app, IH2. unfold fails.
  destruct (value_of s0 (full_name pfx pf)) as [v|].
  - destruct Hs as (_ & He & _). rewrite He. destruct (spec_err pf v); cbn [map fst app]; rewrite ?Hl; reflexivity.
  - destruct Hs as (_ & He). destruct (rerr r); [|congruence]. cbn [map fst app]. rewrite Hl. reflexivity.
Qed.

Lemma errors_joined pfx pfs (s s' : store) frs rq : Inv s ->
  apply jdec unm_ok ans now_s pfx s pfs = (s', frs, rq) ->
  length frs = length pfs /\
  map fst (reported frs) = map ploc (filter (fails s pfx) pfs) /\
  (reported frs = [] <-> forall pf, In pf pfs -> fails s pfx pf = false).
Proof.
  intros I Ha. destruct (apply_spec _ _ _ _ _ _ I Ha) as (_ & HF & _).
  destruct (reported_spec _ _ _ _ _ HF) as [H1 H2]. split; [exact H1|]. split; [exact H2|].
  split.
  - intros E pf Hpf. rewrite E in H2. cbn [map] in H2.
    destruct (fails s pfx pf) eqn:Ef; [|reflexivity]. exfalso.
    assert (Hin : In pf (filter (fails s pfx) pfs)) by (apply filter_In; split; assumption).
    destruct (filter (fails s pfx) pfs); [destruct Hin | discriminate].
  - intros Hall. assert (E : filter (fails s pfx) pfs = []).
    { clear - Hall. induction pfs as [|pf r IH]; [reflexivity|]. cbn [filter].
      rewrite (Hall pf (or_introl eq_refl)). apply IH. intros pf' Hin. apply Hall. right. exact Hin. }
    rewrite E in H2. cbn [map] in H2. destruct (reported frs); [reflexivity | discriminate].
Qed.

Lemma reject_no_requests a pfx (s : store) e allow_lookup extra : parse_fields a = inl e ->
  parse_apply jdec unm_ok ans now_s a pfx s = (s, inl e, []) /\
  new_store jdec unm_ok ans now_s allow_lookup extra a pfx = NSReject e.
Proof. intro H. unfold parse_apply, new_store. rewrite H. split; reflexivity. Qed.

Lemma names_exact sh pfx pfs (s s' : store) frs rq :
  Inv s -> parse_fields (AStructPtr sh) = inr pfs ->
  apply jdec unm_ok ans now_s pfx s pfs = (s', frs, rq) ->
  secrets_of pfx pfs = map (path_join2 pfx) (declared_names sh) /\
  Forall (fun n => n <> []) (declared_names sh) /\
  map (@rname V D) frs = secrets_of pfx pfs /\
  (forall x, In x rq -> In x (secrets_of pfx pfs)) /\
  (forall x, In x (secrets_of pfx pfs) -> known s x = false -> allow s = true -> In x rq) /\
  (Forall (fun n => clean n = true) (declared_names sh) ->
     (clean pfx = true -> secrets_of pfx pfs = map (fun n => pfx ++ slash :: n) (declared_names sh)) /\
     (pfx = [] -> secrets_of pfx pfs = declared_names sh)).
Proof.
  intros I Hp Ha.
  destruct (apply_spec _ _ _ _ _ _ I Ha) as (_ & HF & H3 & H4).
  split; [exact (secrets_exact sh pfs pfx Hp)|]. split; [exact (declared_names_nonempty sh pfs Hp)|].
  split; [exact (proj1 (results_names _ _ _ _ _ HF))|].
  split; [exact H3|]. split; [exact H4|]. exact (secrets_clean sh pfs pfx Hp).
Qed.

Lemma field_values pfx pfs (s s' : store) frs rq :
  Inv s -> apply jdec unm_ok ans now_s pfx s pfs = (s', frs, rq) ->
  Inv s' /\ Forall2 (field_spec s s' pfx) pfs frs.
Proof.
  intros I Ha. destruct (apply_spec _ _ _ _ _ _ I Ha) as ((I' & _) & HF & _). split; [exact I' | exact HF].
Qed.

(* ---- Secrets() is a pure function of the parsed fields; Apply's name for a field depends on that
   field alone *)

(* the name under which field i is applied is full_name pfx of field i - whatever the other fields are,
   whatever the store holds, whatever anybody did with a list Secrets() returned earlier *)
Lemma apply_names_pointwise pfx pfs (s s' : store) frs rq :
  Inv s -> apply jdec unm_ok ans now_s pfx s pfs = (s', frs, rq) ->
  Forall2 (fun pf (r : fres) => rname r = full_name pfx pf /\ rloc r = ploc pf) pfs frs.
Proof.
  intros I Ha. destruct (field_values _ _ _ _ _ _ I Ha) as (_ & HF).
  clear Ha. induction HF as [|pf r pfs' frs' (Hl & Hn & _) _ IH]; [constructor|].
  constructor; [split; [exact Hn|exact Hl]|exact IH].
Qed.

(* requested = applied, elementwise, for every prefix *)
Lemma requested_are_applied pfx pfs (s s' : store) frs rq :
  Inv s -> apply jdec unm_ok ans now_s pfx s pfs = (s', frs, rq) ->
  Forall2 (fun n (r : fres) => rname r = n) (secrets_of pfx pfs) frs /\
  secrets_of pfx pfs = map (fun pf => go_join [pfx; psecret pf]) pfs /\
  secrets_of pfx pfs = map (fun pf => path_join2 pfx (psecret pf)) pfs.
Proof.
  intros I Ha. split; [|split].
  - pose proof (apply_names_pointwise _ _ _ _ _ _ I Ha) as F. unfold secrets_of.
    clear Ha. induction F as [|pf r pfs' frs' (Hn & _) _ IH]; [constructor|]. cbn [map]. constructor; assumption.
  - reflexivity.
  - unfold secrets_of. apply map_ext. intros pf. apply go_join2_is_path_join2.
Qed.

(* declaring through Secrets() and applying afterwards is NewStore with the struct configured, for
   EVERY treatment [scr] of the list Secrets() handed out (in the model this is immediate: the list is
   a value and [scr]'s result is not used; the Go-side counterpart - the Fields object does not share
   the slice - is what the "decl" mode of the correspondence run checks), and the second Secrets()
   returns the same names in the same order *)
Lemma declare_apply_is_new_store allow_lookup extra scr a pfx :
  fst (declare_apply jdec unm_ok ans now_s allow_lookup extra scr a pfx)
    = new_store jdec unm_ok ans now_s allow_lookup extra a pfx /\
  (forall pfs, parse_fields a = inr pfs ->
     snd (declare_apply jdec unm_ok ans now_s allow_lookup extra scr a pfx) = secrets_of pfx pfs) /\
  (forall scr', declare_apply jdec unm_ok ans now_s allow_lookup extra scr a pfx
                = declare_apply jdec unm_ok ans now_s allow_lookup extra scr' a pfx).
Proof.
  unfold declare_apply, new_store. destruct (parse_fields a) as [e|pfs]; cbn [fst snd].
  - repeat split. intros pfs H. discriminate.
  - split; [reflexivity|]. split; [|reflexivity]. intros pfs' H. injection H as <-. reflexivity.
Qed.

(* an Apply depends on its own store argument only, never on an earlier Apply of the same Fields:
   immediate in the model (apply has no other input); with field_values this gives the full per-field
   statement for the SECOND Apply in terms of sB alone *)
Lemma apply_twice_stateless pfx pfs (sA sA' sB : store) :
  snd (apply_twice jdec unm_ok ans now_s pfx pfs sA sB) = apply jdec unm_ok ans now_s pfx sB pfs /\
  snd (apply_twice jdec unm_ok ans now_s pfx pfs sA sB) = snd (apply_twice jdec unm_ok ans now_s pfx pfs sA' sB) /\
  (Inv sB -> forall s' frs rq, snd (apply_twice jdec unm_ok ans now_s pfx pfs sA sB) = (s', frs, rq) ->
     Inv s' /\ Forall2 (field_spec sB s' pfx) pfs frs).
Proof.
  unfold apply_twice. cbn [snd]. split; [reflexivity|]. split; [reflexivity|].
  intros I s' frs rq H. exact (field_values _ _ _ _ _ _ I H).
Qed.

(* ---- several structs *)

Lemma fails_step (s s1 : store) pfx pf : step_rel s s1 -> fails s1 pfx pf = fails s pfx pf.
Proof. intros H. unfold fails. rewrite (value_of_step _ _ _ H). reflexivity. Qed.

(* the composed Apply of NewStore reports an error iff some struct's Apply does, i.e. iff some tagged field
   of some struct fails (its own name has no value, or its own decoder refuses it) - judged against the
   store the loop starts with: applying earlier structs changes no secret's value.  And the struct it
   stops at is the FIRST such struct; everything before it was applied without error. *)
Lemma apply_structs_error_iff : forall (l : list (bstr * list pfield)) (s : store), Inv s ->
  let '(s', frss, rq, e) := apply_structs jdec unm_ok ans now_s s l in
  step_rel s s' /\
  (e <> None <-> exists pfx pfs pf, In (pfx, pfs) l /\ In pf pfs /\ fails s pfx pf = true) /\
  (forall k, e = Some k ->
     length frss = S k /\
     (exists pfx pfs pf, nth_error l k = Some (pfx, pfs) /\ In pf pfs /\ fails s pfx pf = true) /\
     (forall j pfx pfs pf, j < k -> nth_error l j = Some (pfx, pfs) -> In pf pfs -> fails s pfx pf = false)) /\
  (e = None -> length frss = length l).
Proof.
  induction l as [|[pfx pfs] r IH]; intros s I; cbn [apply_structs].
  - split; [apply step_refl; exact I|]. split.
    + split; [congruence|]. intros (? & ? & ? & [] & _).
    + split; [discriminate|reflexivity].
  - destruct (apply jdec unm_ok ans now_s pfx s pfs) as [[s1 frs] rq] eqn:Ha.
    destruct (apply_spec _ _ _ _ _ _ I Ha) as (St & _).
    destruct (errors_joined _ _ _ _ _ _ I Ha) as (_ & _ & Hrep).
    destruct (reported frs) as [|x xs] eqn:R.
    + (* this struct is clean: continue *)
      assert (Clean : forall pf, In pf pfs -> fails s pfx pf = false) by (apply Hrep; reflexivity).
      assert (I1 : Inv s1) by (destruct St as (I1 & _); exact I1).
      specialize (IH s1 I1). destruct (apply_structs jdec unm_ok ans now_s s1 r) as [[[s2 rest] rq2] e].
      destruct IH as (St2 & Hiff & Hk & Hn).
      split; [eapply step_trans; eassumption|]. split; [|split].
      * split.
        -- intros He. assert (He' : e <> None) by (destruct e; [discriminate|exact He]).
           destruct (proj1 Hiff He') as (p & q & pf & Hin & Hpf & Hf). exists p, q, pf.
           split; [right; exact Hin|]. split; [exact Hpf|]. rewrite <- (fails_step _ _ _ _ St). exact Hf.
        -- intros (p & q & pf & [E|Hin] & Hpf & Hf).
           ++ injection E as <- <-. rewrite (Clean pf Hpf) in Hf. discriminate.
           ++ assert (He' : e <> None).
              { apply (proj2 Hiff). exists p, q, pf. split; [exact Hin|]. split; [exact Hpf|].
                rewrite (fails_step _ _ _ _ St). exact Hf. }
              destruct e; [discriminate|congruence].
      * intros k Hk'. destruct e as [k0|]; [|discriminate]. cbn [option_map] in Hk'. injection Hk' as <-.
        destruct (Hk k0 eq_refl) as (L & (p & q & pf & Hn1 & Hpf & Hf) & Before).
        split; [cbn [length]; rewrite L; reflexivity|]. split.
        -- exists p, q, pf. split; [exact Hn1|]. split; [exact Hpf|]. rewrite <- (fails_step _ _ _ _ St). exact Hf.
        -- intros j p' q' pf' Hj Hnth Hin. destruct j as [|j'].
           ++ cbn [nth_error] in Hnth. injection Hnth as <- <-. apply Clean. exact Hin.
           ++ cbn [nth_error] in Hnth. rewrite <- (fails_step _ _ _ _ St). eapply Before; [|exact Hnth|exact Hin]. lia.
      * intros He. destruct e; [discriminate|]. cbn [length]. rewrite (Hn eq_refl). reflexivity.
    + (* this struct reports: the loop ends here *)
      assert (Bad : exists pf, In pf pfs /\ fails s pfx pf = true).
      { destruct (existsb (fails s pfx) pfs) eqn:Ex.
        - apply existsb_exists in Ex. exact Ex.
        - exfalso. assert (H : x :: xs = []); [|discriminate H]. apply Hrep. intros pf Hpf.
          destruct (fails s pfx pf) eqn:F; [|reflexivity].
          assert (existsb (fails s pfx) pfs = true) by (apply existsb_exists; eauto). congruence. }
      destruct Bad as (pf & Hpf & Hf).
      split; [exact St|]. split; [|split].
      * split; [intros _|discriminate]. exists pfx, pfs, pf. split; [left; reflexivity|]. auto.
      * intros k Hk. injection Hk as <-. split; [reflexivity|]. split.
        -- exists pfx, pfs, pf. split; [reflexivity|]. auto.
        -- intros j ? ? ? Hj. inversion Hj.
      * discriminate.
Qed.

(* every struct that is applied gets the results of ITS OWN (prefix, fields): the per-field specification
   holds for it with respect to the store it was handed, in which every secret has the value it had when
   the loop started - whatever the other entries are, also when they are values of the same struct type *)
Lemma apply_structs_each : forall (l : list (bstr * list pfield)) (s : store), Inv s ->
  let '(s', frss, rq, e) := apply_structs jdec unm_ok ans now_s s l in
  forall k pfx pfs frs, nth_error l k = Some (pfx, pfs) -> nth_error frss k = Some frs ->
    exists sk sk', (forall n, value_of sk n = value_of s n) /\ Forall2 (field_spec sk sk' pfx) pfs frs.
Proof.
  induction l as [|[pfx pfs] r IH]; intros s I; cbn [apply_structs].
  - intros k ? ? ? H. destruct k; discriminate H.
  - destruct (apply jdec unm_ok ans now_s pfx s pfs) as [[s1 frs] rq] eqn:Ha.
    destruct (apply_spec _ _ _ _ _ _ I Ha) as (St & HF & _).
    assert (Here : forall k p q f, nth_error ((pfx, pfs) :: r) k = Some (p, q) -> nth_error [frs] k = Some f ->
              exists sk sk', (forall n, value_of sk n = value_of s n) /\ Forall2 (field_spec sk sk' p) q f).
    { intros k p q f H1 H2. destruct k as [|k]; [|destruct k; discriminate H2].
      cbn [nth_error] in H1, H2. injection H1 as <- <-. injection H2 as <-. exists s, s1. split; [reflexivity|exact HF]. }
    destruct (reported frs) as [|x xs]; [|exact Here].
    assert (I1 : Inv s1) by (destruct St as (I1 & _); exact I1).
    specialize (IH s1 I1). destruct (apply_structs jdec unm_ok ans now_s s1 r) as [[[s2 rest] rq2] e].
    intros k p q f H1 H2. destruct k as [|k].
    + apply (Here 0 p q f H1). exact H2.
    + cbn [nth_error] in H1, H2. destruct (IH k p q f H1 H2) as (sk & sk' & Hv & HF2).
      exists sk, sk'. split; [|exact HF2]. intros n. rewrite Hv. apply value_of_step. exact St.
Qed.

End ApplyProofs.
