(* C10: model of setec.NewStore (client/setec/store.go:177-274) and initializeActive (676-723),
   built on the shared store model Client/Store.v (names_ok, norm_names, load_cache, declare,
   stubs, next_wait, centry, store, doc).

   Everything that happens outside the store is an explicit input, gathered in `world`:
     - the service: a script giving, for the j-th request (0-based) for a name, the time the
       request takes and its outcome;
     - how the client reacts to a context that is already dead when it is called (w_strict);
       a request that blocks always honours cancellation: it is cut off at the deadline;
     - the caller's context: the instant at which it ends, if ever (w_deadline; Some d with
       d <= w_t0 is a context that is already dead);
     - the schedule: the order in which Go's `range s.active.m` visits the keys in round k;
     - the clock: virtual time is in nanoseconds relative to `w_epoch` (Unix seconds); the
       call starts at w_t0.
   The loop is bounded by fuel (= number of rounds); running out of fuel is a distinct outcome.
   Executable definitions only. *)
From Coq Require Import List Bool NArith ZArith.
Import ListNotations.
From Setec Require Import Base.SMap Client.Store.
Set Implicit Arguments.

Section Init.
Variable V : Type.
Notation centry := (centry V).
Notation store := (store V).
Notation smapE := (@smap name (option centry)).

(* StoreConfig, as far as NewStore consults it *)
Record config := CFG {
  c_client : bool;       (* cfg.Client != nil *)
  c_file : bool;         (* the client is a *FileClient (store.go:683) *)
  c_names : list name;   (* cfg.Secrets ++ the struct-tagged names, as given: any order, duplicates *)
  c_allow : bool;        (* AllowLookup *)
  c_cache : bool;        (* cfg.Cache != nil *)
  c_age : Z              (* ExpiryAge (ns) *)
}.

Record answer := ANS { a_lat : N; a_res : option (N * V) }.

Record world := WORLD {
  w_script : name -> nat -> answer;
  w_strict : bool;
  w_deadline : option N;
  w_order : nat -> list name -> list name;
  w_epoch : Z;
  w_t0 : N
}.

(* trace of what the loop did outside the store (newest first while the loop runs) *)
Inductive ev :=
| EvReq (n : name) (ts te : N) (r : option (N * V))   (* client.Get(ctx, n): start, end, outcome *)
| EvSleep (ts te : N).                                 (* sleepFor(ctx, retryWait) *)

Definition is_req (n : name) (e : ev) : bool := match e with EvReq k _ _ _ => neqb k n | EvSleep _ _ => false end.
Definition is_ok_req (n : name) (e : ev) : bool :=
  match e with EvReq k _ _ (Some _) => neqb k n | _ => false end.
Definition is_sleep (e : ev) : bool := match e with EvSleep _ _ => true | _ => false end.
Definition nreq (n : name) (tr : list ev) : nat := length (filter (is_req n) tr).

Definition dead (w : world) (t : N) : bool :=
  match w_deadline w with Some d => (d <=? t)%N | None => false end.

Definition ns_per_ms : N := 1000000.
Definition ns_per_s : N := 1000000000.
(* s.timeNow().Unix() at virtual instant t *)
Definition now_s (w : world) (t : N) : Z := (w_epoch w + Z.of_N (t / ns_per_s))%Z.

(* one client.Get(ctx, n) started at t: (instant of return, outcome).
   Context already dead: a client that looks at the context first (w_strict) or would block fails at
   once; a non-blocking client that does not look answers as scripted.  Context alive: the request
   takes its scripted time unless the deadline falls strictly inside, which cuts it off there. *)
Definition request (w : world) (n : name) (j : nat) (t : N) : N * option (N * V) :=
  let a := w_script w n j in
  if dead w t then (t, if w_strict w || (0 <? a_lat a)%N then None else a_res a)
  else
    let te := (t + a_lat a)%N in
    match w_deadline w with
    | Some d => if (d <? te)%N then (d, None) else (te, a_res a)
    | None => (te, a_res a)
    end.

(* sleepFor(ctx, d) (store.go:665) started at t: instant of return *)
Definition sleep (w : world) (t d : N) : N :=
  if dead w t then t
  else match w_deadline w with Some dl => N.min (t + d) dl | None => (t + d)%N end.

Record rst := RST { r_m : smapE; r_t : N; r_miss : nat; r_tr : list ev }.
(* RStop: a request failed while the context was dead - `return err` at store.go:704 *)
Inductive rres := RGo (s : rst) | RStop (t : N) (tr : list ev).

(* the body of `for name, cs := range s.active.m` (store.go:687-708) over the visiting order l *)
Fixpoint round (w : world) (l : list name) (s : rst) : rres :=
  match l with
  | [] => RGo s
  | n :: l' =>
    match find n (r_m s) with
    | Some None =>
      let '(te, out) := request w n (nreq n (r_tr s)) (r_t s) in
      let tr' := EvReq n (r_t s) te out :: r_tr s in
      match out with
      | Some (v, b) => round w l' (RST (upd n (Some (CE v b (now_s w te) true)) (r_m s)) te (r_miss s) tr')
      | None => if dead w te then RStop te tr'
                else round w l' (RST (r_m s) te (S (r_miss s)) tr')
      end
    | _ => round w l' s     (* `if cs != nil { continue }` (and names that are not keys at all) *)
    end
  end.

Inductive lres := LDone (mm : smapE) (t : N) (tr : list ev) | LFail (t : N) (tr : list ev) | LFuel (tr : list ev).

(* the outer `for` of initializeActive; k = round number, wait = retryWait in ms *)
Fixpoint init_loop (w : world) (file : bool) (fuel k : nat) (wait : N) (mm : smapE) (t : N) (tr : list ev) : lres :=
  match fuel with
  | O => LFuel tr
  | S f =>
    match round w (w_order w k (map fst mm)) (RST mm t 0 tr) with
    | RStop t' tr' => LFail t' tr'
    | RGo s =>
      match r_miss s with
      | O => LDone (r_m s) (r_t s) (r_tr s)
      | S _ =>
        if file then LFail (r_t s) (r_tr s)         (* waitingIsPointless *)
        else let t' := sleep w (r_t s) (wait * ns_per_ms) in
             init_loop w file f (S k) (next_wait wait) (r_m s) t' (EvSleep (r_t s) t' :: r_tr s)
      end
    end
  end.

Inductive outcome :=
| OMisconfig                                                    (* an error value, before anything else happens *)
| OOk (s : store) (t : N) (tr : list ev) (fx : list (effect V))   (* the store, instant of return, trace (oldest first), cache writes *)
| OFail (t : N) (tr : list ev)                                  (* error from initializeActive *)
| OFuel (tr : list ev).

(* what the cache contributes: nothing without a Cache, else load_cache *)
Definition cached (c : config) (cache : option (@smap name (rentry V))) : smapE :=
  if c_cache c then load_cache cache else [].

Definition new_store (c : config) (cache : option (@smap name (rentry V))) (w : world) (fuel : nat) : outcome :=
  if negb (c_client c) then OMisconfig
  else if negb (names_ok (c_names c) (c_allow c)) then OMisconfig
  else
    let '(m1, want) := declare (cached c cache) (norm_names (c_names c)) in
    match init_loop w (c_file c) fuel 0 1 m1 (w_t0 w) [] with
    | LDone mm t tr =>
      let s := ST mm [] [] (c_allow c) (c_age c) in
      OOk s t (rev tr) (if want && c_cache c then [Flush (doc s)] else [])
    | LFail t tr => OFail t (rev tr)
    | LFuel tr => OFuel (rev tr)
    end.

(* the retry wait before round k+1, in ms *)
Fixpoint wait_k (k : nat) : N := match k with O => 1%N | S j => next_wait (wait_k j) end.

End Init.

Arguments EvSleep {V}.
