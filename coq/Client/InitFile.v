(* C10, file-backed client: which entries of the file setec.NewFileClient (client/setec/fileclient.go:42-72)
   turns into secrets, and the service script a FileClient therefore is for NewStore.  An entry that does not
   denote a usable secret is ABSENT for the store.  Executable definitions only; the lookup over the resulting
   static map is Server/Http.v's fc_get / fc_getifchanged. *)
From Coq Require Import List Bool NArith.
Import ListNotations.
From Setec Require Import Base.SMap Client.Store Client.Init.
From Setec Require Server.DB Server.Http.
Set Implicit Arguments.

Section InitFile.
Variable V : Type.

(* one member of the file's JSON object as NewFileClient decodes it:
   fe_secret - the member has a non-null "secret";  fe_ver - its "Version" (0 when missing);
   fe_value  - the bytes of "Value" when present and non-empty;
   fe_text   - the bytes of "TextValue" when present and non-empty *)
Record fentry := FE { fe_secret : bool; fe_ver : N; fe_value : option V; fe_text : option V }.

Definition is_some {X} (o : option X) : bool := match o with Some _ => true | None => false end.

(* fileclient.go:58-64: skipped when the name is empty or there is no secret; skipped when the version is not
   positive OR there is no value at all *)
Definition fc_usable (n : name) (e : fentry) : bool :=
  negb (match n with [] => true | _ => false end) && fe_secret e
  && (0 <? fe_ver e)%N && (is_some (fe_text e) || is_some (fe_value e)).

(* fileclient.go:65-69: the text wins when both are given *)
Definition fc_bytes (e : fentry) : option V :=
  match fe_text e with Some t => Some t | None => fe_value e end.

Definition fc_secret (n : name) (e : fentry) : option (N * V) :=
  if fc_usable n e then option_map (pair (fe_ver e)) (fc_bytes e) else None.

(* the FileClient's static map: exactly the usable entries *)
Definition fc_db (file : @smap name fentry) : @smap name (N * V) :=
  flat_map (fun '(n, e) => match fc_secret n e with Some s => [(n, s)] | None => [] end) file.

(* FileClient.Get as a service script for NewStore: answers at once, the same at every request, whatever
   the context (it ignores it) *)
Definition file_script (file : @smap name fentry) : name -> nat -> answer V :=
  fun n _ => ANS 0 (match Http.fc_get (fc_db file) n with
                    | Http.CResult (DB.RVal v b) => Some (v, b)
                    | _ => None
                    end).

(* FileClient.GetIfChanged as the answer function of a poll *)
Definition file_poll (file : @smap name fentry) : name -> N -> resp V :=
  fun n old => match Http.fc_getifchanged (fc_db file) n old with
               | Http.CResult (DB.RVal v b) => RValue v b
               | Http.CNotChanged => RNotChanged
               | _ => RErr
               end.

(* a world whose client is a FileClient over `file` *)
Definition file_world (file : @smap name fentry) (w : world V) : Prop :=
  w_strict w = false /\ w_script w = file_script file.

End InitFile.
