(* C10, file-backed client: an entry of the file that is not a usable secret is absent for the store; a store
   built over a FileClient fails at once when a declared, uncached name is absent or unusable, succeeds iff every
   declared name is usable or cached, and then serves exactly the file's version and bytes. *)
From Coq Require Import List Bool NArith ZArith Lia ZifyN ZifyNat Permutation.
Import ListNotations.
From Setec Require Import Base.SMap Client.Store Client.StoreInv Client.Init Client.InitProofs Client.InitFile.
From Setec Require Server.DB Server.Http.
Set Implicit Arguments.

(* find in a filtered and mapped sorted list *)
Lemma find_fmap (A B : Type) (f : name -> A -> option B) (mm : @smap name A) : sorted mm ->
  forall k, find k (flat_map (fun '(n, x) => match f n x with Some y => [(n, y)] | None => [] end) mm)
            = match find k mm with Some x => f k x | None => None end.
Proof.
  induction 1 as [|k0 v0 m' Hlt Hs IH]; intro k; cbn [flat_map find]; [reflexivity|].
  destruct (cmp k k0) eqn:E.
  - apply cmp_eq in E. subst k0.
    destruct (f k v0) as [y|]; cbn [app find].
    + rewrite cmp_refl. reflexivity.
    + rewrite IH. rewrite (find_not_in k m' Hlt). reflexivity.
  - destruct (f k0 v0) as [y|]; cbn [app find]; rewrite ?E; apply IH.
  - destruct (f k0 v0) as [y|]; cbn [app find]; rewrite ?E; apply IH.
Qed.

Section InitFileProofs.
Variable V : Type.
Notation fentry := (fentry V).
Notation world := (world V).
Implicit Types (file : @smap name fentry) (w : world) (c : config) (cache : option (@smap name (rentry V))).

Lemma fc_db_find file n : sorted file ->
  find n (fc_db file) = match find n file with Some e => fc_secret n e | None => None end.
Proof. intro S. unfold fc_db. apply (find_fmap (@fc_secret V) S). Qed.

(* the same for the lookups of Server/Http.v (whose key type is spelled KV.name) *)
Lemma fc_get_find file n : sorted file ->
  Http.fc_get (fc_db file) n = match (match find n file with Some e => fc_secret n e | None => None end) with
                               | Some (v, b) => Http.CResult (DB.RVal v b)
                               | None => @Http.CNotFound V
                               end.
Proof.
  intro S. pose proof (fc_db_find n S) as Q. unfold Http.fc_get. unfold KV.name, name in *. rewrite Q. reflexivity.
Qed.

Lemma fc_getifchanged_find file n old : sorted file ->
  Http.fc_getifchanged (fc_db file) n old =
  match (match find n file with Some e => fc_secret n e | None => None end) with
  | Some (v, b) => if (v =? old)%N then @Http.CNotChanged V else Http.CResult (DB.RVal v b)
  | None => @Http.CNotFound V
  end.
Proof.
  intro S. pose proof (fc_db_find n S) as Q. unfold Http.fc_getifchanged. unfold KV.name, name in *. rewrite Q. reflexivity.
Qed.

Lemma usable_bytes n (e : fentry) : fc_usable n e = true -> exists b, fc_bytes e = Some b.
Proof.
  unfold fc_usable, fc_bytes. intro H. apply andb_true_iff in H. destruct H as [_ H].
  destruct (fe_text e) as [t|]; [eauto|]. destruct (fe_value e) as [v|]; [eauto|]. discriminate.
Qed.

(* an entry that is not a usable secret - empty name, no "secret", version not positive, or no value at all -
   is treated exactly like a name the file does not mention *)
Lemma file_unusable_absent file n e : sorted file -> find n file = Some e -> fc_usable n e = false ->
  Http.fc_get (fc_db file) n = @Http.CNotFound V /\
  (forall old, Http.fc_getifchanged (fc_db file) n old = @Http.CNotFound V) /\
  forall j, a_res (file_script file n j) = None.
Proof.
  intros S F U. unfold file_script. split; [|split].
  - rewrite (fc_get_find n S); unfold KV.name, name in *; rewrite F. unfold fc_secret. rewrite U. reflexivity.
  - intro old. rewrite (fc_getifchanged_find n old S); unfold KV.name, name in *; rewrite F. unfold fc_secret. rewrite U. reflexivity.
  - intro j. rewrite (fc_get_find n S); unfold KV.name, name in *; rewrite F. unfold fc_secret. rewrite U. reflexivity.
Qed.

Lemma file_absent file n : sorted file -> find n file = None ->
  Http.fc_get (fc_db file) n = @Http.CNotFound V /\ forall j, a_res (file_script file n j) = None.
Proof.
  intros S F. unfold file_script. rewrite (fc_get_find n S); unfold KV.name, name in *; rewrite F. cbn [a_res]. auto.
Qed.

Lemma file_usable_served file n e : sorted file -> find n file = Some e -> fc_usable n e = true ->
  exists b, fc_bytes e = Some b /\
            Http.fc_get (fc_db file) n = Http.CResult (DB.RVal (fe_ver e) b) /\
            forall j, a_res (file_script file n j) = Some (fe_ver e, b).
Proof.
  intros S F U. destruct (usable_bytes n e U) as [b B]. exists b. split; [exact B|].
  unfold file_script. rewrite (fc_get_find n S); unfold KV.name, name in *; rewrite F. unfold fc_secret. rewrite U, B. cbn [option_map a_res]. auto.
Qed.

(* what a successful answer of the script says about the file *)
Lemma file_script_some file n j v b : sorted file -> a_res (file_script file n j) = Some (v, b) ->
  exists e, find n file = Some e /\ fc_usable n e = true /\ v = fe_ver e /\ fc_bytes e = Some b.
Proof.
  intros S. unfold file_script. rewrite (fc_get_find n S). unfold KV.name, name in *. cbn [a_res].
  destruct (find n file) as [e|]; [|discriminate]. unfold fc_secret.
  destruct (fc_usable n e) eqn:U; [|discriminate].
  destruct (fc_bytes e) as [b'|] eqn:B; cbn [option_map]; [|discriminate].
  intro Q. injection Q as <- <-. exists e. auto.
Qed.

(* ---- every successful request in a trace carries an answer of the script *)
Lemma request_some w n j t te r : request w n j t = (te, Some r) -> a_res (w_script w n j) = Some r.
Proof.
  unfold request. destruct (dead w t).
  - destruct (w_strict w || (0 <? a_lat (w_script w n j))%N); intro Q; injection Q as _ Q; [discriminate|exact Q].
  - destruct (w_deadline w) as [d|].
    + destruct (d <? t + a_lat (w_script w n j))%N; intro Q; injection Q as _ Q; [discriminate|exact Q].
    + intro Q. injection Q as _ Q. exact Q.
Qed.

Lemma answers_from_script c cache w fuel n ts te r :
  In (EvReq n ts te (Some r)) (trace_of (new_store c cache w fuel)) -> exists j, a_res (w_script w n j) = Some r.
Proof.
  intro Hin.
  pose proof (@new_store_trace V c cache w fuel (fun _ _ tr =>
     forall n ts te r, In (EvReq n ts te (Some r)) tr -> exists j, a_res (w_script w n j) = Some r)) as HT.
  destruct HT as [E|(mm & t & tr0 & E & P)].
  - intros k mm t0 tr0 te0 out HP _ R k' ts' te' r' [Q|Q]; [|eauto].
    injection Q as <- _ _ ->. exists (nreq k tr0). eapply request_some. exact R.
  - intros _ mm t0 tr0 HP k' ts' te' r' [Q|Q]; [discriminate|eauto].
  - intros m1 want _ k' ts' te' r' [].
  - rewrite E in Hin. destruct Hin.
  - rewrite E in Hin. apply in_rev in Hin. eauto.
Qed.

(* ---- NewStore over a FileClient *)

(* fails at once - one round, no sleep, every name asked at most once - when a declared name that the cache does
   not hold is absent from the file or is an unusable entry *)
Lemma file_fails_at_once c cache w fuel file n :
  c_client c = true -> names_ok (c_names c) (c_allow c) = true -> c_file c = true ->
  order_ok w -> cache_sorted cache -> sorted file -> w_script w = file_script file ->
  In n (c_names c) -> find n (cached c cache) = None ->
  (find n file = None \/ exists e, find n file = Some e /\ fc_usable n e = false) ->
  exists t tr, new_store c cache w (S fuel) = OFail t tr /\
     (forall e, In e tr -> is_sleep e = false) /\ (forall k, (nreq k tr <= 1)%nat).
Proof.
  intros Hc Hn Hf Ho Hs Sf Hw Hin F0 Hbad.
  apply (@fileclient_fails_fast V c cache w fuel n); auto.
  intro j. rewrite Hw. destruct Hbad as [Fn|(e & Fn & U)].
  - apply (@file_absent file n Sf Fn).
  - apply (@file_unusable_absent file n e Sf Fn U).
Qed.

(* success => every declared name is cached or a usable entry of the file, and a name taken from the file is
   served with exactly the file's version and bytes (TextValue before Value) *)
Lemma file_success_values c cache w fuel file s t tr fx n :
  order_ok w -> sorted file -> w_script w = file_script file ->
  new_store c cache w fuel = OOk s t tr fx ->
  In n (c_names c) -> find n (cached c cache) = None ->
  exists e b te, find n file = Some e /\ fc_usable n e = true /\ fc_bytes e = Some b /\
     find n (m s) = Some (Some (CE (fe_ver e) b (now_s w te) true)).
Proof.
  intros Ho Sf Hw H Hin F0.
  destruct (@fetched V c cache w fuel s t tr fx n Ho H Hin F0) as (ts & te & v & b & Htr & Fm).
  assert (Htr' : In (EvReq n ts te (Some (v, b))) (trace_of (new_store c cache w fuel))) by (rewrite H; exact Htr).
  destruct (@answers_from_script c cache w fuel n ts te _ Htr') as [j A]. rewrite Hw in A.
  destruct (@file_script_some file n j _ _ Sf A) as (e & Fe & U & -> & B).
  exists e, b, te. auto.
Qed.

(* ... and conversely: if every declared name is cached or usable, construction succeeds in the first round *)
Lemma request_instant w n j t : w_strict w = false -> a_lat (w_script w n j) = 0%N ->
  request w n j t = (t, a_res (w_script w n j)).
Proof.
  intros Hs Hl. unfold request. rewrite Hs, Hl. cbn [orb]. change (0 <? 0)%N with false.
  rewrite N.add_0_r. destruct (dead w t) eqn:D; [reflexivity|].
  unfold dead in D. destruct (w_deadline w) as [d|]; [|reflexivity].
  apply N.leb_gt in D. assert (Q : (d <? t)%N = false) by (apply N.ltb_ge; lia). rewrite Q. reflexivity.
Qed.

Lemma round_all_succeed_instant w : w_strict w = false -> (forall n j, a_lat (w_script w n j) = 0%N) ->
  forall l (s : rst V),
  (forall n, find n (r_m s) = Some None -> forall j, a_res (w_script w n j) <> None) ->
  exists s', round w l s = RGo s' /\ r_miss s' = r_miss s.
Proof.
  intros Hs Hl. induction l as [|a l IH]; intros s H; cbn [round]; [eauto|].
  destruct (find a (r_m s)) as [[e|]|] eqn:F.
  - apply IH. exact H.
  - rewrite (request_instant w a (nreq a (r_tr s)) (r_t s) Hs (Hl _ _)).
    pose proof (H a F (nreq a (r_tr s))) as A.
    destruct (a_res (w_script w a (nreq a (r_tr s)))) as [[v b]|]; [|congruence].
    match goal with |- exists s', round w l ?S = _ /\ _ => destruct (IH S) as (s' & R & M) end.
    + cbn [r_m]. intros n Fn. rewrite find_upd_cases in Fn. destruct (neqb n a); [discriminate|]. apply H. exact Fn.
    + exists s'. split; auto.
  - apply IH. exact H.
Qed.

Lemma file_succeeds c cache w fuel file :
  c_client c = true -> names_ok (c_names c) (c_allow c) = true ->
  w_strict w = false -> sorted file -> w_script w = file_script file ->
  (forall n, In n (c_names c) -> find n (cached c cache) = None ->
             exists e, find n file = Some e /\ fc_usable n e = true) ->
  exists s t tr fx, new_store c cache w (S fuel) = OOk s t tr fx.
Proof.
  intros Hc Hn Hs Sf Hw Hall. unfold new_store. rewrite Hc, Hn. cbn [negb].
  destruct (declare (cached c cache) (norm_names (c_names c))) as [m1 want] eqn:D.
  cbn [init_loop].
  destruct (@round_all_succeed_instant w Hs) with (l := w_order w 0%nat (map fst m1)) (s := RST m1 (w_t0 w) 0 (@nil (ev V)))
    as (s' & R & M).
  - intros n j. rewrite Hw. reflexivity.
  - cbn [r_m]. intros n Fn j. apply (@declare_stub V c cache _ _ n D) in Fn. destruct Fn as [Hin F0].
    destruct (Hall n Hin F0) as (e & Fe & U). rewrite Hw.
    destruct (@file_usable_served file n e Sf Fe U) as (b & _ & _ & A). rewrite A. discriminate.
  - rewrite R. cbn [r_miss] in M. rewrite M. eauto.
Qed.

End InitFileProofs.
