(* C10: proofs about the model of setec.NewStore / initializeActive (Client/Init.v). *)
From Coq Require Import List Bool NArith ZArith Lia ZifyN ZifyNat Permutation.
Import ListNotations.
From Setec Require Import Base.SMap Client.Store Client.StoreInv Client.Init.
Set Implicit Arguments.

(* ---------------------------------------------------------------- generic facts on sorted maps *)
Section MapFacts.
Variable A : Type.
Implicit Types (mm : @smap name A).

Lemma find_keys n mm : find n mm <> None <-> In n (map fst mm).
Proof.
  induction mm as [|[k v] mm IH]; cbn [find map fst In].
  - split; [congruence|tauto].
  - destruct (cmp n k) eqn:E.
    + apply cmp_eq in E. subst. split; [auto|discriminate].
    + rewrite IH. split; [auto|]. intros [Q|Q]; auto. subst. rewrite cmp_refl in E. discriminate.
    + rewrite IH. split; [auto|]. intros [Q|Q]; auto. subst. rewrite cmp_refl in E. discriminate.
Qed.

Lemma find_some_keys n mm x : find n mm = Some x -> In n (map fst mm).
Proof. intro H. apply find_keys. congruence. Qed.

Lemma keys_upd_present n (x : A) mm : sorted mm -> find n mm <> None -> map fst (upd n x mm) = map fst mm.
Proof.
  induction 1 as [|k v mm Hlt Hs IH]; cbn [find upd map fst].
  - congruence.
  - destruct (cmp n k) eqn:E; cbn [map fst].
    + apply cmp_eq in E. subst. reflexivity.
    + intro F. exfalso. apply F. apply find_not_in. intros k' v' Hin. eapply cmp_trans; eauto.
    + intro F. f_equal. apply IH. exact F.
Qed.

Lemma sorted_keys_nodup mm : sorted mm -> NoDup (map fst mm).
Proof.
  induction 1 as [|k v mm Hlt Hs IH]; cbn [map fst]; constructor; auto.
  intro Hin. apply in_map_iff in Hin. destruct Hin as ([k' v'] & Q & Hin). cbn in Q. subst k'.
  apply Hlt in Hin. rewrite cmp_refl in Hin. discriminate.
Qed.

End MapFacts.

Lemma neqb_refl (a : name) : neqb a a = true.
Proof. apply neqb_true. reflexivity. Qed.

Lemma neqb_sym (a b : name) : neqb a b = neqb b a.
Proof.
  destruct (neqb b a) eqn:E.
  - apply neqb_true in E. subst. apply neqb_refl.
  - apply neqb_false in E. apply neqb_false. congruence.
Qed.

Lemma mem_cons n a l : mem n (a :: l) = neqb n a || mem n l.
Proof. reflexivity. Qed.

Lemma mem_false n l : mem n l = false <-> ~ In n l.
Proof. rewrite <- mem_In. destruct (mem n l); split; congruence. Qed.

(* ---------------------------------------------------------------- back-off *)
Lemma wait_k_ge12 k : wait_k (12 + k) = 4096%N.
Proof.
  induction k as [|k IH].
  - vm_compute. reflexivity.
  - replace (12 + S k)%nat with (S (12 + k)) by lia. cbn [wait_k]. rewrite IH. vm_compute. reflexivity.
Qed.

Lemma wait_bounded k : (1 <= wait_k k <= 4096)%N.
Proof.
  do 12 (destruct k as [|k]; [vm_compute; split; discriminate|]).
  change (S (S (S (S (S (S (S (S (S (S (S (S k)))))))))))) with (12 + k)%nat.
  rewrite wait_k_ge12. lia.
Qed.

Lemma wait_doubles k : wait_k (S k) = (if (wait_k k <? 4000)%N then 2 * wait_k k else wait_k k)%N.
Proof.
  cbn [wait_k]. unfold next_wait. destruct (wait_k k <? 4000)%N; lia.
Qed.

Lemma next_wait_ge x : (x <= next_wait x)%N.
Proof. unfold next_wait. destruct (x <? 4000)%N; lia. Qed.

(* ---------------------------------------------------------------- name normalisation *)
Lemma norm_fold_sorted l : forall acc : @smap name unit, sorted acc -> sorted (fold_left (fun acc n => upd n tt acc) l acc).
Proof. induction l as [|a l IH]; cbn [fold_left]; auto. intros acc S. apply IH. apply sorted_upd. exact S. Qed.

Lemma find_upd_cases' (A : Type) (n k : name) (x : A) mm :
  find k (upd n x mm) = if neqb k n then Some x else find k mm.
Proof.
  destruct (neqb k n) eqn:E.
  - apply neqb_true in E. subst. apply find_upd_eq.
  - apply neqb_false in E. apply find_upd_neq. auto.
Qed.

Lemma norm_fold_keys l : forall (acc : @smap name unit) n,
  In n (map fst (fold_left (fun acc n => upd n tt acc) l acc)) <-> In n l \/ In n (map fst acc).
Proof.
  induction l as [|a l IH]; cbn [fold_left In]; intros acc n.
  - tauto.
  - rewrite IH. rewrite <- !find_keys. rewrite find_upd_cases'.
    destruct (neqb n a) eqn:E.
    + apply neqb_true in E. subst. split; [auto|]. intros _. right. discriminate.
    + apply neqb_false in E. split; [tauto|]. intros [[Q|Q]|Q]; auto. congruence.
Qed.

Lemma norm_names_spec l : (forall n, In n (norm_names l) <-> In n l) /\ NoDup (norm_names l).
Proof.
  unfold norm_names. split.
  - intro n. rewrite norm_fold_keys. cbn. tauto.
  - apply sorted_keys_nodup. apply norm_fold_sorted. constructor.
Qed.

Lemma mem_norm n l : mem n (norm_names l) = mem n l.
Proof.
  destruct (mem n l) eqn:E.
  - apply mem_In. apply norm_names_spec. apply mem_In. exact E.
  - apply mem_false. intro H. apply norm_names_spec in H. apply mem_In in H. congruence.
Qed.
