(* C10: proofs about the model of setec.NewStore / initializeActive (Client/Init.v). *)
From Coq Require Import List Bool NArith ZArith Lia ZifyN ZifyNat Permutation.
Import ListNotations.
From Setec Require Import Base.SMap Client.Store Client.StoreInv Client.Init.
Set Implicit Arguments.

(* ---------------------------------------------------------------- generic facts on sorted maps *)
Section MapFacts.
Variable A : Type.
Implicit Types (mm : @smap name A).

Lemma find_keys n mm : find n mm <> None <-> In n (map fst mm).
Proof.
  induction mm as [|[k v] mm IH]; cbn [find map fst In].
  - split; [congruence|tauto].
  - destruct (cmp n k) eqn:E.
    + apply cmp_eq in E. subst. split; [auto|discriminate].
    + rewrite IH. split; [auto|]. intros [Q|Q]; auto. subst. rewrite cmp_refl in E. discriminate.
    + rewrite IH. split; [auto|]. intros [Q|Q]; auto. subst. rewrite cmp_refl in E. discriminate.
Qed.

Lemma find_some_keys n mm x : find n mm = Some x -> In n (map fst mm).
Proof. intro H. apply find_keys. congruence. Qed.

Lemma keys_upd_present n (x : A) mm : sorted mm -> find n mm <> None -> map fst (upd n x mm) = map fst mm.
Proof.
  induction 1 as [|k v mm Hlt Hs IH]; cbn [find upd map fst].
  - congruence.
  - destruct (cmp n k) eqn:E; cbn [map fst].
    + apply cmp_eq in E. subst. reflexivity.
    + intro F. exfalso. apply F. apply find_not_in. intros k' v' Hin. eapply cmp_trans; eauto.
    + intro F. f_equal. apply IH. exact F.
Qed.

Lemma sorted_keys_nodup mm : sorted mm -> NoDup (map fst mm).
Proof.
  induction 1 as [|k v mm Hlt Hs IH]; cbn [map fst]; constructor; auto.
  intro Hin. apply in_map_iff in Hin. destruct Hin as ([k' v'] & Q & Hin). cbn in Q. subst k'.
  apply Hlt in Hin. rewrite cmp_refl in Hin. discriminate.
Qed.

End MapFacts.

Lemma neqb_refl (a : name) : neqb a a = true.
Proof. apply neqb_true. reflexivity. Qed.

Lemma neqb_sym (a b : name) : neqb a b = neqb b a.
Proof.
  destruct (neqb b a) eqn:E.
  - apply neqb_true in E. subst. apply neqb_refl.
  - apply neqb_false in E. apply neqb_false. congruence.
Qed.

Lemma mem_cons n a l : mem n (a :: l) = neqb n a || mem n l.
Proof. reflexivity. Qed.

Lemma mem_false n l : mem n l = false <-> ~ In n l.
Proof. rewrite <- mem_In. destruct (mem n l); split; congruence. Qed.

(* ---------------------------------------------------------------- back-off *)
Lemma next_wait_4096 : next_wait 4096 = 4096%N.
Proof. reflexivity. Qed.

Lemma wait_k_12 : wait_k 12 = 4096%N.
Proof. reflexivity. Qed.

Lemma wait_k_ge12 k : wait_k (k + 12) = 4096%N.
Proof.
  induction k as [|k IH].
  - exact wait_k_12.
  - change (wait_k (S k + 12)) with (next_wait (wait_k (k + 12))). rewrite IH. exact next_wait_4096.
Qed.

Lemma wait_bounded k : (1 <= wait_k k <= 4096)%N.
Proof.
  do 12 (destruct k as [|k]; [vm_compute; split; discriminate|]).
  replace (S (S (S (S (S (S (S (S (S (S (S (S k)))))))))))) with (k + 12)%nat by lia.
  rewrite wait_k_ge12. lia.
Qed.

Lemma wait_doubles k : wait_k (S k) = (if (wait_k k <? 4000)%N then 2 * wait_k k else wait_k k)%N.
Proof.
  cbn [wait_k]. unfold next_wait. destruct (wait_k k <? 4000)%N; lia.
Qed.

Lemma next_wait_ge x : (x <= next_wait x)%N.
Proof. unfold next_wait. destruct (x <? 4000)%N; lia. Qed.

(* ---------------------------------------------------------------- name normalisation *)
Lemma norm_fold_sorted l : forall acc : @smap name unit, sorted acc -> sorted (fold_left (fun acc n => upd n tt acc) l acc).
Proof. induction l as [|a l IH]; cbn [fold_left]; auto. intros acc S. apply IH. apply sorted_upd. exact S. Qed.

Lemma find_upd_cases' (A : Type) (n k : name) (x : A) mm :
  find k (upd n x mm) = if neqb k n then Some x else find k mm.
Proof.
  destruct (neqb k n) eqn:E.
  - apply neqb_true in E. subst. apply find_upd_eq.
  - apply neqb_false in E. apply find_upd_neq. auto.
Qed.

Lemma norm_fold_keys l : forall (acc : @smap name unit) n,
  In n (map fst (fold_left (fun acc n => upd n tt acc) l acc)) <-> In n l \/ In n (map fst acc).
Proof.
  induction l as [|a l IH]; cbn [fold_left In]; intros acc n.
  - tauto.
  - rewrite IH. rewrite <- !find_keys. rewrite find_upd_cases'.
    destruct (neqb n a) eqn:E.
    + apply neqb_true in E. subst. split; [auto|]. intros _. right. congruence.
    + apply neqb_false in E. split; [tauto|]. intros [[Q|Q]|Q]; auto; congruence.
Qed.

Lemma norm_names_spec l : (forall n, In n (norm_names l) <-> In n l) /\ NoDup (norm_names l).
Proof.
  unfold norm_names. split.
  - intro n. rewrite norm_fold_keys. cbn. tauto.
  - apply sorted_keys_nodup. apply norm_fold_sorted. constructor.
Qed.

Lemma norm_names_in n l : In n (norm_names l) <-> In n l.
Proof. apply (proj1 (norm_names_spec l)). Qed.

Lemma mem_norm n l : mem n (norm_names l) = mem n l.
Proof.
  destruct (mem n l) eqn:E.
  - apply mem_In. apply norm_names_in. apply mem_In. exact E.
  - apply mem_false. intro H. apply (proj1 (norm_names_in _ _)) in H. apply (proj2 (mem_In _ _)) in H. congruence.
Qed.

Section InitProofs.
Variable V : Type.
Notation world := (world V).
Notation outcome := (outcome V).
Notation centry := (centry V).
Notation smapE := (@smap name (option centry)).
Notation ev := (ev V).
Notation rst := (rst V).
Implicit Types (w : world) (c : config) (cache : option (@smap name (rentry V))) (d : @smap name (rentry V)).
Implicit Types (mm : smapE) (tr : list ev) (n : name).

(* the schedule visits every key of the map (Go's range does, exactly once) *)
Definition order_ok (w : world) : Prop := forall k l, Permutation (w_order w k l) l.

Definition cache_sorted (cache : option (@smap name (rentry V))) : Prop :=
  match cache with Some d => sorted d | None => True end.

Definition trace_of (o : outcome) : list ev :=
  match o with OMisconfig _ => [] | OOk _ _ tr _ => tr | OFail _ tr => tr | OFuel tr => tr end.

Definition requested (n : name) (tr : list ev) : Prop := exists e, In e tr /\ is_req n e = true.

(* ---------------------------------------------------------------- the cache *)
Lemma of_cache_in d k x : In (k, x) (of_cache d) ->
  (exists v b t, x = Some (CE v b t false)) /\ exists r, In (k, r) d.
Proof.
  induction d as [|[k' e] d IH]; cbn [of_cache flat_map]; [intros []|].
  fold (of_cache d). intro H. apply in_app_or in H. destruct H as [H|H].
  - destruct e as [[[[v b]|] t]|]; try contradiction. destruct H as [Q|[]]. injection Q as <- <-.
    split; [eauto|]. eexists. left. reflexivity.
  - apply IH in H. destruct H as [H1 [r H2]]. split; auto. exists r. right. exact H2.
Qed.

Lemma of_cache_sorted d : sorted d -> sorted (of_cache d).
Proof.
  induction 1 as [|k e d Hlt Hs IH]; cbn [of_cache flat_map]; [constructor|].
  fold (of_cache d).
  destruct e as [[[[v b]|] t]|]; cbn [app]; auto.
  constructor; auto. intros k' v' Hin. apply of_cache_in in Hin. destruct Hin as [_ [r Hin]]. eauto.
Qed.

Lemma of_cache_nostub d n : find n (of_cache d) <> Some None.
Proof.
  intro F. apply find_in in F. apply of_cache_in in F. destruct F as [(v & b & t & Q) _]. discriminate.
Qed.

Lemma of_cache_decl d n e : find n (of_cache d) = Some (Some e) -> decl e = false.
Proof.
  intro F. apply find_in in F. apply of_cache_in in F. destruct F as [(v & b & t & Q) _].
  injection Q as ->. reflexivity.
Qed.

Lemma cached_decl c cache n e : find n (cached c cache) = Some (Some e) -> decl e = false.
Proof.
  unfold cached, load_cache. destruct (c_cache c); [|discriminate].
  destruct cache as [d|]; [|discriminate]. destruct (cache_valid d); [|discriminate].
  apply of_cache_decl.
Qed.

Lemma cached_sorted c cache : cache_sorted cache -> sorted (cached c cache).
Proof.
  unfold cached, load_cache. intro H. destruct (c_cache c); [|constructor].
  destruct cache as [d|]; [|constructor]. destruct (cache_valid d); [|constructor].
  apply of_cache_sorted. exact H.
Qed.

Lemma cached_nostub c cache n : find n (cached c cache) <> Some None.
Proof.
  unfold cached, load_cache. destruct (c_cache c); [|discriminate].
  destruct cache as [d|]; [|discriminate]. destruct (cache_valid d); [|discriminate].
  apply of_cache_nostub.
Qed.

(* ---------------------------------------------------------------- declare *)
Definition declared_of (x : option (option centry)) : option (option centry) :=
  match x with Some (Some e) => Some (Some (CE (ver e) (val e) (last e) true)) | _ => Some None end.

Lemma declared_of_idem x : declared_of (declared_of x) = declared_of x.
Proof. destruct x as [[e|]|]; reflexivity. Qed.

Lemma declare1_find mm want a n :
  find n (fst (declare1 (mm, want) a)) = if neqb n a then declared_of (find a mm) else find n mm.
Proof.
  cbn [declare1]. destruct (find a mm) as [[e|]|] eqn:F; cbn [fst declared_of].
  - apply find_upd_cases.
  - destruct (neqb n a) eqn:E; auto. apply neqb_true in E. subst. exact F.
  - apply find_upd_cases.
Qed.

Lemma declare1_sorted mm want a : sorted mm -> sorted (fst (declare1 (mm, want) a)).
Proof.
  intro S. cbn [declare1]. destruct (find a mm) as [[e|]|]; cbn [fst]; try apply sorted_upd; exact S.
Qed.

Lemma declare_fold_find names : forall mm want n,
  find n (fst (fold_left (@declare1 V) names (mm, want))) =
  if mem n names then declared_of (find n mm) else find n mm.
Proof.
  induction names as [|a names IH]; intros mm want n; cbn [fold_left].
  - reflexivity.
  - destruct (declare1 (mm, want) a) as [mm' want'] eqn:D.
    rewrite IH. pose proof (declare1_find mm want a n) as F1. rewrite D in F1. cbn [fst] in F1.
    rewrite mem_cons, F1. destruct (neqb n a) eqn:E; cbn [orb].
    + apply neqb_true in E. subst a. destruct (mem n names); [apply declared_of_idem|reflexivity].
    + reflexivity.
Qed.

Lemma declare_fold_sorted names : forall mm want, sorted mm -> sorted (fst (fold_left (@declare1 V) names (mm, want))).
Proof.
  induction names as [|a names IH]; intros mm want S; cbn [fold_left]; auto.
  pose proof (declare1_sorted want a S) as S1. destruct (declare1 (mm, want) a) as [mm' want']. apply IH. exact S1.
Qed.

Lemma declare_fold_want names : forall mm want,
  (forall n, In n names -> exists e, find n mm = Some (Some e)) ->
  snd (fold_left (@declare1 V) names (mm, want)) = want.
Proof.
  induction names as [|a names IH]; intros mm want H; cbn [fold_left]; auto.
  destruct (H a (or_introl eq_refl)) as [e Fa].
  cbn [declare1]. rewrite Fa. apply IH. intros n Hn. rewrite find_upd_cases.
  destruct (neqb n a); eauto. apply H. right. exact Hn.
Qed.

Lemma declare_find c cache m1 want n :
  declare (cached c cache) (norm_names (c_names c)) = (m1, want) ->
  find n m1 = if mem n (c_names c) then declared_of (find n (cached c cache)) else find n (cached c cache).
Proof.
  unfold declare. intro D. pose proof (declare_fold_find (norm_names (c_names c)) (cached c cache) false n) as F.
  rewrite D in F. cbn [fst] in F. rewrite mem_norm in F. exact F.
Qed.

Lemma declare_sorted c cache m1 want :
  cache_sorted cache -> declare (cached c cache) (norm_names (c_names c)) = (m1, want) -> sorted m1.
Proof.
  unfold declare. intros S D. pose proof (declare_fold_sorted (norm_names (c_names c)) false (cached_sorted c cache S)) as F.
  rewrite D in F. exact F.
Qed.

(* the stubs after declare are exactly the declared names the cache does not hold *)
Lemma declare_stub c cache m1 want n :
  declare (cached c cache) (norm_names (c_names c)) = (m1, want) ->
  (find n m1 = Some None <-> In n (c_names c) /\ find n (cached c cache) = None).
Proof.
  intro D. rewrite (@declare_find c cache _ _ n D). pose proof (cached_nostub c cache n) as NS.
  destruct (mem n (c_names c)) eqn:M.
  - apply mem_In in M. destruct (find n (cached c cache)) as [[e|]|]; cbn [declared_of]; split; intros; try tauto; try congruence.
    destruct H; congruence.
  - apply mem_false in M. split; [contradiction|tauto].
Qed.

(* ---------------------------------------------------------------- requests, sleeps *)
Lemma dead_mono w t t' : dead w t = true -> (t <= t')%N -> dead w t' = true.
Proof.
  unfold dead. destruct (w_deadline w) as [D|]; [|discriminate].
  rewrite !N.leb_le. lia.
Qed.

Lemma dead_nodl w t : w_deadline w = None -> dead w t = false.
Proof. unfold dead. intros ->. reflexivity. Qed.

Lemma request_ge w n j t te out : request w n j t = (te, out) -> (t <= te)%N.
Proof.
  unfold request. destruct (dead w t) eqn:Dd.
  - intro Q. injection Q as <- _. lia.
  - unfold dead in Dd. destruct (w_deadline w) as [D|].
    + apply N.leb_gt in Dd. destruct (D <? t + a_lat (w_script w n j))%N eqn:L; intro Q; injection Q as <- _; lia.
    + intro Q; injection Q as <- _; lia.
Qed.

Lemma request_le w n j t te out D : w_deadline w = Some D -> request w n j t = (te, out) -> (te <= N.max t D)%N.
Proof.
  intro HD. unfold request, dead. rewrite HD. destruct (D <=? t)%N eqn:Dd.
  - intro Q. injection Q as <- _. lia.
  - destruct (D <? t + a_lat (w_script w n j))%N eqn:L; intro Q; injection Q as <- _; [lia|].
    apply N.ltb_ge in L. lia.
Qed.

Lemma request_dead w n j t te out : dead w t = true -> request w n j t = (te, out) -> te = t.
Proof. unfold request. intros ->. intro Q. injection Q as <- _. reflexivity. Qed.

Lemma request_nodl w n j t : w_deadline w = None ->
  request w n j t = ((t + a_lat (w_script w n j))%N, a_res (w_script w n j)).
Proof. intro H. unfold request, dead. rewrite H. reflexivity. Qed.

Lemma request_fail w n j t te out : a_res (w_script w n j) = None -> request w n j t = (te, out) -> out = None.
Proof.
  unfold request. intro A. rewrite A.
  destruct (dead w t).
  - intro Q. injection Q as _ <-. destruct (w_strict w || (0 <? a_lat (w_script w n j))%N); reflexivity.
  - destruct (w_deadline w) as [D|].
    + destruct (D <? t + a_lat (w_script w n j))%N; intro Q; injection Q as _ <-; reflexivity.
    + intro Q; injection Q as _ <-; reflexivity.
Qed.

Lemma sleep_ge w t (d : N) : (t <= sleep w t d)%N.
Proof.
  unfold sleep. destruct (dead w t) eqn:Dd; [lia|].
  unfold dead in Dd. destruct (w_deadline w) as [D|]; [|lia]. apply N.leb_gt in Dd. lia.
Qed.

Lemma sleep_le w t (d : N) : (sleep w t d <= t + d)%N.
Proof.
  unfold sleep. destruct (dead w t); [lia|]. destruct (w_deadline w) as [D|]; lia.
Qed.

Lemma sleep_le_deadline w t (d : N) D : w_deadline w = Some D -> (sleep w t d <= N.max t D)%N.
Proof.
  intro HD. unfold sleep. destruct (dead w t); [lia|]. rewrite HD. lia.
Qed.

Lemma sleep_nodl w t (d : N) : w_deadline w = None -> sleep w t d = (t + d)%N.
Proof. intro H. unfold sleep, dead. rewrite H. reflexivity. Qed.

(* ---------------------------------------------------------------- traces *)
Lemma nreq_cons_req n a ts te out tr :
  nreq n (EvReq a ts te out :: tr) = if neqb a n then S (nreq n tr) else nreq n tr.
Proof. unfold nreq. cbn [filter is_req]. destruct (neqb a n); reflexivity. Qed.

Lemma nreq_cons_sleep n ts te tr : nreq n (EvSleep ts te :: tr) = nreq n tr.
Proof. reflexivity. Qed.

(* ---------------------------------------------------------------- one round: invariants *)
Definition install w n (te : N) (out : option (N * V)) mm : smapE :=
  match out with Some (v, b) => upd n (Some (CE v b (now_s w te) true)) mm | None => mm end.

Definition req_step w (P : smapE -> N -> list ev -> Prop) : Prop :=
  forall n mm t tr te out, P mm t tr -> find n mm = Some None ->
    request w n (nreq n tr) t = (te, out) ->
    P (install w n te out mm) te (EvReq n t te out :: tr).

Lemma round_inv w P (Hreq : req_step w P) : forall l s, P (r_m s) (r_t s) (r_tr s) ->
  match round w l s with
  | RGo s' => P (r_m s') (r_t s') (r_tr s')
  | RStop t' tr' => exists mm', P mm' t' tr'
  end.
Proof.
  induction l as [|a l IH]; intros s HP; cbn [round]; [exact HP|].
  destruct (find a (r_m s)) as [[e|]|] eqn:F; try (apply IH; exact HP).
  destruct (request w a (nreq a (r_tr s)) (r_t s)) as [te out] eqn:R.
  pose proof (Hreq _ _ _ _ _ _ HP F R) as H1.
  destruct out as [[v b]|]; cbn [install] in H1.
  - apply (IH (RST _ _ _ _)). exact H1.
  - destruct (dead w te).
    + exists (r_m s). exact H1.
    + apply (IH (RST _ _ _ _)). exact H1.
Qed.

Definition res_tr (r : rres V) : list ev := match r with RGo s => r_tr s | RStop _ tr => tr end.

Lemma round_sleeps w l s : filter (@is_sleep V) (res_tr (round w l s)) = filter (@is_sleep V) (r_tr s).
Proof.
  pose proof (@round_inv w (fun _ _ tr => filter (@is_sleep V) tr = filter (@is_sleep V) (r_tr s))) as H.
  specialize (H ltac:(intros n mm t tr te out HP _ _; exact HP) l s eq_refl).
  destruct (round w l s); cbn [res_tr]; [exact H|]. destruct H as [_ H]. exact H.
Qed.

(* stubs only disappear; a round without a failure leaves no visited name a stub *)
Lemma round_miss w : forall l s s', round w l s = RGo s' ->
  (r_miss s <= r_miss s')%nat /\
  (forall n, find n (r_m s') = Some None -> find n (r_m s) = Some None) /\
  (r_miss s' = r_miss s -> forall n, In n l -> find n (r_m s') <> Some None).
Proof.
  induction l as [|a l IH]; intros s s'; cbn [round].
  - intro Q. injection Q as <-. split; [lia|]. split; [auto|]. intros _ n [].
  - destruct (find a (r_m s)) as [[e|]|] eqn:F.
    + intro R. destruct (IH _ _ R) as (M & St & Ns). split; auto. split; auto.
      intros E n [<-|Hn]; auto. intro Q. apply St in Q. congruence.
    + destruct (request w a (nreq a (r_tr s)) (r_t s)) as [te out] eqn:R. destruct out as [[v b]|].
      * intro R2. destruct (IH _ _ R2) as (M & St & Ns). cbn [r_m r_miss] in *. split; auto.
        split.
        { intros n Q. pose proof (St n Q) as Q1. rewrite find_upd_cases in Q1. destruct (neqb n a); [discriminate|exact Q1]. }
        intros E n [<-|Hn]; auto. intro Q. apply St in Q. rewrite find_upd_eq in Q. discriminate.
      * destruct (dead w te); [discriminate|]. intro R2. destruct (IH _ _ R2) as (M & St & Ns). cbn [r_m r_miss] in *.
        split; [lia|]. split; auto. intro E. lia.
    + intro R. destruct (IH _ _ R) as (M & St & Ns). split; auto. split; auto.
      intros E n [<-|Hn]; auto. intro Q. apply St in Q. congruence.
Qed.

(* ---------------------------------------------------------------- the loop: invariants *)
Definition sleep_step w (file : bool) (P : smapE -> N -> list ev -> Prop) : Prop :=
  file = false -> forall mm t tr, P mm t tr ->
    P mm (sleep w t (wait_k (length (filter (@is_sleep V) tr)) * ns_per_ms))
       (EvSleep t (sleep w t (wait_k (length (filter (@is_sleep V) tr)) * ns_per_ms)) :: tr).

Lemma loop_inv w file P (Hreq : req_step w P) (Hsleep : sleep_step w file P) : forall fuel k mm t tr,
  k = length (filter (@is_sleep V) tr) -> P mm t tr ->
  match init_loop w file fuel k (wait_k k) mm t tr with
  | LDone mm' t' tr' => P mm' t' tr'
  | LFail t' tr' => exists mm', P mm' t' tr'
  | LFuel tr' => exists mm' t', P mm' t' tr'
  end.
Proof.
  induction fuel as [|f IH]; intros k mm t tr Hk HP; cbn [init_loop].
  - eauto.
  - pose proof (@round_inv w P Hreq (w_order w k (map fst mm)) (RST mm t 0 tr) HP) as HR.
    pose proof (round_sleeps w (w_order w k (map fst mm)) (RST mm t 0 tr)) as HS.
    destruct (round w (w_order w k (map fst mm)) (RST mm t 0 tr)) as [s|t' tr']; [|exact HR].
    cbn [res_tr r_tr] in HS.
    destruct (r_miss s); [exact HR|].
    destruct file eqn:Ef; [eauto|].
    change (next_wait (wait_k k)) with (wait_k (S k)).
    assert (Hk' : k = length (filter (@is_sleep V) (r_tr s))) by (rewrite HS; exact Hk).
    apply IH.
    + cbn [filter is_sleep length]. rewrite <- Hk'. reflexivity.
    + rewrite Hk' at 1 2. apply Hsleep; auto.
Qed.

(* ---------------------------------------------------------------- install *)
Lemma find_install w n te out mm k :
  find k (install w n te out mm) =
  match out with
  | Some (v, b) => if neqb k n then Some (Some (CE v b (now_s w te) true)) else find k mm
  | None => find k mm
  end.
Proof. destruct out as [[v b]|]; cbn [install]; [apply find_upd_cases|reflexivity]. Qed.

Lemma install_other w n te out mm k : find n mm = Some None -> find k mm <> Some None ->
  find k (install w n te out mm) = find k mm.
Proof.
  intros F Hk. rewrite find_install. destruct out as [[v b]|]; auto.
  destruct (neqb k n) eqn:E; auto. apply neqb_true in E. subst. contradiction.
Qed.

Lemma install_stub_mono w n te out mm k : find k (install w n te out mm) = Some None -> find k mm = Some None.
Proof.
  rewrite find_install. destruct out as [[v b]|]; auto. destruct (neqb k n); [discriminate|auto].
Qed.

Lemma install_sorted w n te out mm : sorted mm -> sorted (install w n te out mm).
Proof. intro S. destruct out as [[v b]|]; cbn [install]; auto. apply sorted_upd. exact S. Qed.

(* ---------------------------------------------------------------- new_store: invariants *)
Lemma new_store_inv c cache w fuel (P : smapE -> N -> list ev -> Prop) :
  req_step w P -> sleep_step w (c_file c) P ->
  (forall m1 want, declare (cached c cache) (norm_names (c_names c)) = (m1, want) -> P m1 (w_t0 w) []) ->
  match new_store c cache w fuel with
  | OMisconfig _ => True
  | OOk s t tr fx => P (m s) t (rev tr)
  | OFail t tr => exists mm, P mm t (rev tr)
  | OFuel tr => exists mm t, P mm t (rev tr)
  end.
Proof.
  intros Hreq Hsleep H0. unfold new_store.
  destruct (negb (c_client c)); [exact I|]. destruct (negb (names_ok (c_names c) (c_allow c))); [exact I|].
  destruct (declare (cached c cache) (norm_names (c_names c))) as [m1 want] eqn:D.
  pose proof (@loop_inv w (c_file c) P Hreq Hsleep fuel 0%nat m1 (w_t0 w) [] eq_refl (H0 _ _ eq_refl)) as H.
  change (wait_k 0) with 1%N in H.
  destruct (init_loop w (c_file c) fuel 0 1 m1 (w_t0 w) []); cbn [m]; rewrite rev_involutive; exact H.
Qed.

Lemma new_store_trace c cache w fuel (P : smapE -> N -> list ev -> Prop) :
  req_step w P -> sleep_step w (c_file c) P ->
  (forall m1 want, declare (cached c cache) (norm_names (c_names c)) = (m1, want) -> P m1 (w_t0 w) []) ->
  trace_of (new_store c cache w fuel) = [] \/
  exists mm t tr0, trace_of (new_store c cache w fuel) = rev tr0 /\ P mm t tr0.
Proof.
  intros Hreq Hsleep H0. pose proof (@new_store_inv c cache w fuel P Hreq Hsleep H0) as H.
  destruct (new_store c cache w fuel) as [|s t tr fx|t tr|tr]; cbn [trace_of].
  - left. reflexivity.
  - right. exists (m s), t, (rev tr). rewrite rev_involutive. auto.
  - right. destruct H as [mm H]. exists mm, t, (rev tr). rewrite rev_involutive. auto.
  - right. destruct H as [mm [t H]]. exists mm, t, (rev tr). rewrite rev_involutive. auto.
Qed.

Lemma new_store_ok_shape c cache w fuel s t tr fx :
  new_store c cache w fuel = OOk s t tr fx ->
  exists m1 want mm trl,
    declare (cached c cache) (norm_names (c_names c)) = (m1, want) /\
    init_loop w (c_file c) fuel 0 1 m1 (w_t0 w) [] = LDone mm t trl /\
    s = ST mm [] [] (c_allow c) (c_age c) /\ tr = rev trl /\
    fx = (if want && c_cache c then [Flush (doc s)] else []).
Proof.
  unfold new_store.
  destruct (negb (c_client c)); [discriminate|]. destruct (negb (names_ok (c_names c) (c_allow c))); [discriminate|].
  destruct (declare (cached c cache) (norm_names (c_names c))) as [m1 want] eqn:D.
  destruct (init_loop w (c_file c) fuel 0 1 m1 (w_t0 w) []) as [mm t' trl|t' trl|trl] eqn:L; try discriminate.
  intro Q. injection Q as <- <- <- <-. exists m1, want, mm, trl. auto.
Qed.

Lemma loop_done_nostub w file : order_ok w -> forall fuel k wait mm t tr mm' t' tr',
  init_loop w file fuel k wait mm t tr = LDone mm' t' tr' -> forall n, find n mm' <> Some None.
Proof.
  intros Ho. induction fuel as [|f IH]; intros k wait mm t tr mm' t' tr'; cbn [init_loop]; [discriminate|].
  destruct (round w (w_order w k (map fst mm)) (RST mm t 0 tr)) as [s|t1 tr1] eqn:R; [|discriminate].
  destruct (r_miss s) eqn:M.
  - intro Q. injection Q as <- <- <-. intros n Hn.
    destruct (@round_miss w _ _ _ R) as (_ & St & Ns). cbn [r_m r_miss] in *.
    apply (Ns M n); auto.
    eapply Permutation_in; [apply Permutation_sym, Ho|]. eapply find_some_keys. apply St. exact Hn.
  - destruct file; [discriminate|]. apply IH.
Qed.

Lemma new_store_ok_nostub c cache w fuel s t tr fx :
  order_ok w -> new_store c cache w fuel = OOk s t tr fx -> forall n, find n (m s) <> Some None.
Proof.
  intros Ho H. apply new_store_ok_shape in H. destruct H as (m1 & want & mm & trl & D & L & -> & _).
  cbn [m]. eapply loop_done_nostub; eauto.
Qed.

(* ---------------------------------------------------------------- 1. completeness *)
Lemma complete c cache w fuel s t tr fx :
  order_ok w -> cache_sorted cache ->
  new_store c cache w fuel = OOk s t tr fx ->
  Inv s /\ hs s = [] /\ allow s = c_allow c /\ age s = c_age c /\
  forall n, In n (c_names c) -> exists e, find n (m s) = Some (Some e) /\ decl e = true.
Proof.
  intros Ho Hc H. pose proof (@new_store_ok_nostub c cache w fuel s t tr fx Ho H) as NS.
  pose proof (@new_store_inv c cache w fuel (fun mm _ _ => sorted mm /\
     forall n, In n (c_names c) -> find n mm = Some None \/ exists e, find n mm = Some (Some e) /\ decl e = true)) as HI.
  rewrite H in HI. destruct HI as [Srt Dcl].
  - intros n mm t0 tr0 te out [S1 D1] F R. split; [apply install_sorted; exact S1|].
    intros k Hk. rewrite find_install. destruct out as [[v b]|]; auto.
    destruct (neqb k n); auto. right. eexists. split; reflexivity.
  - intros _ mm t0 tr0 HP. exact HP.
  - intros m1 want D. split; [eapply declare_sorted; eauto|].
    intros n Hn. rewrite (@declare_find c cache _ _ n D). apply mem_In in Hn. rewrite Hn.
    destruct (find n (cached c cache)) as [[e|]|]; cbn [declared_of]; auto.
    right. eexists. split; reflexivity.
  - apply new_store_ok_shape in H. destruct H as (m1 & want & mm & trl & D & L & -> & _).
    cbn [m hs allow age] in *.
    split; [constructor; cbn [m hs]; [exact Srt|exact NS|intros n []]|].
    repeat split; auto. intros n Hn. destruct (Dcl n Hn) as [Q|Q]; auto. apply NS in Q. contradiction.
Qed.

(* ---------------------------------------------------------------- 2. cache first *)
Lemma not_requested_rev n tr0 : (forall e, In e tr0 -> is_req n e = false) -> ~ requested n (rev tr0).
Proof. intros H (e & Hin & Q). apply in_rev in Hin. apply H in Hin. congruence. Qed.

Lemma cache_first_never_requested c cache w fuel n e0 :
  find n (cached c cache) = Some (Some e0) ->
  ~ requested n (trace_of (new_store c cache w fuel)).
Proof.
  intros F0.
  destruct (@new_store_trace c cache w fuel (fun mm _ tr => (exists e1, find n mm = Some (Some e1)) /\
     forall e, In e tr -> is_req n e = false)) as [E|(mm & t & tr0 & E & _ & Hno)].
  - intros k mm t0 tr0 te out [[e1 F1] Hno] F R.
    assert (Hkn : neqb k n = false). { apply neqb_false. intros ->. congruence. }
    split.
    + exists e1. rewrite install_other; auto. congruence.
    + intros e [<-|Hin]; auto.
  - intros _ mm t0 tr0 [F1 Hno]. split; auto. intros e [<-|Hin]; auto.
  - intros m1 want D. split; [|intros e []]. rewrite (@declare_find c cache _ _ n D), F0.
    destruct (mem n (c_names c)); cbn [declared_of]; eauto.
  - rewrite E. intros (e & [] & _).
  - rewrite E. apply not_requested_rev. exact Hno.
Qed.

Lemma cache_first c cache w fuel s t tr fx n e0 :
  new_store c cache w fuel = OOk s t tr fx ->
  find n (cached c cache) = Some (Some e0) ->
  find n (m s) = Some (Some (CE (ver e0) (val e0) (last e0) (mem n (c_names c)))).
Proof.
  intros H F0.
  pose proof (@new_store_inv c cache w fuel (fun mm _ _ =>
     find n mm = Some (Some (CE (ver e0) (val e0) (last e0) (mem n (c_names c)))))) as HI.
  rewrite H in HI. apply HI.
  - intros k mm t0 tr0 te out F1 F R. rewrite install_other; auto. congruence.
  - intros _ mm t0 tr0 HP. exact HP.
  - intros m1 want D. rewrite (@declare_find c cache _ _ n D), F0.
    destruct (mem n (c_names c)); cbn [declared_of]; auto.
    pose proof (@cached_decl c cache n e0 F0) as Q. destruct e0 as [v b l dc]. cbn in *. subst dc. reflexivity.
Qed.

Lemma fetched c cache w fuel s t tr fx n :
  order_ok w ->
  new_store c cache w fuel = OOk s t tr fx ->
  In n (c_names c) -> find n (cached c cache) = None ->
  exists ts te v b, In (EvReq n ts te (Some (v, b))) tr /\
     find n (m s) = Some (Some (CE v b (now_s w te) true)).
Proof.
  intros Ho H Hn F0. pose proof (@new_store_ok_nostub c cache w fuel s t tr fx Ho H n) as NS.
  pose proof (@new_store_inv c cache w fuel (fun mm _ tr =>
     find n mm = Some None \/ exists ts te v b, In (EvReq n ts te (Some (v, b))) tr /\
        find n mm = Some (Some (CE v b (now_s w te) true)))) as HI.
  rewrite H in HI. destruct HI as [Q|(ts & te & v & b & Hin & F)].
  - intros k mm t0 tr0 te out HP F R. rewrite find_install.
    destruct (neqb n k) eqn:E.
    + apply neqb_true in E. subst k. destruct out as [[v b]|].
      * right. exists t0, te, v, b. split; [left; reflexivity|reflexivity].
      * left. exact F.
    + assert (Q : find n (match out with Some (v, b) => upd k (Some (CE v b (now_s w te) true)) mm | None => mm end) = find n mm).
      { destruct out as [[v b]|]; auto. rewrite find_upd_cases, E. reflexivity. }
      destruct out as [[v b]|]; rewrite ?E.
      * destruct HP as [HP|(ts & te' & v' & b' & Hin & F')]; [left; exact HP|].
        right. exists ts, te', v', b'. split; [right; exact Hin|exact F'].
      * destruct HP as [HP|(ts & te' & v' & b' & Hin & F')]; [left; exact HP|].
        right. exists ts, te', v', b'. split; [right; exact Hin|exact F'].
  - intros _ mm t0 tr0 [HP|(ts & te' & v' & b' & Hin & F')]; [left; exact HP|].
    right. exists ts, te', v', b'. split; [right; exact Hin|exact F'].
  - intros m1 want D. left. apply (@declare_stub c cache _ _ n D). auto.
  - contradiction.
  - exists ts, te, v, b. split; auto. apply in_rev. exact Hin.
Qed.

Lemma nothing_else c cache w fuel n :
  ~ In n (c_names c) -> find n (cached c cache) = None ->
  ~ requested n (trace_of (new_store c cache w fuel)) /\
  forall s t tr fx, new_store c cache w fuel = OOk s t tr fx -> find n (m s) = None.
Proof.
  intros Hn F0.
  set (P := fun (mm : smapE) (_ : N) (tr : list ev) => find n mm = None /\ forall e, In e tr -> is_req n e = false).
  assert (Hreq : req_step w P).
  { intros k mm t0 tr0 te out [F1 Hno] F R.
    assert (Hkn : neqb k n = false). { apply neqb_false. intros ->. congruence. }
    split.
    - rewrite install_other; auto. congruence.
    - intros e [<-|Hin]; auto. }
  assert (Hsl : sleep_step w (c_file c) P).
  { intros _ mm t0 tr0 [F1 Hno]. split; auto. intros e [<-|Hin]; auto. }
  assert (H0 : forall m1 want, declare (cached c cache) (norm_names (c_names c)) = (m1, want) -> P m1 (w_t0 w) []).
  { intros m1 want D. split; [|intros e []]. rewrite (@declare_find c cache _ _ n D).
    apply mem_false in Hn. rewrite Hn. exact F0. }
  split.
  - destruct (@new_store_trace c cache w fuel P Hreq Hsl H0) as [E|(mm & t & tr0 & E & _ & Hno)].
    + rewrite E. intros (e & [] & _).
    + rewrite E. apply not_requested_rev. exact Hno.
  - intros s t tr fx H. pose proof (@new_store_inv c cache w fuel P Hreq Hsl H0) as HI.
    rewrite H in HI. apply HI.
Qed.

(* ---------------------------------------------------------------- 3. never re-fetched *)
(* on the newest-first trace: a request for n has no successful request for n before it *)
Fixpoint wf (tr : list ev) : Prop :=
  match tr with
  | [] => True
  | e :: r => (forall n, is_req n e = true -> forall e', In e' r -> is_ok_req n e' = false) /\ wf r
  end.

Lemma wf_app n e0 : forall a b, wf (a ++ e0 :: b) -> is_ok_req n e0 = true -> forall e, In e a -> is_req n e = false.
Proof.
  induction a as [|x a IH]; intros b W Hok e; [intros []|].
  cbn [app wf] in W. destruct W as [W1 W2]. intros [<-|Hin].
  - destruct (is_req n x) eqn:E; auto. rewrite (W1 n E e0) in Hok; [discriminate|].
    apply in_or_app. right. left. reflexivity.
  - eapply IH; eauto.
Qed.

Lemma no_refetch c cache w fuel n l1 ts te r l2 :
  trace_of (new_store c cache w fuel) = l1 ++ EvReq n ts te (Some r) :: l2 ->
  forall e, In e l2 -> is_req n e = false.
Proof.
  intros E e He.
  destruct (@new_store_trace c cache w fuel (fun mm _ tr => wf tr /\
     forall k e, In e tr -> is_ok_req k e = true -> find k mm <> Some None)) as [E0|(mm & t & tr0 & E0 & W & _)].
  - intros k mm t0 tr0 te' out [W Hok] F R. split.
    + cbn [wf]. split; auto. intros k' Q e' Hin. cbn [is_req] in Q. apply neqb_true in Q. subst k'.
      destruct (is_ok_req k e') eqn:E1; auto. exfalso. exact (Hok k e' Hin E1 F).
    + intros k' e' [<-|Hin] Q St; apply install_stub_mono in St as St'.
      * cbn [is_ok_req] in Q. destruct out as [[v b]|]; [|discriminate]. apply neqb_true in Q. subst k'.
        rewrite find_install, neqb_refl in St. discriminate.
      * exact (Hok k' e' Hin Q St').
  - intros _ mm t0 tr0 [W Hok]. split.
    + cbn [wf]. split; auto. intros k Q. discriminate.
    + intros k e' [<-|Hin] Q; [discriminate|eauto].
  - intros m1 want D. split; [exact I|intros k e' []].
  - rewrite E0 in E. destruct l1; discriminate.
  - rewrite E0 in E. apply (f_equal (@rev ev)) in E. rewrite rev_involutive in E.
    rewrite rev_app_distr in E. cbn [rev] in E. rewrite <- app_assoc in E. cbn [app] in E.
    subst tr0. apply (@wf_app n (EvReq n ts te (Some r)) (rev l2) (rev l1) W).
    + cbn [is_ok_req]. apply neqb_refl.
    + apply in_rev in He. exact He.
Qed.

(* ---------------------------------------------------------------- 4. back-off *)
Lemma sleeps_bounded c cache w fuel ts te :
  In (EvSleep ts te) (trace_of (new_store c cache w fuel)) -> (ts <= te /\ te - ts <= 4096 * ns_per_ms)%N.
Proof.
  intro Hin.
  destruct (@new_store_trace c cache w fuel (fun _ _ tr =>
     forall ts te, In (EvSleep ts te) tr -> (ts <= te /\ te - ts <= 4096 * ns_per_ms)%N)) as [E0|(mm & t & tr0 & E0 & HP)].
  - intros k mm t0 tr0 te' out HP F R ts' te'' [Q|Q]; [discriminate|auto].
  - intros _ mm t0 tr0 HP ts' te' [Q|Q]; [|auto]. injection Q as <- <-.
    pose proof (sleep_ge w t0 (wait_k (length (filter (@is_sleep V) tr0)) * ns_per_ms)) as G.
    pose proof (sleep_le w t0 (wait_k (length (filter (@is_sleep V) tr0)) * ns_per_ms)) as L.
    pose proof (wait_bounded (length (filter (@is_sleep V) tr0))) as B.
    assert (wait_k (length (filter (@is_sleep V) tr0)) * ns_per_ms <= 4096 * ns_per_ms)%N
      by (apply N.mul_le_mono_r; lia).
    lia.
  - intros m1 want D ts' te' [].
  - rewrite E0 in Hin. destruct Hin.
  - rewrite E0 in Hin. apply in_rev in Hin. auto.
Qed.

Lemma filter_rev' (A : Type) (f : A -> bool) (l : list A) : filter f (rev l) = rev (filter f l).
Proof.
  induction l as [|a l IH]; cbn [rev filter]; auto.
  rewrite filter_app, IH. cbn [filter]. destruct (f a); cbn [rev]; [reflexivity|apply app_nil_r].
Qed.

Lemma sleeps_exact c cache w fuel i ts te :
  w_deadline w = None ->
  nth_error (filter (@is_sleep V) (trace_of (new_store c cache w fuel))) i = Some (EvSleep ts te) ->
  te = (ts + wait_k i * ns_per_ms)%N.
Proof.
  intros Hd Hn.
  destruct (@new_store_trace c cache w fuel (fun _ _ tr =>
     forall i ts te, nth_error (rev (filter (@is_sleep V) tr)) i = Some (EvSleep ts te) ->
        te = (ts + wait_k i * ns_per_ms)%N)) as [E0|(mm & t & tr0 & E0 & HP)].
  - intros k mm t0 tr0 te' out HP F R. cbn [filter is_sleep]. exact HP.
  - intros _ mm t0 tr0 HP j ts' te'. cbn [filter is_sleep rev].
    set (q := filter (@is_sleep V) tr0) in *.
    destruct (Nat.lt_ge_cases j (length (rev q))) as [Lt|Ge].
    + rewrite nth_error_app1 by exact Lt. apply HP.
    + rewrite nth_error_app2 by exact Ge. rewrite rev_length in Ge.
      destruct (j - length (rev q))%nat as [|j'] eqn:Ej.
      * cbn [nth_error]. intro Q. injection Q as <- <-. rewrite rev_length in Ej.
        assert (j = length q) by lia. subst j. apply sleep_nodl. exact Hd.
      * cbn [nth_error]. destruct j'; discriminate.
  - intros m1 want D j ts' te'. cbn. destruct j; discriminate.
  - rewrite E0 in Hn. cbn in Hn. destruct i; discriminate.
  - rewrite E0, filter_rev' in Hn. eauto.
Qed.

(* ---------------------------------------------------------------- 5. complete cache *)
Lemma round_nostub w : forall l s, (forall n, find n (r_m s) <> Some None) -> round w l s = RGo s.
Proof.
  induction l as [|a l IH]; intros s H; cbn [round]; auto.
  destruct (find a (r_m s)) as [[e|]|] eqn:F; auto. exfalso. exact (H a F).
Qed.

Lemma full_cache_silent c d w fuel :
  c_client c = true -> names_ok (c_names c) (c_allow c) = true -> c_cache c = true ->
  cache_valid d = true ->
  (forall n, In n (c_names c) -> exists e, find n (of_cache d) = Some (Some e)) ->
  exists s : store V, new_store c (Some d) w (S fuel) = OOk s (w_t0 w) [] [] /\
            (forall n e, find n (of_cache d) = Some (Some e) ->
                find n (m s) = Some (Some (CE (ver e) (val e) (last e) (mem n (c_names c))))) /\
            (forall n, find n (of_cache d) = None -> find n (m s) = None).
Proof.
  intros Hc Hn Hcc Vd All.
  assert (Ec : cached c (Some d) = of_cache d) by (unfold cached, load_cache; rewrite Hcc, Vd; reflexivity).
  unfold new_store. rewrite Hc, Hn. cbn [negb].
  destruct (declare (cached c (Some d)) (norm_names (c_names c))) as [m1 want] eqn:D.
  assert (Hw : want = false).
  { pose proof (@declare_fold_want (norm_names (c_names c)) (cached c (Some d)) false) as Q.
    unfold declare in D. rewrite D in Q. cbn [snd] in Q. apply Q.
    intros n Hin. rewrite Ec. apply All. apply norm_names_in. exact Hin. }
  assert (NS : forall n, find n m1 <> Some None).
  { intros n Q. apply (@declare_stub c (Some d) _ _ n D) in Q. destruct Q as [Q1 Q2].
    rewrite Ec in Q2. destruct (All n Q1) as [e Q3]. congruence. }
  cbn [init_loop]. rewrite (@round_nostub w _ (RST m1 (w_t0 w) 0 [])) by exact NS. cbn [r_miss r_m r_t r_tr rev].
  subst want. cbn [andb]. eexists. split; [reflexivity|]. cbn [m]. split.
  - intros n e F. rewrite (@declare_find c (Some d) _ _ n D), Ec, F.
    destruct (mem n (c_names c)); cbn [declared_of]; auto.
    pose proof (@of_cache_decl d n e F) as Q. destruct e as [v b l dc]. cbn in *. subst dc. reflexivity.
  - intros n F. rewrite (@declare_find c (Some d) _ _ n D), Ec, F.
    destruct (mem n (c_names c)) eqn:M; auto. apply mem_In in M. destruct (All n M) as [e Q]. congruence.
Qed.

(* ---------------------------------------------------------------- 6. while the context lives *)
Lemma round_nodl w : w_deadline w = None -> forall l s, exists s', round w l s = RGo s'.
Proof.
  intros Hd. induction l as [|a l IH]; intros s; cbn [round]; eauto.
  destruct (find a (r_m s)) as [[e|]|]; auto.
  destruct (request w a (nreq a (r_tr s)) (r_t s)) as [te out]. destruct out as [[v b]|]; auto.
  rewrite (dead_nodl w te Hd). auto.
Qed.

Lemma loop_nodl w : w_deadline w = None -> forall fuel k wait mm t tr t' tr',
  init_loop w false fuel k wait mm t tr <> LFail t' tr'.
Proof.
  intros Hd. induction fuel as [|f IH]; intros k wait mm t tr t' tr'; cbn [init_loop]; [discriminate|].
  destruct (@round_nodl w Hd (w_order w k (map fst mm)) (RST mm t 0 tr)) as [s' ->].
  destruct (r_miss s'); [discriminate|]. apply IH.
Qed.

Lemma keeps_retrying c cache w fuel :
  w_deadline w = None -> c_file c = false ->
  forall t tr, new_store c cache w fuel <> OFail t tr.
Proof.
  intros Hd Hf t tr. unfold new_store.
  destruct (negb (c_client c)); [discriminate|]. destruct (negb (names_ok (c_names c) (c_allow c))); [discriminate|].
  destruct (declare (cached c cache) (norm_names (c_names c))) as [m1 want].
  rewrite Hf. pose proof (@loop_nodl w Hd fuel 0%nat 1%N m1 (w_t0 w) []) as H.
  destruct (init_loop w false fuel 0 1 m1 (w_t0 w) []) as [mm t' trl|t' trl|trl]; try discriminate.
  exfalso. exact (H _ _ eq_refl).
Qed.

(* ---------------------------------------------------------------- 7. context end *)
Lemma ctx_prompt c cache w fuel D :
  w_deadline w = Some D ->
  match new_store c cache w fuel with
  | OOk _ t _ _ | OFail t _ => (t <= N.max (w_t0 w) D)%N
  | _ => True end.
Proof.
  intro Hd.
  pose proof (@new_store_inv c cache w fuel (fun _ t _ => (t <= N.max (w_t0 w) D)%N)) as HI.
  destruct (new_store c cache w fuel) as [|s t tr fx|t tr|tr]; auto.
  - apply HI.
    + intros k mm t0 tr0 te out HP F R. pose proof (@request_le w k _ t0 te out D Hd R). lia.
    + intros _ mm t0 tr0 HP. pose proof (@sleep_le_deadline w t0 (wait_k (length (filter (@is_sleep V) tr0)) * ns_per_ms) D Hd). lia.
    + intros. lia.
  - destruct HI as [_ HI]; auto.
    + intros k mm t0 tr0 te out HP F R. pose proof (@request_le w k _ t0 te out D Hd R). lia.
    + intros _ mm t0 tr0 HP. pose proof (@sleep_le_deadline w t0 (wait_k (length (filter (@is_sleep V) tr0)) * ns_per_ms) D Hd). lia.
    + intros. lia.
Qed.

Lemma time_monotone c cache w fuel :
  match new_store c cache w fuel with
  | OOk _ t _ _ | OFail t _ => (w_t0 w <= t)%N
  | _ => True end.
Proof.
  pose proof (@new_store_inv c cache w fuel (fun _ t _ => (w_t0 w <= t)%N)) as HI.
  destruct (new_store c cache w fuel) as [|s t tr fx|t tr|tr]; auto.
  - apply HI.
    + intros k mm t0 tr0 te out HP F R. pose proof (@request_ge w k _ t0 te out R). lia.
    + intros _ mm t0 tr0 HP. pose proof (sleep_ge w t0 (wait_k (length (filter (@is_sleep V) tr0)) * ns_per_ms)). lia.
    + intros. lia.
  - destruct HI as [_ HI]; auto.
    + intros k mm t0 tr0 te out HP F R. pose proof (@request_ge w k _ t0 te out R). lia.
    + intros _ mm t0 tr0 HP. pose proof (sleep_ge w t0 (wait_k (length (filter (@is_sleep V) tr0)) * ns_per_ms)). lia.
    + intros. lia.
Qed.

Lemma stays_stub w n : (forall j, a_res (w_script w n j) = None) ->
  req_step w (fun mm _ _ => find n mm = Some None).
Proof.
  intros Hf k mm t0 tr0 te out HP F R. rewrite find_install. destruct out as [[v b]|]; auto.
  destruct (neqb n k) eqn:E; auto. apply neqb_true in E. subst k.
  pose proof (@request_fail w n _ t0 te _ (Hf _) R). discriminate.
Qed.

Lemma failing_name_no_success c cache w fuel n :
  order_ok w ->
  In n (c_names c) -> find n (cached c cache) = None ->
  (forall j, a_res (w_script w n j) = None) ->
  forall s t tr fx, new_store c cache w fuel <> OOk s t tr fx.
Proof.
  intros Ho Hn F0 Hf s t tr fx H.
  pose proof (@new_store_inv c cache w fuel (fun mm _ _ => find n mm = Some None)) as HI.
  rewrite H in HI. apply (@new_store_ok_nostub c cache w fuel s t tr fx Ho H n). apply HI.
  - apply stays_stub. exact Hf.
  - intros _ mm t0 tr0 HP. exact HP.
  - intros m1 want D. apply (@declare_stub c cache _ _ n D). auto.
Qed.

(* ---------------------------------------------------------------- 9. misconfiguration *)
Lemma misconfig_no_client c cache w fuel : c_client c = false -> new_store c cache w fuel = OMisconfig V.
Proof. intro H. unfold new_store. rewrite H. reflexivity. Qed.

Lemma misconfig_empty_name c cache w fuel : In [] (c_names c) -> new_store c cache w fuel = OMisconfig V.
Proof.
  intro H. unfold new_store. destruct (negb (c_client c)); auto.
  assert (Q : names_ok (c_names c) (c_allow c) = false).
  { unfold names_ok. apply andb_false_iff. left. apply negb_false_iff. apply existsb_exists. exists []. auto. }
  rewrite Q. reflexivity.
Qed.

Lemma misconfig_no_secrets c cache w fuel : c_names c = [] -> c_allow c = false -> new_store c cache w fuel = OMisconfig V.
Proof.
  intros H1 H2. unfold new_store. destruct (negb (c_client c)); auto.
  unfold names_ok. rewrite H1, H2. reflexivity.
Qed.

Lemma misconfig_only c cache w fuel :
  new_store c cache w fuel = OMisconfig V -> c_client c = false \/ In [] (c_names c) \/ (c_names c = [] /\ c_allow c = false).
Proof.
  unfold new_store. destruct (c_client c); cbn [negb]; auto.
  destruct (names_ok (c_names c) (c_allow c)) eqn:Nk; cbn [negb].
  - destruct (declare (cached c cache) (norm_names (c_names c))) as [m1 want].
    destruct (init_loop w (c_file c) fuel 0 1 m1 (w_t0 w) []); discriminate.
  - intros _. right. unfold names_ok in Nk. apply andb_false_iff in Nk. destruct Nk as [Nk|Nk].
    + left. apply negb_false_iff in Nk. apply existsb_exists in Nk. destruct Nk as (x & Hx & Q).
      destruct x; [exact Hx|discriminate].
    + right. destruct (c_names c); auto. discriminate.
Qed.

(* ---------------------------------------------------------------- 10. invalid cache *)
Lemma invalid_cache_ignored c d w fuel : cache_valid d = false -> new_store c (Some d) w fuel = new_store c None w fuel.
Proof.
  intro H. assert (E : cached c (Some d) = cached c None).
  { unfold cached, load_cache. rewrite H. reflexivity. }
  unfold new_store. rewrite E. reflexivity.
Qed.

(* ---------------------------------------------------------------- 7c. enough fuel => not out of fuel *)
Lemma round_time w : forall l s,
  match round w l s with
  | RGo s' => (r_t s <= r_t s')%N /\ forall D, w_deadline w = Some D -> (r_t s' <= N.max (r_t s) D)%N
  | RStop _ _ => True
  end.
Proof.
  intros l s.
  pose proof (@round_inv w (fun _ t _ => (r_t s <= t)%N /\ forall D, w_deadline w = Some D -> (t <= N.max (r_t s) D)%N)) as H.
  assert (Hreq : req_step w (fun _ t _ => (r_t s <= t)%N /\ forall D, w_deadline w = Some D -> (t <= N.max (r_t s) D)%N)).
  { intros k mm t0 tr0 te out [H1 H2] F R. pose proof (@request_ge w k _ t0 te out R). split; [lia|].
    intros D Hd. pose proof (@request_le w k _ t0 te out D Hd R). specialize (H2 D Hd). lia. }
  specialize (H Hreq l s). destruct (round w l s); auto. apply H. split; [lia|]. intros; lia.
Qed.

Lemma round_dead w : forall l s s', dead w (r_t s) = true -> round w l s = RGo s' -> r_miss s' = r_miss s.
Proof.
  induction l as [|a l IH]; intros s s' Hd; cbn [round].
  - intro Q. injection Q as <-. reflexivity.
  - destruct (find a (r_m s)) as [[e|]|]; try (apply IH; exact Hd).
    destruct (request w a (nreq a (r_tr s)) (r_t s)) as [te out] eqn:R.
    pose proof (@request_dead w a _ (r_t s) te out Hd R) as Q. subst te.
    destruct out as [[v b]|].
    + intro R2. apply IH in R2; auto.
    + rewrite Hd. discriminate.
Qed.

Lemma loop_terminates w file D : w_deadline w = Some D -> forall fuel k wait mm t tr,
  (1 <= wait)%N ->
  (dead w t = true /\ (1 <= fuel)%nat) \/
  (dead w t = false /\ (D - t + 2 * ns_per_ms <= ns_per_ms * N.of_nat fuel)%N) ->
  forall tr', init_loop w file fuel k wait mm t tr <> LFuel tr'.
Proof.
  intros HD. induction fuel as [|f IH]; intros k wait mm t tr Hw Hc tr'.
  - exfalso. destruct Hc as [[_ Hc]|[_ Hc]]; [lia|]. unfold ns_per_ms in Hc. lia.
  - cbn [init_loop].
    pose proof (round_time w (w_order w k (map fst mm)) (RST mm t 0 tr)) as RT.
    pose proof (@round_dead w (w_order w k (map fst mm)) (RST mm t 0 tr)) as RD.
    destruct (round w (w_order w k (map fst mm)) (RST mm t 0 tr)) as [s|t1 tr1]; [|discriminate].
    cbn [r_t r_miss] in RT, RD. destruct RT as [T1 T2]. specialize (T2 D HD).
    destruct (r_miss s) as [|mis] eqn:M; [discriminate|].
    destruct file; [discriminate|].
    assert (Dl : dead w t = false).
    { destruct Hc as [[Hc _]|[Hc _]]; auto. specialize (RD s Hc eq_refl). congruence. }
    destruct Hc as [[Hc _]|[_ Hc]]; [congruence|].
    pose proof (next_wait_ge wait) as Hw'.
    apply IH; [lia|].
    unfold dead in Dl |- *. unfold sleep, dead. rewrite HD in *. apply N.leb_gt in Dl.
    destruct (D <=? r_t s)%N eqn:E1.
    + left. split; auto. unfold ns_per_ms in Hc. lia.
    + apply N.leb_gt in E1.
      destruct (D <=? N.min (r_t s + wait * ns_per_ms) D)%N eqn:E2.
      * left. split; auto. unfold ns_per_ms in Hc. lia.
      * right. split; auto. apply N.leb_gt in E2. unfold ns_per_ms in *. lia.
Qed.

Lemma ctx_terminates c cache w fuel D :
  w_deadline w = Some D ->
  (D - w_t0 w + 2 * ns_per_ms <= ns_per_ms * N.of_nat fuel)%N ->
  forall tr, new_store c cache w fuel <> OFuel tr.
Proof.
  intros HD Hf tr. unfold new_store.
  destruct (negb (c_client c)); [discriminate|]. destruct (negb (names_ok (c_names c) (c_allow c))); [discriminate|].
  destruct (declare (cached c cache) (norm_names (c_names c))) as [m1 want].
  assert (Hc : (dead w (w_t0 w) = true /\ (1 <= fuel)%nat) \/
               (dead w (w_t0 w) = false /\ (D - w_t0 w + 2 * ns_per_ms <= ns_per_ms * N.of_nat fuel)%N)).
  { destruct (dead w (w_t0 w)); [left|right]; split; auto. unfold ns_per_ms in Hf. lia. }
  pose proof (@loop_terminates w (c_file c) D HD fuel 0%nat 1%N m1 (w_t0 w) [] ltac:(lia) Hc) as H.
  destruct (init_loop w (c_file c) fuel 0 1 m1 (w_t0 w) []) as [mm t' trl|t' trl|trl]; try discriminate.
  exfalso. exact (H _ eq_refl).
Qed.

(* ---------------------------------------------------------------- 8. file client *)
Definition lres_tr (r : lres V) : list ev := match r with LDone _ _ tr => tr | LFail _ tr => tr | LFuel tr => tr end.

Lemma loop_file_tr w fuel k wait mm t tr :
  lres_tr (init_loop w true fuel k wait mm t tr) =
  match fuel with O => tr | S _ => res_tr (round w (w_order w k (map fst mm)) (RST mm t 0 tr)) end.
Proof.
  destruct fuel as [|f]; cbn [init_loop lres_tr]; auto.
  destruct (round w (w_order w k (map fst mm)) (RST mm t 0 tr)) as [s|t1 tr1]; cbn [res_tr lres_tr]; auto.
  destruct (r_miss s); reflexivity.
Qed.

Lemma round_nreq w k : forall l s, NoDup l ->
  (nreq k (res_tr (round w l s)) <= nreq k (r_tr s) + (if mem k l then 1 else 0))%nat.
Proof.
  induction l as [|a l IH]; intros s ND; cbn [round].
  - cbn [res_tr]. lia.
  - inversion ND as [|? ? Ha ND']; subst. rewrite mem_cons.
    assert (Mono : forall x, (x + (if mem k l then 1 else 0) <= x + (if neqb k a || mem k l then 1 else 0))%nat).
    { intro x. destruct (neqb k a), (mem k l); cbn [orb]; lia. }
    destruct (find a (r_m s)) as [[e|]|].
    + specialize (IH s ND'). specialize (Mono (nreq k (r_tr s))). lia.
    + destruct (request w a (nreq a (r_tr s)) (r_t s)) as [te out].
      assert (Q : (nreq k (EvReq a (r_t s) te out :: r_tr s) + (if mem k l then 1 else 0)
                   <= nreq k (r_tr s) + (if neqb k a || mem k l then 1 else 0))%nat).
      { rewrite nreq_cons_req. rewrite (neqb_sym k a). destruct (neqb a k) eqn:E; cbn [orb].
        - apply neqb_true in E. subst k. apply mem_false in Ha. rewrite Ha. lia.
        - destruct (mem k l); lia. }
      destruct out as [[v b]|].
      * pose proof (IH (RST (upd a (Some (CE v b (now_s w te) true)) (r_m s)) te (r_miss s) (EvReq a (r_t s) te (Some (v, b)) :: r_tr s)) ND') as H.
        cbn [r_tr] in H. lia.
      * destruct (dead w te).
        -- cbn [res_tr]. lia.
        -- pose proof (IH (RST (r_m s) te (S (r_miss s)) (EvReq a (r_t s) te None :: r_tr s)) ND') as H.
           cbn [r_tr] in H. lia.
    + specialize (IH s ND'). specialize (Mono (nreq k (r_tr s))). lia.
Qed.

Lemma nreq_rev k tr : nreq k (rev tr) = nreq k tr.
Proof. unfold nreq. rewrite filter_rev'. apply rev_length. Qed.

Lemma fileclient_one_round c cache w fuel :
  c_file c = true -> order_ok w -> cache_sorted cache ->
  let tr := trace_of (new_store c cache w fuel) in
  (forall e, In e tr -> is_sleep e = false) /\ (forall k, nreq k tr <= 1)%nat /\
  forall tr', new_store c cache w (S fuel) <> OFuel tr'.
Proof.
  intros Hf Ho Hc. cbn zeta. split; [|split].
  - destruct (@new_store_trace c cache w fuel (fun _ _ tr => forall e, In e tr -> is_sleep e = false))
      as [E0|(mm & t & tr0 & E0 & HP)].
    + intros k mm t0 tr0 te out HP F R e [<-|Hin]; auto.
    + intros Q. congruence.
    + intros m1 want D e [].
    + rewrite E0. intros e [].
    + rewrite E0. intros e Hin. apply in_rev in Hin. auto.
  - intro k. unfold new_store.
    destruct (negb (c_client c)); [cbn; lia|]. destruct (negb (names_ok (c_names c) (c_allow c))); [cbn; lia|].
    destruct (declare (cached c cache) (norm_names (c_names c))) as [m1 want] eqn:D.
    rewrite Hf.
    assert (E : trace_of (match init_loop w true fuel 0 1 m1 (w_t0 w) [] with
       | LDone mm t tr => OOk (ST mm [] [] (c_allow c) (c_age c)) t (rev tr)
            (if want && c_cache c then [Flush (doc (ST mm [] [] (c_allow c) (c_age c)))] else [])
       | LFail t tr => OFail t (rev tr)
       | LFuel tr => OFuel (rev tr) end) = rev (lres_tr (init_loop w true fuel 0 1 m1 (w_t0 w) []))).
    { destruct (init_loop w true fuel 0 1 m1 (w_t0 w) []); reflexivity. }
    rewrite E, nreq_rev, loop_file_tr. destruct fuel as [|f]; [cbn; lia|].
    assert (ND : NoDup (w_order w 0 (map fst m1))).
    { eapply Permutation_NoDup; [apply Permutation_sym, Ho|]. apply sorted_keys_nodup.
      eapply declare_sorted; eauto. }
    pose proof (@round_nreq w k _ (RST m1 (w_t0 w) 0 []) ND) as H. cbn [r_tr] in H.
    change (nreq k []) with 0%nat in H. destruct (mem k (w_order w 0 (map fst m1))); lia.
  - intros tr'. unfold new_store.
    destruct (negb (c_client c)); [discriminate|]. destruct (negb (names_ok (c_names c) (c_allow c))); [discriminate|].
    destruct (declare (cached c cache) (norm_names (c_names c))) as [m1 want].
    rewrite Hf. cbn [init_loop].
    destruct (round w (w_order w 0 (map fst m1)) (RST m1 (w_t0 w) 0 [])) as [s|t1 tr1]; [|discriminate].
    destruct (r_miss s); discriminate.
Qed.

Lemma fileclient_fails_fast c cache w fuel n :
  c_client c = true -> names_ok (c_names c) (c_allow c) = true -> c_file c = true ->
  order_ok w -> cache_sorted cache ->
  In n (c_names c) -> find n (cached c cache) = None -> (forall j, a_res (w_script w n j) = None) ->
  exists t tr, new_store c cache w (S fuel) = OFail t tr /\
     (forall e, In e tr -> is_sleep e = false) /\ (forall k, nreq k tr <= 1)%nat.
Proof.
  intros Hcl Hnk Hf Ho Hc Hn F0 Hfail.
  destruct (@fileclient_one_round c cache w (S fuel) Hf Ho Hc) as (T1 & T2 & _).
  assert (E : exists t tr, new_store c cache w (S fuel) = OFail t tr).
  { unfold new_store. rewrite Hcl, Hnk, Hf. cbn [negb].
    destruct (declare (cached c cache) (norm_names (c_names c))) as [m1 want] eqn:D.
    cbn [init_loop].
    assert (St : find n m1 = Some None) by (apply (@declare_stub c cache _ _ n D); auto).
    pose proof (@round_inv w (fun mm _ _ => find n mm = Some None) (@stays_stub w n Hfail)
                  (w_order w 0 (map fst m1)) (RST m1 (w_t0 w) 0 []) St) as RI.
    destruct (round w (w_order w 0 (map fst m1)) (RST m1 (w_t0 w) 0 [])) as [s|t1 tr1] eqn:R; [|eauto].
    destruct (r_miss s) eqn:M; [|eauto].
    exfalso. destruct (@round_miss w _ _ _ R) as (_ & _ & Ns). cbn [r_miss] in Ns.
    apply (Ns M n); auto. eapply Permutation_in; [apply Permutation_sym, Ho|]. eapply find_some_keys. exact St. }
  destruct E as (t & tr & E). exists t, tr. split; auto. rewrite E in T1, T2. cbn [trace_of] in T1, T2. auto.
Qed.

(* ---------------------------------------------------------------- 6b. liveness *)
Lemma round_sorted w : forall l s, sorted (r_m s) ->
  match round w l s with RGo s' => sorted (r_m s') | RStop _ _ => True end.
Proof.
  intros l s S.
  pose proof (@round_inv w (fun mm _ _ => sorted mm)) as H.
  assert (Hreq : req_step w (fun mm _ _ => sorted mm)).
  { intros k mm t0 tr0 te out HP F R. apply install_sorted. exact HP. }
  specialize (H Hreq l s S). destruct (round w l s); auto.
Qed.

(* with the context alive, a name that is still a stub after a round over a duplicate-free order was
   asked exactly once in that round (if visited at all), and that request failed *)
Lemma round_progress w : w_deadline w = None -> forall l s s', NoDup l -> round w l s = RGo s' ->
  forall n, find n (r_m s') = Some None ->
    find n (r_m s) = Some None /\
    (In n l -> nreq n (r_tr s') = S (nreq n (r_tr s)) /\ a_res (w_script w n (nreq n (r_tr s))) = None) /\
    (~ In n l -> nreq n (r_tr s') = nreq n (r_tr s)).
Proof.
  intros Hd. induction l as [|a l IH]; intros s s' ND; cbn [round].
  - intro Q. injection Q as <-. intros n F. split; auto. split; [intros []|auto].
  - inversion ND as [|? ? Ha ND']; subst.
    destruct (find a (r_m s)) as [[e|]|] eqn:F.
    + intros R n Fn. destruct (IH _ _ ND' R n Fn) as (F1 & In1 & Out1).
      assert (Hna : n <> a) by (intros ->; congruence).
      split; auto. split.
      * intros [Q|Q]; [congruence|auto].
      * intros Q. apply Out1. intro. apply Q. right. auto.
    + rewrite (request_nodl w a (nreq a (r_tr s)) (r_t s) Hd).
      destruct (a_res (w_script w a (nreq a (r_tr s)))) as [[v b]|] eqn:A.
      * intros R n Fn. destruct (IH _ _ ND' R n Fn) as (F1 & In1 & Out1). cbn [r_m r_tr] in *.
        rewrite find_upd_cases in F1. destruct (neqb n a) eqn:E; [discriminate|].
        rewrite nreq_cons_req, (neqb_sym a n), E in In1, Out1. apply neqb_false in E.
        split; auto. split.
        -- intros [Q|Q]; [congruence|auto].
        -- intros Q. apply Out1. intro. apply Q. right. auto.
      * rewrite (dead_nodl w _ Hd).
        intros R n Fn. destruct (IH _ _ ND' R n Fn) as (F1 & In1 & Out1). cbn [r_m r_tr] in *.
        rewrite nreq_cons_req, (neqb_sym a n) in In1, Out1.
        split; auto. destruct (neqb n a) eqn:E.
        -- apply neqb_true in E. subst n. split; [|intros Q; exfalso; apply Q; left; reflexivity].
           intros _. split; auto.
        -- apply neqb_false in E. split.
           ++ intros [Q|Q]; [congruence|auto].
           ++ intros Q. apply Out1. intro. apply Q. right. auto.
    + intros R n Fn. destruct (IH _ _ ND' R n Fn) as (F1 & In1 & Out1).
      assert (Hna : n <> a) by (intros ->; congruence).
      split; auto. split.
      * intros [Q|Q]; [congruence|auto].
      * intros Q. apply Out1. intro. apply Q. right. auto.
Qed.

Lemma round_all_succeed w : w_deadline w = None -> forall l s,
  (forall n, In n l -> find n (r_m s) = Some None -> a_res (w_script w n (nreq n (r_tr s))) <> None) ->
  exists s', round w l s = RGo s' /\ r_miss s' = r_miss s.
Proof.
  intros Hd. induction l as [|a l IH]; intros s H; cbn [round]; [eauto|].
  destruct (find a (r_m s)) as [[e|]|] eqn:F.
  - apply IH. intros n Hn. apply H. right. exact Hn.
  - rewrite (request_nodl w a (nreq a (r_tr s)) (r_t s) Hd).
    pose proof (H a (or_introl eq_refl) F) as A.
    destruct (a_res (w_script w a (nreq a (r_tr s)))) as [[v b]|]; [|congruence].
    match goal with |- exists s', round w l ?S = _ /\ _ => destruct (IH S) as (s' & R & M) end.
    + cbn [r_m r_tr]. intros n Hn Fn. rewrite find_upd_cases in Fn. destruct (neqb n a) eqn:E; [discriminate|].
      rewrite nreq_cons_req, (neqb_sym a n), E. apply H; auto. right. exact Hn.
    + exists s'. split; auto.
  - apply IH. intros n Hn. apply H. right. exact Hn.
Qed.

Lemma loop_succeeds w J : w_deadline w = None -> order_ok w -> forall fuel k wait mm t tr,
  sorted mm -> (k <= J)%nat -> (J < k + fuel)%nat ->
  (forall n, find n mm = Some None ->
     nreq n tr = k /\ exists j, (k <= j <= J)%nat /\ a_res (w_script w n j) <> None) ->
  exists mm' t' tr', init_loop w false fuel k wait mm t tr = LDone mm' t' tr'.
Proof.
  intros Hd Ho. induction fuel as [|f IH]; intros k wait mm t tr Srt Hk Hf Q; [lia|].
  cbn [init_loop].
  assert (ND : NoDup (w_order w k (map fst mm))).
  { eapply Permutation_NoDup; [apply Permutation_sym, Ho|]. apply sorted_keys_nodup. exact Srt. }
  assert (Hin : forall n, find n mm = Some None -> In n (w_order w k (map fst mm))).
  { intros n Fn. eapply Permutation_in; [apply Permutation_sym, Ho|]. eapply find_some_keys. exact Fn. }
  pose proof (@round_sorted w (w_order w k (map fst mm)) (RST mm t 0 tr) Srt) as RS.
  destruct (@round_nodl w Hd (w_order w k (map fst mm)) (RST mm t 0 tr)) as [s' R]. rewrite R in *.
  destruct (r_miss s') as [|mis] eqn:M; [eauto|].
  destruct (Nat.eq_dec k J) as [->|Hne].
  - exfalso. destruct (@round_all_succeed w Hd (w_order w J (map fst mm)) (RST mm t 0 tr)) as (s2 & R2 & M2).
    + cbn [r_m r_tr]. intros n _ Fn. destruct (Q n Fn) as (Q1 & j & Hj & Q2).
      assert (j = J) by lia. subst j. rewrite Q1. exact Q2.
    + rewrite R in R2. injection R2 as <-. cbn [r_miss] in M2. congruence.
  - apply IH; [exact RS|lia|lia|].
    intros n Fn. rewrite nreq_cons_sleep.
    destruct (@round_progress w Hd _ _ _ ND R n Fn) as (F1 & In1 & _). cbn [r_m r_tr] in *.
    destruct (In1 (Hin n F1)) as [N1 A1]. destruct (Q n F1) as (Q1 & j & Hj & Q2).
    split; [lia|]. exists j. split; auto.
    assert (j <> k) by (intros ->; rewrite Q1 in A1; contradiction). lia.
Qed.

Lemma eventually_succeeds c cache w :
  c_client c = true -> names_ok (c_names c) (c_allow c) = true ->
  w_deadline w = None -> c_file c = false -> order_ok w -> cache_sorted cache ->
  forall J, (forall n, In n (c_names c) -> find n (cached c cache) = None -> exists j, (j <= J)%nat /\ a_res (w_script w n j) <> None) ->
  forall fuel, (J < fuel)%nat -> exists s t tr fx, new_store c cache w fuel = OOk s t tr fx.
Proof.
  intros Hcl Hnk Hd Hf Ho Hc J HJ fuel Hfuel.
  unfold new_store. rewrite Hcl, Hnk, Hf. cbn [negb].
  destruct (declare (cached c cache) (norm_names (c_names c))) as [m1 want] eqn:D.
  destruct (@loop_succeeds w J Hd Ho fuel 0%nat 1%N m1 (w_t0 w) []) as (mm' & t' & tr' & L).
  - eapply declare_sorted; eauto.
  - lia.
  - lia.
  - intros n Fn. apply (@declare_stub c cache _ _ n D) in Fn. destruct Fn as [Hn F0].
    split; [reflexivity|]. destruct (HJ n Hn F0) as (j & Hj & A). exists j. split; [lia|exact A].
  - rewrite L. eauto.
Qed.

End InitProofs.
