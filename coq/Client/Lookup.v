(* C16 - lookup of undeclared secrets: (1) the policy of the four entry points, over the shared store
   model Client/Store.v; (2) a timed model of ONE name's flight table as lookupSecretInternal
   (client/setec/store.go:374-428) and singleflight.Group.DoChan implement it.  Executable only.

   Time is an N of milliseconds.  A caller i arrives (calls LookupSecret / NewUpdater / Apply for the
   unknown name) at arr, optionally with its own deadline dl and an instant cn at which its context
   is cancelled (both absolute).  store.go:388-392: a context without deadline gets arr + 5 min.
   The flight function runs with the context of the caller that started the flight (the closure
   captures that caller's ctx, store.go:394-395), so a flight ends when the service answers, or -
   the scripted service honours cancellation - when its owner's context ends.  Every caller waits
   on {its own context, the flight's result} (store.go:409-426):
     own context ends          -> its own context error, at that instant;
     flight succeeded          -> the handle (all waiters);
     flight failed, real error -> that error (all waiters), no retry;
     flight failed with a context error while this caller's context is alive -> DoChan again:
       the first of the retrying waiters starts the next flight (who is first is decided by the
       scheduler: an INPUT of the model, [wins]), the others join it.
   Instants are assumed pairwise distinct (the generator guarantees it; ties are decided by the
   Go scheduler and are outside the model). *)
From Coq Require Import List Bool NArith ZArith.
Import ListNotations.
From Setec Require Import Base.SMap Client.Store.
Set Implicit Arguments.
Open Scope N_scope.

(* ------------------------------------------------------------------ (1) policy *)
Inductive entry_point := EPSecret | EPLookup | EPUpdater | EPApply.
Inductive pol :=
| PHandle     (* a working handle; no request *)
| PNil        (* Secret returns nil; no request *)
| PPanic      (* Secret panics; no request *)
| PGateErr    (* "lookup is not enabled"; no request *)
| PFetch.     (* the name is fetched from the service (single flight below) *)

Section Policy.
Variable V : Type.
(* Secret (store.go:316), LookupSecret (:360), lookupWatcher (watcher.go:38) used by NewUpdater,
   fieldInfo.apply (fields.go:164/171, via LookupSecret) used by Fields.Apply *)
Definition policy (s : store V) (ep : entry_point) (n : name) : pol :=
  if known s n then PHandle
  else match ep with
       | EPSecret => if allow s then PNil else PPanic
       | EPLookup | EPUpdater | EPApply => if allow s then PFetch else PGateErr
       end.
Definition sends_request (p : pol) : bool := match p with PFetch => true | _ => false end.
End Policy.

(* ------------------------------------------------------------------ (2) one name's flights *)
Definition limit : N := 300000.   (* 5 * time.Minute *)

Record caller := C { arr : N; dl : option N; cn : option N }.
Inductive cls := KDeadline | KCanceled.

Definition deadline (c : caller) : N := match dl c with Some d => d | None => arr c + limit end.
(* when and how the caller's (possibly augmented) context ends *)
Definition cend (c : caller) : N * cls :=
  match cn c with
  | Some x => if x <? deadline c then (x, KCanceled) else (deadline c, KDeadline)
  | None => (deadline c, KDeadline)
  end.

Section Flights.
Variable V : Type.

Inductive svc := SAns (delay : N) (v : N) (b : V) | SFail (delay : N) | SHang.
Inductive res := RHandle | RSvcErr | ROwn (k : cls).
Inductive rout := OAnswered | OFailed | OCtx.
Inductive mark := MStart (owner : nat) (t : N) | MEnd (owner : nat) (t : N) (o : rout).

Record flight := F { fowner : nat; fstart : N; fscript : svc }.

Record lstate := LS {
  cs : list caller;              (* all callers, by index *)
  todo : list nat;               (* callers that have not called yet *)
  waiting : list nat;            (* callers blocked in the select *)
  fl : option flight;            (* the flight registered for this name, if any *)
  scripts : list svc;            (* what the service will do with the next requests *)
  wins : list nat;               (* scheduler input: who starts each retry flight *)
  done : list (nat * res * N);   (* caller, result, instant of return *)
  log : list mark;               (* request log of the service *)
  lst : store V                  (* the store *)
}.

Definition cget (s : lstate) (i : nat) : caller := nth i (cs s) (C 0 None None).
Definition cend_of (s : lstate) (i : nat) : N := fst (cend (cget s i)).

(* when the flight's request ends, and how *)
Definition fend (s : lstate) (f : flight) : N * rout :=
  let o := cend_of s (fowner f) in
  match fscript f with
  | SAns d _ _ => if fstart f + d <? o then (fstart f + d, OAnswered) else (o, OCtx)
  | SFail d => if fstart f + d <? o then (fstart f + d, OFailed) else (o, OCtx)
  | SHang => (o, OCtx)
  end.

Inductive ev := EvArr (i : nat) | EvFlight | EvCtx (i : nat).

Definition candidates (s : lstate) : list (N * ev) :=
  map (fun i => (arr (cget s i), EvArr i)) (todo s)
  ++ match fl s with Some f => match snd (fend s f) with OCtx => [] | _ => [(fst (fend s f), EvFlight)] end | None => [] end
  ++ map (fun i => (cend_of s i, EvCtx i)) (waiting s).

Fixpoint earliest (l : list (N * ev)) : option (N * ev) :=
  match l with
  | [] => None
  | x :: r => match earliest r with
              | Some y => if fst y <? fst x then Some y else Some x
              | None => Some x
              end
  end.

Definition remove_nat (i : nat) (l : list nat) : list nat := filter (fun j => negb (Nat.eqb i j)) l.
Definition mem_nat (i : nat) (l : list nat) : bool := existsb (Nat.eqb i) l.

Definition next_script (s : lstate) : svc * list svc :=
  match scripts s with x :: r => (x, r) | [] => (SHang, []) end.

(* the name under lookup, and the store-side effect of a successful flight (store.go:400-414, the code
   after the F8 repair 104da0c): Store.lookup_finish - install unless the name has a value by now *)
Variable nm : name.
Definition install (st : store V) (v : N) (b : V) (t : N) : store V :=
  fst (lookup_finish st nm v b (Z.of_N (t / 1000))).

Definition step (s : lstate) (t : N) (e : ev) : lstate :=
  match e with
  | EvArr i =>
      let todo' := remove_nat i (todo s) in
      if known (lst s) nm then
        (* LookupSecret finds the name (store.go:361-363): handle at once, no request *)
        LS (cs s) todo' (waiting s) (fl s) (scripts s) (wins s) (done s ++ [(i, RHandle, t)]) (log s)
           (fst (secret_locked (lst s) nm))
      else match fl s with
           | Some _ => LS (cs s) todo' (waiting s ++ [i]) (fl s) (scripts s) (wins s) (done s) (log s) (lst s)
           | None => let '(sc, rest) := next_script s in
                     LS (cs s) todo' (waiting s ++ [i]) (Some (F i t sc)) rest (wins s) (done s)
                        (log s ++ [MStart i t]) (lst s)
           end
  | EvFlight =>
      match fl s with
      | Some f =>
          match fscript f with
          | SAns _ v b =>
              LS (cs s) (todo s) [] None (scripts s) (wins s)
                 (done s ++ map (fun i => (i, RHandle, t)) (waiting s))
                 (log s ++ [MEnd (fowner f) t OAnswered]) (install (lst s) v b t)
          | _ =>
              LS (cs s) (todo s) [] None (scripts s) (wins s)
                 (done s ++ map (fun i => (i, RSvcErr, t)) (waiting s))
                 (log s ++ [MEnd (fowner f) t OFailed]) (lst s)
          end
      | None => s
      end
  | EvCtx i =>
      let w' := remove_nat i (waiting s) in
      let d' := done s ++ [(i, ROwn (snd (cend (cget s i))), t)] in
      match fl s with
      | Some f =>
          if Nat.eqb (fowner f) i then
            (* the owner's context ended: its request ends with the context error; the waiters whose
               own context is alive call DoChan again *)
            let lg := log s ++ [MEnd i t OCtx] in
            match w' with
            | [] => LS (cs s) (todo s) [] None (scripts s) (wins s) d' lg (lst s)
            | first :: _ =>
                let '(w, wins') := match wins s with
                                   | x :: r => ((if mem_nat x w' then x else first), r)
                                   | [] => (first, [])
                                   end in
                let '(sc, rest) := next_script s in
                LS (cs s) (todo s) w' (Some (F w t sc)) rest wins' d' (lg ++ [MStart w t]) (lst s)
            end
          else LS (cs s) (todo s) w' (fl s) (scripts s) (wins s) d' (log s) (lst s)
      | None => LS (cs s) (todo s) w' None (scripts s) (wins s) d' (log s) (lst s)
      end
  end.

Fixpoint run (fuel : nat) (s : lstate) : option lstate :=
  match earliest (candidates s) with
  | None => Some s
  | Some (t, e) => match fuel with
                   | O => None
                   | S k => run k (step s t e)
                   end
  end.

Definition seq_nat (n : nat) : list nat := seq 0 n.

Definition init (callers : list caller) (scr : list svc) (wn : list nat) (st : store V) : lstate :=
  LS callers (seq_nat (length callers)) [] None scr wn [] [] st.

Definition fuel_for (callers : list caller) : nat := 4 * length callers + 4.

(* ---- the cache.  The locked part of a successful flight hands the document of the whole map to
   Cache.Write (flushCacheLocked, store.go:410) and only LOGS a failure: the lookup succeeds, the
   name stays installed.  The cache is outside the program, so its answers are an INPUT ([canswers],
   one per Write call, missing = accepted).  This layer runs the flight model above unchanged and
   records what was offered to the cache and what landed there. *)
Record cstate := CS {
  core : lstate;
  canswers : list bool;                    (* what Cache.Write will answer, call by call *)
  offered : list (list (doc_entry V));     (* every document handed to Cache.Write *)
  landed : list (list (doc_entry V))       (* ... those the cache accepted *)
}.

(* the cache writes the step of the flight model makes: the Flush effects of Store.lookup_finish *)
Definition flushes_of (s : lstate) (t : N) (e : ev) : list (effect V) :=
  match e, fl s with
  | EvFlight, Some f => match fscript f with
                        | SAns _ v b => snd (lookup_finish (lst s) nm v b (Z.of_N (t / 1000)))
                        | _ => []
                        end
  | _, _ => []
  end.

Fixpoint feed (fx : list (effect V)) (c : cstate) : cstate :=
  match fx with
  | [] => c
  | Flush d :: r =>
      let '(ok, rest) := match canswers c with a :: q => (a, q) | [] => (true, []) end in
      feed r (CS (core c) rest (offered c ++ [d]) (if ok then landed c ++ [d] else landed c))
  end.

Definition cstep (c : cstate) (t : N) (e : ev) : cstate :=
  let c' := feed (flushes_of (core c) t e) c in
  CS (step (core c) t e) (canswers c') (offered c') (landed c').

Fixpoint crun (fuel : nat) (c : cstate) : option cstate :=
  match earliest (candidates (core c)) with
  | None => Some c
  | Some (t, e) => match fuel with
                   | O => None
                   | S k => crun k (cstep c t e)
                   end
  end.

Definition cinit (callers : list caller) (scr : list svc) (wn : list nat) (st : store V) (answers : list bool) : cstate :=
  CS (init callers scr wn st) answers [] [].

(* ---- monitors on the observable outcome *)

(* at most one request in flight: the log alternates start / end *)
Fixpoint alternates (open : bool) (l : list mark) : bool :=
  match l with
  | [] => true
  | MStart _ _ :: r => if open then false else alternates true r
  | MEnd _ _ _ :: r => if open then alternates false r else false
  end.

(* a request follows the context of the caller it is made for: it ends no later than that context *)
Definition end_ok (callers : list caller) (m : mark) : bool :=
  match m with
  | MEnd o t _ => t <=? fst (cend (nth o callers (C 0 None None)))
  | MStart _ _ => true
  end.

(* no caller is failed with a context error except by its own context, at its own instant;
   nobody returns after its own context ended *)
Definition res_ok (callers : list caller) (d : nat * res * N) : bool :=
  let '(i, r, t) := d in
  let c := nth i callers (C 0 None None) in
  match r with
  | ROwn k => (t =? fst (cend c)) && match k, snd (cend c) with KDeadline, KDeadline | KCanceled, KCanceled => true | _, _ => false end
  | _ => t <=? fst (cend c)
  end.

End Flights.

Arguments SHang {V}.
Arguments SFail {V}.
