(* Proofs about Client/Lookup.v (C16). *)
From Coq Require Import List Bool NArith ZArith Lia Arith ZifyN ZifyNat.
Import ListNotations.
From Setec Require Import Base.SMap Client.Store Client.StoreInv Client.Lookup.
Set Implicit Arguments.
Open Scope N_scope.

(* ------------------------------------------------------------------ policy *)
Section PolicyProofs.
Variable V : Type.

Lemma policy_gate (s : store V) n : allow s = false -> known s n = false ->
  policy s EPSecret n = PPanic /\ policy s EPLookup n = PGateErr /\ policy s EPUpdater n = PGateErr /\
  policy s EPApply n = PGateErr /\ forall ep, sends_request (policy s ep n) = false.
Proof.
  intros A K. unfold policy. rewrite K, A. repeat split. intros ep; destruct ep; reflexivity.
Qed.

Lemma policy_known (s : store V) n ep : known s n = true -> policy s ep n = PHandle.
Proof. intros K. unfold policy. rewrite K. reflexivity. Qed.

Lemma policy_request_iff (s : store V) n ep : sends_request (policy s ep n) = true <->
  known s n = false /\ allow s = true /\ ep <> EPSecret.
Proof.
  unfold policy. destruct (known s n), (allow s), ep; cbn; split; try discriminate; try tauto;
    try (intros (? & ? & ?); congruence); intros _; repeat split; discriminate.
Qed.

(* the policy function IS what the shared store model's Secret does *)
Lemma policy_secret (s : store V) n :
  snd (secret s n) = match policy s EPSecret n with PHandle => Some true | PNil => Some false | _ => None end.
Proof.
  unfold secret, secret_locked, policy. destruct (known s n); [reflexivity|]. destruct (allow s); reflexivity.
Qed.

(* a looked-up secret is installed like any other: known, has a handle, requested by the next poll
   (never flagged expired, whatever the expiry age and the clock: it has a handle), and in the
   document handed to the cache at once *)
Lemma installed_like_any (s : store V) n v b now : Inv s ->
  let '(s', fx) := lookup_install s n v b now in
  Inv s' /\ known s' n = true /\ has_handle s' n = true /\ snd (secret s' n) = Some true /\
  entry s' n = Some (CE v b now false) /\
  (forall now_ns, In (n, v) (requests (snapshot s' now_ns))) /\
  (exists d, fx = [Flush d] /\ In (n, Some (v, b, now)) d).
Proof.
  intros I. unfold lookup_install.
  set (s1 := with_m s (upd n (Some (CE v b now false)) (m s))).
  assert (K1 : known s1 n = true).
  { unfold known, s1. cbn [m with_m]. rewrite find_upd_eq. reflexivity. }
  assert (I1 : Inv s1) by (apply Inv_upd_some; exact I).
  assert (F1 : find n (m s1) = Some (Some (CE v b now false))).
  { unfold s1. cbn [m with_m]. apply find_upd_eq. }
  pose proof (secret_locked_Inv n I1) as I2.
  assert (E : m (fst (secret_locked s1 n)) = m s1 /\ has_handle (fst (secret_locked s1 n)) n = true
              /\ allow (fst (secret_locked s1 n)) = allow s1).
  { unfold secret_locked. rewrite K1. destruct (has_handle s1 n) eqn:H; cbn [fst]; [auto|].
    cbn [with_hs m hs allow]. repeat split. unfold has_handle, mem. cbn [hs existsb with_hs]. rewrite (proj2 (neqb_true n n) eq_refl). reflexivity. }
  destruct E as (Em & Eh & Ea). set (s2 := fst (secret_locked s1 n)) in *.
  assert (K2 : known s2 n = true) by (unfold known; rewrite Em; exact K1).
  split; [exact I2|]. split; [exact K2|]. split; [exact Eh|]. split.
  { unfold secret, secret_locked. rewrite K2. destruct (has_handle s2 n); reflexivity. }
  split; [unfold entry; rewrite Em, F1; reflexivity|]. split.
  - intros now_ns. unfold requests, snapshot. apply in_flat_map. exists (n, (false, v)). split; [|left; reflexivity].
    apply in_flat_map. exists (n, Some (CE v b now false)). split.
    + rewrite Em. apply find_in. exact F1.
    + rewrite Eh. left. reflexivity.
  - eexists. split; [reflexivity|]. unfold doc. apply in_map_iff. exists (n, Some (CE v b now false)). split; [reflexivity|].
    apply find_in. exact F1.
Qed.

(* the locked part of a flight as the code has it after the F8 repair (Store.lookup_finish).
   (a) the INSTALLING flight - the name is still unknown when the locked part runs: everything
   [installed_like_any] says *)
Lemma finish_installs_like_any (s : store V) n v b now : Inv s -> known s n = false ->
  let '(s', fx) := lookup_finish s n v b now in
  Inv s' /\ known s' n = true /\ has_handle s' n = true /\ snd (secret s' n) = Some true /\
  entry s' n = Some (CE v b now false) /\
  (forall now_ns, In (n, v) (requests (snapshot s' now_ns))) /\
  (exists d, fx = [Flush d] /\ In (n, Some (v, b, now)) d).
Proof. intros I K. rewrite (lookup_finish_unknown _ _ _ _ _ K). apply installed_like_any. exact I. Qed.

(* (b) a flight finishing on a name that has a value by now (somebody else's lookup completed after
   this flight's caller had found the name missing): a WORKING handle is handed out - Secret returns
   it, calling it yields the bytes the store holds - and nothing else changes: same map (value,
   version, stamp of every name), same watchers and flags, same configuration, nothing written to
   the cache; the poller keeps requesting the name with the version the store holds *)
Lemma finish_known_changes_nothing (s : store V) n v b now e : Inv s -> entry s n = Some e ->
  let '(s', fx) := lookup_finish s n v b now in
  Inv s' /\ m s' = m s /\ ws s' = ws s /\ allow s' = allow s /\ age s' = age s /\ fx = [] /\
  (forall k, In k (hs s) -> In k (hs s')) /\
  known s' n = true /\ has_handle s' n = true /\ snd (secret s' n) = Some true /\
  entry s' n = Some e /\ (forall t, snd (read s' n t) = Some (val e)) /\
  (forall now_ns, In (n, ver e) (requests (snapshot s' now_ns))).
Proof.
  intros I E. pose proof (lookup_finish_Inv n v b now I) as I'.
  unfold lookup_finish in *. rewrite E in *. cbn [fst] in I'.
  assert (F : find n (m s) = Some (Some e)).
  { unfold entry in E. destruct (find n (m s)) as [[e'|]|]; congruence. }
  assert (K : known s n = true) by (unfold known; rewrite F; reflexivity).
  unfold secret_locked in *. rewrite K in *.
  set (s' := if has_handle s n then s else with_hs s (n :: hs s)) in *. cbn [fst] in I'. cbn [fst].
  assert (Em : m s' = m s) by (unfold s'; destruct (has_handle s n); reflexivity).
  assert (Eh : has_handle s' n = true).
  { unfold s'. destruct (has_handle s n) eqn:H; [exact H|]. unfold has_handle, mem. cbn [hs with_hs existsb].
    rewrite (proj2 (neqb_true n n) eq_refl). reflexivity. }
  assert (K' : known s' n = true) by (unfold known; rewrite Em, F; reflexivity).
  split; [exact I'|]. split; [exact Em|].
  split; [unfold s'; destruct (has_handle s n); reflexivity|].
  split; [unfold s'; destruct (has_handle s n); reflexivity|].
  split; [unfold s'; destruct (has_handle s n); reflexivity|].
  split; [reflexivity|].
  split; [intros k Hk; unfold s'; destruct (has_handle s n); [exact Hk|right; exact Hk]|].
  split; [exact K'|]. split; [exact Eh|]. split.
  { unfold secret, secret_locked. rewrite K'. destruct (has_handle s' n); reflexivity. }
  split; [unfold entry; rewrite Em, F; reflexivity|]. split.
  - intros t. unfold read. rewrite Em, F. reflexivity.
  - intros now_ns. unfold requests, snapshot. apply in_flat_map. exists (n, (false, ver e)). split; [|left; reflexivity].
    apply in_flat_map. exists (n, Some e). split.
    + rewrite Em. apply find_in. exact F.
    + rewrite Eh. left. reflexivity.
Qed.

(* either way the caller holds a handle of a known name *)
Lemma finish_gives_handle (s : store V) n v b now : Inv s ->
  let s' := fst (lookup_finish s n v b now) in
  Inv s' /\ known s' n = true /\ has_handle s' n = true /\ snd (secret s' n) = Some true.
Proof.
  intros I. destruct (entry s n) as [e|] eqn:E.
  - pose proof (finish_known_changes_nothing n v b now I E) as L.
    destruct (lookup_finish s n v b now) as [s' fx]. cbn [fst]. tauto.
  - unfold lookup_finish. rewrite E.
    pose proof (installed_like_any n v b now I) as L.
    destruct (lookup_install s n v b now) as [s' fx]. cbn [fst]. tauto.
Qed.

(* ---- a watcher registered through the lookup is woken like any other.  lookupWatcher's lookup branch: the
   locked part of the flight (lookup_finish: installs the answer, or keeps the entry somebody else installed
   meanwhile), then - under the lock again - the registration (add_watcher).  Whichever entry ended up
   installed, the next poll that installs a version of the name (apply_updates) fills the new watcher's slot
   and the store serves that version. *)
Lemma ws_secret_locked (s : store V) n : ws (fst (secret_locked s n)) = ws s /\ m (fst (secret_locked s n)) = m s.
Proof. unfold secret_locked. destruct (known s n); [destruct (has_handle s n)|]; cbn [fst]; auto. Qed.

Lemma lookup_finish_entry (s : store V) n v0 b0 now : Inv s ->
  ws (fst (lookup_finish s n v0 b0 now)) = ws s /\ exists e, find n (m (fst (lookup_finish s n v0 b0 now))) = Some (Some e).
Proof.
  intros I. unfold lookup_finish. destruct (entry s n) as [e|] eqn:E.
  - cbn [fst]. destruct (ws_secret_locked s n) as (W & M). rewrite W, M. split; [reflexivity|].
    unfold entry in E. destruct (find n (m s)) as [[e'|]|]; try discriminate. inversion E; subst. eauto.
  - unfold lookup_install. cbn [fst].
    destruct (ws_secret_locked (with_m s (upd n (Some (CE v0 b0 now false)) (m s))) n) as (W & M).
    rewrite W, M. cbn [ws m with_m]. split; [reflexivity|]. rewrite find_upd_eq. eauto.
Qed.

Lemma watcher_after_lookup_is_woken (s : store V) n v0 b0 now v b : Inv s ->
  let s1 := fst (lookup_finish s n v0 b0 now) in
  let s2 := fst (add_watcher s1 n) in
  let w := snd (add_watcher s1 n) in
  let s3 := fst (apply_updates s2 [(n, Install v b)]) in
  w = length (ws s) /\ nth_error (ws s2) w = Some (W n false) /\
  nth_error (ws s3) w = Some (W n true) /\ exists t d, entry s3 n = Some (CE v b t d).
Proof.
  intros I s1 s2 w s3. destruct (lookup_finish_entry n v0 b0 now I) as (Ws & e & Fe). fold s1 in Ws, Fe.
  assert (Ew : w = length (ws s)) by (unfold w, add_watcher; cbn [snd]; rewrite Ws; reflexivity).
  assert (W2 : ws s2 = ws s ++ [W n false]) by (unfold s2, add_watcher; cbn [fst with_ws ws]; rewrite Ws; reflexivity).
  assert (M2 : m s2 = m s1) by reflexivity.
  split; [exact Ew|]. split.
  { rewrite W2, Ew, nth_error_app2, Nat.sub_diag by lia. reflexivity. }
  unfold s3, apply_updates. cbn [fst fold_left apply1]. rewrite M2, Fe. split.
  - cbn [notify with_ws with_m ws]. rewrite nth_error_map, W2, Ew, nth_error_app2, Nat.sub_diag by lia.
    cbn [nth_error option_map wname]. rewrite (proj2 (neqb_true n n) eq_refl). reflexivity.
  - exists (last e), (decl e). unfold entry. cbn [notify with_ws with_m m]. rewrite find_upd_eq. reflexivity.
Qed.

End PolicyProofs.

(* ------------------------------------------------------------------ time *)
Lemma cend_le_deadline c : fst (cend c) <= deadline c.
Proof. unfold cend. destruct (cn c) as [x|]; [|cbn [fst]; lia]. destruct (x <? deadline c) eqn:E; cbn [fst]; [apply N.ltb_lt in E; lia|lia]. Qed.

Lemma cend_limit c : dl c = None -> fst (cend c) <= arr c + limit.
Proof. intros H. pose proof (cend_le_deadline c) as L. unfold deadline in L. rewrite H in L. exact L. Qed.

Section FlightProofs.
Variable V : Type.
Variable nm : name.
Notation lstate := (lstate V).
Notation step := (@step V nm).
Notation run := (@run V nm).

Lemma earliest_min : forall (l : list (N * ev)) t e, earliest l = Some (t, e) ->
  In (t, e) l /\ forall x, In x l -> t <= fst x.
Proof.
  induction l as [|x l IH]; intros t e H; [discriminate|]. cbn [earliest] in H.
  destruct (earliest l) as [y|] eqn:E.
  - destruct y as [ty ey]. destruct (IH ty ey eq_refl) as (I1 & I2). cbn [fst] in H.
    destruct (ty <? fst x) eqn:C; inversion H; subst.
    + apply N.ltb_lt in C. split; [right; exact I1|]. intros z [<-|Hz]; [lia|apply I2; exact Hz].
    + apply N.ltb_ge in C. cbn [fst] in C. split; [left; reflexivity|]. intros z [<-|Hz]; [cbn [fst]; lia|]. specialize (I2 z Hz). cbn [fst]. lia.
  - inversion H; subst. destruct l; [|cbn [earliest] in E; destruct (earliest l); destruct p; try destruct (_ <? _); discriminate].
    split; [left; reflexivity|]. intros z [<-|[]]. cbn [fst]. lia.
Qed.

Lemma earliest_none (l : list (N * ev)) : earliest l = None -> l = [].
Proof. destruct l as [|x l]; auto. cbn [earliest]. destruct (earliest l) as [y|]; [destruct (fst y <? fst x)|]; discriminate. Qed.

Lemma in_remove_nat i j l : In j (remove_nat i l) <-> In j l /\ j <> i.
Proof.
  unfold remove_nat. rewrite filter_In. split; intros (A & B); split; auto.
  - intros ->. rewrite Nat.eqb_refl in B. discriminate.
  - apply negb_true_iff. apply Nat.eqb_neq. auto.
Qed.

(* the event chosen is a candidate of its own kind, at its own time *)
Lemma candidate_kinds (s : lstate) t e : In (t, e) (candidates s) ->
  match e with
  | EvArr i => In i (todo s) /\ t = arr (cget s i)
  | EvFlight => exists f, fl s = Some f /\ t = fst (fend s f) /\ snd (fend s f) <> OCtx
  | EvCtx i => In i (waiting s) /\ t = cend_of s i
  end.
Proof.
  unfold candidates. intros H. apply in_app_or in H. destruct H as [H|H].
  - apply in_map_iff in H. destruct H as (i & E & Hi). inversion E; subst. auto.
  - apply in_app_or in H. destruct H as [H|H].
    + destruct (fl s) as [f|]; [|destruct H]. destruct (snd (fend s f)) eqn:O.
      * destruct H as [H|[]]. inversion H; subst. exists f. rewrite O. repeat split; discriminate.
      * destruct H as [H|[]]. inversion H; subst. exists f. rewrite O. repeat split; discriminate.
      * destruct H.
    + apply in_map_iff in H. destruct H as (i & E & Hi). inversion E; subst. auto.
Qed.

Lemma waiting_candidate (s : lstate) i : In i (waiting s) -> In (cend_of s i, EvCtx i) (candidates s).
Proof.
  intros H. unfold candidates. apply in_or_app. right. apply in_or_app. right.
  apply in_map_iff. exists i. auto.
Qed.

(* ------------------------------------------------------------------ results are bounded by the caller's own context *)
Definition wf (callers : list caller) : Prop := forall i, arr (nth i callers (C 0 None None)) <= fst (cend (nth i callers (C 0 None None))).

Definition DInv (s : lstate) : Prop := forall d, In d (done s) -> res_ok (cs s) d = true.

Lemma step_cs (s : lstate) t e : cs (step s t e) = cs s.
Proof.
  destruct e as [i| |i]; cbn [step].
  - destruct (known (lst s) nm); [reflexivity|]. destruct (fl s); [reflexivity|]. destruct (next_script s). reflexivity.
  - destruct (fl s) as [f|]; [|reflexivity]. destruct (fscript f); reflexivity.
  - destruct (fl s) as [f|]; [|reflexivity]. destruct (Nat.eqb (fowner f) i); [|reflexivity].
    destruct (remove_nat i (waiting s)); [reflexivity|]. destruct (wins s); destruct (next_script s); reflexivity.
Qed.

Lemma step_done (s : lstate) t e d : In d (done (step s t e)) ->
  In d (done s) \/
  match e with
  | EvArr i => d = (i, RHandle, t)
  | EvFlight => exists i r, In i (waiting s) /\ d = (i, r, t) /\ (r = RHandle \/ r = RSvcErr)
  | EvCtx i => d = (i, ROwn (snd (cend (cget s i))), t)
  end.
Proof.
  destruct e as [i| |i]; cbn [step].
  - destruct (known (lst s) nm).
    + cbn [done]. intros H. apply in_app_or in H. destruct H as [H|[H|[]]]; auto.
    + destruct (fl s); [cbn [done]; auto|]. destruct (next_script s). cbn [done]. auto.
  - destruct (fl s) as [f|]; [|auto]. destruct (fscript f); cbn [done]; intros H; apply in_app_or in H;
      (destruct H as [H|H]; [auto|]); apply in_map_iff in H; destruct H as (i & E & Hi); right; exists i; eauto.
  - assert (G : In d (done s ++ [(i, ROwn (snd (cend (cget s i))), t)]) -> In d (done s) \/ d = (i, ROwn (snd (cend (cget s i))), t)).
    { intros H. apply in_app_or in H. destruct H as [H|[H|[]]]; auto. }
    destruct (fl s) as [f|]; [|cbn [done]; exact G]. destruct (Nat.eqb (fowner f) i); [|cbn [done]; exact G].
    destruct (remove_nat i (waiting s)); [cbn [done]; exact G|]. destruct (wins s); destruct (next_script s); cbn [done]; exact G.
Qed.

Lemma step_DInv (s : lstate) t e : wf (cs s) -> earliest (candidates s) = Some (t, e) -> DInv s -> DInv (step s t e).
Proof.
  intros W E D d Hd. rewrite step_cs. destruct (earliest_min _ E) as (Hin & Hmin).
  pose proof (candidate_kinds _ _ _ Hin) as K.
  destruct (step_done _ _ _ _ Hd) as [H|H]; [apply D; exact H|].
  destruct e as [i| |i].
  - subst d. destruct K as (_ & ->). unfold res_ok. apply N.leb_le. apply W.
  - destruct H as (i & r & Hi & -> & Hr). specialize (Hmin _ (waiting_candidate _ _ Hi)). cbn [fst] in Hmin.
    unfold res_ok. destruct Hr as [->| ->]; apply N.leb_le; exact Hmin.
  - subst d. destruct K as (_ & ->). unfold res_ok, cend_of, cget. rewrite N.eqb_refl.
    destruct (snd (cend (nth i (cs s) (C 0 None None)))); reflexivity.
Qed.

Theorem run_DInv : forall fuel (s s' : lstate), wf (cs s) -> DInv s -> run fuel s = Some s' -> DInv s' /\ cs s' = cs s.
Proof.
  induction fuel as [|k IH]; intros s s' W D R; cbn [Lookup.run] in R.
  - destruct (earliest (candidates s)) as [[t e]|]; inversion R; subst. auto.
  - destruct (earliest (candidates s)) as [[t e]|] eqn:E; [|inversion R; subst; auto].
    pose proof (step_DInv W E D) as D1. pose proof (step_cs s t e) as C1.
    assert (W1 : wf (cs (step s t e))) by (rewrite C1; exact W).
    destruct (IH _ _ W1 D1 R) as (A & B). split; auto. congruence.
Qed.

(* ------------------------------------------------------------------ everyone returns *)
Definition AllIn (s : lstate) : Prop :=
  forall i, (i < length (cs s))%nat -> In i (todo s) \/ In i (waiting s) \/ exists r t, In (i, r, t) (done s).

Lemma step_AllIn (s : lstate) t e : In (t, e) (candidates s) -> AllIn s -> AllIn (step s t e).
Proof.
  intros Hin A i Hi. rewrite step_cs in Hi. specialize (A i Hi). pose proof (candidate_kinds _ _ _ Hin) as K.
  destruct e as [j| |j]; cbn [step].
  - destruct (Nat.eq_dec i j) as [->|Dj].
    + destruct (known (lst s) nm).
      * right. right. exists RHandle, t. cbn [done]. apply in_or_app. right. left. reflexivity.
      * destruct (fl s); [|destruct (next_script s)]; cbn [todo waiting done]; right; left; apply in_or_app; right; left; reflexivity.
    + assert (T : In i (todo s) -> In i (remove_nat j (todo s))) by (intros; apply in_remove_nat; auto).
      destruct (known (lst s) nm).
      * cbn [todo waiting done]. destruct A as [A|[A|(r & t0 & A)]]; auto. right. right. exists r, t0. apply in_or_app. auto.
      * destruct (fl s); [|destruct (next_script s)]; cbn [todo waiting done];
          (destruct A as [A|[A|A]]; [auto|right; left; apply in_or_app; auto|auto]).
  - destruct K as (f & Ef & _). rewrite Ef.
    destruct (fscript f); cbn [todo waiting done].
    all: destruct A as [A|[A|(r & t0 & A)]].
    all: try (left; exact A).
    all: try (right; right; exists r, t0; apply in_or_app; left; exact A).
    all: right; right; eexists; exists t; apply in_or_app; right; apply in_map_iff; exists i; split; [reflexivity|exact A].
  - assert (G : In i (todo s) \/ In i (remove_nat j (waiting s)) \/
                exists r t0, In (i, r, t0) (done s ++ [(j, ROwn (snd (cend (cget s j))), t)])).
    { destruct A as [A|[A|(r & t0 & A)]]; auto.
      - destruct (Nat.eq_dec i j) as [->|Dj].
        + right. right. eexists. exists t. apply in_or_app. right. left. reflexivity.
        + right. left. apply in_remove_nat. auto.
      - right. right. exists r, t0. apply in_or_app. auto. }
    destruct (fl s) as [f|]; [|cbn [todo waiting done]; exact G]. destruct (Nat.eqb (fowner f) j); [|cbn [todo waiting done]; exact G].
    destruct (remove_nat j (waiting s)) eqn:Rw; [cbn [todo waiting done]; exact G|].
    destruct (wins s); destruct (next_script s); cbn [todo waiting done]; exact G.
Qed.

Theorem run_AllIn : forall fuel (s s' : lstate), AllIn s -> run fuel s = Some s' ->
  AllIn s' /\ todo s' = [] /\ waiting s' = [].
Proof.
  induction fuel as [|k IH]; intros s s' A R; cbn [Lookup.run] in R.
  - destruct (earliest (candidates s)) as [[t e]|] eqn:E; inversion R; subst.
    apply earliest_none in E. unfold candidates in E. apply app_eq_nil in E. destruct E as (E1 & E2).
    apply app_eq_nil in E2. destruct E2 as (_ & E3). apply map_eq_nil in E1, E3. auto.
  - destruct (earliest (candidates s)) as [[t e]|] eqn:E.
    + apply IH with (s := step s t e); auto. apply step_AllIn; auto. apply (earliest_min _ E).
    + inversion R; subst.
      apply earliest_none in E. unfold candidates in E. apply app_eq_nil in E. destruct E as (E1 & E2).
      apply app_eq_nil in E2. destruct E2 as (_ & E3). apply map_eq_nil in E1, E3. auto.
Qed.

Lemma init_AllIn callers scr wn st : AllIn (init callers scr wn st).
Proof. intros i Hi. left. cbn [init todo cs] in *. unfold seq_nat. apply in_seq. lia. Qed.

(* every caller returns, not later than its own context ends; a context error is only ever the
   caller's OWN, at the instant its own context ended; a caller without deadline returns within
   five minutes of its call - whatever the service and the other callers do *)
Theorem bounded (callers : list caller) scr wn st fuel s' :
  wf callers -> run fuel (init callers scr wn st) = Some s' ->
  forall i, (i < length callers)%nat ->
  exists r t, In (i, r, t) (done s') /\
    (forall r0 t0, In (i, r0, t0) (done s') ->
       let c := nth i callers (C 0 None None) in
       t0 <= fst (cend c) /\
       (dl c = None -> t0 <= arr c + limit) /\
       (forall k, r0 = ROwn k -> t0 = fst (cend c) /\ k = snd (cend c))).
Proof.
  intros W R i Hi.
  destruct (@run_AllIn fuel _ s' (init_AllIn callers scr wn st) R) as (A & T0 & W0).
  assert (D0 : DInv (init callers scr wn st)) by (intros d []).
  destruct (@run_DInv fuel (init callers scr wn st) s' W D0 R) as (D & Cs). cbn [init cs] in Cs.
  assert (Hi' : (i < length (cs s'))%nat) by (rewrite Cs; exact Hi).
  destruct (A i Hi') as [H|[H|(r & t & H)]]; [rewrite T0 in H; destruct H|rewrite W0 in H; destruct H|].
  exists r, t. split; [exact H|]. intros r0 t0 H0 c. specialize (D _ H0). unfold res_ok in D. rewrite Cs in D. fold c in D.
  assert (L : t0 <= fst (cend c)).
  { destruct r0; try (apply N.leb_le; exact D). apply andb_true_iff in D. destruct D as (D1 & _). apply N.eqb_eq in D1. lia. }
  split; [exact L|]. split.
  - intros Hd. pose proof (cend_limit c Hd). lia.
  - intros k ->. apply andb_true_iff in D. destruct D as (D1 & D2). apply N.eqb_eq in D1. split; [exact D1|].
    destruct k, (snd (cend c)); try discriminate; reflexivity.
Qed.

(* ------------------------------------------------------------------ single flight *)
Fixpoint open_after (open : bool) (l : list mark) : option bool :=
  match l with
  | [] => Some open
  | MStart _ _ :: r => if open then None else open_after true r
  | MEnd _ _ _ :: r => if open then open_after false r else None
  end.

Lemma open_after_app : forall l1 l2 o, open_after o (l1 ++ l2) = match open_after o l1 with Some o' => open_after o' l2 | None => None end.
Proof.
  induction l1 as [|m l1 IH]; intros l2 o; [reflexivity|]. cbn [app open_after].
  destruct m; destruct o; auto.
Qed.

Lemma alternates_open : forall l o, alternates o l = match open_after o l with Some _ => true | None => false end.
Proof. induction l as [|m l IH]; intros o; [reflexivity|]. cbn [alternates open_after]. destruct m; destruct o; auto. Qed.

Definition isSome {A} (o : option A) : bool := match o with Some _ => true | None => false end.
Definition FInv (s : lstate) : Prop := open_after false (log s) = Some (isSome (fl s)).

Lemma step_FInv (s : lstate) t e : In (t, e) (candidates s) -> FInv s -> FInv (step s t e).
Proof.
  unfold FInv. intros Hin F. pose proof (candidate_kinds _ _ _ Hin) as K. destruct e as [i| |i]; cbn [step].
  - destruct (known (lst s) nm); [exact F|]. destruct (fl s) as [f|] eqn:Ef; [exact F|].
    destruct (next_script s). cbn [log fl]. rewrite open_after_app, F. reflexivity.
  - destruct K as (f & Ef & _). rewrite Ef in *. destruct (fscript f); cbn [log fl]; rewrite open_after_app, F; reflexivity.
  - destruct (fl s) as [f|] eqn:Ef; [|exact F]. destruct (Nat.eqb (fowner f) i); [|cbn [log fl]; exact F].
    destruct (remove_nat i (waiting s)); [cbn [log fl]; rewrite open_after_app, F; reflexivity|].
    destruct (wins s); destruct (next_script s); cbn [log fl]; rewrite !open_after_app, F; reflexivity.
Qed.

Theorem run_FInv : forall fuel (s s' : lstate), FInv s -> run fuel s = Some s' -> FInv s'.
Proof.
  induction fuel as [|k IH]; intros s s' F R; cbn [Lookup.run] in R.
  - destruct (earliest (candidates s)) as [[t e]|]; inversion R; subst. exact F.
  - destruct (earliest (candidates s)) as [[t e]|] eqn:E; [|inversion R; subst; exact F].
    apply IH with (s := step s t e); auto. apply step_FInv; auto. apply (earliest_min _ E).
Qed.

(* at most one request in flight at any instant: in the service's log a request starts only after
   the previous one has ended; when everybody has returned none is left open *)
Theorem single_flight callers scr wn st fuel s' :
  run fuel (init callers scr wn st) = Some s' -> alternates false (log s') = true /\ fl s' = None.
Proof.
  intros R. assert (F0 : FInv (init callers scr wn st)) by reflexivity.
  pose proof (@run_FInv fuel _ s' F0 R) as F. unfold FInv in F. rewrite alternates_open, F. split; [reflexivity|].
  destruct (@run_AllIn fuel _ s' (init_AllIn callers scr wn st) R) as (_ & _ & W0).
  (* an open flight has its owner waiting *)
  destruct (fl s') as [f|] eqn:Ef; [|reflexivity]. exfalso.
  revert R Ef W0. generalize (init_AllIn callers scr wn st).
  assert (G : forall fuel (s : lstate), (forall f, fl s = Some f -> In (fowner f) (waiting s)) -> run fuel s = Some s' ->
              forall f, fl s' = Some f -> In (fowner f) (waiting s')).
  { clear. induction fuel as [|k IH]; intros s O R; cbn [Lookup.run] in R.
    - destruct (earliest (candidates s)) as [[t e]|]; inversion R; subst. exact O.
    - destruct (earliest (candidates s)) as [[t e]|] eqn:E; [|inversion R; subst; exact O].
      apply IH with (s := step s t e); auto. clear IH R.
      destruct (earliest_min _ E) as (Hin & _). pose proof (candidate_kinds _ _ _ Hin) as K.
      intros f0. destruct e as [i| |i]; cbn [step].
      + destruct (known (lst s) nm); [cbn [fl waiting]; apply O|]. destruct (fl s) as [f|] eqn:Ef.
        * cbn [fl waiting]. intros H. apply in_or_app. left. apply O. exact H.
        * destruct (next_script s). cbn [fl waiting]. intros H. inversion H; subst. cbn [fowner]. apply in_or_app. right. left. reflexivity.
      + destruct K as (f & Ef & _). rewrite Ef. destruct (fscript f); cbn [fl]; discriminate.
      + destruct (fl s) as [f|] eqn:Ef; [|cbn [fl]; discriminate]. destruct (Nat.eqb (fowner f) i) eqn:Eo.
        * destruct (remove_nat i (waiting s)) as [|first rest] eqn:Rw; [cbn [fl]; discriminate|].
          destruct (wins s) as [|x r]; destruct (next_script s); cbn [fl waiting].
          -- intros H; inversion H; subst; cbn [fowner]. left. reflexivity.
          -- destruct (mem_nat x (first :: rest)) eqn:M; intros H; inversion H; subst; cbn [fowner]; [|left; reflexivity].
             unfold mem_nat in M. apply existsb_exists in M. destruct M as (y & Hy & Ey). apply Nat.eqb_eq in Ey. subst. exact Hy.
        * cbn [fl waiting]. intros H. inversion H; subst f0. apply in_remove_nat. split; [apply O; reflexivity|].
          apply Nat.eqb_neq in Eo. exact Eo. }
  intros _ R Ef W0. assert (O0 : forall f, fl (init callers scr wn st) = Some f -> In (fowner f) (waiting (init callers scr wn st))) by (intros f0 H; discriminate).
  specialize (G _ _ O0 R f Ef). rewrite W0 in G. destruct G.
Qed.

(* ------------------------------------------------------------------ the steps, in the property's words *)

(* success: every caller joined to the flight gets the handle at that instant, the name is
   installed, the request ends, nobody is left waiting *)
Theorem success_all_joined (s : lstate) t f d v b :
  fl s = Some f -> fscript f = SAns d v b -> Inv (lst s) ->
  let s' := step s t EvFlight in
  (forall i, In i (waiting s) -> In (i, RHandle, t) (done s')) /\ waiting s' = [] /\ fl s' = None /\
  known (lst s') nm = true /\ snd (secret (lst s') nm) = Some true /\
  log s' = log s ++ [MEnd (fowner f) t OAnswered].
Proof.
  intros Ef Es I. cbn [step]. rewrite Ef, Es. cbn [done waiting fl lst log]. split.
  - intros i Hi. apply in_or_app. right. apply in_map_iff. exists i. auto.
  - repeat split. all: unfold install; pose proof (finish_gives_handle nm v b (Z.of_N (t / 1000)) I) as L;
      cbn zeta in L; tauto.
Qed.

(* the flight that finds the name still unknown installs exactly the service's answer, stamped with
   the instant of the install, undeclared *)
Theorem success_installs (s : lstate) t f d v b :
  fl s = Some f -> fscript f = SAns d v b -> Inv (lst s) -> known (lst s) nm = false ->
  entry (lst (step s t EvFlight)) nm = Some (CE v b (Z.of_N (t / 1000)) false).
Proof.
  intros Ef Es I K. cbn [step]. rewrite Ef, Es. cbn [lst]. unfold install.
  pose proof (finish_installs_like_any nm v b (Z.of_N (t / 1000)) I K) as L.
  destruct (lookup_finish (lst s) nm v b (Z.of_N (t / 1000))) as [s2 fx]. cbn [fst]. tauto.
Qed.

(* a flight whose locked part finds the name valued (it was overtaken in the window between its
   caller's unknown-name check and DoChan, which the timed model does not open: the statement is
   about the step, for ANY store state) still gives every joined caller the handle, and the store
   keeps its map, its watchers and their flags *)
Theorem success_on_known_keeps (s : lstate) t f d v b e :
  fl s = Some f -> fscript f = SAns d v b -> Inv (lst s) -> entry (lst s) nm = Some e ->
  let s' := step s t EvFlight in
  (forall i, In i (waiting s) -> In (i, RHandle, t) (done s')) /\
  m (lst s') = m (lst s) /\ ws (lst s') = ws (lst s) /\ entry (lst s') nm = Some e /\
  snd (secret (lst s') nm) = Some true /\ (forall t', snd (read (lst s') nm t') = Some (val e)).
Proof.
  intros Ef Es I E. cbn [step]. rewrite Ef, Es. cbn [done lst]. split.
  - intros i Hi. apply in_or_app. right. apply in_map_iff. exists i. auto.
  - unfold install. pose proof (finish_known_changes_nothing nm v b (Z.of_N (t / 1000)) I E) as L.
    destruct (lookup_finish (lst s) nm v b (Z.of_N (t / 1000))) as [s2 fx]. cbn [fst]. tauto.
Qed.

(* inside the timed model (check and DoChan one step) a flight exists only while the name is unknown,
   so there the finishing flight is always the installing one *)
Definition KInv (s : lstate) : Prop := fl s <> None -> known (lst s) nm = false.

Lemma step_KInv (s : lstate) t e : KInv s -> KInv (step s t e).
Proof.
  unfold KInv. intros H. destruct e as [i| |i]; cbn [step].
  - destruct (known (lst s) nm) eqn:K.
    + cbn [fl lst]. intros F. specialize (H F). congruence.
    + destruct (fl s) as [f|]; [cbn [fl lst]; intros _; exact K|]. destruct (next_script s). cbn [fl lst]. intros _. exact K.
  - destruct (fl s) as [f|] eqn:Ef; [|intros F; rewrite Ef in F; contradiction F; reflexivity].
    destruct (fscript f); cbn [fl]; intros F; contradiction F; reflexivity.
  - destruct (fl s) as [f|] eqn:Ef; [|cbn [fl]; intros F; contradiction F; reflexivity].
    assert (K : known (lst s) nm = false) by (apply H; discriminate).
    destruct (Nat.eqb (fowner f) i); [|cbn [fl lst]; intros _; exact K].
    destruct (remove_nat i (waiting s)); [cbn [fl]; intros F; contradiction F; reflexivity|].
    destruct (wins s); destruct (next_script s); cbn [fl lst]; intros _; exact K.
Qed.

Theorem run_KInv : forall fuel (s s' : lstate), KInv s -> run fuel s = Some s' -> KInv s'.
Proof.
  induction fuel as [|k IH]; intros s s' H R; cbn [Lookup.run] in R.
  - destruct (earliest (candidates s)) as [[t e]|]; inversion R; subst. exact H.
  - destruct (earliest (candidates s)) as [[t e]|]; [|inversion R; subst; exact H].
    apply IH with (s := step s t e); auto. apply step_KInv. exact H.
Qed.

(* once installed, later callers get the handle at once and no request is sent *)
Theorem known_no_request (s : lstate) t i : known (lst s) nm = true ->
  let s' := step s t (EvArr i) in log s' = log s /\ fl s' = fl s /\ In (i, RHandle, t) (done s').
Proof. intros K. cbn [step]. rewrite K. cbn [log fl done]. repeat split. apply in_or_app. right. left. reflexivity. Qed.

(* failure: every joined caller gets the service's error; NOTHING is installed (the store is
   untouched, so Secret(name) stays nil / panics); no new request is started (no automatic retry) *)
Theorem failure_installs_nothing (s : lstate) t f d :
  fl s = Some f -> fscript f = SFail d ->
  let s' := step s t EvFlight in
  (forall i, In i (waiting s) -> In (i, RSvcErr, t) (done s')) /\ lst s' = lst s /\ fl s' = None /\ waiting s' = [] /\
  log s' = log s ++ [MEnd (fowner f) t OFailed].
Proof.
  intros Ef Es. cbn [step]. rewrite Ef, Es. cbn [done waiting fl lst log]. repeat split.
  intros i Hi. apply in_or_app. right. apply in_map_iff. exists i. auto.
Qed.

(* the ONLY ways a request starts: a caller arrives while the name is unknown and no flight exists
   (its own request), or the owner of the current flight just had its context end and a waiter
   whose own context is alive takes over (the retry after somebody else's cancellation) *)
Theorem request_starts_only (s : lstate) t e w t' :
  In (MStart w t') (skipn (length (log s)) (log (step s t e))) ->
  t' = t /\
  ((e = EvArr w /\ fl s = None /\ known (lst s) nm = false) \/
   (exists f, fl s = Some f /\ e = EvCtx (fowner f) /\ w <> fowner f /\ In w (waiting s))).
Proof.
  assert (SK : forall (l x : list mark), skipn (length l) (l ++ x) = x).
  { intros l x. rewrite skipn_app, skipn_all, Nat.sub_diag. reflexivity. }
  assert (SK0 : forall (l : list mark), skipn (length l) l = []) by (intros; apply skipn_all).
  destruct e as [i| |i]; cbn [step].
  - destruct (known (lst s) nm) eqn:K; [cbn [log]; rewrite SK0; intros []|].
    destruct (fl s) as [f|] eqn:Ef; [cbn [log]; rewrite SK0; intros []|].
    destruct (next_script s). cbn [log]. rewrite SK. intros [H|[]]. inversion H; subst. split; auto.
  - destruct (fl s) as [f|]; [|rewrite SK0; intros []]. destruct (fscript f); cbn [log]; rewrite SK; intros [H|[]]; discriminate.
  - destruct (fl s) as [f|] eqn:Ef; [|cbn [log]; rewrite SK0; intros []].
    destruct (Nat.eqb (fowner f) i) eqn:Eo; [|cbn [log]; rewrite SK0; intros []].
    apply Nat.eqb_eq in Eo. subst i.
    destruct (remove_nat (fowner f) (waiting s)) as [|first rest] eqn:Rw; [cbn [log]; rewrite SK; intros [H|[]]; discriminate|].
    assert (Hw : forall x, In x (first :: rest) -> x <> fowner f /\ In x (waiting s)).
    { intros x Hx. rewrite <- Rw in Hx. apply in_remove_nat in Hx. tauto. }
    destruct (wins s) as [|x r]; destruct (next_script s); cbn [log]; rewrite <- app_assoc, SK.
    + intros [H|[H|[]]]; try discriminate.
      inversion H; subst; (split; [reflexivity|]); right; exists f; (split; [reflexivity|]); (split; [reflexivity|]).
      apply Hw. left. reflexivity.
    + destruct (mem_nat x (first :: rest)) eqn:M; intros [H|[H|[]]]; try discriminate;
        inversion H; subst; (split; [reflexivity|]); right; exists f; (split; [reflexivity|]); (split; [reflexivity|]).
      * unfold mem_nat in M. apply existsb_exists in M. destruct M as (y & Hy & Ey). apply Nat.eqb_eq in Ey. subst. apply Hw. exact Hy.
      * apply Hw. left. reflexivity.
Qed.


(* ------------------------------------------------------------------ the fuel is enough *)
Definition measure (s : lstate) : nat :=
  4 * length (todo s) + 2 * length (waiting s) + (if isSome (fl s) then 1 else 0).

Lemma filter_len {A} (f : A -> bool) : forall l, (length (filter f l) <= length l)%nat.
Proof. induction l as [|a l IH]; cbn [filter length]; [lia|]. destruct (f a); cbn [length]; lia. Qed.

Lemma remove_nat_length i l : (length (remove_nat i l) <= length l)%nat.
Proof. unfold remove_nat. apply filter_len. Qed.

Lemma remove_nat_shorter i : forall l, In i l -> (length (remove_nat i l) < length l)%nat.
Proof.
  induction l as [|x l IH]; intros H; [destruct H|]. unfold remove_nat in *. cbn [filter].
  destruct (Nat.eqb i x) eqn:E; cbn [negb length].
  - pose proof (filter_len (fun j => negb (Nat.eqb i j)) l). lia.
  - destruct H as [H|H]; [subst; rewrite Nat.eqb_refl in E; discriminate|]. specialize (IH H). lia.
Qed.

Lemma step_measure (s : lstate) t e : In (t, e) (candidates s) -> (measure (step s t e) < measure s)%nat.
Proof.
  intros Hin. pose proof (candidate_kinds _ _ _ Hin) as K. unfold measure. destruct e as [i| |i]; cbn [step].
  - destruct K as (Hi & _). pose proof (remove_nat_shorter _ _ Hi) as L.
    destruct (known (lst s) nm); [cbn [todo waiting fl]; lia|].
    destruct (fl s) as [f|]; [cbn [todo waiting fl isSome]; rewrite app_length; cbn [length]; lia|].
    destruct (next_script s). cbn [todo waiting fl isSome]. rewrite app_length. cbn [length]. lia.
  - destruct K as (f & Ef & _). rewrite Ef. destruct (fscript f); cbn [todo waiting fl isSome length]; lia.
  - destruct K as (Hi & _). pose proof (remove_nat_shorter _ _ Hi) as L.
    destruct (fl s) as [f|]; [|cbn [todo waiting fl isSome]; lia].
    destruct (Nat.eqb (fowner f) i); [|cbn [todo waiting fl isSome]; lia].
    destruct (remove_nat i (waiting s)) as [|first rest] eqn:Rw; [cbn [todo waiting fl isSome length] in *; lia|].
    destruct (wins s); destruct (next_script s); cbn [todo waiting fl isSome] in *; lia.
Qed.

Lemma run_enough : forall fuel (s : lstate), (measure s < fuel)%nat -> run fuel s <> None.
Proof.
  induction fuel as [|k IH]; intros s M; [lia|]. cbn [Lookup.run].
  destruct (earliest (candidates s)) as [[t e]|] eqn:E; [|discriminate].
  apply IH. pose proof (step_measure _ _ _ (proj1 (earliest_min _ E))). lia.
Qed.

Theorem fuel_suffices callers scr wn st : run (fuel_for callers) (init callers scr wn st) <> None.
Proof.
  apply run_enough. unfold measure, fuel_for, init, seq_nat. cbn [todo waiting fl isSome length]. rewrite seq_length. lia.
Qed.


(* ------------------------------------------------------------------ a request ends with its owner's context at the latest *)
Definition LEInv (s : lstate) : Prop := forall m, In m (log s) -> end_ok (cs s) m = true.

Lemma fend_le (s : lstate) f : fst (fend s f) <= cend_of s (fowner f).
Proof.
  unfold fend. destruct (fscript f) as [d v b|d|].
  - destruct (fstart f + d <? cend_of s (fowner f)) eqn:E; cbn [fst]; [apply N.ltb_lt in E; lia|lia].
  - destruct (fstart f + d <? cend_of s (fowner f)) eqn:E; cbn [fst]; [apply N.ltb_lt in E; lia|lia].
  - cbn [fst]. lia.
Qed.

Lemma step_LEInv (s : lstate) t e : In (t, e) (candidates s) -> LEInv s -> LEInv (step s t e).
Proof.
  intros Hin L m Hm. rewrite step_cs. pose proof (candidate_kinds _ _ _ Hin) as K.
  assert (App : forall x, In m (log s ++ [x]) -> end_ok (cs s) x = true -> end_ok (cs s) m = true).
  { intros x H Hx. apply in_app_or in H. destruct H as [H|[<-|[]]]; [apply L; exact H|exact Hx]. }
  destruct e as [i| |i]; cbn [Lookup.step] in Hm.
  - destruct (known (lst s) nm); [apply L; exact Hm|]. destruct (fl s); [apply L; exact Hm|].
    destruct (next_script s). cbn [log] in Hm. apply (App _ Hm). reflexivity.
  - destruct K as (f & Ef & Et & _). rewrite Ef in Hm.
    assert (E : end_ok (cs s) (MEnd (fowner f) t OAnswered) = true /\ end_ok (cs s) (MEnd (fowner f) t OFailed) = true).
    { cbn [end_ok]. rewrite Et. pose proof (fend_le s f) as Le. unfold cend_of, cget in Le. split; apply N.leb_le; exact Le. }
    destruct (fscript f); cbn [log] in Hm; apply (App _ Hm); tauto.
  - destruct K as (_ & Et).
    assert (E : end_ok (cs s) (MEnd i t OCtx) = true).
    { cbn [end_ok]. rewrite Et. unfold cend_of, cget. apply N.leb_le. lia. }
    destruct (fl s) as [f|]; [|apply L; exact Hm]. destruct (Nat.eqb (fowner f) i); [|apply L; exact Hm].
    destruct (remove_nat i (waiting s)); [cbn [log] in Hm; apply (App _ Hm E)|].
    destruct (wins s); destruct (next_script s); cbn [log] in Hm; apply in_app_or in Hm;
      (destruct Hm as [Hm|[<-|[]]]; [apply (App _ Hm E)|reflexivity]).
Qed.

Theorem run_LEInv : forall fuel (s s' : lstate), LEInv s -> run fuel s = Some s' -> LEInv s' /\ cs s' = cs s.
Proof.
  induction fuel as [|k IH]; intros s s' L R; cbn [Lookup.run] in R.
  - destruct (earliest (candidates s)) as [[t e]|]; inversion R; subst. auto.
  - destruct (earliest (candidates s)) as [[t e]|] eqn:E; [|inversion R; subst; auto].
    destruct (IH _ _ (@step_LEInv s t e (proj1 (earliest_min _ E)) L) R) as (A & B). split; auto. rewrite B. apply step_cs.
Qed.

(* every request in the service's log ends no later than the context of the caller it was made for *)
Theorem request_ends_by_owner callers scr wn st fuel s' :
  run fuel (init callers scr wn st) = Some s' ->
  forall o t r, In (MEnd o t r) (log s') -> t <= fst (cend (nth o callers (C 0 None None))).
Proof.
  intros R o t r Hin. assert (L0 : LEInv (init callers scr wn st)) by (intros m []).
  destruct (@run_LEInv fuel _ s' L0 R) as (L & Cs). cbn [init cs] in Cs. specialize (L _ Hin). rewrite Cs in L.
  cbn [end_ok] in L. apply N.leb_le. exact L.
Qed.

(* ------------------------------------------------------------------ the cache's answers change nothing *)
Notation cstate := (cstate V).
Notation cstep := (@cstep V nm).
Notation crun := (@crun V nm).

Lemma feed_core : forall fx (c : cstate), core (feed fx c) = core c.
Proof.
  induction fx as [|[d] fx IH]; intros c; cbn [feed]; [reflexivity|].
  destruct (canswers c) as [|a q]; rewrite IH; reflexivity.
Qed.

Lemma feed_offered : forall fx (c : cstate), offered (feed fx c) = offered c ++ map (fun '(Flush d) => d) fx.
Proof.
  induction fx as [|[d] fx IH]; intros c; cbn [feed map]; [rewrite app_nil_r; reflexivity|].
  destruct (canswers c) as [|a q]; rewrite IH; cbn [offered]; rewrite <- app_assoc; reflexivity.
Qed.

Lemma cstep_core (c : cstate) t e : core (cstep c t e) = step (core c) t e.
Proof. reflexivity. Qed.

(* the flight model is the projection of the model with a cache: the run - hence every caller's
   result and instant, the request log, the store (installed entry, handle, what later polls ask
   for) - is the same whatever the cache answers *)
Theorem crun_core : forall fuel (c : cstate), option_map (@core V) (crun fuel c) = run fuel (core c).
Proof.
  induction fuel as [|k IH]; intros c; cbn [Lookup.crun Lookup.run].
  - destruct (earliest (candidates (core c))) as [[t e]|]; reflexivity.
  - destruct (earliest (candidates (core c))) as [[t e]|]; [|reflexivity]. rewrite IH. reflexivity.
Qed.

Lemma cstep_offered (c1 c2 : cstate) t e : core c1 = core c2 -> offered c1 = offered c2 ->
  offered (cstep c1 t e) = offered (cstep c2 t e).
Proof.
  intros Ec Eo. unfold Lookup.cstep. cbn [offered]. rewrite !feed_offered, Ec, Eo. reflexivity.
Qed.

Theorem crun_offered : forall fuel (c1 c2 : cstate), core c1 = core c2 -> offered c1 = offered c2 ->
  option_map (@offered V) (crun fuel c1) = option_map (@offered V) (crun fuel c2).
Proof.
  induction fuel as [|k IH]; intros c1 c2 Ec Eo; cbn [Lookup.crun]; rewrite Ec.
  - destruct (earliest (candidates (core c2))) as [[t e]|]; cbn [option_map]; congruence.
  - destruct (earliest (candidates (core c2))) as [[t e]|]; [|cbn [option_map]; congruence].
    apply IH; [rewrite !cstep_core, Ec; reflexivity|apply cstep_offered; assumption].
Qed.

Theorem flush_outcome_irrelevant callers scr wn st a1 a2 fuel :
  option_map (@core V) (crun fuel (cinit callers scr wn st a1)) = option_map (@core V) (crun fuel (cinit callers scr wn st a2))
  /\ option_map (@offered V) (crun fuel (cinit callers scr wn st a1)) = option_map (@offered V) (crun fuel (cinit callers scr wn st a2)).
Proof. split; [rewrite !crun_core; reflexivity|apply crun_offered; reflexivity]. Qed.

(* what lands in the cache is a sub-sequence of what was offered, chosen by the cache alone *)
Lemma feed_landed_incl : forall fx (c : cstate) d, In d (landed (feed fx c)) -> In d (landed c) \/ In (Flush d) fx.
Proof.
  induction fx as [|[d0] fx IH]; intros c d H; cbn [feed] in H; [auto|].
  destruct (canswers c) as [|a q]; apply IH in H; cbn [landed] in H.
  - destruct H as [H|H]; [|right; right; exact H]. apply in_app_or in H. destruct H as [H|[<-|[]]]; [auto|right; left; reflexivity].
  - destruct H as [H|H]; [|right; right; exact H]. destruct a; [|auto].
    apply in_app_or in H. destruct H as [H|[<-|[]]]; [auto|right; left; reflexivity].
Qed.

(* the converse half of "a failed lookup installs nothing": a step of the flight model either leaves
   the store exactly as it was, or every result it hands out is a handle.  So every caller that is
   told an error (the service's, or its own context's) leaves the store untouched - and by
   crun_core this holds whatever the cache did.  A step that offers nothing to the cache is in
   particular every step that reports an error. *)
Theorem error_leaves_store (s : lstate) t e :
  (lst (step s t e) = lst s /\ flushes_of nm s t e = [])
  \/ (forall d, In d (done (step s t e)) -> In d (done s) \/ snd (fst d) = RHandle).
Proof.
  destruct e as [i| |i]; cbn [Lookup.step flushes_of].
  - destruct (known (lst s) nm).
    + right. intros d H. cbn [done] in H. apply in_app_or in H. destruct H as [H|[<-|[]]]; auto.
    + left. destruct (fl s); [|destruct (next_script s)]; cbn [lst]; destruct (fl s); auto.
  - destruct (fl s) as [f|]; [|left; auto]. destruct (fscript f).
    + right. intros d0 H. cbn [done] in H. apply in_app_or in H. destruct H as [H|H]; [auto|].
      apply in_map_iff in H. destruct H as (i & <- & _). right. reflexivity.
    + left. auto.
    + left. auto.
  - left. destruct (fl s) as [f|]; [|auto]. destruct (Nat.eqb (fowner f) i); [|auto].
    destruct (remove_nat i (waiting s)); [auto|]. destruct (wins s); destruct (next_script s); auto.
Qed.

End FlightProofs.

