(* C11 - model of one store instance polling a changing service.  Built on the shared model of
   store.go's locked steps (Client/Store.v): a poll is `snapshot` (under the lock), then one
   conditional request per non-expired name of the snapshot, issued OUTSIDE the lock in an order
   the model does not choose (Go map order: the order is an input), interleaved with arbitrary
   changes of the service and with other store calls (handles taken, handles read, lookups), then
   `apply_updates` iff no request failed (store.go:290-310 Refresh, 538-559 poll, 595-632
   applyUpdates).  Refresh is single-flighted (store.go:291): a Refresh arriving while a poll is
   in flight starts nothing and receives that poll's result.  Every caller has its own context:
   the leader's governs the poll's requests, a caller whose context ends returns at once (ECancel).

   Executable definitions only; the proofs are in PollProofs.v. *)
From Coq Require Import List Bool NArith ZArith.
Import ListNotations.
From Setec Require Import Base.SMap Client.Store.
Set Implicit Arguments.

Section Poll.
Variable V : Type.
Notation store := (store V).
Notation resp := (resp V).

(* ---- the service as the client sees it: name -> (active version, its bytes) *)
Definition server := @smap name (N * V).
Inductive sop := SSet (n : name) (v : N) (b : V) | SDel (n : name).
Definition sstep (sv : server) (o : sop) : server :=
  match o with SSet n v b => upd n (v, b) sv | SDel n => del n sv end.

(* GetIfChanged(n, old) evaluated on the service state of that instant (db.GetConditional:
   not-changed iff the active version equals old; a missing name is ErrNotFound).  `full` is a
   service that answers with the value even when the version is unchanged (store.go:554 must then
   compare version numbers itself). *)
Definition get_if_changed (sv : server) (n : name) (old : N) (full : bool) : resp :=
  match find n sv with
  | None => RErr
  | Some (v, b) => if (v =? old)%N && negb full then RNotChanged else RValue v b
  end.

(* the instant of a request: the service state then, whether the transport fails, `full` *)
Definition inst : Type := (server * bool * bool)%type.

Fixpoint assoc {X} (n : name) (l : list (name * X)) : option X :=
  match l with [] => None | (k, x) :: r => if neqb n k then Some x else assoc n r end.

Definition answer (i : inst) (n : name) (old : N) : resp :=
  let '(sv, fail, full) := i in if fail : bool then RErr else get_if_changed sv n old full.
Definition ans_of (is : list (name * inst)) (n : name) (old : N) : resp :=
  match assoc n is with Some i => answer i n old | None => RErr end.

(* what a handle for n would yield, with its version number *)
Definition vv (s : store) (n : name) : option (N * V) :=
  match entry s n with Some e => Some (ver e, val e) | None => None end.

(* a poll in flight: the snapshot it works from, the requests answered so far (in order),
   the number of Refresh calls that joined it *)
Record flight := FL { fsnap : list snap_entry; finst : list (name * inst); fjoin : nat; fgone : list nat }.
(* Callers of the flight are numbered in order of arrival: 0 is the LEADER (the caller whose
   Refresh started the poll: the flight function captures ITS context, store.go:291-295, so its
   context governs every request of the poll), 1..fjoin the callers that joined.  fgone lists
   the callers whose own context has ended: each returned its context error at once (the select
   at store.go:304-309) while the flight goes on. *)
Definition gone (fl : flight) (k : nat) : bool := existsb (Nat.eqb k) (fgone fl).
Definition lead_dead (fl : flight) : bool := gone fl 0.
Definition waiting (fl : flight) : nat := S (fjoin fl) - length (fgone fl).
Record world := WD { wst : store; wsv : server; wfl : option flight }.

(* the end of a poll: Store.poll on the collected answers; apply iff none failed *)
Definition finish (s : store) (fl : flight) : store * list (effect V) * bool :=
  match poll (fsnap fl) (ans_of (finst fl)) with
  | None => (s, [], false)
  | Some ups => let '(s', fx) := apply_updates s ups in (s', fx, true)
  end.

(* the version a request for n carries: the snapshot's, and only for names not flagged expired *)
Definition req_version (snap : list snap_entry) (n : name) : option N :=
  match find n snap with Some (false, v) => Some v | _ => None end.

(* did the poll issue exactly one request per non-expired name of its snapshot? *)
Definition complete (fl : flight) : bool :=
  let want := map fst (requests (fsnap fl)) in
  let got := map fst (finst fl) in
  (length got =? length want)%nat && forallb (fun n => mem n got) want.

Inductive event :=
| ERefresh (now_ns : Z)                       (* Refresh called (explicitly or by the ticker loop) *)
| ECancel (k : nat)                           (* the context of caller k of the poll in flight ends *)
| EReq (n : name) (fail full : bool)          (* the poll's request for n is answered now *)
| EEnd                                        (* the poll's last request has been answered *)
| EEndF                                       (* the same, but the Cache.Write of applyUpdates (if any) FAILS *)
| ESrv (o : sop)                              (* the service changes *)
| ESecret (n : name)                          (* Store.Secret(n) *)
| ERead (n : name) (now_s : Z)                (* a handle for n is called *)
| ELookup (n : name) (now_s : Z) (fail : bool)(* Store.LookupSecret(n) *)
| EShutdown.                                  (* Close: the poller's last flush *)

Inductive out :=
| OReq (old : option N) (r : resp)            (* version carried by the request; the service's answer *)
| ORes (ok : bool)                            (* what a Refresh call returns when the poll ends: nil / the poll's error *)
| OCtx                                        (* a Refresh call returns its own context's error *)
| OFlush (d : list (doc_entry V))             (* a Cache.Write *)
| OFlushF (d : list (doc_entry V))            (* a Cache.Write that failed (nothing reaches the cache) *)
| OHandle (h : option bool)                   (* Secret: Some true handle, Some false nil, None panic *)
| OVal (v : option V)                         (* bytes returned by a handle *)
| OLookup (ok : bool).

Definition flush_out (fx : list (effect V)) : list out := map (fun '(Flush d) => OFlush d) fx.

(* the end of a poll (store.go:295-302) *)
Definition end_step (w : world) : world * list out :=
  let '(WD st sv ofl) := w in
  match ofl with
  | Some fl => let '(st', fx, ok) := finish st fl in
               (WD st' sv None, flush_out fx ++ repeat (ORes ok) (waiting fl))
  | None => (w, [])
  end.
(* ... when the write fails: applyUpdates has installed everything and returns the cache's error,
   which Refresh hands to every caller (store.go:299-301, 631): the values ARE installed, the
   callers get an error, the cache keeps its old contents *)
Definition is_flush (o : out) : bool := match o with OFlush _ => true | _ => false end.
Definition failw (o : out) : out :=
  match o with OFlush d => OFlushF d | ORes _ => ORes false | x => x end.

Definition step (w : world) (e : event) : world * list out :=
  let '(WD st sv ofl) := w in
  match e with
  | ERefresh now =>
    match ofl with
    | None => (WD st sv (Some (FL (snapshot st now) [] 0 [])), [])
    | Some fl => (WD st sv (Some (FL (fsnap fl) (finst fl) (S (fjoin fl)) (fgone fl))), [])
    end
  | ECancel k =>
    match ofl with
    | Some fl =>
      if (k <=? fjoin fl)%nat && negb (gone fl k)
      then (WD st sv (Some (FL (fsnap fl) (finst fl) (fjoin fl) (k :: fgone fl))), [OCtx])
      else (w, [])
    | None => (w, [])      (* that caller has returned already *)
    end
  | EReq n fail full =>
    match ofl with
    | Some fl =>
      (* a request made on a context that has ended fails (the client honours cancellation) *)
      let i := (sv, fail || lead_dead fl, full) in
      let ov := req_version (fsnap fl) n in
      (WD st sv (Some (FL (fsnap fl) (finst fl ++ [(n, i)]) (fjoin fl) (fgone fl))),
       [OReq ov (match ov with Some v => answer i n v | None => RErr end)])
    | None => (w, [])
    end
  | EEnd => end_step w
  | EEndF => let '(w', o) := end_step w in if existsb is_flush o then (w', map failw o) else (w', o)
  | ESrv o => (WD st (sstep sv o) ofl, [])
  | ESecret n => let '(st', h) := secret st n in (WD st' sv ofl, [OHandle h])
  | ERead n now_s => let '(st', v) := read st n now_s in (WD st' sv ofl, [OVal v])
  | ELookup n now_s fail =>
    if known st n then (WD (fst (secret_locked st n)) sv ofl, [OLookup true])
    else if negb (allow st) then (w, [OLookup false])
    else match fail, find n sv with
         | false, Some (v, b) => let '(st', fx) := lookup_install st n v b now_s in
                                 (WD st' sv ofl, flush_out fx ++ [OLookup true])
         | _, _ => (w, [OLookup false])
         end
  | EShutdown => (w, flush_out (shutdown_flush st))
  end.

Fixpoint run (w : world) (evs : list event) : world * list (list out) :=
  match evs with
  | [] => (w, [])
  | e :: r => let '(w1, o) := step w e in let '(w2, os) := run w1 r in (w2, o :: os)
  end.

(* the service state after a stretch of events; the requests of a stretch with their instants *)
Definition srv_after (sv : server) (evs : list event) : server :=
  fold_left (fun sv e => match e with ESrv o => sstep sv o | _ => sv end) evs sv.
Definition dead_after (d : bool) (evs : list event) : bool :=
  fold_left (fun d e => match e with ECancel O => true | _ => d end) evs d.
Fixpoint collect (sv : server) (d : bool) (evs : list event) : list (name * inst) :=
  match evs with
  | [] => []
  | ESrv o :: r => collect (sstep sv o) d r
  | EReq n fail full :: r => (n, (sv, fail || d, full)) :: collect sv d r
  | ECancel O :: r => collect sv true r
  | _ :: r => collect sv d r
  end.
Definition is_end (e : event) : bool := match e with EEnd | EEndF => true | _ => false end.

(* what the last Cache.Write of a run left in the cache (c = what it held before) *)
Definition cache_after (c : list (doc_entry V)) (outs : list out) : list (doc_entry V) :=
  fold_left (fun c o => match o with OFlush d => d | _ => c end) outs c.
Definition doc_vv (d : list (doc_entry V)) (n : name) : option (N * V) :=
  match find n d with Some (Some (v, b, _)) => Some (v, b) | _ => None end.

Definition run_w (w : world) (evs : list event) : world := fold_left (fun w e => fst (step w e)) evs w.

(* ---- construction (store.go:177-250) with a service that answers every initial fetch: the
   start-up cache, the declared names, one init round; the store is flushed once iff some declared
   name was not cached *)
Definition construct (names : list name) (cache : option (@smap name (rentry V))) (sv : server)
           (now_s : Z) (allow_lookup : bool) (age_ns : Z) : world * list out :=
  let '(mm1, want) := declare (load_cache cache) (norm_names names) in
  let '(mm2, _) := init_round mm1 (fun n => find n sv) now_s in
  let st := ST mm2 [] [] allow_lookup age_ns in
  (WD st sv None, if want : bool then [OFlush (doc st)] else []).

End Poll.

(* ---- the ticker loop's period (store.go:567): interval + rand.Intn(2*interval/10) - interval/10,
   drawn once per store; Go's integer division truncates (all quantities are non-negative here) *)
Definition jitter_bound (i : Z) : Z := (2 * i / 10)%Z.
Definition period (i r : Z) : Z := (i + (r - i / 10))%Z.
(* is p a period the loop can choose for the interval i? *)
Definition period_ok (i p : Z) : bool :=
  let r := (p - i + i / 10)%Z in (0 <=? r)%Z && (r <? jitter_bound i)%Z.
(* ticks of a time.Ticker started at t0 with period p *)
Definition tick (t0 p : Z) (k : nat) : Z := (t0 + Z.of_nat (S k) * p)%Z.
Fixpoint ticks_from (prev p : Z) (l : list Z) : bool :=
  match l with [] => true | t :: r => (t =? prev + p)%Z && ticks_from t p r end.
(* a recorded cadence: first tick one period after the start, equal spacing, period within bounds *)
Definition cadence_ok (i t0 : Z) (l : list Z) : bool :=
  match l with
  | [] => false
  | t1 :: r => period_ok i (t1 - t0) && ticks_from t1 (t1 - t0) r
  end.

(* ---- polls that take time.  The loop (store.go:563-591) waits on a time.Ticker created once with
   the period p: ticks fire on the fixed grid t0 + k*p whatever the receiver does, the channel
   buffers ONE tick (further ticks that fire while it is full are dropped), `Done` does nothing for
   the standard ticker.  So a poll that starts at s and lasts d is followed by a poll that starts
   at the first grid tick after s if the loop is idle again by then, and otherwise immediately
   when the running poll ends (the buffered tick). *)
Definition next_start (t0 p s d : Z) : Z :=
  let f := (s + d)%Z in
  let g := (t0 + ((s - t0) / p + 1) * p)%Z in
  if (g <=? f)%Z then f else g.
Fixpoint starts_from (t0 p s : Z) (ds : list Z) : list Z :=
  match ds with [] => [s] | d :: r => s :: starts_from t0 p (next_start t0 p s d) r end.
(* start instants of the polls of a loop started at t0, given the durations of the polls *)
Definition starts (t0 p : Z) (ds : list Z) : list Z := starts_from t0 p (t0 + p)%Z ds.

(* monitor on the observed (start, end) instants of consecutive polls *)
Fixpoint follows (t0 p s e : Z) (l : list (Z * Z)) : bool :=
  match l with
  | [] => true
  | (s', e') :: r => (s' =? next_start t0 p s (e - s))%Z && (s' <=? e')%Z && follows t0 p s' e' r
  end.
Definition cadence2_ok (i t0 : Z) (l : list (Z * Z)) : bool :=
  match l with
  | [] => false
  | (s1, e1) :: r => period_ok i (s1 - t0) && (s1 <=? e1)%Z && follows t0 (s1 - t0) s1 e1 r
  end.
(* durations of all polls but the last *)
Fixpoint durs_init (s e : Z) (l : list (Z * Z)) : list Z :=
  match l with [] => [] | (s', e') :: r => (e - s)%Z :: durs_init s' e' r end.

Arguments SDel {V}.
Arguments EEnd {V}.
Arguments EEndF {V}.
Arguments EShutdown {V}.
Arguments ERefresh {V}.
Arguments ECancel {V}.
Arguments OCtx {V}.
Arguments EReq {V}.
Arguments ELookup {V}.
Arguments ESecret {V}.
Arguments ERead {V}.
Arguments ORes {V}.
Arguments OHandle {V}.
Arguments OLookup {V}.
