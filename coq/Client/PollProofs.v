(* C11 - proofs about Client/Poll.v (on Client/Store.v and its basic invariant StoreInv.v). *)
From Coq Require Import List Bool NArith ZArith Lia.
Import ListNotations.
From Setec Require Import Base.SMap Client.Store Client.StoreInv Client.Poll.
Set Implicit Arguments.

Section PollProofs.
Variable V : Type.
Notation store := (store V).
Notation world := (world V).
Notation event := (event V).

(* ---------- generalities on sorted maps *)
Lemma cmp_name_eq (a b : name) : cmp a b = Eq <-> a = b.
Proof. apply cmp_eq. Qed.

Lemma find_cons_name {X} (n k : name) (x : X) r :
  find n ((k, x) :: r) = if neqb n k then Some x else find n r.
Proof. cbn [find]. unfold neqb. destruct (cmp n k); reflexivity. Qed.

Lemma sorted_tail {X} (k : name) (x : X) r : sorted ((k, x) :: r) -> sorted r.
Proof. inversion 1; auto. Qed.

Lemma sorted_head_absent {X} (k : name) (x : X) r : sorted ((k, x) :: r) -> find k r = None.
Proof. inversion 1; subst. apply find_not_in. auto. Qed.

(* ---------- vv and the elementary steps *)
Lemma vv_with_hs (s : store) h n : vv (with_hs s h) n = vv s n.
Proof. reflexivity. Qed.
Lemma vv_with_ws (s : store) w n : vv (with_ws s w) n = vv s n.
Proof. reflexivity. Qed.

Lemma vv_upd (s : store) k e n :
  vv (with_m s (upd k (Some e) (m s))) n = if neqb n k then Some (ver e, val e) else vv s n.
Proof.
  unfold vv, entry. cbn [m with_m]. rewrite find_upd_cases. destruct (neqb n k); reflexivity.
Qed.

Lemma vv_known (s : store) n : Inv s -> (vv s n <> None <-> known s n = true).
Proof.
  intros I. unfold vv, entry, known. pose proof (inv_nostub I n) as NS.
  destruct (find n (m s)) as [[e|]|]; split; intro H; try congruence; try discriminate.
Qed.

Lemma secret_locked_vv (s : store) k n : vv (fst (secret_locked s k)) n = vv s n.
Proof. unfold secret_locked. destruct (known s k); [destruct (has_handle s k)|]; reflexivity. Qed.

Lemma read_vv (s : store) k t n : vv (fst (read s k t)) n = vv s n.
Proof.
  unfold read. destruct (find k (m s)) as [[e|]|] eqn:F; cbn [fst]; auto.
  rewrite vv_upd. cbn [ver val]. destruct (neqb n k) eqn:E; auto.
  apply neqb_true in E. subst. unfold vv, entry. rewrite F. reflexivity.
Qed.

(* ---------- apply1 touches one name only; handles are untouched *)
Lemma apply1_hs (s : store) u : hs (apply1 s u) = hs s.
Proof.
  destruct u as [k [|v b]]; cbn [apply1].
  - destruct (has_handle s k); reflexivity.
  - destruct (find k (m s)) as [[e|]|]; reflexivity.
Qed.

Lemma apply1_has_handle (s : store) u n : has_handle (apply1 s u) n = has_handle s n.
Proof. unfold has_handle. rewrite apply1_hs. reflexivity. Qed.

Lemma apply1_other (s : store) k a n : n <> k -> vv (apply1 s (k, a)) n = vv s n.
Proof.
  intro D. destruct a as [|v b]; cbn [apply1].
  - destruct (has_handle s k); auto. unfold vv, entry. cbn [m with_m]. rewrite find_del_neq; auto.
  - destruct (find k (m s)) as [[e|]|]; auto. unfold notify. rewrite vv_with_ws, vv_upd.
    apply neqb_false in D. rewrite D. reflexivity.
Qed.

Lemma apply1_drop (s : store) k : Inv s ->
  vv (apply1 s (k, Drop)) k = if has_handle s k then vv s k else None.
Proof.
  intro I. cbn [apply1]. destruct (has_handle s k); auto.
  unfold vv, entry. cbn [m with_m]. rewrite find_del_eq; auto. apply I.
Qed.

Lemma apply1_install (s : store) k v b : Inv s ->
  vv (apply1 s (k, Install v b)) k = match vv s k with Some _ => Some (v, b) | None => None end.
Proof.
  intro I. cbn [apply1]. unfold vv at 2. unfold entry. pose proof (inv_nostub I k) as NS.
  destruct (find k (m s)) as [[e|]|] eqn:F; try congruence.
  - unfold notify. rewrite vv_with_ws, vv_upd. cbn [ver val].
    assert (E : neqb k k = true) by (apply neqb_true; auto). rewrite E. reflexivity.
  - unfold vv, entry. rewrite F. reflexivity.
Qed.

(* ---------- what Store.poll returns *)
Definition upd_of (ans : name -> N -> resp V) (x : snap_entry) : list (name * upd1 V) :=
  let '(n, (ex, v)) := x in
  if ex : bool then [(n, Drop)]
  else match ans n v with
       | RValue v' b => if (v' =? v)%N then [] else [(n, Install v' b)]
       | _ => []
       end.

Lemma poll_some snap ans : forall ups, poll snap ans = Some ups ->
  ups = flat_map (upd_of ans) snap /\ (forall n v, In (n, (false, v)) snap -> ans n v <> RErr).
Proof.
  induction snap as [|[n [ex v]] rest IH]; intros ups H; cbn [poll] in H.
  - injection H as <-. split; [reflexivity|intros ? ? []].
  - destruct (poll rest ans) as [r|] eqn:P.
    + destruct (IH r eq_refl) as [E A]. destruct ex.
      * cbn [option_map] in H. injection H as <-. split.
        -- cbn [flat_map upd_of]. rewrite E. reflexivity.
        -- intros n' v' [Q|Q]; [discriminate|eauto].
      * destruct (ans n v) as [|v' b|] eqn:AN; try discriminate.
        -- injection H as <-. split.
           ++ cbn [flat_map upd_of]. rewrite AN, E. reflexivity.
           ++ intros n' v' [Q|Q]; [injection Q as <- <-; congruence|eauto].
        -- split.
           ++ cbn [flat_map upd_of]. rewrite AN. destruct (v' =? v)%N.
              ** injection H as <-. rewrite E. reflexivity.
              ** cbn [option_map] in H. injection H as <-. rewrite E. reflexivity.
           ++ intros n' v'' [Q|Q]; [injection Q as <- <-; congruence|eauto].
    + destruct ex; [discriminate|]. destruct (ans n v) as [|v' b|]; try discriminate.
      destruct (v' =? v)%N; discriminate.
Qed.

Lemma poll_none snap (ans : name -> N -> resp V) : poll snap ans = None -> exists n v, In (n, (false, v)) snap /\ ans n v = RErr.
Proof.
  induction snap as [|[n [ex v]] rest IH]; intros H; cbn [poll] in H; [discriminate|].
  destruct (poll rest ans) as [r|] eqn:P.
  - destruct ex; [discriminate|]. destruct (ans n v) as [|v' b|] eqn:AN; try discriminate.
    + destruct (v' =? v)%N; discriminate.
    + exists n, v. split; auto. left; auto.
  - destruct (IH eq_refl) as (n' & v' & I & A). exists n', v'. split; auto. right; auto.
Qed.

Lemma poll_err snap (ans : name -> N -> resp V) n v : In (n, (false, v)) snap -> ans n v = RErr -> poll snap ans = None.
Proof.
  intros I A. destruct (poll snap ans) as [ups|] eqn:P; auto.
  apply poll_some in P. destruct P as [_ Q]. exfalso. eapply Q; eauto.
Qed.

(* ---------- the snapshot is a sorted map: name -> (flagged expired?, version) *)
Definition flagged (s : store) (now : Z) (n : name) : bool :=
  match entry s n with
  | Some e => negb (has_handle s n) && has_expired (age s) now e
  | None => false
  end.

Definition snap_f (s : store) (now : Z) (x : name * option (centry V)) : list snap_entry :=
  let '(n, oe) := x in
  match oe with
  | Some e => [(n, (negb (has_handle s n) && has_expired (age s) now e, ver e))]
  | None => [] end.

Lemma snapshot_eq (s : store) now : snapshot s now = flat_map (snap_f s now) (m s).
Proof. reflexivity. Qed.

Lemma in_snap_f s now k y mm : In (k, y) (flat_map (snap_f s now) mm) -> exists oe, In (k, oe) mm.
Proof.
  induction mm as [|[k' oe] r IH]; cbn [flat_map]; [intros []|].
  intro H. apply in_app_or in H. destruct H as [H|H].
  - destruct oe as [e|]; cbn [snap_f] in H; [|destruct H]. destruct H as [H|[]].
    injection H as <- _. exists (Some e). left; auto.
  - destruct (IH H) as [x Hx]. exists x. right; auto.
Qed.

Lemma snap_sorted s now mm : sorted mm -> sorted (flat_map (snap_f s now) mm).
Proof.
  induction 1 as [|k oe r L S IH]; cbn [flat_map]; [constructor|].
  destruct oe as [e|]; cbn [snap_f app]; auto.
  constructor; auto. intros k' y H. apply in_snap_f in H. destruct H as [x Hx]. eauto.
Qed.

Lemma snapshot_sorted (s : store) now : Inv s -> sorted (snapshot s now).
Proof. intros I. rewrite snapshot_eq. apply snap_sorted, I. Qed.

Lemma snap_find s now n mm : (forall k, In (k, None) mm -> False) ->
  find n (flat_map (snap_f s now) mm) =
  match find n mm with
  | Some (Some e) => Some (negb (has_handle s n) && has_expired (age s) now e, ver e)
  | _ => None end.
Proof.
  induction mm as [|[k oe] r IH]; intro NS; cbn [flat_map]; [reflexivity|].
  destruct oe as [e|]; [|exfalso; apply (NS k); left; auto].
  assert (NS' : forall k', In (k', None) r -> False) by (intros k' H; apply (NS k'); right; auto).
  cbn [snap_f app find]. destruct (cmp n k) eqn:C; auto.
  apply cmp_eq in C. subst. reflexivity.
Qed.

Lemma snapshot_find (s : store) now n : Inv s ->
  find n (snapshot s now) =
  match entry s n with
  | Some e => Some (flagged s now n, ver e)
  | None => None end.
Proof.
  intros I. rewrite snapshot_eq, snap_find.
  - unfold flagged, entry. destruct (find n (m s)) as [[e|]|]; reflexivity.
  - intros k H. apply in_find in H; [|apply I]. apply (inv_nostub I k H).
Qed.

(* ---------- what apply does with the updates of a poll, name by name *)
Lemma fold_apply1_nil (s : store) : fold_left (@apply1 V) [] s = s.
Proof. reflexivity. Qed.

Lemma apply_spec ans : forall snap, sorted snap -> forall s : store, Inv s -> forall n,
  vv (fold_left (@apply1 V) (flat_map (upd_of ans) snap) s) n =
  match find n snap with
  | None => vv s n
  | Some (true, _) => if has_handle s n then vv s n else None
  | Some (false, v) =>
    match ans n v with
    | RValue v' b => if (v' =? v)%N then vv s n else match vv s n with Some _ => Some (v', b) | None => None end
    | _ => vv s n
    end
  end
  /\ has_handle (fold_left (@apply1 V) (flat_map (upd_of ans) snap) s) n = has_handle s n.
Proof.
  induction snap as [|[k [ex v]] rest IH]; intros S s I n.
  - cbn. auto.
  - cbn [flat_map]. rewrite fold_left_app.
    set (s1 := fold_left (@apply1 V) (upd_of ans (k, (ex, v))) s).
    assert (I1 : Inv s1) by (apply fold_apply1_Inv; auto).
    assert (H1 : forall x, has_handle s1 x = has_handle s x).
    { intro x. unfold s1, upd_of. destruct ex; cbn [fold_left]; [apply apply1_has_handle|].
      destruct (ans k v) as [|v' b|]; cbn [fold_left]; auto.
      destruct (v' =? v)%N; cbn [fold_left]; auto. apply apply1_has_handle. }
    destruct (IH (sorted_tail S) s1 I1 n) as [A B]. rewrite A, B, H1. split; auto.
    rewrite find_cons_name. destruct (neqb n k) eqn:E.
    + apply neqb_true in E. subst n. rewrite (sorted_head_absent S).
      unfold s1, upd_of. destruct ex; cbn [fold_left].
      * apply apply1_drop; auto.
      * destruct (ans k v) as [|v' b|]; cbn [fold_left]; auto.
        destruct (v' =? v)%N; cbn [fold_left]; auto. apply apply1_install; auto.
    + apply neqb_false in E.
      assert (Q : vv s1 n = vv s n).
      { unfold s1, upd_of. destruct ex; cbn [fold_left]; [apply apply1_other; auto|].
        destruct (ans k v) as [|v' b|]; cbn [fold_left]; auto.
        destruct (v' =? v)%N; cbn [fold_left]; auto. apply apply1_other; auto. }
      rewrite Q. reflexivity.
Qed.

(* ---------- the end of a poll *)
Definition formula (s0 : store) now (s1 : store) (insts : list (name * inst V)) (n : name) : option (N * V) :=
  match entry s0 n with
  | None => vv s1 n
  | Some e =>
    if flagged s0 now n then (if has_handle s1 n then vv s1 n else None)
    else match ans_of insts n (ver e) with
         | RValue v' b => if (v' =? ver e)%N then vv s1 n
                          else match vv s1 n with Some _ => Some (v', b) | None => None end
         | _ => vv s1 n
         end
  end.

Lemma finish_true (s0 : store) now (s1 : store) insts jn gn s' fx :
  Inv s0 -> Inv s1 ->
  finish s1 (FL (snapshot s0 now) insts jn gn) = (s', fx, true) ->
  (forall n, vv s' n = formula s0 now s1 insts n)
  /\ (forall n e, entry s0 n = Some e -> flagged s0 now n = false -> ans_of insts n (ver e) <> RErr)
  /\ ((fx = [] /\ s' = s1) \/ fx = [Flush (doc s')])
  /\ Inv s'.
Proof.
  intros I0 I1 F. unfold finish in F. cbn [fsnap finst] in F.
  destruct (poll (snapshot s0 now) (ans_of insts)) as [ups|] eqn:P; [|discriminate].
  apply poll_some in P. destruct P as [E A].
  assert (S' : s' = fold_left (@apply1 V) ups s1 /\ ((fx = [] /\ s' = s1) \/ fx = [Flush (doc s')])).
  { unfold apply_updates in F. destruct ups as [|u r].
    - injection F as <- <-. split; auto.
    - injection F as <- <-. split; auto. }
  destruct S' as [-> C]. split; [|split; [|split]]; auto.
  - intro n. rewrite E. destruct (apply_spec (ans_of insts) (snapshot_sorted now I0) I1 n) as [Q _].
    rewrite Q. rewrite snapshot_find by auto. unfold formula.
    destruct (entry s0 n) as [e|]; auto.
  - intros n e En Fl. apply A. apply find_in. rewrite snapshot_find by auto. rewrite En, Fl. reflexivity.
  - apply fold_apply1_Inv; auto.
Qed.

Lemma finish_false (s1 : store) fl s' fx : finish s1 fl = (s', fx, false) -> s' = s1 /\ fx = [].
Proof.
  unfold finish. destruct (poll (fsnap fl) (ans_of (finst fl))) as [ups|].
  - destruct (apply_updates s1 ups). intro H. discriminate.
  - intro H. injection H as <- <-. auto.
Qed.

Lemma finish_Inv (s1 : store) fl : Inv s1 -> Inv (fst (fst (finish s1 fl))).
Proof.
  intro I. unfold finish. destruct (poll (fsnap fl) (ans_of (finst fl))) as [ups|]; cbn [fst]; auto.
  pose proof (apply_updates_Inv ups I) as J. destruct (apply_updates s1 ups). exact J.
Qed.

(* a failed request for a live name of the snapshot makes the poll fail *)
Lemma finish_fails (s0 : store) now (s1 : store) insts jn gn n e :
  Inv s0 -> entry s0 n = Some e -> flagged s0 now n = false -> ans_of insts n (ver e) = RErr ->
  finish s1 (FL (snapshot s0 now) insts jn gn) = (s1, [], false).
Proof.
  intros I0 En Fl A. unfold finish. cbn [fsnap finst].
  rewrite (@poll_err (snapshot s0 now) (ans_of insts) n (ver e)); auto.
  apply find_in. rewrite snapshot_find by auto. rewrite En, Fl. reflexivity.
Qed.

(* ---------- the events between the beginning and the end of a poll *)
Definition pres (s0 s1 : store) : Prop := forall n x, vv s0 n = Some x -> vv s1 n = Some x.

Lemma pres_refl s : pres s s. Proof. intros n x H; exact H. Qed.
Lemma pres_trans a b c : pres a b -> pres b c -> pres a c.
Proof. intros H1 H2 n x H. apply H2, H1, H. Qed.
Lemma pres_eq (a b : store) : (forall n, vv b n = vv a n) -> pres a b.
Proof. intros H n x Hx. rewrite H. exact Hx. Qed.

Lemma dead_after_cons d (e : event) r : dead_after d (e :: r) = dead_after (dead_after d [e]) r.
Proof. reflexivity. Qed.

Lemma dead_after_true (evs : list event) : dead_after true evs = true.
Proof. induction evs as [|e r IH]; auto. rewrite dead_after_cons. destruct e as [| [|k] | | | | | | | |]; exact IH. Qed.

Lemma collect_cons sv d (e : event) r :
  collect sv d (e :: r) = collect sv d [e] ++ collect (srv_after sv [e]) (dead_after d [e]) r.
Proof. destruct e as [| [|k] | | | | | | | |]; reflexivity. Qed.

Lemma srv_after_cons sv (e : event) r : srv_after sv (e :: r) = srv_after (srv_after sv [e]) r.
Proof. reflexivity. Qed.

Lemma mid_pack (st : store) sv fl st' sv' fl' (e : event) :
  Inv st' -> pres st st' -> sv' = srv_after sv [e] -> fsnap fl' = fsnap fl ->
  finst fl' = finst fl ++ collect sv (lead_dead fl) [e] ->
  lead_dead fl' = dead_after (lead_dead fl) [e] ->
  Inv (wst (WD st' sv' (Some fl'))) /\ pres st (wst (WD st' sv' (Some fl'))) /\
  wsv (WD st' sv' (Some fl')) = srv_after sv [e] /\
  exists fl'', wfl (WD st' sv' (Some fl')) = Some fl'' /\ fsnap fl'' = fsnap fl /\
               finst fl'' = finst fl ++ collect sv (lead_dead fl) [e] /\
               lead_dead fl'' = dead_after (lead_dead fl) [e].
Proof. intros. cbn [wst wsv wfl]. split; [|split; [|split]]; auto. exists fl'. auto. Qed.

Lemma step_mid (w : world) e fl : wfl w = Some fl -> is_end e = false -> Inv (wst w) ->
  Inv (wst (fst (step w e))) /\ pres (wst w) (wst (fst (step w e))) /\
  wsv (fst (step w e)) = srv_after (wsv w) [e] /\
  exists fl', wfl (fst (step w e)) = Some fl' /\ fsnap fl' = fsnap fl /\
              finst fl' = finst fl ++ collect (wsv w) (lead_dead fl) [e] /\
              lead_dead fl' = dead_after (lead_dead fl) [e].
Proof.
  destruct w as [st sv ofl]. cbn [wfl wst wsv]. intros -> NE I.
  assert (NIL : forall l : list (name * inst V), l = l ++ []) by (intro l; rewrite app_nil_r; auto).
  destruct e as [now|c|n fail full| | |o|n|n t|n t fail|]; cbn [step end_step is_end] in *; try discriminate.
  - apply mid_pack; cbn [fsnap finst collect]; auto using pres_refl.
  - (* a caller's context ends *)
    destruct ((c <=? fjoin fl)%nat && negb (gone fl c)) eqn:G; cbn [fst].
    + apply mid_pack; cbn [fsnap finst]; auto using pres_refl.
      * destruct c; cbn [collect]; auto.
      * unfold lead_dead, gone. cbn [fgone existsb dead_after fold_left]. destruct c as [|c]; cbn [Nat.eqb orb]; auto.
    + apply mid_pack; cbn [fsnap finst]; auto using pres_refl.
      * destruct c; cbn [collect]; auto.
      * cbn [dead_after fold_left]. destruct c as [|c]; auto.
        apply andb_false_iff in G. destruct G as [G|G]; [discriminate|].
        apply negb_false_iff in G. exact G.
  - apply mid_pack; cbn [fsnap finst collect]; auto using pres_refl.
  - apply mid_pack; cbn [fsnap finst collect]; auto using pres_refl.
  - assert (Q : fst (secret st n) = fst (secret_locked st n)).
    { unfold secret. destruct (secret_locked st n) as [s' ok]. destruct ok; [|destruct (allow st)]; reflexivity. }
    destruct (secret st n) as [st' h]. cbn [fst] in Q. subst st'.
    apply mid_pack; cbn [fsnap finst collect]; auto using secret_locked_Inv.
    apply pres_eq. intro k. apply secret_locked_vv.
  - pose proof (read_Inv n t I) as RI. pose proof (fun k => read_vv st n t k) as RV.
    destruct (read st n t) as [st' v]. cbn [fst] in *.
    apply mid_pack; cbn [fsnap finst collect]; auto using pres_eq.
  - destruct (known st n) eqn:K; [|destruct (negb (allow st))].
    + apply mid_pack; cbn [fsnap finst collect]; auto using secret_locked_Inv.
      apply pres_eq. intro k. apply secret_locked_vv.
    + apply mid_pack; cbn [fsnap finst collect]; auto using pres_refl.
    + destruct fail; [|destruct (find n sv) as [[v b]|]];
        try solve [apply mid_pack; cbn [fsnap finst collect]; auto using pres_refl].
      pose proof (lookup_install_Inv n v b t I) as LI.
      unfold lookup_install in *. cbn [fst flush_out map app] in *.
      apply mid_pack; cbn [fsnap finst collect]; auto.
      intros k x Hk. rewrite secret_locked_vv, vv_upd. destruct (neqb k n) eqn:E; auto.
      apply neqb_true in E. subst k. exfalso. unfold vv, entry, known in *.
      destruct (find n (m st)) as [[e|]|]; discriminate.
  - apply mid_pack; cbn [fsnap finst collect]; auto using pres_refl.
Qed.

Definition no_end (evs : list event) : Prop := forall e, In e evs -> is_end e = false.

Lemma run_mid : forall mid (w : world) fl, wfl w = Some fl -> no_end mid -> Inv (wst w) ->
  Inv (wst (run_w w mid)) /\ pres (wst w) (wst (run_w w mid)) /\
  wsv (run_w w mid) = srv_after (wsv w) mid /\
  exists fl', wfl (run_w w mid) = Some fl' /\ fsnap fl' = fsnap fl /\
              finst fl' = finst fl ++ collect (wsv w) (lead_dead fl) mid /\
              lead_dead fl' = dead_after (lead_dead fl) mid.
Proof.
  induction mid as [|e r IH]; intros w fl F NE I.
  - cbn [run_w fold_left srv_after collect dead_after]. split; [|split; [|split]]; auto using pres_refl.
    exists fl. rewrite app_nil_r. auto.
  - destruct (@step_mid w e fl F (NE e (or_introl eq_refl)) I) as (I1 & P1 & S1 & fl1 & F1 & Sn1 & In1 & D1).
    assert (NE' : no_end r) by (intros x Hx; apply NE; right; auto).
    destruct (IH (fst (step w e)) fl1 F1 NE' I1) as (I2 & P2 & S2 & fl2 & F2 & Sn2 & In2 & D2).
    change (run_w w (e :: r)) with (run_w (fst (step w e)) r).
    split; [|split; [|split]]; auto.
    + eapply pres_trans; eauto.
    + rewrite S2, S1. reflexivity.
    + exists fl2. split; [|split; [|split]]; auto; try congruence.
      * rewrite In2, In1, S1, D1, (collect_cons (wsv w) (lead_dead fl) e r), app_assoc. reflexivity.
      * rewrite D2, D1. reflexivity.
Qed.

Lemma run_mid_srv (mid : list event) (w : world) fl : wfl w = Some fl -> no_end mid -> Inv (wst w) ->
  wsv (run_w w mid) = srv_after (wsv w) mid.
Proof. intros F NE I. exact (proj1 (proj2 (proj2 (@run_mid mid w fl F NE I)))). Qed.

(* the first request for n in a stretch of events, the service state at that instant, and whether
   the leader's context had ended by then *)
Lemma collect_assoc : forall (mid : list event) sv d n sv' f' u, assoc n (collect sv d mid) = Some (sv', f', u) ->
  exists mid1 mid2 f, mid = mid1 ++ EReq n f u :: mid2 /\ sv' = srv_after sv mid1 /\ f' = f || dead_after d mid1.
Proof.
  induction mid as [|e r IH]; intros sv d n sv' f' u H; [discriminate|].
  destruct e as [now|[|c]|n' f0 u'| | |o|k|k t|k t fl|]; cbn [collect] in H;
    try (destruct (IH _ _ _ _ _ _ H) as (m1 & m2 & f & -> & -> & ->); eexists (_ :: m1), m2, f; repeat split; reflexivity).
  cbn [assoc] in H. destruct (neqb n n') eqn:E.
  - apply neqb_true in E. subst n'. injection H as <- <- <-. exists [], r, f0. repeat split; reflexivity.
  - destruct (IH _ _ _ _ _ _ H) as (m1 & m2 & f & -> & -> & ->). eexists (_ :: m1), m2, f. repeat split; reflexivity.
Qed.

(* ---------- the theorems *)
Lemma not_res_in_flush b (fx : list (effect V)) : ~ In (ORes b) (flush_out fx).
Proof. unfold flush_out. induction fx as [|[d] r IH]; cbn [map]; [intros []|]. intros [H|H]; [discriminate|auto]. Qed.

Lemma res_in_outs b (fx : list (effect V)) ok k : In (ORes b) (flush_out fx ++ repeat (ORes ok) k) -> ok = b.
Proof.
  intro H. apply in_app_or in H. destruct H as [H|H]; [exfalso; eapply not_res_in_flush; eauto|].
  apply repeat_spec in H. congruence.
Qed.

Lemma step_begin (w0 : world) now : wfl w0 = None ->
  fst (step w0 (ERefresh now)) = WD (wst w0) (wsv w0) (Some (FL (snapshot (wst w0) now) [] 0 [])).
Proof. destruct w0 as [st sv ofl]. cbn [wfl]. intros ->. reflexivity. Qed.

(* the state of affairs just before the end of a poll window *)
Lemma window (w0 : world) now mid : Inv (wst w0) -> wfl w0 = None -> no_end mid ->
  exists stk jn gn,
    run_w w0 (ERefresh now :: mid) = WD stk (srv_after (wsv w0) mid) (Some (FL (snapshot (wst w0) now) (collect (wsv w0) false mid) jn gn))
    /\ Inv stk /\ pres (wst w0) stk.
Proof.
  intros I F NE. change (run_w w0 (ERefresh now :: mid)) with (run_w (fst (step w0 (ERefresh now))) mid).
  rewrite step_begin by auto.
  destruct (@run_mid mid (WD (wst w0) (wsv w0) (Some (FL (snapshot (wst w0) now) [] 0 []))) _ eq_refl NE I)
    as (Ik & Pk & Sk & flk & Fk & Snk & Ink & _).
  cbn [wst wsv fsnap finst app] in *.
  destruct (run_w _ mid) as [stk svk oflk]. cbn [wst wsv wfl] in *. subst.
  destruct flk as [sn ins jn gn]. cbn [fsnap finst] in *. subst. exists stk, jn, gn. auto.
Qed.

Theorem poll_fresh (w0 : world) now mid :
  Inv (wst w0) -> wfl w0 = None -> no_end mid ->
  let wk := run_w w0 (ERefresh now :: mid) in
  In (ORes true) (snd (step wk EEnd)) ->
  forall n ver0 b0, vv (wst w0) n = Some (ver0, b0) ->
    let r := vv (wst (fst (step wk EEnd))) n in
    (flagged (wst w0) now n = true /\ (r = None \/ r = Some (ver0, b0)))
    \/ (exists mid1 fail full mid2 v b,
          mid = mid1 ++ EReq n fail full :: mid2 /\
          find n (srv_after (wsv w0) mid1) = Some (v, b) /\
          (r = Some (v, b) \/ (v = ver0 /\ r = Some (ver0, b0)))).
Proof.
  intros I F NE wk. destruct (@window w0 now mid I F NE) as (stk & jn & gn & W & Ik & Pk).
  subst wk. rewrite W. cbn [step end_step].
  destruct (finish stk _) as [[s' fx] ok] eqn:FI. cbn [fst snd wst].
  intro R. apply res_in_outs in R. subst ok.
  destruct (@finish_true _ _ _ _ _ _ _ _ I Ik FI) as (Fm & NErr & _ & _).
  intros n ver0 b0 V0. rewrite Fm. unfold formula.
  assert (E0 : exists e, entry (wst w0) n = Some e /\ ver e = ver0 /\ val e = b0).
  { unfold vv in V0. destruct (entry (wst w0) n) as [e|]; [|discriminate]. injection V0 as <- <-. eauto. }
  destruct E0 as (e & En & <- & <-). rewrite En. pose proof (Pk _ _ V0) as Vk.
  destruct (flagged (wst w0) now n) eqn:Fl.
  - left. split; auto. destruct (has_handle stk n); auto.
  - right. specialize (NErr n e En Fl). unfold ans_of in *.
    destruct (assoc n (collect (wsv w0) false mid)) as [[[sv' f'] u]|] eqn:A; [|congruence].
    destruct (collect_assoc _ _ _ _ A) as (mid1 & mid2 & f & -> & -> & ->).
    unfold answer in *. destruct (f || dead_after false mid1) eqn:FD; [congruence|].
    apply orb_false_elim in FD. destruct FD as [-> _]. unfold get_if_changed in *.
    destruct (find n (srv_after (wsv w0) mid1)) as [[v b]|] eqn:Fs; [|congruence].
    exists mid1, false, u, mid2, v, b. split; auto. split; auto.
    destruct ((v =? ver e)%N && negb u) eqn:C.
    + right. apply andb_prop in C. destruct C as [C _]. apply N.eqb_eq in C. auto.
    + destruct (v =? ver e)%N eqn:C2.
      * right. apply N.eqb_eq in C2. auto.
      * left. rewrite Vk. reflexivity.
Qed.

(* under the protocol's premise (a version number determines the bytes) the store holds exactly
   what was active on the service at the instant of the request *)
Corollary poll_fresh_exact (w0 : world) now mid :
  Inv (wst w0) -> wfl w0 = None -> no_end mid ->
  let wk := run_w w0 (ERefresh now :: mid) in
  In (ORes true) (snd (step wk EEnd)) ->
  forall n ver0 b0, vv (wst w0) n = Some (ver0, b0) -> flagged (wst w0) now n = false ->
    (forall mid1 f u mid2 b, mid = mid1 ++ EReq n f u :: mid2 ->
        find n (srv_after (wsv w0) mid1) = Some (ver0, b) -> b = b0) ->
    exists mid1 fail full mid2,
      mid = mid1 ++ EReq n fail full :: mid2 /\
      find n (srv_after (wsv w0) mid1) <> None /\
      vv (wst (fst (step wk EEnd))) n = find n (srv_after (wsv w0) mid1).
Proof.
  intros I F NE wk R n ver0 b0 V0 Fl Faith.
  destruct (@poll_fresh w0 now mid I F NE R n ver0 b0 V0) as [[Fl' _]|(mid1 & f & u & mid2 & v & b & E & Fs & D)];
    [congruence|].
  exists mid1, f, u, mid2. split; auto. rewrite Fs. split; [discriminate|].
  cbv zeta in D. fold wk in D. destruct D as [D|[-> D]]; auto. rewrite D. f_equal. f_equal. symmetry. eapply Faith; eauto.
Qed.

(* a failed poll changes nothing and writes nothing *)
Theorem poll_all_or_nothing (w : world) : In (ORes false) (snd (step w EEnd)) ->
  wst (fst (step w EEnd)) = wst w /\ (forall d, ~ In (OFlush d) (snd (step w EEnd))).
Proof.
  destruct w as [st sv [fl|]]; cbn [step end_step]; [|intros []].
  destruct (finish st fl) as [[s' fx] ok] eqn:FI. cbn [fst snd wst]. intro R.
  apply res_in_outs in R. subst ok. apply finish_false in FI. destruct FI as [-> ->]. split; auto.
  intros d H. cbn [flush_out map app] in H. apply repeat_spec in H. discriminate.
Qed.

Lemma collect_skip : forall (mid1 : list event) sv d n rest,
  (forall f' u', ~ In (EReq n f' u') mid1) ->
  assoc n (collect sv d (mid1 ++ rest)) = assoc n (collect (srv_after sv mid1) (dead_after d mid1) rest).
Proof.
  induction mid1 as [|e r IH]; intros sv d n rest NI; [reflexivity|].
  assert (NI' : forall f' u', ~ In (EReq n f' u') r) by (intros f' u' H; apply (NI f' u'); right; auto).
  destruct e as [now|[|c]|n' f' u'| | |o|k|k t|k t fl|]; cbn [app collect]; try (apply IH; auto).
  cbn [assoc]. destruct (neqb n n') eqn:E.
  - apply neqb_true in E. subst n'. exfalso. apply (NI f' u'). left; auto.
  - apply IH; auto.
Qed.

Lemma collect_first (mid1 : list event) sv d n f u mid2 :
  (forall f' u', ~ In (EReq n f' u') mid1) ->
  assoc n (collect sv d (mid1 ++ EReq n f u :: mid2)) = Some (srv_after sv mid1, f || dead_after d mid1, u).
Proof.
  intro NI. rewrite collect_skip by auto. cbn [collect assoc].
  assert (E : neqb n n = true) by (apply neqb_true; auto). rewrite E. reflexivity.
Qed.

(* once the leader's context has ended every further request is a failed one *)
Lemma collect_dead : forall (evs : list event) sv n sv' f u,
  assoc n (collect sv true evs) = Some (sv', f, u) -> f = true.
Proof.
  induction evs as [|e r IH]; intros sv n sv' f u H; [discriminate|].
  destruct e as [now|[|c]|n' f' u'| | |o|k|k t|k t fl|]; cbn [collect] in H; try solve [eapply IH; eauto].
  cbn [assoc] in H. destruct (neqb n n'); [|eapply IH; exact H].
  injection H as _ <- _. apply orb_true_r.
Qed.

(* a request for a live name that fails (scripted failure, or the name is gone from the service
   at that instant) makes the whole poll fail: every caller gets an error, nothing changes *)
Theorem poll_failure (w0 : world) now mid mid1 n f u mid2 e :
  Inv (wst w0) -> wfl w0 = None -> no_end mid ->
  entry (wst w0) n = Some e -> flagged (wst w0) now n = false ->
  mid = mid1 ++ EReq n f u :: mid2 -> (forall f' u', ~ In (EReq n f' u') mid1) ->
  (f = true \/ find n (srv_after (wsv w0) mid1) = None) ->
  let wk := run_w w0 (ERefresh now :: mid) in
  wst (fst (step wk EEnd)) = wst wk /\ exists k, snd (step wk EEnd) = repeat (ORes false) k.
Proof.
  intros I F NE En Fl E NI Bad wk. destruct (@window w0 now mid I F NE) as (stk & jn & gn & W & Ik & Pk).
  subst wk. rewrite W. cbn [step end_step].
  rewrite (@finish_fails (wst w0) now stk (collect (wsv w0) false mid) jn gn n e); auto.
  - cbn [fst snd wst flush_out map app]. split; auto. eexists. reflexivity.
  - unfold ans_of. rewrite E, collect_first by auto. unfold answer, get_if_changed.
    destruct Bad as [->| ->]; auto. destruct (f || dead_after false mid1); auto.
Qed.

(* the leader's context ends while some live name has not been requested yet: the poll fails for
   everybody still waiting - whatever happens afterwards (requests, joiners, service changes) -
   and nothing is applied *)
Theorem poll_cancelled (w0 : world) now mid mid1 mid2 n e :
  Inv (wst w0) -> wfl w0 = None -> no_end mid ->
  entry (wst w0) n = Some e -> flagged (wst w0) now n = false ->
  mid = mid1 ++ ECancel 0 :: mid2 -> (forall f' u', ~ In (EReq n f' u') mid1) ->
  let wk := run_w w0 (ERefresh now :: mid) in
  wst (fst (step wk EEnd)) = wst wk /\ exists k, snd (step wk EEnd) = repeat (ORes false) k.
Proof.
  intros I F NE En Fl E NI wk. destruct (@window w0 now mid I F NE) as (stk & jn & gn & W & Ik & Pk).
  subst wk. rewrite W. cbn [step end_step].
  rewrite (@finish_fails (wst w0) now stk (collect (wsv w0) false mid) jn gn n e); auto.
  - cbn [fst snd wst flush_out map app]. split; auto. eexists. reflexivity.
  - unfold ans_of. rewrite E, collect_skip by auto. cbn [collect].
    destruct (assoc n (collect _ true mid2)) as [[[sv' f] u]|] eqn:A; auto.
    apply collect_dead in A. subst f. reflexivity.
Qed.

(* a name that has a handle is requested by every poll (the F3 repair) *)
Theorem handle_requested (s : store) now n : Inv s -> has_handle s n = true -> known s n = true ->
  In n (map fst (requests (snapshot s now))).
Proof.
  intros I H K. pose proof (snapshot_find now n I) as SF.
  unfold known, entry in *. pose proof (inv_nostub I n) as NS.
  destruct (find n (m s)) as [[e|]|] eqn:Fm; try congruence; try discriminate.
  unfold flagged, entry in SF. rewrite Fm, H in SF. cbn [negb andb] in SF. apply find_in in SF.
  apply in_map_iff. exists (n, ver e). split; auto. unfold requests. apply in_flat_map.
  exists (n, (false, ver e)). split; auto. left; auto.
Qed.

(* every live name of the snapshot is requested by a successful poll, whatever the order *)
Theorem success_requests_all (w0 : world) now mid :
  Inv (wst w0) -> wfl w0 = None -> no_end mid ->
  In (ORes true) (snd (step (run_w w0 (ERefresh now :: mid)) EEnd)) ->
  forall n, In n (map fst (requests (snapshot (wst w0) now))) -> exists f u, In (EReq n f u) mid.
Proof.
  intros I F NE R n Hn. apply in_map_iff in Hn. destruct Hn as ([n' v] & <- & Hn). cbn [fst].
  unfold requests in Hn. apply in_flat_map in Hn. destruct Hn as ([k [ex v']] & Hs & Hk).
  destruct ex; [destruct Hk|]. destruct Hk as [Hk|[]]. injection Hk as -> ->.
  apply in_find in Hs; [|apply snapshot_sorted; auto]. rewrite snapshot_find in Hs by auto.
  destruct (entry (wst w0) n') as [e|] eqn:En; [|discriminate]. injection Hs as Fl <-.
  assert (V0 : vv (wst w0) n' = Some (ver e, val e)) by (unfold vv; rewrite En; auto).
  destruct (@poll_fresh w0 now mid I F NE R n' _ _ V0) as [[Fl' _]|(mid1 & f & u & mid2 & _ & _ & -> & _)]; [congruence|].
  exists f, u. apply in_or_app. right. left. auto.
Qed.

(* ---------- single flight *)
Theorem coalesced (st : store) sv fl now :
  step (WD st sv (Some fl)) (ERefresh now) = (WD st sv (Some (FL (fsnap fl) (finst fl) (S (fjoin fl)) (fgone fl))), [])
  /\ exists fx ok, snd (step (WD st sv (Some fl)) EEnd) = flush_out fx ++ repeat (ORes ok) (waiting fl).
Proof.
  split; [reflexivity|]. cbn [step end_step]. destruct (finish st fl) as [[s' fx] ok]. exists fx, ok. reflexivity.
Qed.

(* a caller whose context ends gets its context error at once (if it is still waiting) and
   disturbs nothing: store, service, snapshot, collected answers and the other callers stay *)
Theorem cancel_inert (w : world) k :
  wst (fst (step w (ECancel k))) = wst w /\ wsv (fst (step w (ECancel k))) = wsv w /\
  (snd (step w (ECancel k)) = [] \/ snd (step w (ECancel k)) = [OCtx]) /\
  match wfl w, wfl (fst (step w (ECancel k))) with
  | Some fl, Some fl' => fsnap fl' = fsnap fl /\ finst fl' = finst fl /\ fjoin fl' = fjoin fl
  | None, None => True
  | _, _ => False
  end.
Proof.
  destruct w as [st sv [fl|]]; cbn [step end_step wst wsv wfl fst snd]; auto.
  destruct ((k <=? fjoin fl)%nat && negb (gone fl k)); cbn [wst wsv wfl fst snd fsnap finst fjoin]; auto 6.
Qed.

(* every caller still waiting at the end of a poll gets ONE verdict; nil is given only if every
   live name's request succeeded and then everything collected was applied, an error only if
   nothing was applied (so no caller is told success by a poll that applied a strict subset) *)
Theorem one_verdict (w : world) fl : wfl w = Some fl ->
  exists fx ok, snd (step w EEnd) = flush_out fx ++ repeat (ORes ok) (waiting fl) /\
                finish (wst w) fl = (wst (fst (step w EEnd)), fx, ok) /\
                (ok = false -> wst (fst (step w EEnd)) = wst w /\ fx = []).
Proof.
  destruct w as [st sv ofl]. cbn [wfl]. intros ->. cbn [step end_step wst].
  destruct (finish st fl) as [[s' fx] ok] eqn:FI. exists fx, ok. cbn [fst snd wst]. split; auto. split; auto.
  intros ->. apply finish_false in FI. exact FI.
Qed.

(* ---------- the end of a poll whose cache write fails *)
Lemma end_step_outs (w : world) : exists fx ok k, snd (end_step w) = flush_out fx ++ repeat (ORes ok) k.
Proof.
  destruct w as [st sv [fl|]]; cbn [end_step].
  - destruct (finish st fl) as [[s' fx] ok]. exists fx, ok, (waiting fl). reflexivity.
  - exists [], true, O. reflexivity.
Qed.

Lemma endF_fst (w : world) : fst (step w EEndF) = fst (end_step w).
Proof.
  destruct w as [st sv ofl]. cbn [step]. destruct (end_step (WD st sv ofl)) as [w' o].
  destruct (existsb (@is_flush V) o); reflexivity.
Qed.

Lemma endF_snd (w : world) :
  (snd (step w EEndF) = snd (end_step w) /\ forall d, ~ In (OFlush d) (snd (end_step w)))
  \/ (snd (step w EEndF) = map (@failw V) (snd (end_step w)) /\ exists d, In (OFlush d) (snd (end_step w))).
Proof.
  destruct w as [st sv ofl]. cbn [step]. destruct (end_step (WD st sv ofl)) as [w' o]. cbn [snd].
  destruct (existsb (@is_flush V) o) eqn:E; cbn [snd].
  - right. split; auto. apply existsb_exists in E. destruct E as (x & Hx & Fx). destruct x; try discriminate. eauto.
  - left. split; auto. intros d Hd. assert (existsb (@is_flush V) o = true); [|congruence].
    apply existsb_exists. exists (OFlush d). auto.
Qed.

Lemma end_is_step (w : world) : step w EEnd = end_step w.
Proof. destruct w; reflexivity. Qed.

(* requests are issued by request events only *)
Theorem requests_only_from_reqs (w : world) e old r : In (OReq old r) (snd (step w e)) ->
  exists n f u, e = EReq n f u.
Proof.
  destruct w as [st sv ofl]. destruct e as [now|c|n f u| | |o|k|k t|k t fl|]; cbn [step end_step]; eauto.
  - destruct ofl; intros [].
  - destruct ofl as [fl|]; [|intros []]. destruct ((c <=? fjoin fl)%nat && negb (gone fl c)); [intros [H|[]]; discriminate|intros []].
  - destruct ofl as [fl|]; [|intros []]. destruct (finish st fl) as [[s' fx] ok]. cbn [snd]. intro H.
    apply in_app_or in H. destruct H as [H|H].
    + unfold flush_out in H. apply in_map_iff in H. destruct H as ([d] & H & _). discriminate.
    + apply repeat_spec in H. discriminate.
  - fold (end_step (WD st sv ofl)). change (let '(w', o) := end_step (WD st sv ofl) in if existsb (@is_flush V) o then (w', map (@failw V) o) else (w', o)) with (step (WD st sv ofl) EEndF).
    intro H. destruct (end_step_outs (WD st sv ofl)) as (fx & ok & k0 & E).
    assert (N : forall o, In o (snd (end_step (WD st sv ofl))) -> forall a b, failw o <> OReq a b /\ o <> OReq a b).
    { intros o Ho a b. rewrite E in Ho. apply in_app_or in Ho. destruct Ho as [Ho|Ho].
      - unfold flush_out in Ho. apply in_map_iff in Ho. destruct Ho as ([d] & <- & _). split; discriminate.
      - apply repeat_spec in Ho. subst o. split; discriminate. }
    exfalso. destruct (endF_snd (WD st sv ofl)) as [[Q _]|[Q _]]; rewrite Q in H.
    + apply (proj2 (N _ H old r)). reflexivity.
    + apply in_map_iff in H. destruct H as (o & Ho & Hin). apply (proj1 (N _ Hin old r)). exact Ho.
  - intros [].
  - destruct (secret st k). intros [H|[]]. discriminate.
  - destruct (read st k t). intros [H|[]]. discriminate.
  - destruct (known st k); [intros [H|[]]; discriminate|]. destruct (negb (allow st)); [intros [H|[]]; discriminate|].
    destruct fl; [intros [H|[]]; discriminate|]. destruct (find k sv) as [[v b]|]; [|intros [H|[]]; discriminate].
    cbn [lookup_install flush_out map app snd]. intros [H|[H|[]]]; discriminate.
  - cbn [shutdown_flush flush_out map snd]. intros [H|[]]. discriminate.
Qed.

(* ---------- the invariant holds in every reachable world *)
Lemma step_Inv (w : world) e : Inv (wst w) -> Inv (wst (fst (step w e))).
Proof.
  intro I. destruct (is_end e) eqn:E.
  - assert (Q : Inv (wst (fst (end_step w)))).
    { destruct w as [st sv [fl|]]; cbn [wst] in I; cbn [end_step fst wst]; auto.
      pose proof (finish_Inv fl I) as J. destruct (finish st fl) as [[s' fx] ok]. exact J. }
    destruct e; try discriminate; [rewrite end_is_step|rewrite endF_fst]; exact Q.
  - destruct (wfl w) as [fl|] eqn:F.
    + apply (@step_mid w e fl F E I).
    + destruct w as [st sv ofl]. cbn [wfl] in F. subst ofl. cbn [wst] in I.
      destruct e as [now|c|n f u| | |o|k|k t|k t fl|]; cbn [step end_step fst wst]; auto; try discriminate.
      * assert (Q : fst (secret st k) = fst (secret_locked st k)).
        { unfold secret. destruct (secret_locked st k) as [s' ok]. destruct ok; [|destruct (allow st)]; reflexivity. }
        destruct (secret st k) as [st' h]. cbn [fst] in Q. subst st'. cbn [fst wst]. apply secret_locked_Inv; auto.
      * pose proof (read_Inv k t I) as RI. destruct (read st k t). exact RI.
      * destruct (known st k); [cbn [fst wst]; apply secret_locked_Inv; auto|].
        destruct (negb (allow st)); auto. destruct fl; auto. destruct (find k sv) as [[v b]|]; auto.
        pose proof (lookup_install_Inv k v b t I) as LI. unfold lookup_install in *. exact LI.
Qed.

Theorem reachable_Inv : forall evs (w : world), Inv (wst w) -> Inv (wst (run_w w evs)).
Proof.
  induction evs as [|e r IH]; intros w I; auto.
  change (run_w w (e :: r)) with (run_w (fst (step w e)) r). apply IH, step_Inv, I.
Qed.

(* ---------- the cache holds (version, bytes) of every name of the store, always *)
Lemma doc_vv_doc (s : store) n : doc_vv (doc s) n = vv s n.
Proof.
  unfold doc_vv, vv, entry, doc. induction (m s) as [|[k oe] r IH]; cbn [map find]; auto.
  destruct (cmp n k); auto. destruct oe as [e|]; reflexivity.
Qed.

Lemma cache_after_res c ok k : cache_after c (repeat (@ORes V ok) k) = c.
Proof. unfold cache_after. induction k; cbn [repeat fold_left]; auto. Qed.

Lemma cache_step (w : world) e c : e <> EEndF -> Inv (wst w) -> (forall n, doc_vv c n = vv (wst w) n) ->
  forall n, doc_vv (cache_after c (snd (step w e))) n = vv (wst (fst (step w e))) n.
Proof.
  intros NF I C n. destruct w as [st sv ofl]. cbn [wst] in *.
  destruct e as [now|cc|k f u| | |o|k|k t|k t fl|]; cbn [step end_step].
  - destruct ofl; cbn [fst snd wst cache_after fold_left]; auto.
  - destruct ofl as [fl|]; [|cbn [fst snd wst cache_after fold_left]; auto].
    destruct ((cc <=? fjoin fl)%nat && negb (gone fl cc)); cbn [fst snd wst cache_after fold_left]; auto.
  - destruct ofl; cbn [fst snd wst cache_after fold_left]; auto.
  - destruct ofl as [fl|]; [|cbn [fst snd wst cache_after fold_left]; auto].
    unfold finish. destruct (poll (fsnap fl) (ans_of (finst fl))) as [ups|].
    + unfold apply_updates. destruct ups as [|x r]; cbn [fst snd wst flush_out map app].
      * rewrite cache_after_res. auto.
      * unfold cache_after. cbn [fold_left]. fold (cache_after (doc (fold_left (@apply1 V) r (apply1 st x))) (repeat (@ORes V true) (waiting fl))).
        rewrite cache_after_res. apply doc_vv_doc.
    + cbn [fst snd wst flush_out map app]. rewrite cache_after_res. auto.
  - congruence.
  - cbn [fst snd wst cache_after fold_left]; auto.
  - assert (Q : fst (secret st k) = fst (secret_locked st k)).
    { unfold secret. destruct (secret_locked st k) as [s' ok]. destruct ok; [|destruct (allow st)]; reflexivity. }
    destruct (secret st k) as [st' h]. cbn [fst] in Q. subst st'. cbn [fst snd wst cache_after fold_left].
    rewrite secret_locked_vv. auto.
  - pose proof (read_vv st k t n) as RV. destruct (read st k t) as [st' v]. cbn [fst snd wst cache_after fold_left] in *.
    rewrite RV. auto.
  - destruct (known st k).
    + cbn [fst snd wst cache_after fold_left]. rewrite secret_locked_vv. auto.
    + destruct (negb (allow st)); [cbn [fst snd wst cache_after fold_left]; auto|].
      destruct fl; [cbn [fst snd wst cache_after fold_left]; auto|].
      destruct (find k sv) as [[v b]|]; [|cbn [fst snd wst cache_after fold_left]; auto].
      cbn [lookup_install flush_out map app fst snd wst cache_after fold_left].
      rewrite secret_locked_vv. apply doc_vv_doc.
  - cbn [shutdown_flush flush_out map fst snd wst cache_after fold_left]. apply doc_vv_doc.
Qed.

Theorem cache_tracks : forall evs (w : world) c, (forall e, In e evs -> e <> EEndF) ->
  Inv (wst w) -> (forall n, doc_vv c n = vv (wst w) n) ->
  forall n, doc_vv (cache_after c (concat (snd (run w evs)))) n = vv (wst (fst (run w evs))) n.
Proof.
  induction evs as [|e r IH]; intros w c NF I C n; [cbn; auto|].
  cbn [run]. pose proof (@cache_step w e c (NF e (or_introl eq_refl)) I C) as CS. pose proof (@step_Inv w e I) as SI.
  destruct (step w e) as [w1 o]. cbn [fst snd] in *.
  specialize (IH w1 (cache_after c o) (fun x Hx => NF x (or_intror Hx)) SI CS n). destruct (run w1 r) as [w2 os]. cbn [fst snd concat] in *.
  unfold cache_after in *. rewrite fold_left_app. exact IH.
Qed.

(* every Cache.Write carries the document of the store state AT that write: writes happen inside
   the locked step that changed the state (store.go:403, 631, 580), so writes and installs are
   totally ordered and the last write of any history describes the state at that write *)
Lemma doc_secret_locked (s : store) k : doc (fst (secret_locked s k)) = doc s.
Proof. unfold secret_locked. destruct (known s k); [destruct (has_handle s k)|]; reflexivity. Qed.

Lemma end_step_docs (w : world) d : In (OFlush d) (snd (end_step w)) -> d = doc (wst (fst (end_step w))).
Proof.
  destruct w as [st sv ofl]. cbn [end_step].
  destruct ofl as [fl|]; [|intros []]. unfold finish.
  destruct (poll (fsnap fl) (ans_of (finst fl))) as [ups|].
  + unfold apply_updates. destruct ups as [|x r]; cbn [fst snd wst flush_out map app].
    * intro H. apply repeat_spec in H. discriminate.
    * intros [H|H]; [injection H as <-; reflexivity|apply repeat_spec in H; discriminate].
  + cbn [fst snd wst flush_out map app]. intro H. apply repeat_spec in H. discriminate.
Qed.

Lemma failw_not_flush (o : out V) d : failw o <> OFlush d.
Proof. destruct o; discriminate. Qed.

Theorem writes_are_state_docs (w : world) e d : In (OFlush d) (snd (step w e)) ->
  d = doc (wst (fst (step w e))).
Proof.
  destruct e as [now|c|n f u| | |o|k|k t|k t fl|];
    try (rewrite end_is_step; apply end_step_docs);
    try (intro H; exfalso; destruct (endF_snd w) as [[Q N]|[Q _]]; rewrite Q in H;
         [exact (N d H)|apply in_map_iff in H; destruct H as (x & Hx & _); exact (failw_not_flush _ Hx)]).
  all: destruct w as [st sv ofl]; cbn [step end_step].
  - destruct ofl; intros [].
  - destruct ofl as [fl|]; [|intros []]. destruct ((c <=? fjoin fl)%nat && negb (gone fl c)); [intros [H|[]]; discriminate|intros []].
  - destruct ofl; [intros [H|[]]; discriminate|intros []].
  - intros [].
  - destruct (secret st k). intros [H|[]]. discriminate.
  - destruct (read st k t). intros [H|[]]. discriminate.
  - destruct (known st k); [intros [H|[]]; discriminate|]. destruct (negb (allow st)); [intros [H|[]]; discriminate|].
    destruct fl; [intros [H|[]]; discriminate|]. destruct (find k sv) as [[v b]|]; [|intros [H|[]]; discriminate].
    cbn [lookup_install flush_out map app fst snd wst]. intros [H|[H|[]]]; [|discriminate].
    injection H as <-. rewrite doc_secret_locked. reflexivity.
  - cbn [shutdown_flush flush_out map fst snd wst]. intros [H|[]]. injection H as <-. reflexivity.
Qed.

Lemma end_flush_ok (w : world) d b : In (OFlush d) (snd (end_step w)) -> In (ORes b) (snd (end_step w)) -> b = true.
Proof.
  destruct w as [st sv [fl|]]; cbn [end_step]; [|intros []].
  destruct (finish st fl) as [[s' fx] ok] eqn:FI. cbn [snd]. intros HF HR.
  apply res_in_outs in HR. subst b. destruct ok; auto.
  apply finish_false in FI. destruct FI as [_ ->]. cbn [flush_out map app] in HF.
  apply repeat_spec in HF. discriminate.
Qed.

(* WHAT A NON-NIL Refresh RESULT MEANS when the cache write of applyUpdates may fail: the store
   component is exactly that of the poll whose write succeeds (so all the statements about the
   store after a poll apply to it); either no write was attempted and the outputs are those of
   the ordinary end of poll (an error then means: poll failed, nothing applied), or the poll
   SUCCEEDED and installed everything, its write (the document of the new state) failed, and every
   caller still waiting is given an error *)
Theorem write_failure_meaning (w : world) :
  fst (step w EEndF) = fst (step w EEnd) /\
  ((snd (step w EEndF) = snd (step w EEnd) /\ forall d, ~ In (OFlush d) (snd (step w EEnd)))
   \/ (snd (step w EEndF) = map (@failw V) (snd (step w EEnd)) /\
       exists d, In (OFlush d) (snd (step w EEnd)) /\ d = doc (wst (fst (step w EEnd))) /\
                 forall b, In (ORes b) (snd (step w EEnd)) -> b = true)).
Proof.
  rewrite end_is_step. split; [apply endF_fst|].
  destruct (endF_snd w) as [[Q N]|[Q (d & Hd)]]; [left; auto|right]. split; auto.
  exists d. split; auto. split; [apply end_step_docs; auto|]. intros b Hb. eapply end_flush_ok; eauto.
Qed.

(* a failed write never reaches the cache and the attempted document was that of the state *)
Theorem failed_write_doc (w : world) d : In (OFlushF d) (snd (step w EEndF)) -> d = doc (wst (fst (step w EEndF))).
Proof.
  intro H. rewrite endF_fst. destruct (endF_snd w) as [[Q N]|[Q _]]; rewrite Q in H.
  - exfalso. destruct (end_step_outs w) as (fx & ok & k & E). rewrite E in H. apply in_app_or in H. destruct H as [H|H].
    + unfold flush_out in H. apply in_map_iff in H. destruct H as ([x] & Hx & _). discriminate.
    + apply repeat_spec in H. discriminate.
  - apply in_map_iff in H. destruct H as (x & Hx & Hin).
    destruct (end_step_outs w) as (fx & ok & k & E). pose proof Hin as Hin2. rewrite E in Hin2.
    apply in_app_or in Hin2. destruct Hin2 as [H2|H2].
    + unfold flush_out in H2. apply in_map_iff in H2. destruct H2 as ([d0] & <- & _).
      cbn [failw] in Hx. injection Hx as ->. apply end_step_docs. exact Hin.
    + apply repeat_spec in H2. subst x. discriminate.
Qed.

Corollary writes_in_history (w : world) evs1 e d : In (OFlush d) (snd (step (run_w w evs1) e)) ->
  d = doc (wst (run_w w (evs1 ++ [e]))).
Proof.
  intro H. unfold run_w. rewrite fold_left_app. cbn [fold_left]. apply writes_are_state_docs. exact H.
Qed.

(* the flush at the end of a successful poll: the whole new state, or nothing when nothing changed *)
Theorem poll_flush (w : world) : In (ORes true) (snd (step w EEnd)) ->
  (exists k, snd (step w EEnd) = OFlush (doc (wst (fst (step w EEnd)))) :: repeat (ORes true) k)
  \/ (wst (fst (step w EEnd)) = wst w /\ forall d, ~ In (OFlush d) (snd (step w EEnd))).
Proof.
  destruct w as [st sv [fl|]]; cbn [step end_step]; [|intros []].
  unfold finish. destruct (poll (fsnap fl) (ans_of (finst fl))) as [ups|].
  - unfold apply_updates. destruct ups as [|x r]; cbn [fst snd wst flush_out map app]; intros _.
    + right. split; auto. intros d H. apply repeat_spec in H. discriminate.
    + left. exists (waiting fl). reflexivity.
  - cbn [fst snd wst flush_out map app]. intro H. apply repeat_spec in H. discriminate.
Qed.

(* ---------- convergence: a poll against a quiescent service that still serves every known name *)
Lemma run_reqs : forall order (st : store) sv fl, lead_dead fl = false ->
  run_w (WD st sv (Some fl)) (map (fun n => EReq n false false) order) =
  WD st sv (Some (FL (fsnap fl) (finst fl ++ map (fun n => (n, (sv, false, false))) order) (fjoin fl) (fgone fl))).
Proof.
  induction order as [|k r IH]; intros st sv fl D.
  - cbn [map run_w fold_left]. rewrite app_nil_r. destruct fl; reflexivity.
  - cbn [map]. change (run_w ?w (?e :: ?l)) with (run_w (fst (step w e)) l). cbn [step end_step fst].
    rewrite IH by exact D. cbn [fsnap finst fjoin fgone]. rewrite D, <- app_assoc. reflexivity.
Qed.

Lemma assoc_map_in (sv : server V) order n : In n order ->
  assoc n (map (fun k => (k, (sv, false, false))) order) = Some (sv, false, false).
Proof.
  induction order as [|k r IH]; [intros []|]. intro H. cbn [map assoc]. destruct (neqb n k) eqn:E; auto.
  destruct H as [->|H]; auto. apply neqb_false in E. congruence.
Qed.

Theorem poll_converges (s : store) now sv order :
  Inv s ->
  (forall n, In n (map fst (requests (snapshot s now))) -> In n order) ->
  (forall n, known s n = true -> find n sv <> None) ->
  (forall n v b b0, find n sv = Some (v, b) -> vv s n = Some (v, b0) -> b = b0) ->
  let wk := run_w (WD s sv None) (ERefresh now :: map (fun n => EReq n false false) order) in
  (exists fx, snd (step wk EEnd) = flush_out fx ++ [ORes true]) /\
  wfl (fst (step wk EEnd)) = None /\
  forall n x, vv (wst (fst (step wk EEnd))) n = Some x -> find n sv = Some x.
Proof.
  intros I Cov Srv Faith wk. subst wk.
  change (run_w ?w (?e :: ?l)) with (run_w (fst (step w e)) l). cbn [step end_step fst]. rewrite run_reqs by reflexivity.
  cbn [fsnap finst fjoin fgone app step end_step].
  match goal with |- context [finish _ (FL _ ?i _ _)] => set (insts := i) end.
  assert (A : forall n e, entry s n = Some e -> flagged s now n = false ->
                          ans_of insts n (ver e) = get_if_changed sv n (ver e) false).
  { intros n e En Fl. unfold ans_of, insts. rewrite assoc_map_in; auto. apply Cov.
    apply in_map_iff. exists (n, ver e). split; auto. unfold requests. apply in_flat_map.
    exists (n, (false, ver e)). split; [|left; auto]. apply find_in. rewrite snapshot_find by auto.
    rewrite En, Fl. reflexivity. }
  assert (K : forall n e, entry s n = Some e -> exists v b, find n sv = Some (v, b)).
  { intros n e En. specialize (Srv n). unfold known, entry in *. destruct (find n (m s)); [|discriminate].
    destruct (find n sv) as [[v b]|]; eauto. exfalso. apply Srv; auto. }
  match goal with |- context [finish ?a ?b] => destruct (finish a b) as [[s' fx] ok] eqn:FI end.
  assert (ok = true).
  { destruct ok; auto. exfalso. unfold finish in FI. cbn [fsnap finst] in FI.
    destruct (poll (snapshot s now) (ans_of insts)) as [ups|] eqn:P.
    - destruct (apply_updates s ups). discriminate.
    - apply poll_none in P. destruct P as (n & v & Hin & Hans).
      apply in_find in Hin; [|apply snapshot_sorted; auto]. rewrite snapshot_find in Hin by auto.
      destruct (entry s n) as [e|] eqn:En; [|discriminate]. injection Hin as Fl <-.
      rewrite (A n e En Fl) in Hans. destruct (K n e En) as (v & b & Fs). unfold get_if_changed in Hans.
      rewrite Fs in Hans. destruct ((v =? ver e)%N && negb false); discriminate. }
  subst ok.
  cbn [fst snd wst wfl fjoin repeat]. split; [exists fx; reflexivity|]. split; auto.
  destruct (@finish_true s now s insts 0 [] s' fx I I FI) as (Fm & _ & _ & _).
  intros n x Hx. rewrite Fm in Hx. unfold formula in Hx.
  destruct (entry s n) as [e|] eqn:En.
  - destruct (flagged s now n) eqn:Fl.
    + unfold flagged in Fl. rewrite En in Fl. apply andb_prop in Fl. destruct Fl as [Fl _].
      destruct (has_handle s n); discriminate.
    + rewrite (A n e En Fl) in Hx. destruct (K n e En) as (v & b & Fs). unfold get_if_changed in Hx.
      rewrite Fs in *. assert (Vs : vv s n = Some (ver e, val e)) by (unfold vv; rewrite En; auto).
      cbn [negb] in Hx. rewrite andb_true_r in Hx. destruct (v =? ver e)%N eqn:C.
      * apply N.eqb_eq in C. subst v. rewrite Vs in Hx. injection Hx as <-.
        f_equal. f_equal. eapply Faith; eauto.
      * rewrite C, Vs in Hx. congruence.
  - unfold vv in Hx. rewrite En in Hx. discriminate.
Qed.

End PollProofs.

(* ---------- the ticker's period (no section: plain arithmetic over Z) *)
Lemma jitter_bounds (i r : Z) : (0 <= r < jitter_bound i)%Z ->
  (9 * i <= 10 * period i r <= 11 * i)%Z.
Proof.
  unfold jitter_bound, period. intros [H0 H1].
  pose proof (Z.div_mod (2 * i) 10 ltac:(lia)) as E2. pose proof (Z.mod_pos_bound (2 * i) 10 ltac:(lia)) as B2.
  pose proof (Z.div_mod i 10 ltac:(lia)) as E1. pose proof (Z.mod_pos_bound i 10 ltac:(lia)) as B1.
  lia.
Qed.

Lemma period_ok_iff (i p : Z) : period_ok i p = true <-> exists r, (0 <= r < jitter_bound i)%Z /\ p = period i r.
Proof.
  unfold period_ok, period. split.
  - intro H. apply andb_prop in H. destruct H as [A B]. apply Z.leb_le in A. apply Z.ltb_lt in B.
    exists (p - i + i / 10)%Z. split; lia.
  - intros (r & [A B] & ->). apply andb_true_intro. split; [apply Z.leb_le|apply Z.ltb_lt]; lia.
Qed.

Lemma ticks_from_nth : forall l prev p, ticks_from prev p l = true ->
  forall k, (k < length l)%nat -> nth k l 0%Z = (prev + Z.of_nat (S k) * p)%Z.
Proof.
  induction l as [|t r IH]; intros prev p H k Hk; [cbn in Hk; lia|].
  cbn [ticks_from] in H. apply andb_prop in H. destruct H as [A B]. apply Z.eqb_eq in A.
  destruct k as [|k]; cbn [nth]; [lia|]. cbn [length] in Hk. rewrite (IH t p B k) by lia. lia.
Qed.

(* the cadence monitor is sound: one period, admissible for the interval, kept from tick to tick *)
Lemma cadence_sound (i t0 : Z) l : cadence_ok i t0 l = true ->
  exists r, (0 <= r < jitter_bound i)%Z /\
            (9 * i <= 10 * period i r <= 11 * i)%Z /\
            forall k, (k < length l)%nat -> nth k l 0%Z = tick t0 (period i r) k.
Proof.
  unfold cadence_ok. destruct l as [|t1 rest]; [discriminate|]. intro H. apply andb_prop in H.
  destruct H as [P T]. apply period_ok_iff in P. destruct P as (r & B & E). exists r. split; auto.
  split; [apply jitter_bounds; auto|]. intros k Hk. unfold tick. rewrite <- E.
  destruct k as [|k]; cbn [nth]; [lia|]. cbn [length] in Hk. rewrite (ticks_from_nth _ _ _ T) by lia. lia.
Qed.

(* ---------- polls that take time *)
Lemma next_start_regular (t0 p j d : Z) : (0 < p)%Z -> (0 <= d < p)%Z ->
  next_start t0 p (t0 + j * p) d = (t0 + (j + 1) * p)%Z.
Proof.
  intros Hp Hd. unfold next_start. replace (t0 + j * p - t0)%Z with (j * p)%Z by lia.
  rewrite Z.div_mul by lia. destruct (t0 + (j + 1) * p <=? t0 + j * p + d)%Z eqn:E; auto.
  apply Z.leb_le in E. lia.
Qed.

Lemma starts_from_regular (t0 p : Z) : (0 < p)%Z -> forall ds j,
  (forall d, In d ds -> (0 <= d < p)%Z) ->
  forall k, (k <= length ds)%nat -> nth k (starts_from t0 p (t0 + j * p) ds) 0%Z = (t0 + (j + Z.of_nat k) * p)%Z.
Proof.
  intros Hp. induction ds as [|d r IH]; intros j B k Hk.
  - cbn [length] in Hk. assert (k = O) by lia. subst. cbn. f_equal. lia.
  - cbn [starts_from]. destruct k as [|k]; cbn [nth]; [f_equal; lia|].
    rewrite next_start_regular by (auto; apply B; left; auto).
    rewrite IH; [f_equal; lia| |cbn [length] in Hk; lia]. intros d' Hd'. apply B. right. auto.
Qed.

(* as long as every poll is shorter than the period, the k-th poll starts at t0 + k*period exactly *)
Lemma starts_regular (t0 p : Z) ds : (0 < p)%Z -> (forall d, In d ds -> (0 <= d < p)%Z) ->
  forall k, (k <= length ds)%nat -> nth k (starts t0 p ds) 0%Z = tick t0 p k.
Proof.
  intros Hp B k Hk. unfold starts, tick. replace (t0 + p)%Z with (t0 + 1 * p)%Z by lia.
  rewrite starts_from_regular by auto. f_equal. lia.
Qed.

Lemma starts_from_length (t0 p : Z) ds : forall s, length (starts_from t0 p s ds) = S (length ds).
Proof. induction ds as [|d r IH]; intro s; cbn [starts_from length]; auto. Qed.

Lemma follows_starts (t0 p : Z) : forall l s e, follows t0 p s e l = true ->
  s :: map fst l = starts_from t0 p s (durs_init s e l).
Proof.
  induction l as [|[s' e'] r IH]; intros s e H; [reflexivity|].
  cbn [follows] in H. apply andb_prop in H. destruct H as [H F]. apply andb_prop in H. destruct H as [E _].
  apply Z.eqb_eq in E. cbn [map fst durs_init starts_from]. f_equal. rewrite <- E. apply IH. exact F.
Qed.

(* the monitor on (start, end) instants is sound: the period is one the loop can draw, the start
   instants are exactly those of a time.Ticker loop with the observed durations; and while every
   poll is shorter than the period they lie on the grid t0 + k*period, one period apart *)
Lemma cadence2_sound (i t0 : Z) l : cadence2_ok i t0 l = true ->
  exists r, (0 <= r < jitter_bound i)%Z /\ (9 * i <= 10 * period i r <= 11 * i)%Z /\
    match l with
    | [] => False
    | (s1, e1) :: rest =>
      map fst l = starts t0 (period i r) (durs_init s1 e1 rest) /\
      ((forall d, In d (durs_init s1 e1 rest) -> (0 <= d < period i r)%Z) ->
       forall k, (k < length l)%nat -> nth k (map fst l) 0%Z = tick t0 (period i r) k)
    end.
Proof.
  unfold cadence2_ok. destruct l as [|[s1 e1] rest]; [discriminate|]. intro H.
  apply andb_prop in H. destruct H as [H F]. apply andb_prop in H. destruct H as [P _].
  apply period_ok_iff in P. destruct P as (r & B & E). exists r. split; auto. split; [apply jitter_bounds; auto|].
  rewrite E in F. apply follows_starts in F.
  assert (S1 : s1 = (t0 + period i r)%Z) by lia.
  assert (M : map fst ((s1, e1) :: rest) = starts t0 (period i r) (durs_init s1 e1 rest)).
  { cbn [map fst]. unfold starts. rewrite <- S1. exact F. }
  split; auto. intros Bd k Hk. rewrite M. apply starts_regular; auto.
  - pose proof (@jitter_bounds i r B). unfold jitter_bound in B.
    assert (0 < i)%Z. { destruct (Z_lt_le_dec 0 i); auto. exfalso.
      assert (2 * i / 10 <= 0)%Z by (apply Z.div_le_upper_bound; lia). lia. }
    lia.
  - assert (L : length (starts t0 (period i r) (durs_init s1 e1 rest)) = S (length (durs_init s1 e1 rest))).
    { unfold starts. apply starts_from_length. }
    rewrite <- M in L. rewrite map_length in L. lia.
Qed.
