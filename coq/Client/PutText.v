(* Model of the text policy of `setec put` (cmd/setec/setec.go: checkPutText, runPut)
   on byte lists: Go's utf8.Valid and bytes.TrimSpace (Unicode White_Space), the flag
   logic.  Executable definitions only. *)
From Coq Require Import List Bool NArith Arith.
Import ListNotations.
Set Implicit Arguments.
Open Scope N_scope.

Definition bytes := list N.

Definition in_range (lo hi b : N) : bool := (lo <=? b) && (b <=? hi).
Definition cont (b : N) : bool := in_range 128 191 b.

(* utf8.Valid: well-formed UTF-8 (RFC 3629: no overlong forms, no surrogates, <= U+10FFFF) *)
Fixpoint utf8_valid (s : bytes) : bool :=
  match s with
  | [] => true
  | b0 :: r0 =>
    if b0 <? 128 then utf8_valid r0 else
    match r0 with
    | [] => false
    | b1 :: r1 =>
      if in_range 194 223 b0 then cont b1 && utf8_valid r1 else
      match r1 with
      | [] => false
      | b2 :: r2 =>
        if b0 =? 224 then in_range 160 191 b1 && cont b2 && utf8_valid r2 else
        if in_range 225 236 b0 || in_range 238 239 b0 then cont b1 && cont b2 && utf8_valid r2 else
        if b0 =? 237 then in_range 128 159 b1 && cont b2 && utf8_valid r2 else
        match r2 with
        | [] => false
        | b3 :: r3 =>
          if b0 =? 240 then in_range 144 191 b1 && cont b2 && cont b3 && utf8_valid r3 else
          if in_range 241 243 b0 then cont b1 && cont b2 && cont b3 && utf8_valid r3 else
          if b0 =? 244 then in_range 128 143 b1 && cont b2 && cont b3 && utf8_valid r3 else
          false
        end
      end
    end
  end.

(* UTF-8 encodings of the runes unicode.IsSpace accepts *)
Definition space_encodings : list bytes :=
  [[9]; [10]; [11]; [12]; [13]; [32];
   [194; 133]; [194; 160];                               (* U+0085 U+00A0 *)
   [225; 154; 128];                                      (* U+1680 *)
   [226; 128; 128]; [226; 128; 129]; [226; 128; 130]; [226; 128; 131]; [226; 128; 132]; [226; 128; 133];
   [226; 128; 134]; [226; 128; 135]; [226; 128; 136]; [226; 128; 137]; [226; 128; 138];   (* U+2000..U+200A *)
   [226; 128; 168]; [226; 128; 169]; [226; 128; 175];    (* U+2028 U+2029 U+202F *)
   [226; 129; 159];                                      (* U+205F *)
   [227; 128; 128]].                                     (* U+3000 *)

Fixpoint beq (a b : bytes) : bool :=
  match a, b with
  | [], [] => true
  | x :: a', y :: b' => (x =? y) && beq a' b'
  | _, _ => false
  end.

Fixpoint strip_pre (p s : bytes) : option bytes :=
  match p, s with
  | [], _ => Some s
  | x :: p', y :: s' => if x =? y then strip_pre p' s' else None
  | _ :: _, [] => None
  end.

(* the rest after one leading space rune, if any *)
Fixpoint first_strip (encs : list bytes) (s : bytes) : option bytes :=
  match encs with
  | [] => None
  | e :: encs' => match strip_pre e s with Some r => Some r | None => first_strip encs' s end
  end.

Fixpoint trim_left_fuel (fuel : nat) (encs : list bytes) (s : bytes) : bytes :=
  match fuel with
  | O => s
  | S f => match first_strip encs s with Some r => trim_left_fuel f encs r | None => s end
  end.

Definition trim_left (s : bytes) : bytes := trim_left_fuel (length s) space_encodings s.
Definition trim_right (s : bytes) : bytes :=
  rev (trim_left_fuel (length s) (map (@rev N) space_encodings) (rev s)).

(* bytes.TrimSpace on valid UTF-8 *)
Definition trim_space (s : bytes) : bytes := trim_right (trim_left s).

Record flags := { f_empty_ok : bool; f_verbatim : bool; f_trim : bool }.

(* checkPutText: None = refused *)
Definition check_put_text (fl : flags) (v : bytes) : option bytes :=
  if negb (utf8_valid v) then Some v
  else let t := trim_space v in
       if Nat.eqb (length t) (length v) then Some v
       else if f_verbatim fl then Some v
       else if f_trim fl then Some t
       else None.

Inductive outcome := Send (v : bytes) | Refuse.

(* runPut for input read from a file or a pipe *)
Definition cli_put (fl : flags) (input : bytes) : outcome :=
  match check_put_text fl input with
  | None => Refuse
  | Some v => match v with
              | [] => if f_empty_ok fl then Send [] else Refuse
              | _ => Send v
              end
  end.
