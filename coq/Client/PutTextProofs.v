(* Proofs about the `setec put` text policy model (property C18, CLI part). *)
From Coq Require Import List Bool NArith Arith Lia.
Import ListNotations.
From Setec Require Import Client.PutText.
Set Implicit Arguments.
Open Scope N_scope.

Lemma strip_pre_spec p : forall s r, strip_pre p s = Some r <-> s = p ++ r.
Proof.
  induction p as [|x p IH]; intros s r; cbn.
  - split; [intro Q; injection Q; auto|intros ->; reflexivity].
  - destruct s as [|y s]; [split; discriminate|].
    destruct (x =? y) eqn:E.
    + apply N.eqb_eq in E; subst y. rewrite IH. split; [intros ->; reflexivity|intro Q; injection Q; auto].
    + split; [discriminate|]. intro Q; injection Q as -> _. rewrite N.eqb_refl in E; discriminate.
Qed.

Lemma first_strip_some encs : forall s r, first_strip encs s = Some r -> exists e, In e encs /\ s = e ++ r.
Proof.
  induction encs as [|e encs IH]; intros s r; cbn; [discriminate|].
  destruct (strip_pre e s) as [r'|] eqn:E.
  - intro Q; injection Q as ->. apply strip_pre_spec in E. eauto.
  - intro H. apply IH in H. destruct H as (e' & I & Q). eauto.
Qed.

Lemma first_strip_none encs : forall s, first_strip encs s = None -> forall e r, In e encs -> s <> e ++ r.
Proof.
  induction encs as [|e0 encs IH]; intros s H e r I; [contradiction|]. cbn in H.
  destruct (strip_pre e0 s) as [r'|] eqn:E; [discriminate|].
  destruct I as [->|I]; [|eapply IH; eassumption].
  intro Q. apply strip_pre_spec in Q. congruence.
Qed.

(* a concatenation of encodings taken from [encs] *)
Inductive runs (encs : list bytes) : bytes -> Prop :=
| runs_nil : runs encs []
| runs_cons e r : In e encs -> runs encs r -> runs encs (e ++ r).

Lemma runs_app encs a b : runs encs a -> runs encs b -> runs encs (a ++ b).
Proof. induction 1 as [|e r I R IH]; intro B; [assumption|]. rewrite <- app_assoc. constructor; auto. Qed.

Lemma runs_rev encs l : runs (map (@rev N) encs) l -> runs encs (rev l).
Proof.
  induction 1 as [|e r I R IH]; [constructor|].
  apply in_map_iff in I. destruct I as (e0 & <- & I0).
  rewrite rev_app_distr, rev_involutive. apply runs_app; [assumption|].
  rewrite <- (app_nil_r e0). constructor; [assumption|constructor].
Qed.

Lemma trim_left_fuel_split fuel encs : forall s,
  exists l, s = l ++ trim_left_fuel fuel encs s /\ runs encs l.
Proof.
  induction fuel as [|f IH]; intro s; cbn.
  - exists []. split; [reflexivity|constructor].
  - destruct (first_strip encs s) as [r|] eqn:E.
    + apply first_strip_some in E. destruct E as (e & I & ->).
      destruct (IH r) as (l & Q & R). exists (e ++ l). split; [rewrite <- app_assoc, <- Q; reflexivity|constructor; auto].
    + exists []. split; [reflexivity|constructor].
Qed.

Lemma first_strip_nil encs : (forall e, In e encs -> e <> []) -> first_strip encs [] = None.
Proof.
  induction encs as [|e encs IH]; intro NE; [reflexivity|]. cbn.
  destruct e as [|x e]; [exfalso; apply (NE []); [left; reflexivity|reflexivity]|].
  cbn. apply IH. intros e' I. apply NE. right. assumption.
Qed.

Lemma trim_left_fuel_done fuel encs : (forall e, In e encs -> e <> []) ->
  forall s, (length s <= fuel)%nat -> first_strip encs (trim_left_fuel fuel encs s) = None.
Proof.
  intro NE. induction fuel as [|f IH]; intros s L; cbn.
  - destruct s; [|cbn in L; lia]. apply first_strip_nil; assumption.
  - destruct (first_strip encs s) as [r|] eqn:E; [|assumption].
    apply IH. apply first_strip_some in E. destruct E as (e & I & ->).
    pose proof (NE e I). destruct e; [contradiction|]. rewrite app_length in L. cbn in L. lia.
Qed.

Lemma encs_nonempty : forall e, In e space_encodings -> e <> [].
Proof. intros e I. cbn in I. repeat (destruct I as [<-|I]; [discriminate|]). contradiction. Qed.

Lemma rev_encs_nonempty : forall e, In e (map (@rev N) space_encodings) -> e <> [].
Proof.
  intros e I. apply in_map_iff in I. destruct I as (e0 & <- & I0). apply encs_nonempty in I0.
  destruct e0; [contradiction|]. cbn. intro Q. apply app_eq_nil in Q. destruct Q; discriminate.
Qed.

Definition all_space (l : bytes) : Prop := runs space_encodings l.
Definition no_leading_space (s : bytes) : Prop := forall e r, In e space_encodings -> s <> e ++ r.
Definition no_trailing_space (s : bytes) : Prop := forall e l, In e space_encodings -> s <> l ++ e.

(* bytes.TrimSpace removes exactly a run of white space at each end and nothing else *)
Theorem trim_space_spec (s : bytes) :
  exists l r, s = l ++ trim_space s ++ r /\ all_space l /\ all_space r
              /\ no_leading_space (trim_space s) /\ no_trailing_space (trim_space s).
Proof.
  unfold trim_space, trim_right, trim_left.
  destruct (trim_left_fuel_split (length s) space_encodings s) as (l & Ql & Rl).
  set (u := trim_left_fuel (length s) space_encodings s) in *.
  destruct (trim_left_fuel_split (length u) (map (@rev N) space_encodings) (rev u)) as (r' & Qr & Rr).
  set (t' := trim_left_fuel (length u) (map (@rev N) space_encodings) (rev u)) in *.
  assert (Qu : u = rev t' ++ rev r').
  { rewrite <- (rev_involutive u), Qr, rev_app_distr. reflexivity. }
  exists l, (rev r'). split; [rewrite <- Qu; exact Ql|]. split; [exact Rl|]. split; [apply runs_rev; exact Rr|]. split.
  - (* no leading space: a leading space of the result would be one of u *)
    intros e r I Q.
    assert (NS : first_strip space_encodings u = None).
    { apply trim_left_fuel_done; [exact encs_nonempty|lia]. }
    eapply first_strip_none with (r := r ++ rev r'); [exact NS|exact I|]. rewrite Qu, Q, app_assoc. reflexivity.
  - intros e l0 I Q.
    assert (NS : first_strip (map (@rev N) space_encodings) t' = None).
    { apply trim_left_fuel_done; [exact rev_encs_nonempty|rewrite rev_length; lia]. }
    eapply first_strip_none with (e := rev e) (r := rev l0); [exact NS|apply in_map; assumption|].
    rewrite <- (rev_involutive t'), Q, rev_app_distr. reflexivity.
Qed.

Lemma trim_same_length (s : bytes) : length (trim_space s) = length s -> trim_space s = s.
Proof.
  destruct (trim_space_spec s) as (l & r & Q & _). intro L.
  assert (length s = (length l + (length (trim_space s) + length r))%nat) by (rewrite Q at 1; rewrite !app_length; reflexivity).
  destruct l; [|cbn in *; lia]. destruct r; [|cbn in *; lia]. cbn in Q. rewrite app_nil_r in Q. symmetry. exact Q.
Qed.

(* ---- the flag logic ---- *)
Theorem cli_exact fl input v : cli_put fl input = Send v ->
  v = input \/ (f_trim fl = true /\ f_verbatim fl = false /\ utf8_valid input = true /\ v = trim_space input
               /\ trim_space input <> input).
Proof.
  unfold cli_put, check_put_text. destruct (utf8_valid input) eqn:U; cbn [negb].
  - destruct (Nat.eqb (length (trim_space input)) (length input)) eqn:L.
    + destruct input; [destruct (f_empty_ok fl); [|discriminate]|]; intro Q; injection Q as <-; auto.
    + destruct (f_verbatim fl) eqn:Vb.
      * destruct input; [destruct (f_empty_ok fl); [|discriminate]|]; intro Q; injection Q as <-; auto.
      * destruct (f_trim fl) eqn:T; [|discriminate].
        assert (NEQ : trim_space input <> input) by (intro Q; rewrite Q, Nat.eqb_refl in L; discriminate).
        intro Q. right. split; [reflexivity|]. split; [reflexivity|]. split; [reflexivity|]. split; [|exact NEQ].
        destruct (trim_space input) as [|x t].
        -- destruct (f_empty_ok fl); [injection Q as <-; reflexivity|discriminate].
        -- injection Q as <-. reflexivity.
  - destruct input; [destruct (f_empty_ok fl); [|discriminate]|]; intro Q; injection Q as <-; auto.
Qed.

Theorem cli_refuse_iff fl input : cli_put fl input = Refuse <->
  (utf8_valid input = true /\ trim_space input <> input /\ f_verbatim fl = false /\ f_trim fl = false)
  \/ (f_empty_ok fl = false /\
      (input = [] \/ (utf8_valid input = true /\ f_verbatim fl = false /\ f_trim fl = true /\ trim_space input = []))).
Proof.
  unfold cli_put, check_put_text. destruct (utf8_valid input) eqn:U; cbn [negb].
  - destruct (Nat.eqb (length (trim_space input)) (length input)) eqn:L.
    + apply Nat.eqb_eq, trim_same_length in L.
      destruct input as [|x input]; [destruct (f_empty_ok fl)|]; split; auto; try discriminate.
      * intros [(_ & Q & _)|(Q & _)]; [contradiction|discriminate].
      * intros [(_ & Q & _)|(_ & [Q|(_ & _ & _ & Q)])]; [contradiction|discriminate|rewrite L in Q; discriminate].
    + assert (NEQ : trim_space input <> input) by (intro Q; rewrite Q, Nat.eqb_refl in L; discriminate).
      destruct (f_verbatim fl) eqn:Vb.
      * destruct input as [|x input]; [contradiction NEQ; reflexivity|]. split; [discriminate|].
        intros [(_ & _ & Q & _)|(_ & [Q|(_ & Q & _)])]; discriminate.
      * destruct (f_trim fl) eqn:T.
        -- destruct (trim_space input) eqn:TS; [destruct (f_empty_ok fl)|]; split; auto 10; try discriminate.
           ++ intros [(_ & _ & _ & Q)|(Q & _)]; discriminate.
           ++ intros [(_ & _ & _ & Q)|(_ & [Q|(_ & _ & _ & Q)])]; try discriminate. subst input. vm_compute in TS. discriminate TS.
        -- split; auto 10.
  - destruct input as [|x input]; [discriminate U|]. split; [discriminate|].
    intros [(Q & _)|(_ & [Q|(Q & _)])]; discriminate.
Qed.

Theorem binary_verbatim fl input : utf8_valid input = false -> cli_put fl input = Send input.
Proof.
  intro U. unfold cli_put, check_put_text. rewrite U. cbn [negb]. destruct input; [discriminate U|reflexivity].
Qed.

Theorem verbatim_flag fl input : f_verbatim fl = true -> input <> [] -> cli_put fl input = Send input.
Proof.
  intros Vb NE. unfold cli_put, check_put_text. destruct (negb (utf8_valid input)).
  - destruct input; [contradiction NE; reflexivity|reflexivity].
  - destruct (Nat.eqb (length (trim_space input)) (length input)); rewrite ?Vb;
      (destruct input; [contradiction NE; reflexivity|reflexivity]).
Qed.

(* whatever is sent was produced without contacting anything: the function is total and pure *)
Theorem no_outer_space_sent_verbatim fl input :
  utf8_valid input = true -> trim_space input = input -> input <> [] -> cli_put fl input = Send input.
Proof.
  intros U T NE. unfold cli_put, check_put_text. rewrite U. cbn [negb]. rewrite T, Nat.eqb_refl.
  destruct input; [contradiction NE; reflexivity|reflexivity].
Qed.
