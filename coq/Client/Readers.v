(* C12 - readers of Secret handles interleaved with everything else a store does.
   Interleaving semantics over the shared model Client/Store.v: every atomic step is one of the
   LOCKED steps of store.go (secretLocked, the handle closure, the locked tail of a lookup,
   snapshotActive, applyUpdates, the shutdown flush).  A request to the service is split into a
   begin and an end event with NO lock held in between (store.go:395 lookup, 547 poll): those events
   do not touch the store, and any other step - in particular a read - may occur between them.

   Ghost state (not in the Go code): the list of installs (name, value) in the order in which
   values entered the store - the start-up values first, then every lookup install and every
   value installed by applyUpdates - and the log of reads (reader, name, value, position), where
   position = number of installs completed when the read took place.

   The MONITOR `reads_ok installs log` is the decidable check evaluated by the kernel on logs
   recorded from real goroutines.  Executable definitions only; proofs in ReadersProofs.v. *)
From Coq Require Import List Bool NArith ZArith PeanoNat.
Import ListNotations.
From Setec Require Import Base.SMap Client.Store.
Set Implicit Arguments.

Section Readers.
Variable V : Type.
Notation store := (store V).

Record rd := RD { rd_reader : nat; rd_name : name; rd_val : V; rd_pos : nat }.
Record rstate := RS { rst : store; rinst : list (name * V); rlog : list rd }.

Inductive rvt :=
| VSecret (n : name)                                  (* Store.Secret(n): a handle is handed out *)
| VRead (r : nat) (n : name) (now_s : Z)              (* reader r calls its handle for n: ONE locked step *)
| VLookupBegin (n : name)                             (* the lookup's request leaves; no lock held *)
| VLookupEnd (n : name) (v : N) (b : V) (now_s : Z)   (* answered: the flight's locked part (Store.lookup_finish) *)
| VLookupFail (n : name)                              (* answered with an error: nothing *)
| VPollBegin (now_ns : Z)                             (* snapshotActive under the lock *)
| VPollReq (n : name)                                 (* a conditional request outside the lock *)
| VPollApply (ups : list (name * upd1 V))             (* applyUpdates under the lock (incl. expiry marks) *)
| VPollFail                                           (* some request failed: nothing *)
| VClose.                                             (* the poller's last flush *)

(* applyUpdates with the ghost install list threaded through: an Install of a known name is an install *)
Definition apply1g (acc : store * list (name * V)) (u : name * upd1 V) : store * list (name * V) :=
  let '(s, inst) := acc in
  (apply1 s u,
   match u with
   | (n, Install v b) => match find n (m s) with Some (Some _) => inst ++ [(n, b)] | _ => inst end
   | _ => inst
   end).

Definition rstep (x : rstate) (e : rvt) : rstate :=
  let '(RS s inst log) := x in
  match e with
  | VSecret n => RS (fst (secret s n)) inst log
  | VRead r n now_s =>
    match read s n now_s with
    | (s', Some v) => RS s' inst (log ++ [RD r n v (length inst)])
    | (s', None) => RS s' inst log        (* nil dereference: excluded for handles by C12_read_enabled *)
    end
  | VLookupEnd n v b now_s =>
    (* a separate event from VLookupBegin, i.e. exactly a late flight: anything may have happened since
       the request left.  The code after the F8 repair (104da0c) keeps an entry that exists by now, so
       an install is appended to the ghost list only when the name was not yet valued *)
    RS (fst (lookup_finish s n v b now_s))
       (match entry s n with Some _ => inst | None => inst ++ [(n, b)] end) log
  | VPollApply ups =>
    match ups with
    | [] => x
    | _ => let '(s', inst') := fold_left apply1g ups (s, inst) in RS s' inst' log
    end
  | VLookupBegin _ | VLookupFail _ | VPollBegin _ | VPollReq _ | VPollFail | VClose => x
  end.

Definition rrun (x : rstate) (evs : list rvt) : rstate := fold_left rstep evs x.

(* the start-up values (initial fetches and start-up cache) are the first installs *)
Definition init_installs (s : store) : list (name * V) :=
  flat_map (fun '(n, oe) => match oe with Some e => [(n, val e)] | None => [] end) (m s).
Definition rinit (s : store) : rstate := RS s (init_installs s) [].

(* the latest value installed for n in a list of installs *)
Definition latest (n : name) (l : list (name * V)) : option V :=
  fold_left (fun acc '(k, x) => if neqb k n then Some x else acc) l None.

(* ---------------- the monitor (needs decidable equality on value-ids) *)
Variable veqb : V -> V -> bool.

Fixpoint idx_from (n : name) (v : V) (l : list (name * V)) (k : nat) : option nat :=
  match l with
  | [] => None
  | (n', v') :: r => if neqb n' n && veqb v' v then Some k else idx_from n v r (S k)
  end.
Definition idx_of (n : name) (v : V) (l : list (name * V)) : option nat := idx_from n v l 0.

(* no install of n at any position j with i < j < pos *)
Fixpoint none_between (n : name) (l : list (name * V)) (k i pos : nat) : bool :=
  match l with
  | [] => true
  | (n', _) :: r => negb ((i <? k) && (k <? pos) && neqb n' n) && none_between n r (S k) i pos
  end.

Definition read_ok (installs : list (name * V)) (x : rd) : bool :=
  match idx_of (rd_name x) (rd_val x) installs with
  | None => false                                               (* never served for that name *)
  | Some i => none_between (rd_name x) installs 0 i (rd_pos x)  (* an install completed before the read is not missed *)
  end.

(* per reader and name, the install index never decreases (annotated log: (reader, name, index)) *)
Fixpoint mono (l : list (nat * name * nat)) : bool :=
  match l with
  | [] => true
  | (r, n, i) :: rest =>
    forallb (fun '(r', n', i') => negb ((r' =? r) && neqb n' n) || (i <=? i')) rest && mono rest
  end.

Definition annotate (installs : list (name * V)) (log : list rd) : list (nat * name * nat) :=
  map (fun x => (rd_reader x, rd_name x,
                 match idx_of (rd_name x) (rd_val x) installs with Some i => i | None => O end)) log.

Definition reads_ok (installs : list (name * V)) (log : list rd) : bool :=
  forallb (read_ok installs) log && mono (annotate installs log).

End Readers.

Arguments VSecret {V}.
Arguments VRead {V}.
Arguments VLookupBegin {V}.
Arguments VLookupFail {V}.
Arguments VPollBegin {V}.
Arguments VPollReq {V}.
Arguments VPollFail {V}.
Arguments VClose {V}.
