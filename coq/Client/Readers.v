(* C12 - readers of Secret handles interleaved with everything else a store does.
   Interleaving semantics over the shared model Client/Store.v: every atomic step is one of the
   LOCKED steps of store.go (secretLocked, the handle closure, the locked tail of a lookup,
   snapshotActive, applyUpdates, the shutdown flush).  A request to the service is split into a
   begin and an end event with NO lock held in between (store.go:395 lookup, 547 poll): those events
   do not touch the store, and any other step - in particular a read - may occur between them.

   Ghost state (not in the Go code): the list of installs (name, value) in the order in which
   values entered the store - the start-up values first, then every lookup install and every
   value installed by applyUpdates - and the log of reads (reader, name, value, position), where
   position = number of installs completed when the read took place.

   The MONITOR `reads_ok installs log` is the decidable check evaluated by the kernel on logs
   recorded from real goroutines.  Executable definitions only; proofs in ReadersProofs.v. *)
From Coq Require Import List Bool NArith ZArith PeanoNat.
Import ListNotations.
From Setec Require Import Base.SMap Client.Store.
Set Implicit Arguments.

Section Readers.
Variable V : Type.
Notation store := (store V).

Record rd := RD { rd_reader : nat; rd_name : name; rd_val : V; rd_pos : nat }.
Record rstate := RS { rst : store; rinst : list (name * V); rlog : list rd }.

Inductive rvt :=
| VSecret (n : name)                                  (* Store.Secret(n): a handle is handed out *)
| VRead (r : nat) (n : name) (now_s : Z)              (* reader r calls its handle for n: ONE locked step *)
| VLookupBegin (n : name)                             (* the lookup's request leaves; no lock held *)
| VLookupEnd (n : name) (v : N) (b : V) (now_s : Z)   (* answered: the flight's locked part (Store.lookup_finish) *)
| VLookupFail (n : name)                              (* answered with an error: nothing *)
| VPollBegin (now_ns : Z)                             (* snapshotActive under the lock *)
| VPollReq (n : name)                                 (* a conditional request outside the lock *)
| VPollApply (ups : list (name * upd1 V))             (* applyUpdates under the lock (incl. expiry marks) *)
| VPollFail                                           (* some request failed: nothing *)
| VClose.                                             (* the poller's last flush *)

(* applyUpdates with the ghost install list threaded through: an Install of a known name is an install *)
Definition apply1g (acc : store * list (name * V)) (u : name * upd1 V) : store * list (name * V) :=
  let '(s, inst) := acc in
  (apply1 s u,
   match u with
   | (n, Install v b) => match find n (m s) with Some (Some _) => inst ++ [(n, b)] | _ => inst end
   | _ => inst
   end).

Definition rstep (x : rstate) (e : rvt) : rstate :=
  let '(RS s inst log) := x in
  match e with
  | VSecret n => RS (fst (secret s n)) inst log
  | VRead r n now_s =>
    match read s n now_s with
    | (s', Some v) => RS s' inst (log ++ [RD r n v (length inst)])
    | (s', None) => RS s' inst log        (* nil dereference: excluded for handles by C12_read_enabled *)
    end
  | VLookupEnd n v b now_s =>
    (* a separate event from VLookupBegin, i.e. exactly a late flight: anything may have happened since
       the request left.  The code after the F8 repair (104da0c) keeps an entry that exists by now, so
       an install is appended to the ghost list only when the name was not yet valued *)
    RS (fst (lookup_finish s n v b now_s))
       (match entry s n with Some _ => inst | None => inst ++ [(n, b)] end) log
  | VPollApply ups =>
    match ups with
    | [] => x
    | _ => let '(s', inst') := fold_left apply1g ups (s, inst) in RS s' inst' log
    end
  | VLookupBegin _ | VLookupFail _ | VPollBegin _ | VPollReq _ | VPollFail | VClose => x
  end.

Definition rrun (x : rstate) (evs : list rvt) : rstate := fold_left rstep evs x.

(* the start-up values (initial fetches and start-up cache) are the first installs *)
Definition init_installs (s : store) : list (name * V) :=
  flat_map (fun '(n, oe) => match oe with Some e => [(n, val e)] | None => [] end) (m s).
Definition rinit (s : store) : rstate := RS s (init_installs s) [].

(* the latest value installed for n in a list of installs *)
Definition latest (n : name) (l : list (name * V)) : option V :=
  fold_left (fun acc '(k, x) => if neqb k n then Some x else acc) l None.

(* ---------------- the monitor (needs decidable equality on value-ids) *)
Variable veqb : V -> V -> bool.

(* The same (name, value) may occur several times in the install list (the service re-activates
   an older version: a NEW install of the same bytes).  A read is then justified by ANY of its
   occurrences that is not older than the last install of that name completed before the read.
   The monitor first ASSIGNS an occurrence to every read (greedily: per reader and name the
   smallest admissible index not below the one assigned to the previous read) and then CHECKS the
   assignment; only the check matters for soundness. *)

(* is installs[i] = (n, v) ? *)
Definition at_idx (l : list (name * V)) (i : nat) (n : name) (v : V) : bool :=
  match nth_error l i with Some (n', v') => neqb n' n && veqb v' v | None => false end.

(* no install of n at any position j with i < j < pos *)
Fixpoint none_between (n : name) (l : list (name * V)) (k i pos : nat) : bool :=
  match l with
  | [] => true
  | (n', _) :: r => negb ((i <? k) && (k <? pos) && neqb n' n) && none_between n r (S k) i pos
  end.

(* later reads of the same reader and name were assigned an index that is not smaller *)
Fixpoint later_ok (r : nat) (n : name) (i : nat) (log : list rd) (ann : list nat) : bool :=
  match log, ann with
  | x :: lr, j :: ar => (negb ((rd_reader x =? r) && neqb (rd_name x) n) || (i <=? j)) && later_ok r n i lr ar
  | _, _ => true
  end.

Fixpoint check_ann (installs : list (name * V)) (log : list rd) (ann : list nat) : bool :=
  match log, ann with
  | [], [] => true
  | x :: lr, i :: ar =>
    at_idx installs i (rd_name x) (rd_val x)                       (* served for that name *)
    && none_between (rd_name x) installs 0 i (rd_pos x)             (* no completed install of it is missed *)
    && later_ok (rd_reader x) (rd_name x) i lr ar                   (* per reader and name: install order *)
    && check_ann installs lr ar
  | _, _ => false
  end.

(* --- the greedy assignment *)
(* smallest index >= lo holding (n, v) *)
Fixpoint idx_ge (n : name) (v : V) (l : list (name * V)) (k lo : nat) : option nat :=
  match l with
  | [] => None
  | (n', v') :: r => if (lo <=? k) && neqb n' n && veqb v' v then Some k else idx_ge n v r (S k) lo
  end.
(* the last index below pos holding an install of n (0 if none) *)
Fixpoint last_before (n : name) (l : list (name * V)) (k pos acc : nat) : nat :=
  match l with
  | [] => acc
  | (n', _) :: r => last_before n r (S k) pos (if (k <? pos) && neqb n' n then k else acc)
  end.
Fixpoint seen_idx (r : nat) (n : name) (seen : list (nat * name * nat)) : nat :=
  match seen with
  | [] => O
  | (r', n', i) :: t => if (r' =? r) && neqb n' n then i else seen_idx r n t
  end.
Fixpoint assign_from (installs : list (name * V)) (seen : list (nat * name * nat)) (log : list rd) : list nat :=
  match log with
  | [] => []
  | x :: r =>
    let lo := Nat.max (seen_idx (rd_reader x) (rd_name x) seen) (last_before (rd_name x) installs 0 (rd_pos x) 0) in
    let i := match idx_ge (rd_name x) (rd_val x) installs 0 lo with Some i => i | None => length installs end in
    i :: assign_from installs ((rd_reader x, rd_name x, i) :: seen) r
  end.
Definition assign (installs : list (name * V)) (log : list rd) : list nat := assign_from installs [] log.

Definition reads_ok (installs : list (name * V)) (log : list rd) : bool :=
  check_ann installs log (assign installs log).

(* ---------------- watchers: the ready flag of one watcher under notifications and takes.
   watcher.go: notify is a NON-BLOCKING send on a one-slot channel under the store lock (a pending
   notification absorbs further ones, nothing ever waits for a receiver); Updater.Get takes the slot
   if it is full.  The observed takes of an Updater are judged by running Store.v's own
   add_watcher / notify / ready_take. *)
Inductive wstep :=
| WN                 (* a poll installed a new version of the watched name: applyUpdates notifies *)
| WT (obs : bool).   (* Updater.Get: did it find the flag set (and rebuild its value)? *)

Definition watch_store (n : name) : store := fst (add_watcher (ST [] [] [] true 0%Z) n).
Fixpoint watch_from (n : name) (s : store) (l : list wstep) : bool :=
  match l with
  | [] => true
  | WN :: r => watch_from n (notify n s) r
  | WT o :: r => let '(s', f) := ready_take s 0 in Bool.eqb f o && watch_from n s' r
  end.
Definition watch_ok (n : name) (l : list wstep) : bool := watch_from n (watch_store n) l.

End Readers.

Arguments VSecret {V}.
Arguments VRead {V}.
Arguments VLookupBegin {V}.
Arguments VLookupFail {V}.
Arguments VPollBegin {V}.
Arguments VPollReq {V}.
Arguments VPollFail {V}.
Arguments VClose {V}.
