(* C12 - proofs about Client/Readers.v (on Client/Store.v and StoreInv.v). *)
From Coq Require Import List Bool NArith ZArith PeanoNat Lia.
Import ListNotations.
From Setec Require Import Base.SMap Client.Store Client.StoreInv Client.Readers.
Set Implicit Arguments.

Section ReadersProofs.
Variable V : Type.
Notation store := (store V).
Notation rstate := (rstate V).

(* ---------- latest *)
Lemma latest_app1 (n k : name) (x : V) l : latest n (l ++ [(k, x)]) = if neqb k n then Some x else latest n l.
Proof. unfold latest. rewrite fold_left_app. reflexivity. Qed.

Lemma latest_nil (n : name) : latest n (@nil (name * V)) = None.
Proof. reflexivity. Qed.

(* the latest install of n sits at some index, with no install of n after it *)
Lemma latest_idx (n : name) : forall (l : list (name * V)) v, latest n l = Some v ->
  exists i, nth_error l i = Some (n, v) /\ forall j x, i < j -> nth_error l j = Some (n, x) -> False.
Proof.
  induction l as [|[k x] l IH] using rev_ind; intros v H; [discriminate|].
  rewrite latest_app1 in H. destruct (neqb k n) eqn:E.
  - apply neqb_true in E. subst k. injection H as <-. exists (length l). split.
    + rewrite nth_error_app2 by lia. rewrite Nat.sub_diag. reflexivity.
    + intros j y Hj Hn. assert (nth_error (l ++ [(n, x)]) j <> None) by congruence.
      apply nth_error_Some in H. rewrite app_length in H. cbn in H. lia.
  - destruct (IH v H) as (i & Hi & Hlast). exists i. split.
    + rewrite nth_error_app1; auto. apply nth_error_Some. congruence.
    + intros j y Hj Hn. destruct (Nat.lt_ge_cases j (length l)) as [L|L].
      * rewrite nth_error_app1 in Hn by auto. eauto.
      * rewrite nth_error_app2 in Hn by auto. destruct (j - length l) as [|d]; cbn in Hn.
        -- injection Hn as -> _. apply neqb_false in E. congruence.
        -- destruct d; discriminate.
Qed.

Lemma latest_none (n : name) : forall l : list (name * V), (forall k x, In (k, x) l -> k <> n) -> latest n l = None.
Proof.
  induction l as [|[k x] l IH] using rev_ind; intro H; auto.
  rewrite latest_app1. assert (E : neqb k n = false).
  { apply neqb_false. apply (H k x). apply in_or_app. right. left. auto. }
  rewrite E. apply IH. intros k' x' Hin. apply (H k' x'). apply in_or_app. auto.
Qed.

Lemma latest_app (n : name) (l1 l2 : list (name * V)) :
  latest n (l1 ++ l2) = match latest n l2 with Some x => Some x | None => latest n l1 end.
Proof.
  induction l2 as [|[k x] l2 IH] using rev_ind.
  - rewrite app_nil_r. reflexivity.
  - rewrite app_assoc, !latest_app1. destruct (neqb k n); auto.
Qed.

(* ---------- the invariant *)
Definition Cur (s : store) (inst : list (name * V)) : Prop :=
  forall n e, entry s n = Some e -> latest n inst = Some (val e).

Definition Logok (inst : list (name * V)) (x : rd V) : Prop :=
  exists pre post, inst = pre ++ post /\ length pre = rd_pos x /\ latest (rd_name x) pre = Some (rd_val x).

Fixpoint sorted_pos (l : list (rd V)) : Prop :=
  match l with
  | [] => True
  | x :: t => (forall y, In y t -> rd_pos x <= rd_pos y) /\ sorted_pos t
  end.

Record Good (x : rstate) : Prop := {
  g_inv : Inv (rst x);
  g_cur : Cur (rst x) (rinst x);
  g_log : forall y, In y (rlog x) -> Logok (rinst x) y;
  g_pos : sorted_pos (rlog x)
}.

Lemma Logok_ext inst ext y : Logok inst y -> Logok (inst ++ ext) y.
Proof. intros (pre & post & -> & L & H). exists pre, (post ++ ext). rewrite app_assoc. auto. Qed.

Lemma Logok_len inst y : Logok inst y -> rd_pos y <= length inst.
Proof. intros (pre & post & -> & L & H). rewrite app_length. lia. Qed.

Lemma sorted_pos_snoc l y : sorted_pos l -> (forall z, In z l -> rd_pos z <= rd_pos y) -> sorted_pos (l ++ [y]).
Proof.
  induction l as [|a t IH]; cbn [app sorted_pos]; intros S B.
  - split; auto. intros ? [].
  - destruct S as [S1 S2]. split.
    + intros z Hz. apply in_app_or in Hz. destruct Hz as [Hz|[<-|[]]]; auto. apply B. left; auto.
    + apply IH; auto. intros z Hz. apply B. right; auto.
Qed.

(* ---------- entries under the elementary steps *)
Lemma entry_upd (s : store) k e n : entry (with_m s (upd k (Some e) (m s))) n = if neqb n k then Some e else entry s n.
Proof. unfold entry. cbn [m with_m]. rewrite find_upd_cases. destruct (neqb n k); reflexivity. Qed.

Lemma entry_secret_locked (s : store) k n : entry (fst (secret_locked s k)) n = entry s n.
Proof. unfold secret_locked. destruct (known s k); [destruct (has_handle s k)|]; reflexivity. Qed.

Lemma secret_fst (s : store) k : fst (secret s k) = fst (secret_locked s k).
Proof. unfold secret. destruct (secret_locked s k) as [s' ok]. destruct ok; [|destruct (allow s)]; reflexivity. Qed.

Lemma hs_secret_locked (s : store) k n : In n (hs s) -> In n (hs (fst (secret_locked s k))).
Proof. unfold secret_locked. destruct (known s k); [destruct (has_handle s k)|]; cbn [fst hs with_hs]; auto. intro; right; auto. Qed.

Lemma hs_read (s : store) k t : hs (fst (read s k t)) = hs s.
Proof. unfold read. destruct (find k (m s)) as [[e|]|]; reflexivity. Qed.

Lemma hs_apply1 (s : store) u : hs (apply1 s u) = hs s.
Proof.
  destruct u as [k [|v b]]; cbn [apply1].
  - destruct (has_handle s k); reflexivity.
  - destruct (find k (m s)) as [[e|]|]; reflexivity.
Qed.

(* ---------- applyUpdates with the ghost list *)
Lemma apply1g_core (s : store) inst u : Inv s -> Cur s inst ->
  Inv (fst (apply1g (s, inst) u)) /\ Cur (fst (apply1g (s, inst) u)) (snd (apply1g (s, inst) u)) /\
  (exists ext, snd (apply1g (s, inst) u) = inst ++ ext) /\
  hs (fst (apply1g (s, inst) u)) = hs s.
Proof.
  intros I C. cbn [apply1g fst snd]. split; [apply apply1_Inv; auto|]. split; [|split; [|apply hs_apply1]].
  - destruct u as [k [|v b]]; cbn [apply1].
    + destruct (has_handle s k); auto. intros n e En. unfold entry in En. cbn [m with_m] in En.
      destruct (name_eq_dec n k) as [->|D].
      * rewrite find_del_eq in En by apply I. discriminate.
      * rewrite find_del_neq in En by auto. apply C. exact En.
    + destruct (find k (m s)) as [[e0|]|] eqn:F; auto.
      intros n e En. unfold notify in En. change (entry (with_ws ?a ?w) n) with (entry a n) in En.
      rewrite entry_upd in En. rewrite latest_app1. destruct (neqb n k) eqn:E.
      * apply neqb_true in E. subst n. injection En as <-. assert (E : neqb k k = true) by (apply neqb_true; auto).
        rewrite E. reflexivity.
      * assert (E2 : neqb k n = false) by (apply neqb_false; apply neqb_false in E; congruence).
        rewrite E2. apply C; auto.
  - destruct u as [k [|v b]]; [exists []; rewrite app_nil_r; auto|].
    destruct (find k (m s)) as [[e0|]|]; [eexists; reflexivity| |]; exists []; rewrite app_nil_r; auto.
Qed.

Lemma fold_apply1g_core ups : forall (s : store) inst, Inv s -> Cur s inst ->
  Inv (fst (fold_left (@apply1g V) ups (s, inst))) /\
  Cur (fst (fold_left (@apply1g V) ups (s, inst))) (snd (fold_left (@apply1g V) ups (s, inst))) /\
  (exists ext, snd (fold_left (@apply1g V) ups (s, inst)) = inst ++ ext) /\
  hs (fst (fold_left (@apply1g V) ups (s, inst))) = hs s.
Proof.
  induction ups as [|u r IH]; intros s inst I C; cbn [fold_left].
  - cbn [fst snd]. split; [|split; [|split]]; auto. exists []. rewrite app_nil_r. auto.
  - destruct (@apply1g_core s inst u I C) as (I1 & C1 & (e1 & E1) & H1).
    destruct (apply1g (s, inst) u) as [s1 inst1]. cbn [fst snd] in *.
    destruct (IH s1 inst1 I1 C1) as (I2 & C2 & (e2 & E2) & H2).
    split; [|split; [|split]]; auto.
    + exists (e1 ++ e2). rewrite E2, E1, app_assoc. reflexivity.
    + congruence.
Qed.

(* the ghost-threaded fold is Store.apply_updates on the store component *)
Lemma fold_apply1g_fst ups : forall (s : store) inst,
  fst (fold_left (@apply1g V) ups (s, inst)) = fold_left (@apply1 V) ups s.
Proof. induction ups as [|u r IH]; intros s inst; cbn [fold_left]; auto. cbn [apply1g]. apply IH. Qed.

(* ---------- one step *)
Lemma rstep_Good (x : rstate) e : Good x ->
  Good (rstep x e) /\ (forall n, In n (hs (rst x)) -> In n (hs (rst (rstep x e)))).
Proof.
  intros [I C L P]. destruct x as [s inst log]. cbn [rst rinst rlog] in *.
  destruct e as [n|r n t|n|n v b t|n|t|n|ups| |]; cbn [rstep];
    try solve [split; [constructor; auto|auto]].
  - (* Secret *)
    rewrite secret_fst. split; [constructor; cbn [rst rinst rlog]; auto|cbn [rst]; apply hs_secret_locked].
    + apply secret_locked_Inv; auto.
    + intros k e. rewrite entry_secret_locked. apply C.
  - (* Read *)
    pose proof (read_Inv n t I) as RI. pose proof (hs_read s n t) as RH. unfold read in *.
    destruct (find n (m s)) as [[e0|]|] eqn:F; cbn [fst rst rinst rlog] in *;
      try solve [split; [constructor; auto|auto]].
    split; [constructor; cbn [rst rinst rlog]; auto|cbn [rst]; rewrite RH; auto].
    + intros k e. rewrite entry_upd. destruct (neqb k n) eqn:E.
      * apply neqb_true in E. subst k. intro Q. injection Q as <-. cbn [val]. apply C. unfold entry. rewrite F. auto.
      * apply C.
    + intros y Hy. apply in_app_or in Hy. destruct Hy as [Hy|[<-|[]]]; auto.
      exists inst, []. rewrite app_nil_r. cbn [rd_pos rd_name rd_val]. split; auto. split; auto.
      apply C. unfold entry. rewrite F. auto.
    + apply sorted_pos_snoc; auto. intros z Hz. cbn [rd_pos]. apply Logok_len. auto.
  - (* LookupEnd: the flight's locked part, in whatever state the store is by now *)
    unfold lookup_finish. destruct (entry s n) as [e0|] eqn:En.
    { (* the name has a value: entry kept, only the handle is handed out *)
      cbn [fst]. split; [constructor; cbn [rst rinst rlog]; auto|cbn [rst]; apply hs_secret_locked].
      + apply secret_locked_Inv; auto.
      + intros k e. rewrite entry_secret_locked. apply C. }
    unfold lookup_install. cbn [fst].
    split; [constructor; cbn [rst rinst rlog]; auto|cbn [rst]; intros k Hk; apply hs_secret_locked; auto].
    + apply secret_locked_Inv, Inv_upd_some; auto.
    + intros k e. rewrite entry_secret_locked, entry_upd, latest_app1. destruct (neqb k n) eqn:E.
      * apply neqb_true in E. subst k. intro Q. injection Q as <-. assert (E : neqb n n = true) by (apply neqb_true; auto).
        rewrite E. reflexivity.
      * assert (E2 : neqb n k = false) by (apply neqb_false; apply neqb_false in E; congruence).
        rewrite E2. apply C.
    + intros y Hy. apply Logok_ext. auto.
  - (* PollApply *)
    destruct ups as [|u r]; [split; [constructor; auto|auto]|].
    destruct (@fold_apply1g_core (u :: r) s inst I C) as (I2 & C2 & (ext & E2) & H2).
    destruct (fold_left (@apply1g V) (u :: r) (s, inst)) as [s' inst']. cbn [fst snd rst rinst rlog] in *.
    split; [constructor; cbn [rst rinst rlog]; auto|rewrite H2; auto].
    intros y Hy. subst inst'. apply Logok_ext. auto.
Qed.

Theorem rrun_Good : forall evs (x : rstate), Good x ->
  Good (rrun x evs) /\ (forall n, In n (hs (rst x)) -> In n (hs (rst (rrun x evs)))).
Proof.
  induction evs as [|e r IH]; intros x G; [split; auto|].
  destruct (@rstep_Good x e G) as [G1 H1]. destruct (IH (rstep x e) G1) as [G2 H2].
  change (rrun x (e :: r)) with (rrun (rstep x e) r). split; auto.
Qed.

(* the start of a run: any store satisfying the basic invariant, its values as the first installs *)
Lemma init_latest : forall (mm : @smap name (option (centry V))), sorted mm -> forall n e,
  find n mm = Some (Some e) ->
  latest n (flat_map (fun '(k, oe) => match oe with Some e => [(k, val e)] | None => [] end) mm) = Some (val e).
Proof.
  induction 1 as [|k oe r Lt S IH]; intros n e F; [discriminate|].
  cbn [flat_map]. rewrite latest_app. cbn [find] in F. destruct (cmp n k) eqn:Cm.
  - apply cmp_eq in Cm. subst k. injection F as ->.
    rewrite latest_none.
    + cbn. assert (E : neqb n n = true) by (apply neqb_true; auto). rewrite E. reflexivity.
    + intros k' x' Hin. apply in_flat_map in Hin. destruct Hin as ([k2 oe2] & Hin & Hx).
      destruct oe2 as [e2|]; [|destruct Hx]. destruct Hx as [Hx|[]]. injection Hx as <- _.
      intros ->. pose proof (Lt _ _ Hin) as Q. rewrite cmp_refl in Q. discriminate.
  - rewrite (IH n e F). reflexivity.
  - rewrite (IH n e F). reflexivity.
Qed.

Theorem rinit_Good (s : store) : Inv s -> Good (rinit s).
Proof.
  intro I. constructor; cbn [rinit rst rinst rlog sorted_pos]; auto; try solve [intros ? []].
  intros n e En. unfold entry in En. pose proof (inv_nostub I n) as NS.
  destruct (find n (m s)) as [[e0|]|] eqn:F; try congruence; try discriminate. injection En as ->.
  apply init_latest; auto. apply I.
Qed.

(* ---------- the clauses *)
Definition reads_spec (installs : list (name * V)) (log : list (rd V)) : Prop :=
  (* every read returns a value installed for THAT name, and no install of that name completed
     before the read is missed (the value read is that install or a newer one) *)
  (forall y, In y log ->
     exists i, nth_error installs i = Some (rd_name y, rd_val y) /\
               forall j x, i < j -> j < rd_pos y -> nth_error installs j = Some (rd_name y, x) -> False)
  /\
  (* per reader and name, later reads return the same or a later install *)
  (forall l1 y1 l2 y2 l3, log = l1 ++ y1 :: l2 ++ y2 :: l3 ->
     rd_reader y1 = rd_reader y2 -> rd_name y1 = rd_name y2 ->
     exists i1 i2, nth_error installs i1 = Some (rd_name y1, rd_val y1) /\
                   nth_error installs i2 = Some (rd_name y2, rd_val y2) /\ i1 <= i2).

Lemma Logok_idx inst y : Logok inst y ->
  exists i, i < rd_pos y /\ nth_error inst i = Some (rd_name y, rd_val y) /\
            forall j x, i < j -> j < rd_pos y -> nth_error inst j = Some (rd_name y, x) -> False.
Proof.
  intros (pre & post & -> & L & H). destruct (latest_idx _ _ H) as (i & Hi & Hl).
  assert (i < length pre) by (apply nth_error_Some; congruence).
  exists i. split; [lia|]. split; [rewrite nth_error_app1; auto|].
  intros j x Hij Hj Hn. rewrite nth_error_app1 in Hn by lia. eauto.
Qed.

Lemma sorted_pos_split l1 (y1 : rd V) l2 y2 l3 : sorted_pos (l1 ++ y1 :: l2 ++ y2 :: l3) -> rd_pos y1 <= rd_pos y2.
Proof.
  induction l1 as [|a t IH]; cbn [app sorted_pos]; intros [S1 S2]; auto.
  apply S1. apply in_or_app. right. left. auto.
Qed.

Theorem Good_spec (x : rstate) : Good x -> reads_spec (rinst x) (rlog x).
Proof.
  intros [I C L P]. split.
  - intros y Hy. destruct (Logok_idx (L y Hy)) as (i & _ & Hi & Hl). eauto.
  - intros l1 y1 l2 y2 l3 E R N.
    assert (H1 : In y1 (rlog x)) by (rewrite E; apply in_or_app; right; left; auto).
    assert (H2 : In y2 (rlog x)) by (rewrite E; apply in_or_app; right; right; apply in_or_app; right; left; auto).
    destruct (Logok_idx (L y1 H1)) as (i1 & B1 & Hi1 & Hl1).
    destruct (Logok_idx (L y2 H2)) as (i2 & B2 & Hi2 & Hl2).
    exists i1, i2. split; auto. split; auto.
    rewrite E in P. apply sorted_pos_split in P.
    destruct (Nat.le_gt_cases i1 i2) as [Q|Q]; auto. exfalso.
    apply (Hl2 i1 (rd_val y1)); try lia. rewrite <- N. exact Hi1.
Qed.

(* ---------- consequences for every event sequence *)
Theorem model_reads (x : rstate) evs : Good x -> reads_spec (rinst (rrun x evs)) (rlog (rrun x evs)).
Proof. intro G. apply Good_spec. apply (rrun_Good evs G). Qed.

Theorem never_dangle (x : rstate) evs n : Good x -> In n (hs (rst (rrun x evs))) -> find n (m (rst (rrun x evs))) <> None.
Proof. intros G H. destruct (rrun_Good evs G) as [[I _ _ _] _]. apply (inv_handles I). exact H. Qed.

(* a handle, once handed out, can be called in every later state - whatever is in flight *)
Theorem read_always_enabled (x : rstate) evs n now : Good x -> In n (hs (rst x)) ->
  snd (read (rst (rrun x evs)) n now) <> None.
Proof.
  intros G H. destruct (rrun_Good evs G) as [[I _ _ _] K]. apply read_enabled; auto.
Qed.

(* taking a handle for a known name hands one out *)
Lemma secret_gives_handle (s : store) n : known s n = true -> In n (hs (fst (secret s n))).
Proof.
  intro K. rewrite secret_fst. unfold secret_locked. rewrite K. destruct (has_handle s n) eqn:H; cbn [fst].
  - apply mem_In. exact H.
  - left. reflexivity.
Qed.

Lemma lookup_gives_handle (s : store) n v b t : In n (hs (fst (lookup_finish s n v b t))).
Proof.
  unfold lookup_finish. destruct (entry s n) as [e|] eqn:En.
  { cbn [fst]. unfold secret_locked.
    assert (K : known s n = true).
    { unfold known. unfold entry in En. destruct (find n (m s)); [reflexivity|discriminate]. }
    rewrite K. destruct (has_handle s n) eqn:H; cbn [fst].
    - apply mem_In. exact H.
    - left. reflexivity. }
  unfold lookup_install. cbn [fst]. unfold secret_locked.
  assert (K : known (with_m s (upd n (Some (CE v b t false)) (m s))) n = true).
  { unfold known. cbn [m with_m]. rewrite find_upd_eq. reflexivity. }
  rewrite K. destruct (has_handle _ n) eqn:H; cbn [fst].
  - apply mem_In. exact H.
  - left. reflexivity.
Qed.

(* a lookup whose answer arrives when the name already has a value (F8 repair): no install - the
   ghost list, the map and therefore what every handle serves stay as they are *)
Lemma lookup_end_on_known (x : rstate) n v b t e : entry (rst x) n = Some e ->
  rinst (rstep x (VLookupEnd n v b t)) = rinst x /\ m (rst (rstep x (VLookupEnd n v b t))) = m (rst x) /\
  rlog (rstep x (VLookupEnd n v b t)) = rlog x.
Proof.
  destruct x as [s inst log]. cbn [rst rstep]. intros E. rewrite E. cbn [rinst rst rlog].
  destruct (@lookup_finish_known V s n v b t e E) as (M1 & _). auto.
Qed.

(* a read step logs exactly one entry and is a single step: its value is the latest install *)
Theorem read_returns_latest (x : rstate) r n now : Good x -> In n (hs (rst x)) ->
  exists v, rlog (rstep x (VRead r n now)) = rlog x ++ [RD r n v (length (rinst x))] /\
            latest n (rinst x) = Some v /\ rinst (rstep x (VRead r n now)) = rinst x.
Proof.
  intros [I C L P] H. destruct x as [s inst log]. cbn [rst rinst rlog] in *.
  pose proof (inv_handles I n H) as F. pose proof (inv_nostub I n) as NS. cbn [rstep]. unfold read.
  destruct (find n (m s)) as [[e|]|] eqn:Fm; try congruence.
  exists (val e). cbn [rlog rinst]. split; auto. split; auto. apply C. unfold entry. rewrite Fm. auto.
Qed.

(* ---------- watchers: notify never waits, and a pending notification absorbs further ones *)
(* notify is a total function of the state (nothing it could wait for); applying it to a watcher
   whose flag is already set changes nothing *)
Lemma notify_idem (s : store) n : notify n (notify n s) = notify n s.
Proof.
  unfold notify, with_ws. cbn [ws m hs allow age]. f_equal. rewrite map_map. apply map_ext. intro w.
  destruct (neqb (wname w) n) eqn:E; cbn [wname]; rewrite ?E; reflexivity.
Qed.

Lemma notify_iter (s : store) n k : Nat.iter (S k) (notify n) s = notify n s.
Proof. induction k as [|k IH]; [reflexivity|]. change (Nat.iter (S (S k)) (notify n) s) with (notify n (Nat.iter (S k) (notify n) s)). rewrite IH. apply notify_idem. Qed.

(* it touches nothing but the flags of the watchers of that name, which it sets *)
Lemma notify_spec (s : store) n :
  m (notify n s) = m s /\ hs (notify n s) = hs s /\ length (ws (notify n s)) = length (ws s) /\
  forall i w, nth_error (ws s) i = Some w ->
    nth_error (ws (notify n s)) i = Some (if neqb (wname w) n then W (wname w) true else w).
Proof.
  unfold notify, with_ws. cbn [m hs ws]. repeat split; [apply map_length|].
  intros i w H. rewrite nth_error_map, H. reflexivity.
Qed.

Lemma take_flag_spec : forall (l : list watcher) i w, nth_error l i = Some w ->
  snd (take_flag i l) = wflag w /\ nth_error (fst (take_flag i l)) i = Some (W (wname w) false) /\
  length (fst (take_flag i l)) = length l.
Proof.
  induction l as [|x r IH]; intros i w H; [destruct i; discriminate|].
  destruct i as [|i]; cbn [nth_error take_flag] in *.
  - injection H as ->. cbn. auto.
  - destruct (IH i w H) as (A & B & C). destruct (take_flag i r) as [r' f]. cbn [fst snd nth_error length] in *. auto.
Qed.

(* after any positive number of notifications one take finds the flag set, the next finds it clear:
   a level trigger, nothing is queued *)
Theorem notify_then_take (s : store) n i w k : nth_error (ws s) i = Some w -> wname w = n ->
  let s1 := Nat.iter (S k) (notify n) s in
  snd (ready_take s1 i) = true /\ snd (ready_take (fst (ready_take s1 i)) i) = false.
Proof.
  intros H N s1. unfold s1. rewrite notify_iter.
  destruct (notify_spec s n) as (_ & _ & _ & NS). specialize (NS i w H).
  assert (E : neqb (wname w) n = true) by (apply neqb_true; auto). rewrite E in NS.
  unfold ready_take. destruct (take_flag_spec _ _ NS) as (A & B & _).
  destruct (take_flag i (ws (notify n s))) as [l1 f1] eqn:T1. cbn [fst snd] in *. split; [exact A|].
  cbn [ws with_ws]. destruct (take_flag_spec _ _ B) as (A2 & _ & _).
  destruct (take_flag i l1) as [l2 f2]. cbn [fst snd] in *. exact A2.
Qed.

End ReadersProofs.

(* ---------- the monitor is sound *)
Section Monitor.
Variable V : Type.
Variable veqb : V -> V -> bool.
Hypothesis veqb_eq : forall a b, veqb a b = true -> a = b.

Lemma none_between_spec (n : name) : forall (l : list (name * V)) k i pos, none_between n l k i pos = true ->
  forall j x, nth_error l j = Some (n, x) -> i < k + j -> k + j < pos -> False.
Proof.
  induction l as [|[n' v'] r IH]; intros k i pos H j x Hn A B; [destruct j; discriminate|].
  cbn [none_between] in H. apply andb_prop in H. destruct H as [H1 H2]. destruct j as [|j]; cbn [nth_error] in Hn.
  - injection Hn as -> ->. apply negb_true_iff in H1. apply andb_false_iff in H1. destruct H1 as [H1|H1].
    + apply andb_false_iff in H1. destruct H1 as [H1|H1]; apply Nat.ltb_ge in H1; lia.
    + apply neqb_false in H1. congruence.
  - apply (IH _ _ _ H2 j x Hn); lia.
Qed.

Lemma at_idx_spec (l : list (name * V)) i n v : at_idx veqb l i n v = true -> nth_error l i = Some (n, v).
Proof.
  unfold at_idx. destruct (nth_error l i) as [[n' v']|]; [|discriminate]. intro H.
  apply andb_prop in H. destruct H as [H1 H2]. apply neqb_true in H1. apply veqb_eq in H2. subst. reflexivity.
Qed.

Lemma check_ann_in (installs : list (name * V)) : forall (log : list (rd V)) ann, check_ann veqb installs log ann = true ->
  forall y, In y log -> exists i, at_idx veqb installs i (rd_name y) (rd_val y) = true /\
                                  none_between (rd_name y) installs 0 i (rd_pos y) = true.
Proof.
  induction log as [|x lr IH]; intros ann H y Hy; [destruct Hy|].
  destruct ann as [|i ar]; [discriminate|]. cbn [check_ann] in H.
  apply andb_prop in H. destruct H as [H C]. apply andb_prop in H. destruct H as [H _].
  apply andb_prop in H. destruct H as [A N]. destruct Hy as [<-|Hy]; eauto.
Qed.

Lemma later_ok_spec (installs : list (name * V)) r n i : forall (l2 : list (rd V)) y2 l3 a,
  later_ok r n i (l2 ++ y2 :: l3) a = true -> check_ann veqb installs (l2 ++ y2 :: l3) a = true ->
  rd_reader y2 = r -> rd_name y2 = n ->
  exists i2, at_idx veqb installs i2 (rd_name y2) (rd_val y2) = true /\ i <= i2.
Proof.
  induction l2 as [|x l2 IH]; intros y2 l3 a L C R N; (destruct a as [|j ar]; [discriminate|]);
    cbn [app later_ok check_ann] in L, C; apply andb_prop in L; destruct L as [L1 L2];
    apply andb_prop in C; destruct C as [C C2]; apply andb_prop in C; destruct C as [C _];
    apply andb_prop in C; destruct C as [A _].
  - exists j. split; auto. rewrite R, N, Nat.eqb_refl in L1.
    assert (E : neqb n n = true) by (apply neqb_true; auto). rewrite E in L1. cbn in L1. apply Nat.leb_le. exact L1.
  - eapply IH; eauto.
Qed.

Lemma check_ann_mono (installs : list (name * V)) : forall (l1 : list (rd V)) ann y1 l2 y2 l3,
  check_ann veqb installs (l1 ++ y1 :: l2 ++ y2 :: l3) ann = true ->
  rd_reader y1 = rd_reader y2 -> rd_name y1 = rd_name y2 ->
  exists i1 i2, nth_error installs i1 = Some (rd_name y1, rd_val y1) /\
                nth_error installs i2 = Some (rd_name y2, rd_val y2) /\ i1 <= i2.
Proof.
  induction l1 as [|x l1 IH]; intros ann y1 l2 y2 l3 H Rd Nm;
    (destruct ann as [|i1 ar]; [discriminate|]); cbn [app check_ann] in H;
    apply andb_prop in H; destruct H as [H C]; apply andb_prop in H; destruct H as [H L];
    apply andb_prop in H; destruct H as [A _].
  - destruct (@later_ok_spec installs (rd_reader y1) (rd_name y1) i1 l2 y2 l3 ar L C (eq_sym Rd) (eq_sym Nm)) as (i2 & A2 & Le).
    exists i1, i2. split; [apply at_idx_spec; auto|]. split; [apply at_idx_spec; auto|auto].
  - exact (IH ar y1 l2 y2 l3 C Rd Nm).
Qed.

Theorem monitor_sound (installs : list (name * V)) (log : list (rd V)) :
  reads_ok veqb installs log = true -> reads_spec installs log.
Proof.
  unfold reads_ok. generalize (assign veqb installs log). intros ann H. split.
  - intros y Hy. destruct (@check_ann_in installs log ann H y Hy) as (i & A & N). exists i. split; [apply at_idx_spec; auto|].
    intros j x P Q Hn. apply (@none_between_spec (rd_name y) installs 0 i (rd_pos y) N j x Hn); lia.
  - intros l1 y1 l2 y2 l3 E Rd Nm. subst log. eapply check_ann_mono; eauto.
Qed.

End Monitor.
