(* Shared model of client/setec/store.go: the state guarded by Store.active (the maps m, f, w),
   and every step that runs under that mutex, written as the Go code is.  Everything that
   happens OUTSIDE the mutex (requests to the service, waiting, scheduling) is an explicit
   input of these functions; the property-specific models (Init.v, Poll.v, ...) compose them
   into rounds, polls and schedules.  Executable definitions only (proofs live elsewhere, so
   the model still runs when a proof is broken).

   Conventions.  Names are byte strings.  Secret values are an abstract type V (no function
   here inspects one).  Versions are N.  `now` arguments named `now_s` are Unix seconds
   (what `s.timeNow().Unix()` returns), those named `now_ns` are Unix nanoseconds.  LastAccess
   is Unix seconds (Z: a cache file may carry any int64).  Go maps are canonical sorted maps
   (Base/SMap.v); where the Go code iterates over a map in random order the result here does not
   depend on the order (proved where it matters) or the order is an input. *)
From Coq Require Import List Bool NArith ZArith.
Import ListNotations.
From Setec Require Import Base.SMap.
Set Implicit Arguments.

Definition name := list N.

Definition neqb (a b : name) : bool := match cmp a b with Eq => true | _ => false end.
Definition mem (n : name) (l : list name) : bool := existsb (neqb n) l.

Section Store.
Variable V : Type.

(* cachedSecret (store.go:805): Secret{Version,Value}, LastAccess, Declared *)
Record centry := CE { ver : N; val : V; last : Z; decl : bool }.

(* a watcher (watcher.go:13): the secret it wraps and its one-slot ready channel *)
Record watcher := W { wname : name; wflag : bool }.

(* Store.active + the configuration bits the locked steps consult.
   m: name -> entry; an entry of None is the nil stub that exists only during construction.
   hs: names for which a handle (active.f) exists.  ws: watchers in registration order (the
   index is the watcher's identity).  allow: AllowLookup.  age: ExpiryAge in nanoseconds. *)
Record store := ST { m : @smap name (option centry); hs : list name; ws : list watcher;
                     allow : bool; age : Z }.

Definition with_m (s : store) (m' : @smap name (option centry)) : store := ST m' (hs s) (ws s) (allow s) (age s).
Definition with_hs (s : store) (h : list name) : store := ST (m s) h (ws s) (allow s) (age s).
Definition with_ws (s : store) (w : list watcher) : store := ST (m s) (hs s) w (allow s) (age s).

Definition known (s : store) (n : name) : bool := match find n (m s) with Some _ => true | None => false end.
Definition has_handle (s : store) (n : name) : bool := mem n (hs s).
Definition entry (s : store) (n : name) : option centry := match find n (m s) with Some e => e | None => None end.

(* what flushCacheLocked (store.go:619) hands to Cache.Write: every name with version, bytes and
   last-access stamp (Declared is not persisted); a nil stub would be written as JSON null *)
Definition doc_entry : Type := (name * option (N * V * Z))%type.
Definition doc (s : store) : list doc_entry :=
  map (fun '(n, oe) => (n, match oe with Some e => Some (ver e, val e, last e) | None => None end)) (m s).

Inductive effect := Flush (d : list doc_entry).

(* ---- secretLocked (store.go:326): a handle exists for known names only; creating it twice is idempotent *)
Definition secret_locked (s : store) (n : name) : store * bool :=
  if known s n then ((if has_handle s n then s else with_hs s (n :: hs s)), true) else (s, false).

(* Store.Secret (store.go:311): Some true = handle, Some false = nil, None = panic *)
Definition secret (s : store) (n : name) : store * option bool :=
  let '(s', ok) := secret_locked s n in
  if ok then (s', Some true) else if allow s then (s', Some false) else (s', None).

(* ---- calling a handle (the closure at store.go:332): stamps LastAccess, returns the current bytes.
   None = nil dereference (panic): excluded for reachable states by the no-dangling invariant. *)
Definition read (s : store) (n : name) (now_s : Z) : store * option V :=
  match find n (m s) with
  | Some (Some e) => (with_m s (upd n (Some (CE (ver e) (val e) now_s (decl e))) (m s)), Some (val e))
  | _ => (s, None)
  end.

(* ---- the locked part of a successful lookup (store.go:395-401): install (undeclared, stamped
   now), flush the cache, create the handle *)
Definition lookup_install (s : store) (n : name) (v : N) (b : V) (now_s : Z) : store * list effect :=
  let s1 := with_m s (upd n (Some (CE v b now_s false)) (m s)) in
  (fst (secret_locked s1 n), [Flush (doc s1)]).

(* ---- the locked part of a lookup flight as a whole (store.go:400-414).  The caller found the name
   unknown BEFORE it joined or started the flight, so by the time the flight's answer arrives another
   lookup may have installed the name already: then the existing entry is kept (replacing it would
   change the value without waking its watchers - the F8 repair) and only the handle is returned. *)
Definition lookup_finish (s : store) (n : name) (v : N) (b : V) (now_s : Z) : store * list effect :=
  match entry s n with
  | Some _ => (fst (secret_locked s n), [])
  | None => lookup_install s n v b now_s
  end.

(* ---- watchers (watcher.go:38-63): registration appends under the lock; notify is a non-blocking
   send on a one-slot channel (level trigger); Ready/receive takes the slot *)
Definition add_watcher (s : store) (n : name) : store * nat := (with_ws s (ws s ++ [W n false]), length (ws s)).
Definition notify (n : name) (s : store) : store :=
  with_ws s (map (fun w => if neqb (wname w) n then W (wname w) true else w) (ws s)).
Fixpoint take_flag (i : nat) (l : list watcher) : list watcher * bool :=
  match l, i with
  | [], _ => ([], false)
  | w :: r, O => (W (wname w) false :: r, wflag w)
  | w :: r, S j => let '(r', f) := take_flag j r in (w :: r', f)
  end.
Definition ready_take (s : store) (i : nat) : store * bool :=
  let '(l, f) := take_flag i (ws s) in (with_ws s l, f).

(* ---- expiry predicate (store.go:493 hasExpired; time.Time.Sub saturates at the int64 range of a
   Duration; a LastAccess of 0 denotes the zero time, year 1, hence a saturated age) *)
Definition maxD : Z := 9223372036854775807%Z.
Definition sat (x : Z) : Z := Z.max (- maxD - 1) (Z.min maxD x).
Definition elapsed (now_ns last_s : Z) : Z :=
  if (last_s =? 0)%Z then maxD else sat (now_ns - last_s * 1000000000)%Z.
Definition has_expired (age_ns now_ns : Z) (e : centry) : bool :=
  negb (decl e) && (0 <? age_ns)%Z && (age_ns <? elapsed now_ns (last e))%Z.

(* ---- snapshotActive (store.go:506): per name (expired?, version); a name with a handle is never
   flagged (the F3 repair).  Stubs cannot exist after construction and are skipped. *)
Definition snap_entry : Type := (name * (bool * N))%type.
Definition snapshot (s : store) (now_ns : Z) : list snap_entry :=
  flat_map (fun '(n, oe) => match oe with
                            | Some e => [(n, (negb (has_handle s n) && has_expired (age s) now_ns e, ver e))]
                            | None => [] end) (m s).

(* ---- poll (store.go:523): outside the lock.  The service's answer to GetIfChanged(n, v) is an
   input.  Result: None if any request failed (nothing will be applied), else the update map. *)
Inductive resp := RNotChanged | RValue (v : N) (b : V) | RErr.
Inductive upd1 := Drop | Install (v : N) (b : V).

Definition requests (snap : list snap_entry) : list (name * N) :=
  flat_map (fun '(n, (ex, v)) => if ex : bool then [] else [(n, v)]) snap.

Fixpoint poll (snap : list snap_entry) (ans : name -> N -> resp) : option (list (name * upd1)) :=
  match snap with
  | [] => Some []
  | (n, (ex, v)) :: rest =>
    let r := poll rest ans in
    if ex : bool then option_map (cons (n, Drop)) r
    else match ans n v with
         | RErr => None
         | RNotChanged => r
         | RValue v' b => if (v' =? v)%N then r else option_map (cons (n, Install v' b)) r
         end
  end.

(* ---- applyUpdates (store.go:580): under the lock; nothing at all (no flush) for an empty update
   map; a deletion mark is skipped when the name has a handle; a new value keeps the access
   stamp and the declared bit and sets the ready flag of every watcher of that name *)
Definition apply1 (s : store) (u : name * upd1) : store :=
  match u with
  | (n, Drop) => if has_handle s n then s else with_m s (del n (m s))
  | (n, Install v b) =>
    match find n (m s) with
    | Some (Some e) => notify n (with_m s (upd n (Some (CE v b (last e) (decl e))) (m s)))
    | _ => s   (* nil dereference in the Go code: unreachable, the name was in the snapshot *)
    end
  end.
Definition apply_updates (s : store) (ups : list (name * upd1)) : store * list effect :=
  match ups with
  | [] => (s, [])
  | _ => let s' := fold_left apply1 ups s in (s', [Flush (doc s')])
  end.

(* one whole poll as Refresh runs it (store.go:285): snapshot, requests, apply; Some false = failed *)
Definition refresh (s : store) (now_ns : Z) (ans : name -> N -> resp) : store * list effect * bool :=
  match poll (snapshot s now_ns) ans with
  | None => (s, [], false)
  | Some ups => let '(s', fx) := apply_updates s ups in (s', fx, true)
  end.

(* ---- poller shutdown (store.go:560): one last flush *)
Definition shutdown_flush (s : store) : list effect := [Flush (doc s)].

(* ---- construction (store.go:177-251).  A cache document as decoded by encoding/json into
   map[string]*cachedSecret: an entry may be null, its "secret" may be null. *)
Definition rentry : Type := option (option (N * V) * Z).
Definition cache_valid (c : @smap name rentry) : bool :=
  forallb (fun '(k, e) => match k, e with
                          | [], _ => false
                          | _, Some (Some _, _) => true
                          | _, _ => false end) c.
Definition of_cache (c : @smap name rentry) : @smap name (option centry) :=
  flat_map (fun '(k, e) => match e with
                           | Some (Some (v, b), t) => [(k, Some (CE v b t false))]
                           | _ => [] end) c.
(* None = no cache / Read failed / empty / not decodable; an invalid document is dropped whole *)
Definition load_cache (c : option (@smap name rentry)) : @smap name (option centry) :=
  match c with
  | Some d => if cache_valid d then of_cache d else []
  | None => []
  end.

(* secretNames (store.go:850): sort, de-duplicate, refuse the empty name *)
Definition norm_names (names : list name) : list name :=
  map fst (fold_left (fun acc n => upd n tt acc) names (@nil (name * unit))).
Definition names_ok (names : list name) (allow_lookup : bool) : bool :=
  negb (existsb (fun n => match n with [] => true | _ => false end) names)
  && (match names with [] => allow_lookup | _ => true end).

(* store.go:226-234: cached names that are declared get the bit; the others become stubs *)
Definition declare1 (acc : @smap name (option centry) * bool) (n : name) : @smap name (option centry) * bool :=
  let '(mm, want) := acc in
  match find n mm with
  | Some (Some e) => (upd n (Some (CE (ver e) (val e) (last e) true)) mm, want)
  | Some None => (mm, want)
  | None => (upd n None mm, true)
  end.
Definition declare (mm : @smap name (option centry)) (names : list name) : @smap name (option centry) * bool :=
  fold_left declare1 names (mm, false).

Definition stubs (mm : @smap name (option centry)) : list name :=
  flat_map (fun '(n, oe) => match oe with None => [n] | Some _ => [] end) mm.

(* one round of initializeActive (store.go:672-690) with every request answered (the context is
   alive): each stub is requested once; success installs a declared entry stamped now *)
Definition init_round (mm : @smap name (option centry)) (ans : name -> option (N * V)) (now_s : Z)
  : @smap name (option centry) * nat :=
  fold_left (fun '(acc, missing) n =>
               match ans n with
               | Some (v, b) => (upd n (Some (CE v b now_s true)) acc, missing)
               | None => (acc, S missing)
               end) (stubs mm) (mm, O).

(* back-off (store.go:703-706): 1ms doubling while < 4s, i.e. capped at 4096ms *)
Definition next_wait (w_ms : N) : N := if (w_ms <? 4000)%N then (w_ms + w_ms)%N else w_ms.

End Store.

Arguments RNotChanged {V}.
Arguments RErr {V}.
Arguments Drop {V}.
