(* Basic invariant of the shared store model (Client/Store.v), preserved by every locked step:
   the map is canonical (sorted), holds no construction-time stub, and every handle refers to a
   present entry ("a handle never dangles").  Used by the property-specific proofs. *)
From Coq Require Import List Bool NArith ZArith Lia.
Import ListNotations.
From Setec Require Import Base.SMap Client.Store.
Set Implicit Arguments.

Lemma neqb_true (a b : name) : neqb a b = true <-> a = b.
Proof.
  unfold neqb. destruct (cmp a b) eqn:E.
  - split; auto. intros _. apply cmp_eq; auto.
  - split; [discriminate|]. intros ->. rewrite cmp_refl in E. discriminate.
  - split; [discriminate|]. intros ->. rewrite cmp_refl in E. discriminate.
Qed.

Lemma neqb_false (a b : name) : neqb a b = false <-> a <> b.
Proof. rewrite <- neqb_true. destruct (neqb a b); split; congruence. Qed.

Lemma mem_In (n : name) l : mem n l = true <-> In n l.
Proof.
  unfold mem. rewrite existsb_exists. split.
  - intros (x & Hx & E). apply neqb_true in E. subst. auto.
  - intro H. exists n. split; auto. apply neqb_true. auto.
Qed.

Lemma name_eq_dec (a b : name) : {a = b} + {a <> b}.
Proof. destruct (neqb a b) eqn:E; [left; apply neqb_true; auto | right; apply neqb_false; auto]. Qed.

Section Inv.
Variable V : Type.
Notation store := (store V).

Definition no_stubs (mm : @smap name (option (centry V))) : Prop := forall n, find n mm <> Some None.

Record Inv (s : store) : Prop := {
  inv_sorted : sorted (m s);
  inv_nostub : no_stubs (m s);
  inv_handles : forall n, In n (hs s) -> find n (m s) <> None
}.

Lemma find_upd_cases (n k : name) (x : option (centry V)) mm :
  find k (upd n x mm) = if neqb k n then Some x else find k mm.
Proof.
  destruct (neqb k n) eqn:E.
  - apply neqb_true in E. subst. apply find_upd_eq.
  - apply neqb_false in E. apply find_upd_neq. auto.
Qed.

Lemma Inv_upd_some s n e : Inv s -> Inv (with_m s (upd n (Some e) (m s))).
Proof.
  intros [S N H]. constructor; cbn [m hs with_m].
  - apply sorted_upd; auto.
  - intros k. rewrite find_upd_cases. destruct (neqb k n); [discriminate|apply N].
  - intros k Hk. rewrite find_upd_cases. destruct (neqb k n); [discriminate|auto].
Qed.

Lemma Inv_with_ws s w : Inv s -> Inv (with_ws s w).
Proof. intros [S N H]. constructor; cbn [m hs with_ws]; auto. Qed.

Lemma Inv_notify s n : Inv s -> Inv (notify n s).
Proof. apply Inv_with_ws. Qed.

Lemma secret_locked_Inv s n : Inv s -> Inv (fst (secret_locked s n)).
Proof.
  intros I. unfold secret_locked. destruct (known s n) eqn:K; cbn [fst]; auto.
  destruct (has_handle s n); auto. destruct I as [S N H].
  constructor; cbn [m hs with_hs]; auto.
  intros k [<-|Hk]; auto. unfold known in K. destruct (find n (m s)); congruence.
Qed.

Lemma read_Inv s n now : Inv s -> Inv (fst (read s n now)).
Proof.
  intros I. unfold read. destruct (find n (m s)) as [[e|]|]; cbn [fst]; auto. apply Inv_upd_some; auto.
Qed.

Lemma read_enabled s n now : Inv s -> In n (hs s) -> snd (read s n now) <> None.
Proof.
  intros [S N H] Hn. unfold read. specialize (H n Hn). specialize (N n).
  destruct (find n (m s)) as [[e|]|]; cbn [snd]; congruence.
Qed.

Lemma lookup_install_Inv s n v b now : Inv s -> Inv (fst (lookup_install s n v b now)).
Proof. intros I. unfold lookup_install. cbn [fst]. apply secret_locked_Inv, Inv_upd_some, I. Qed.

Lemma lookup_finish_Inv (s : store) n v b now : Inv s -> Inv (fst (lookup_finish s n v b now)).
Proof.
  intros I. unfold lookup_finish. destruct (entry s n); cbn [fst].
  - apply secret_locked_Inv, I.
  - apply lookup_install_Inv, I.
Qed.

(* on a name that is not yet known (the only case the sequential callers reach) it is the install *)
Lemma lookup_finish_unknown (s : store) n v b now : known s n = false -> lookup_finish s n v b now = lookup_install s n v b now.
Proof. unfold lookup_finish, entry, known. destruct (find n (m s)); [discriminate|reflexivity]. Qed.

(* on a name that has a value it changes neither the map nor the watchers and writes nothing *)
Lemma lookup_finish_known (s : store) n v b now e : entry s n = Some e ->
  m (fst (lookup_finish s n v b now)) = m s /\ ws (fst (lookup_finish s n v b now)) = ws s
  /\ snd (lookup_finish s n v b now) = [] /\ In n (hs (fst (lookup_finish s n v b now))).
Proof.
  intros E. unfold lookup_finish. rewrite E. cbn [fst snd]. unfold secret_locked, known.
  unfold entry in E. destruct (find n (m s)) as [oe|] eqn:F; [|discriminate].
  destruct (has_handle s n) eqn:H; cbn [fst m ws hs with_hs]; repeat split; auto.
  - apply mem_In. exact H.
  - left; reflexivity.
Qed.

Lemma add_watcher_Inv s n : Inv s -> Inv (fst (add_watcher s n)).
Proof. intros I. unfold add_watcher. cbn [fst]. apply Inv_with_ws, I. Qed.

Lemma ready_take_Inv s i : Inv s -> Inv (fst (ready_take s i)).
Proof. intros I. unfold ready_take. destruct (take_flag i (ws s)). cbn [fst]. apply Inv_with_ws, I. Qed.

Lemma apply1_Inv s u : Inv s -> Inv (apply1 s u).
Proof.
  intros I. destruct u as [n [|v b]]; cbn [apply1].
  - destruct (has_handle s n) eqn:Hh; auto. destruct I as [S N H].
    constructor; cbn [m hs with_m].
    + apply sorted_del; auto.
    + intros k. destruct (name_eq_dec k n) as [->|D].
      * rewrite find_del_eq by auto. discriminate.
      * rewrite find_del_neq by auto. apply N.
    + intros k Hk. assert (k <> n).
      { intros ->. apply mem_In in Hk. unfold has_handle in Hh. congruence. }
      rewrite find_del_neq; auto.
  - destruct (find n (m s)) as [[e|]|]; auto. apply Inv_notify, Inv_upd_some, I.
Qed.

Lemma fold_apply1_Inv ups : forall s, Inv s -> Inv (fold_left (@apply1 V) ups s).
Proof. induction ups as [|u ups IH]; cbn [fold_left]; auto. intros s I. apply IH, apply1_Inv, I. Qed.

Lemma apply_updates_Inv s ups : Inv s -> Inv (fst (apply_updates s ups)).
Proof. intros I. unfold apply_updates. destruct ups; cbn [fst]; auto. apply fold_apply1_Inv, I. Qed.

Lemma refresh_Inv s now ans : Inv s -> Inv (fst (fst (refresh s now ans))).
Proof.
  intros I. unfold refresh. destruct (poll (snapshot s now) ans) as [ups|]; cbn [fst]; auto.
  pose proof (apply_updates_Inv ups I) as J. destruct (apply_updates s ups). exact J.
Qed.

(* a name disappears from the map only through a deletion mark applied while it has no handle *)
Lemma apply1_keeps (s : store) u k : sorted (m s) -> find k (m s) <> None -> find k (m (apply1 s u)) = None ->
  u = (k, Drop) /\ has_handle s k = false.
Proof.
  intros S P Nn. destruct u as [n [|v b]]; cbn [apply1] in Nn.
  - destruct (has_handle s n) eqn:Hh; [contradiction|]. cbn [m with_m] in Nn.
    destruct (name_eq_dec k n) as [->|D]; auto.
    rewrite find_del_neq in Nn by auto. contradiction.
  - destruct (find n (m s)) as [[e|]|] eqn:F; try contradiction.
    cbn [m notify with_ws with_m] in Nn. rewrite find_upd_cases in Nn.
    destruct (neqb k n); [discriminate|contradiction].
Qed.

End Inv.
