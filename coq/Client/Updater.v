(* C15 - model of setec.Updater / watcher (client/setec/store.go NewUpdater, Updater.Get, Updater.Err;
   watcher.go lookupWatcher, notify, Ready) ON TOP of the shared store model Client/Store.v.
   Executable definitions only.

   The steps of the Go code that are separated by a point where other goroutines can run are
   separate events here, so that "all event sequences" covers every interleaving:
     NewUpdater  = EReg   (lookupWatcher's locked section: handle + watcher appended, watcher.go:60-61)
                 ; ERead  (w.Get(): the handle closure, under the store lock, store.go:338-349)
                 ; EBuilt (newValue returned; the Updater exists iff it succeeded, store.go:768-777)
     Updater.Get = EGetBegin (u.mu taken; non-blocking receive on Ready; if a token was there, w.Get())
                 ; EGetEnd   (newValue returned: close old + replace, or keep old; err recorded; u.mu released)
   with installs (EApply = applyUpdates under the store lock: install then notify) and lookups allowed
   anywhere in between.  A lookup is two steps of the Go code with a window between them: LookupSecret /
   lookupWatcher find the name unknown (store.go:361, watcher.go:45) and only later the flight's locked
   part runs (store.go:400-414).  ELate is that locked part ALONE, enabled in EVERY state (whatever
   happened since the caller's check: another complete lookup of the same name, an Updater created on
   it, polls) with an arbitrary service answer: Store.lookup_finish, i.e. the code after the F8 repair
   (104da0c) - an entry that exists by then is kept.  ELookup (check + successful flight in one step,
   store.go:360-414) is kept for the callers that are not overtaken; it is ELate in a state where the
   name is unknown (lookup_finish_unknown).
   Atomicity assumption: Get holds u.mu for the whole call, so Gets of ONE updater serialise; the
   model refuses (OStuck) an EGetBegin while a build of the same updater is pending.

   A built value is identified by (updater index, k) = the k-th builder call of that updater.
   Fields marked ghost are not observable in the Go program; they exist to state the theorems. *)
From Coq Require Import List Bool NArith ZArith.
Import ListNotations.
From Setec Require Import Base.SMap Client.Store.
Set Implicit Arguments.

Fixpoint set_nth {A} (i : nat) (x : A) (l : list A) : list A :=
  match l, i with
  | [], _ => []
  | _ :: r, O => x :: r
  | y :: r, S j => y :: set_nth j x r
  end.

Section Updater.
Variable V : Type.
Notation store := (store V).

(* what a value is built from: the version (ghost; the builder sees only bytes) and the bytes *)
Definition src : Type := (N * V)%type.

Inductive phase := PReg | PInit | PLive | PDead.

Record updater := U {
  uw : nat;              (* index of its watcher in the store's watcher list *)
  un : name;             (* the secret *)
  ucl : bool;            (* T implements io.Closer *)
  uph : phase;           (* PReg: watcher registered; PInit: first bytes read, builder running;
                            PLive: NewUpdater returned the updater; PDead: it returned the builder's error *)
  ucur : nat;            (* the current value: which builder call made it (PLive) *)
  uerr : bool;           (* u.err <> nil *)
  upend : option src;    (* bytes handed to a builder call that has not returned yet *)
  ucnt : nat;            (* builder calls made so far *)
  uclosed : list nat;    (* Close calls received by values of this updater, newest first *)
  ufrom : option src;    (* ghost: what the current value was built from *)
  useen : option src;    (* ghost: the bytes most recently read through the watcher *)
  usince : bool;         (* ghost: a new version of un was installed since the last take / the registration *)
  ugood : list nat       (* ghost: successful builder calls, newest first *)
}.

(* builder log: updater, call number, bytes it got, succeeded *)
Definition brec : Type := (nat * nat * V * bool)%type.

Record ustate := US { st : store; us : list updater; blog : list brec }.

Inductive event :=
| EApply (ups : list (name * upd1 V)) (flush_ok : bool)
      (* applyUpdates; flush_ok: what Cache.Write answers to the flush at its end (an INPUT: the cache is
         outside the program).  Output OOk / OFail = the error applyUpdates returns to Refresh. *)
| ELookup (n : name) (v : N) (b : V) (now : Z)
| ELate (n : name) (ans : option (N * V)) (now : Z)
      (* the locked part of a flight finishing at ANY later point; ans = None: the service failed *)
| EReg (n : name) (closer : bool)
| ERead (i : nat) (now : Z)
| EBuilt (i : nat) (ok : bool)
| EGetBegin (i : nat) (now : Z)
| EGetEnd (i : nat) (ok : bool)
| EErr (i : nat).

Inductive out :=
| ONone                        (* nothing to observe *)
| OOk | OFail                  (* registration / lookup / NewUpdater outcome *)
| OBusy                        (* Get found a notification: the builder is now running *)
| OVal (k : nat) (err : bool)  (* Get returns the value made by builder call k; Err() afterwards *)
| OErr (err : bool)
| OStuck.                      (* event not enabled in this state (never produced by the real program) *)

Definition cur (s : store) (n : name) : option src := option_map (fun e => (ver e, val e)) (entry s n).

(* calling the watcher's Secret: Store.read, plus the ghost version *)
Definition do_read (s : store) (n : name) (now : Z) : option (store * src) :=
  match entry s n, read s n now with
  | Some e, (s', Some b) => Some (s', (ver e, b))
  | _, _ => None
  end.

Definition is_install_on (n : name) (u : name * upd1 V) : bool :=
  match u with (n', Install _ _) => neqb n' n | _ => false end.
Definition has_install (n : name) (ups : list (name * upd1 V)) : bool := existsb (is_install_on n) ups.

Definition mark_since (ups : list (name * upd1 V)) (u : updater) : updater :=
  U (uw u) (un u) (ucl u) (uph u) (ucur u) (uerr u) (upend u) (ucnt u) (uclosed u) (ufrom u) (useen u)
    (usince u || has_install (un u) ups) (ugood u).

Definition new_upd (w : nat) (n : name) (cl : bool) : updater :=
  U w n cl PReg 0 false None 0 [] None None false [].

Definition step (s : ustate) (e : event) : ustate * out :=
  match e with
  | EApply ups flush_ok =>
      (* store.go applyUpdates: every install and every notification happens in the loop, under the
         lock, BEFORE flushCacheLocked is called; its error is only passed on to the caller *)
      (US (fst (apply_updates (st s) ups)) (map (mark_since ups) (us s)) (blog s),
       match snd (apply_updates (st s) ups) with [] => OOk | _ :: _ => if flush_ok then OOk else OFail end)
  | ELookup n v b now =>
      let '(s1, ok) := secret_locked (st s) n in
      if ok then (US s1 (us s) (blog s), OOk)
      else if allow (st s) then (US (fst (lookup_install (st s) n v b now)) (us s) (blog s), OOk)
      else (s, OFail)
  | ELate n ans now =>
      match ans with
      | Some (v, b) => (US (fst (lookup_finish (st s) n v b now)) (us s) (blog s), OOk)
      | None => (s, OFail)
      end
  | EReg n cl =>
      let '(s1, ok) := secret_locked (st s) n in
      if ok then let '(s2, w) := add_watcher s1 n in
                 (US s2 (us s ++ [new_upd w n cl]) (blog s), OOk)
      else (s, OFail)
  | ERead i now =>
      match nth_error (us s) i with
      | Some u =>
        match uph u, do_read (st s) (un u) now with
        | PReg, Some (s1, x) =>
            (US s1 (set_nth i (U (uw u) (un u) (ucl u) PInit (ucur u) (uerr u) (Some x) (ucnt u) (uclosed u)
                                 (ufrom u) (Some x) (usince u) (ugood u)) (us s)) (blog s), ONone)
        | _, _ => (s, OStuck)
        end
      | None => (s, OStuck)
      end
  | EBuilt i ok =>
      match nth_error (us s) i with
      | Some u =>
        match uph u, upend u with
        | PInit, Some x =>
            let u' := if ok
                      then U (uw u) (un u) (ucl u) PLive (ucnt u) false None (S (ucnt u)) (uclosed u)
                             (Some x) (useen u) (usince u) (ucnt u :: ugood u)
                      else U (uw u) (un u) (ucl u) PDead (ucur u) (uerr u) None (S (ucnt u)) (uclosed u)
                             (ufrom u) (useen u) (usince u) (ugood u) in
            (US (st s) (set_nth i u' (us s)) (blog s ++ [(i, ucnt u, snd x, ok)]), if ok then OOk else OFail)
        | _, _ => (s, OStuck)
        end
      | None => (s, OStuck)
      end
  | EGetBegin i now =>
      match nth_error (us s) i with
      | Some u =>
        match uph u, upend u with
        | PLive, None =>
            let '(s1, f) := ready_take (st s) (uw u) in
            if f then
              match do_read s1 (un u) now with
              | Some (s2, x) =>
                  (US s2 (set_nth i (U (uw u) (un u) (ucl u) PLive (ucur u) (uerr u) (Some x) (ucnt u) (uclosed u)
                                       (ufrom u) (Some x) false (ugood u)) (us s)) (blog s), OBusy)
              | None => (s, OStuck)
              end
            else
              (US s1 (set_nth i (U (uw u) (un u) (ucl u) PLive (ucur u) (uerr u) None (ucnt u) (uclosed u)
                                   (ufrom u) (useen u) false (ugood u)) (us s)) (blog s), OVal (ucur u) (uerr u))
        | _, _ => (s, OStuck)
        end
      | None => (s, OStuck)
      end
  | EGetEnd i ok =>
      match nth_error (us s) i with
      | Some u =>
        match uph u, upend u with
        | PLive, Some x =>
            let u' := if ok
                      then U (uw u) (un u) (ucl u) PLive (ucnt u) false None (S (ucnt u))
                             (if ucl u then ucur u :: uclosed u else uclosed u)
                             (Some x) (useen u) (usince u) (ucnt u :: ugood u)
                      else U (uw u) (un u) (ucl u) PLive (ucur u) true None (S (ucnt u)) (uclosed u)
                             (ufrom u) (useen u) (usince u) (ugood u) in
            (US (st s) (set_nth i u' (us s)) (blog s ++ [(i, ucnt u, snd x, ok)]), OVal (ucur u') (uerr u'))
        | _, _ => (s, OStuck)
        end
      | None => (s, OStuck)
      end
  | EErr i =>
      match nth_error (us s) i with
      | Some u => match uph u, upend u with PLive, None => (s, OErr (uerr u)) | _, _ => (s, OStuck) end
      | None => (s, OStuck)
      end
  end.

(* the UNREPAIRED locked part of a late flight (store.go before 104da0c): the answer is installed
   unconditionally and no watcher is notified.  Only used to exhibit the F8 witness (Props/C15.v). *)
Definition late_legacy (s : ustate) (n : name) (v : N) (b : V) (now : Z) : ustate :=
  US (fst (lookup_install (st s) n v b now)) (us s) (blog s).

Fixpoint run (s : ustate) (evs : list event) : ustate * list out :=
  match evs with
  | [] => (s, [])
  | e :: r => let '(s1, o) := step s e in let '(s2, os) := run s1 r in (s2, o :: os)
  end.

Definition exec (s : ustate) (evs : list event) : ustate := fst (run s evs).

(* a whole Updater.Get as one caller experiences it *)
Definition get (s : ustate) (i : nat) (now : Z) (ok : bool) : ustate * out :=
  let '(s1, o) := step s (EGetBegin i now) in
  match o with OBusy => step s1 (EGetEnd i ok) | _ => (s1, o) end.

(* the newest version of n installed by a sequence of events, if any *)
Fixpoint last_install_in (n : name) (ups : list (name * upd1 V)) (acc : option src) : option src :=
  match ups with
  | [] => acc
  | (n', Install v b) :: r => last_install_in n r (if neqb n' n then Some (v, b) else acc)
  | _ :: r => last_install_in n r acc
  end.
Fixpoint last_install (n : name) (evs : list event) (acc : option src) : option src :=
  match evs with
  | [] => acc
  | EApply ups _ :: r => last_install n r (last_install_in n ups acc)
  | _ :: r => last_install n r acc
  end.

(* events of updater i *)
Definition about (i : nat) (e : event) : bool :=
  match e with
  | ERead j _ | EBuilt j _ | EGetBegin j _ | EGetEnd j _ | EErr j => Nat.eqb i j
  | _ => false
  end.

End Updater.


Arguments EReg {V}.
Arguments ERead {V}.
Arguments EBuilt {V}.
Arguments EGetBegin {V}.
Arguments EGetEnd {V}.
Arguments EErr {V}.
