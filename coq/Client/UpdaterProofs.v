(* Proofs about Client/Updater.v (C15). *)
From Coq Require Import List Bool NArith ZArith Lia Arith.
Import ListNotations.
From Setec Require Import Base.SMap Client.Store Client.StoreInv Client.Updater.
Set Implicit Arguments.

Lemma nth_error_set_nth {A} (x : A) : forall l i j,
  nth_error (set_nth i x l) j =
  if Nat.eqb i j then match nth_error l i with Some _ => Some x | None => None end else nth_error l j.
Proof.
  induction l as [|y l IH]; intros i j.
  - destruct i, j; cbn; try reflexivity. destruct (Nat.eqb i j); reflexivity.
  - destruct i, j; cbn [set_nth nth_error Nat.eqb]; auto.
Qed.

Lemma length_set_nth {A} (x : A) : forall l i, length (set_nth i x l) = length l.
Proof. induction l; destruct i; cbn; auto. Qed.

Lemma neqb_sym (a b : name) : neqb a b = neqb b a.
Proof.
  destruct (neqb a b) eqn:E.
  - apply neqb_true in E. subst. symmetry. apply neqb_true. auto.
  - apply neqb_false in E. symmetry. apply neqb_false. auto.
Qed.

Lemma neqb_refl (a : name) : neqb a a = true.
Proof. apply neqb_true. auto. Qed.

Section Proofs.
Variable V : Type.
Notation store := (store V).
Notation updater := (updater V).
Notation ustate := (ustate V).
Notation event := (event V).

(* ------------------------------------------------------------------ store-level facts *)

Lemma cur_with_ws (s : store) w n : cur (with_ws s w) n = cur s n.
Proof. reflexivity. Qed.
Lemma cur_with_hs (s : store) h n : cur (with_hs s h) n = cur s n.
Proof. reflexivity. Qed.

Lemma secret_locked_facts (s : store) n s' ok : secret_locked s n = (s', ok) ->
  ws s' = ws s /\ m s' = m s /\ allow s' = allow s /\ (forall k, In k (hs s) -> In k (hs s')) /\
  ok = known s n /\ (ok = true -> In n (hs s')).
Proof.
  unfold secret_locked. destruct (known s n) eqn:K.
  - destruct (has_handle s n) eqn:H; intros E; inversion E; subst; clear E.
    + repeat split; auto. intros _. apply mem_In. exact H.
    + cbn [with_hs ws m allow hs]. repeat split; auto.
      * intros k Hk. right. auto.
      * intros _. left. auto.
  - intros E; inversion E; subst. repeat split; auto. discriminate.
Qed.

Lemma cur_eq_m (s s' : store) n : m s' = m s -> cur s' n = cur s n.
Proof. intros E. unfold cur, entry. rewrite E. reflexivity. Qed.

(* the locked part of a lookup flight, in ANY state satisfying the store invariant: the watcher list is
   untouched (nobody is notified), handles stay, and a name that has a handle - in particular every
   watched name - keeps its (version, bytes): it has a value, so the flight keeps the entry *)
Lemma lookup_finish_facts (s : store) n v b now : Inv s ->
  let s' := fst (lookup_finish s n v b now) in
  ws s' = ws s /\ allow s' = allow s /\ (forall k, In k (hs s) -> In k (hs s')) /\
  (forall k, In k (hs s) -> cur s' k = cur s k).
Proof.
  intros I. unfold lookup_finish. destruct (entry s n) as [e|] eqn:En.
  - destruct (secret_locked s n) as [s1 ok] eqn:E.
    destruct (@secret_locked_facts _ _ _ _ E) as (W1 & M1 & Al & H1 & _ & _). cbn [fst].
    repeat split; auto. intros k _. apply cur_eq_m. exact M1.
  - unfold lookup_install. cbn [fst].
    set (s0 := with_m s (upd n (Some (CE v b now false)) (m s))).
    destruct (secret_locked s0 n) as [s2 ok2] eqn:E2.
    destruct (@secret_locked_facts _ _ _ _ E2) as (W2 & M2 & Al2 & H2 & _ & _). cbn [fst].
    split; [rewrite W2; reflexivity|]. split; [rewrite Al2; reflexivity|].
    split; [intros k Hk; apply H2; exact Hk|].
    intros k Hk. rewrite (@cur_eq_m _ _ _ M2). unfold cur, entry, s0. cbn [m with_m]. rewrite find_upd_cases.
    destruct (neqb k n) eqn:D; auto. apply neqb_true in D. subst k. exfalso.
    (* a name with a handle is present and not a stub, so it has an entry *)
    destruct I as [_ N Hh]. specialize (Hh _ Hk). specialize (N n). unfold entry in En.
    destruct (find n (m s)) as [[e|]|]; congruence.
Qed.

Lemma read_facts (s : store) n now : let s' := fst (read s n now) in
  ws s' = ws s /\ hs s' = hs s /\ allow s' = allow s /\ forall k, cur s' k = cur s k.
Proof.
  unfold read. destruct (find n (m s)) as [[e|]|] eqn:F; cbn [fst]; repeat split; auto.
  intros k. unfold cur, entry. cbn [with_m m]. rewrite find_upd_cases.
  destruct (neqb k n) eqn:E; auto. apply neqb_true in E. subst. rewrite F. reflexivity.
Qed.

Lemma do_read_some (s : store) n now s' x : do_read s n now = Some (s', x) ->
  s' = fst (read s n now) /\ cur s n = Some x.
Proof.
  unfold do_read, cur. destruct (entry s n) as [e|] eqn:En; [|discriminate].
  unfold entry in En. unfold read. destruct (find n (m s)) as [[e'|]|] eqn:F; try discriminate.
  inversion En; subst. intros E. inversion E; subst. cbn [fst option_map]. split; reflexivity.
Qed.

Lemma do_read_enabled (s : store) n now : Inv s -> In n (hs s) -> exists s' x, do_read s n now = Some (s', x).
Proof.
  intros [S N H] Hn. specialize (H n Hn). specialize (N n).
  unfold do_read, entry, read. destruct (find n (m s)) as [[e|]|]; try congruence. eauto.
Qed.

Lemma take_flag_nth : forall (l : list (watcher)) i j,
  nth_error (fst (take_flag i l)) j =
  if Nat.eqb i j then option_map (fun w => W (wname w) false) (nth_error l i) else nth_error l j.
Proof.
  induction l as [|w l IH]; intros i j.
  - cbn. destruct (Nat.eqb i j); destruct i, j; auto.
  - destruct i.
    + cbn [take_flag fst]. destruct j; reflexivity.
    + cbn [take_flag]. specialize (IH i). destruct (take_flag i l) as [r f]. cbn [fst] in *.
      destruct j; cbn [nth_error Nat.eqb]; auto.
Qed.

Lemma take_flag_snd : forall (l : list watcher) i,
  snd (take_flag i l) = match nth_error l i with Some w => wflag w | None => false end.
Proof.
  induction l as [|w l IH]; intros i.
  - destruct i; reflexivity.
  - destruct i; cbn [take_flag]; [reflexivity|]. specialize (IH i). destruct (take_flag i l). exact IH.
Qed.

Lemma take_flag_length : forall (l : list watcher) i, length (fst (take_flag i l)) = length l.
Proof.
  induction l as [|w l IH]; intros i; [destruct i; reflexivity|].
  destruct i; cbn [take_flag]; [reflexivity|]. specialize (IH i). destruct (take_flag i l). cbn [fst length] in *. lia.
Qed.

Lemma ready_take_facts (s : store) i s' f : ready_take s i = (s', f) ->
  m s' = m s /\ hs s' = hs s /\ allow s' = allow s /\ ws s' = fst (take_flag i (ws s)) /\ f = snd (take_flag i (ws s)).
Proof.
  unfold ready_take. destruct (take_flag i (ws s)) as [l f0]. intros E; inversion E; subst. repeat split; auto.
Qed.

Lemma apply_updates_fst (s : store) ups : fst (apply_updates s ups) = fold_left (@apply1 V) ups s.
Proof. destruct ups; reflexivity. Qed.

Lemma apply1_watch (s : store) u0 i n f : Inv s -> In n (hs s) -> nth_error (ws s) i = Some (W n f) ->
  let s' := apply1 s u0 in
  hs s' = hs s /\ allow s' = allow s /\ length (ws s') = length (ws s) /\
  nth_error (ws s') i = Some (W n (f || is_install_on n u0)) /\
  cur s' n = match u0 with (n', Install v b) => if neqb n' n then Some (v, b) else cur s n | _ => cur s n end.
Proof.
  intros I Hn Hw. destruct u0 as [n' [|v b]]; cbn [apply1 is_install_on].
  - rewrite orb_false_r. destruct (has_handle s n') eqn:Hh; [repeat split; auto|].
    cbn [with_m hs ws allow]. repeat split; auto.
    unfold cur, entry. cbn [m with_m]. rewrite find_del_neq; auto.
    intros ->. apply mem_In in Hn. unfold has_handle in Hh. congruence.
  - destruct (find n' (m s)) as [[e|]|] eqn:F.
    + cbn [notify with_ws with_m hs ws allow]. repeat split; auto.
      * apply map_length.
      * rewrite nth_error_map, Hw. cbn [option_map wname wflag]. rewrite (neqb_sym n n').
        destruct (neqb n' n); [rewrite orb_true_r|rewrite orb_false_r]; reflexivity.
      * unfold cur, entry. cbn [m notify with_ws with_m]. rewrite find_upd_cases. rewrite (neqb_sym n n').
        destruct (neqb n' n); reflexivity.
    + assert (D : neqb n' n = false).
      { apply neqb_false. intros ->. destruct I as [_ N _]. apply (N n). exact F. }
      rewrite D, orb_false_r. repeat split; auto.
    + assert (D : neqb n' n = false).
      { apply neqb_false. intros ->. destruct I as [_ _ H]. apply (H n Hn). exact F. }
      rewrite D, orb_false_r. repeat split; auto.
Qed.

Lemma fold_apply1_watch i n : forall ups (s : store) f, Inv s -> In n (hs s) -> nth_error (ws s) i = Some (W n f) ->
  let s' := fold_left (@apply1 V) ups s in
  hs s' = hs s /\ allow s' = allow s /\ length (ws s') = length (ws s) /\
  nth_error (ws s') i = Some (W n (f || has_install n ups)) /\
  cur s' n = last_install_in n ups (cur s n).
Proof.
  induction ups as [|u0 ups IH]; intros s f I Hn Hw; cbn [fold_left has_install existsb last_install_in].
  - rewrite orb_false_r. repeat split; auto.
  - destruct (@apply1_watch s u0 i n f I Hn Hw) as (A & A' & B & C & D).
    assert (I1 : Inv (apply1 s u0)) by (apply apply1_Inv; exact I).
    assert (Hn1 : In n (hs (apply1 s u0))) by (rewrite A; exact Hn).
    destruct (IH (apply1 s u0) _ I1 Hn1 C) as (A2 & A2' & B2 & C2 & D2).
    repeat split; try congruence.
    + rewrite C2. rewrite orb_assoc. reflexivity.
    + rewrite D2, D. destruct u0 as [n' [|v b]]; reflexivity.
Qed.

Lemma fold_apply1_ws_length : forall ups (s : store), length (ws (fold_left (@apply1 V) ups s)) = length (ws s).
Proof.
  induction ups as [|u0 ups IH]; intros s; cbn [fold_left]; auto. rewrite IH.
  destruct u0 as [n' [|v b]]; cbn [apply1].
  - destruct (has_handle s n'); reflexivity.
  - destruct (find n' (m s)) as [[e|]|]; auto. cbn [notify with_ws with_m ws]. apply map_length.
Qed.

(* ------------------------------------------------------------------ the invariant *)

Definition flag_of (s : store) (i : nat) : bool :=
  match nth_error (ws s) i with Some w => wflag w | None => false end.

Definition reading (u : updater) : Prop := uph u = PInit \/ uph u = PLive.

Record UOk (s : store) (i : nat) (u : updater) : Prop := {
  ok_w : uw u = i;
  ok_ws : nth_error (ws s) i = Some (W (un u) (usince u));
  ok_h : In (un u) (hs s);
  ok_seen : reading u -> usince u = true \/ useen u = cur s (un u);
  ok_pend : forall x, upend u = Some x -> useen u = Some x /\ reading u;
  ok_from : uph u = PLive -> upend u = None -> uerr u = false -> ufrom u = useen u;
  ok_good : uph u = PLive -> exists rest, ugood u = ucur u :: rest /\ uclosed u = (if ucl u then rest else []);
  ok_good0 : uph u <> PLive -> ugood u = [] /\ uclosed u = [];
  ok_lt : forall k, In k (ugood u) -> k < ucnt u;
  ok_nd : NoDup (ugood u)
}.

Definition BOk (s : ustate) : Prop :=
  (forall i k b ok, In (i, k, b, ok) (blog s) ->
     exists u, nth_error (us s) i = Some u /\ k < ucnt u /\ (ok = true -> In k (ugood u))) /\
  (forall i u k, nth_error (us s) i = Some u -> In k (ugood u) -> exists b, In (i, k, b, true) (blog s)).

Definition UInv (s : ustate) : Prop :=
  Inv (st s) /\ length (ws (st s)) = length (us s) /\
  (forall i u, nth_error (us s) i = Some u -> UOk (st s) i u) /\ BOk s.

Definition same_for (s s' : store) (i : nat) (n : name) : Prop :=
  nth_error (ws s') i = nth_error (ws s) i /\ (In n (hs s) -> In n (hs s')) /\ cur s' n = cur s n.

Lemma UOk_frame s s' i u : same_for s s' i (un u) -> UOk s i u -> UOk s' i u.
Proof.
  intros (A & B & C) [a b c d e f g h k l]. constructor; auto.
  - rewrite A. exact b.
  - rewrite C. exact d.
Qed.

Lemma init_UInv (s : store) : Inv s -> ws s = [] -> UInv (US s [] []).
Proof.
  intros I W. split; [exact I|]. split; [cbn; rewrite W; reflexivity|]. split.
  - intros i u H. destruct i; discriminate.
  - split.
    + intros i k b ok [].
    + intros i u k H. destruct i; discriminate.
Qed.

(* changing updater i only: the others keep UOk if the store is "the same for them" *)
Lemma others_ok (s : ustate) (s1 : store) i u' :
  (forall j u, nth_error (us s) j = Some u -> UOk (st s) j u) ->
  (forall j u, j <> i -> nth_error (us s) j = Some u -> same_for (st s) s1 j (un u)) ->
  (forall u, nth_error (us s) i = Some u -> UOk s1 i u') ->
  forall j u, nth_error (set_nth i u' (us s)) j = Some u -> UOk s1 j u.
Proof.
  intros A B C j u H. rewrite nth_error_set_nth in H. destruct (Nat.eqb i j) eqn:E.
  - apply Nat.eqb_eq in E. subst j. destruct (nth_error (us s) i) eqn:F; [|discriminate].
    inversion H; subst. eapply C; eauto.
  - apply Nat.eqb_neq in E. eapply UOk_frame; [apply B; eauto|apply A; auto].
Qed.

Lemma BOk_same_blog (s : ustate) (s1 : store) i u u' :
  BOk s -> nth_error (us s) i = Some u -> ucnt u' = ucnt u -> ugood u' = ugood u ->
  BOk (US s1 (set_nth i u' (us s)) (blog s)).
Proof.
  intros [A B] Hu Ec Eg. split; cbn [blog us].
  - intros j k b ok Hin. destruct (A j k b ok Hin) as (u0 & H0 & L & G).
    rewrite nth_error_set_nth. destruct (Nat.eqb i j) eqn:E.
    + apply Nat.eqb_eq in E. subst j. rewrite Hu in *. inversion H0; subst. exists u'. rewrite Ec, Eg. auto.
    + exists u0. auto.
  - intros j u0 k H0 G. rewrite nth_error_set_nth in H0. destruct (Nat.eqb i j) eqn:E.
    + apply Nat.eqb_eq in E. subst j. rewrite Hu in H0. inversion H0; subst. rewrite Eg in G. eapply B; eauto.
    + eapply B; eauto.
Qed.

Lemma BOk_build (s : ustate) i u u' b (ok : bool) :
  BOk s -> nth_error (us s) i = Some u -> ucnt u' = S (ucnt u) ->
  ugood u' = (if ok then ucnt u :: ugood u else ugood u) ->
  (forall k, In k (ugood u) -> k < ucnt u) ->
  BOk (US (st s) (set_nth i u' (us s)) (blog s ++ [(i, ucnt u, b, ok)])).
Proof.
  intros [A B] Hu Ec Eg Lt. split; cbn [blog us].
  - intros j k b0 ok0 Hin. apply in_app_or in Hin. destruct Hin as [Hin|[Hin|[]]].
    + destruct (A j k b0 ok0 Hin) as (u0 & H0 & L & G).
      rewrite nth_error_set_nth. destruct (Nat.eqb i j) eqn:E.
      * apply Nat.eqb_eq in E. subst j. rewrite Hu in *. inversion H0; subst. exists u'. rewrite Ec, Eg.
        split; auto. split; [lia|]. intros T. specialize (G T). destruct ok; [right|]; auto.
      * exists u0. auto.
    + inversion Hin; subst. rewrite nth_error_set_nth, Nat.eqb_refl, Hu. exists u'. rewrite Ec, Eg.
      split; auto. split; [lia|]. intros ->. left. reflexivity.
  - intros j u0 k H0 G. rewrite nth_error_set_nth in H0. destruct (Nat.eqb i j) eqn:E.
    + apply Nat.eqb_eq in E. subst j. rewrite Hu in H0. inversion H0; subst. rewrite Eg in G.
      destruct ok.
      * destruct G as [<-|G].
        -- exists b. apply in_or_app. right. left. reflexivity.
        -- destruct (B _ _ _ Hu G) as (b0 & Hb). exists b0. apply in_or_app. auto.
      * destruct (B _ _ _ Hu G) as (b0 & Hb). exists b0. apply in_or_app. auto.
    + destruct (B _ _ _ H0 G) as (b0 & Hb). exists b0. apply in_or_app. auto.
Qed.

Lemma mark_since_fields ups (u : updater) :
  uw (mark_since ups u) = uw u /\ un (mark_since ups u) = un u /\ ucl (mark_since ups u) = ucl u /\
  uph (mark_since ups u) = uph u /\ ucur (mark_since ups u) = ucur u /\ uerr (mark_since ups u) = uerr u /\
  upend (mark_since ups u) = upend u /\ ucnt (mark_since ups u) = ucnt u /\ uclosed (mark_since ups u) = uclosed u /\
  ufrom (mark_since ups u) = ufrom u /\ useen (mark_since ups u) = useen u /\ ugood (mark_since ups u) = ugood u /\
  usince (mark_since ups u) = (usince u || has_install (un u) ups).
Proof. repeat split. Qed.

Lemma last_install_in_keep n : forall (ups : list (name * upd1 V)) acc, has_install n ups = false -> last_install_in n ups acc = acc.
Proof.
  induction ups as [|[n' [|v b]] ups IH]; intros acc H; cbn [last_install_in has_install existsb is_install_on] in *; auto.
  apply orb_false_iff in H. destruct H as [H1 H2]. rewrite H1. auto.
Qed.

Ltac fin := cbn [uw un ucl uph ucur uerr upend ucnt uclosed ufrom useen usince ugood]; auto;
  try (intros; discriminate); try (intros [?|?]; discriminate).

Theorem step_UInv (s : ustate) e : UInv s -> UInv (fst (step s e)).
Proof.
  intros Hs. pose proof Hs as (I & L & A & Bk). destruct e as [ups fok|n v b now|n ans now|n cl|i now|i ok|i now|i ok|i]; cbn [step].
  - (* EApply *)
    cbn [fst]. rewrite apply_updates_fst. split; [apply fold_apply1_Inv; exact I|]. split.
    { cbn [st us]. rewrite fold_apply1_ws_length, map_length. exact L. }
    split.
    + intros i u' H. cbn [us st] in *. rewrite nth_error_map in H.
      destruct (nth_error (us s) i) as [u|] eqn:Hu; [|discriminate]. cbn [option_map] in H. inversion H; subst u'. clear H.
      destruct (A i u Hu) as [a b c d e f g h k l].
      destruct (@fold_apply1_watch i (un u) ups (st s) (usince u) I c b) as (F1 & F1' & F2 & F3 & F4).
      destruct (mark_since_fields ups u) as (m1 & m2 & m3 & m4 & m5 & m6 & m7 & m8 & m9 & m10 & m11 & m12 & m13).
      constructor; rewrite ?m1, ?m2, ?m3, ?m4, ?m5, ?m6, ?m7, ?m8, ?m9, ?m10, ?m11, ?m12, ?m13; auto.
      * rewrite F1. exact c.
      * intros R. unfold reading in R. rewrite m4 in R. destruct (has_install (un u) ups) eqn:Hi.
        -- left. apply orb_true_r.
        -- rewrite orb_false_r. rewrite F4, last_install_in_keep by exact Hi. apply d. exact R.
    + destruct Bk as [B1 B2]. split; cbn [blog us].
      * intros i k b ok Hin. destruct (B1 i k b ok Hin) as (u & Hu & Lt & G).
        exists (mark_since ups u). rewrite nth_error_map, Hu. auto.
      * intros i u' k H G. rewrite nth_error_map in H.
        destruct (nth_error (us s) i) as [u|] eqn:Hu; [|discriminate]. inversion H; subst u'. eapply B2; eauto.
  - (* ELookup *)
    destruct (secret_locked (st s) n) as [s1 ok] eqn:E.
    destruct (@secret_locked_facts _ _ _ _ E) as (W1 & M1 & Al & H1 & K1 & _).
    destruct ok.
    + cbn [fst]. split.
      { pose proof (secret_locked_Inv n I) as J. rewrite E in J. exact J. }
      split; [cbn [st us]; rewrite W1; exact L|]. split.
      * intros i u Hu. cbn [us st] in *. eapply UOk_frame; [|apply A; exact Hu].
        split; [rewrite W1; reflexivity|]. split; [apply H1|apply cur_eq_m; exact M1].
      * exact Bk.
    + destruct (allow (st s)); [|exact Hs].
      cbn [fst]. split; [apply lookup_install_Inv; exact I|].
      unfold lookup_install. cbn [fst].
      set (s0 := with_m (st s) (upd n (Some (CE v b now false)) (m (st s)))).
      destruct (secret_locked s0 n) as [s2 ok2] eqn:E2.
      destruct (@secret_locked_facts _ _ _ _ E2) as (W2 & M2 & _ & H2 & _ & _). cbn [fst].
      split; [cbn [st us]; rewrite W2; exact L|]. split; [|exact Bk].
      intros i u Hu. cbn [us st] in *. eapply UOk_frame; [|apply A; exact Hu].
      split; [rewrite W2; reflexivity|]. split; [intros Hh; apply H2; exact Hh|].
      rewrite (@cur_eq_m _ _ _ M2). unfold cur, entry, s0. cbn [m with_m]. rewrite find_upd_cases.
      destruct (neqb (un u) n) eqn:D; auto. apply neqb_true in D.
      (* the looked-up name was unknown, a watched name is known *)
      exfalso. destruct (A i u Hu) as [_ _ c _ _ _ _ _ _ _]. destruct I as [_ _ Hh]. specialize (Hh _ c).
      rewrite D in Hh. symmetry in K1. unfold known in K1. destruct (find n (m (st s))); congruence.
  - (* ELate: the flight's locked part in an arbitrary state *)
    destruct ans as [[v b]|]; [|exact Hs].
    cbn [fst]. destruct (@lookup_finish_facts (st s) n v b now I) as (W1 & _ & H1 & C1).
    split; [apply lookup_finish_Inv; exact I|]. split; [cbn [st us]; rewrite W1; exact L|]. split; [|exact Bk].
    intros i u Hu. cbn [us st] in *. eapply UOk_frame; [|apply A; exact Hu].
    destruct (A i u Hu) as [_ _ c _ _ _ _ _ _ _].
    split; [rewrite W1; reflexivity|]. split; [apply H1|apply C1; exact c].
  - (* EReg *)
    destruct (secret_locked (st s) n) as [s1 ok] eqn:E.
    destruct (@secret_locked_facts _ _ _ _ E) as (W1 & M1 & Al & H1 & K1 & Hn).
    destruct ok; [|exact Hs].
    unfold add_watcher. cbn [fst]. split.
    { apply Inv_with_ws. pose proof (secret_locked_Inv n I) as J. rewrite E in J. exact J. }
    split; [cbn [st us with_ws ws]; rewrite !app_length, W1, L; reflexivity|]. split.
    + intros i u Hu. cbn [us st] in *. destruct (Nat.lt_ge_cases i (length (us s))) as [Lt|Ge].
      * rewrite nth_error_app1 in Hu by exact Lt. eapply UOk_frame; [|apply A; exact Hu].
        split; [cbn [with_ws ws]; rewrite W1, nth_error_app1 by (rewrite L; exact Lt); reflexivity|].
        split; [cbn [with_ws hs]; apply H1|]. rewrite cur_with_ws. apply cur_eq_m. exact M1.
      * rewrite nth_error_app2 in Hu by exact Ge. destruct (i - length (us s)) as [|q] eqn:Q; [|destruct q; discriminate].
        assert (i = length (us s)) by lia. subst i. cbn [nth_error] in Hu. inversion Hu; subst u. clear Hu.
        unfold new_upd. constructor; cbn [uw un ucl uph ucur uerr upend ucnt uclosed ufrom useen usince ugood]; auto.
        -- rewrite W1. exact L.
        -- cbn [with_ws ws]. rewrite W1, nth_error_app2 by (rewrite L; lia). rewrite L, Nat.sub_diag. reflexivity.
        -- intros [R|R]; discriminate.
        -- intros x Hx. discriminate.
        -- intros R; discriminate.
        -- intros k [].
        -- constructor.
    + destruct Bk as [B1 B2]. split; cbn [blog us].
      * intros i k b ok Hin. destruct (B1 i k b ok Hin) as (u & Hu & R). exists u. split; auto.
        rewrite nth_error_app1; auto. apply nth_error_Some. congruence.
      * intros i u k Hu G. destruct (Nat.lt_ge_cases i (length (us s))) as [Lt|Ge].
        -- rewrite nth_error_app1 in Hu by exact Lt. eapply B2; eauto.
        -- rewrite nth_error_app2 in Hu by exact Ge. destruct (i - length (us s)) as [|q]; [|destruct q; discriminate].
           inversion Hu; subst u. destruct G.
  - (* ERead *)
    destruct (nth_error (us s) i) as [u|] eqn:Hu; [|exact Hs].
    destruct (uph u) eqn:P; try exact Hs.
    destruct (do_read (st s) (un u) now) as [[s1 x]|] eqn:R; [|exact Hs].
    destruct (@do_read_some _ _ _ _ _ R) as (-> & Cx). destruct (read_facts (st s) (un u) now) as (W1 & H1 & _ & C1).
    destruct (A i u Hu) as [a b c d e f g h k l].
    cbn [fst]. split; [apply read_Inv; exact I|]. split; [cbn [st us]; rewrite length_set_nth, W1; exact L|]. split.
    + cbn [st us]. apply others_ok; auto.
      * intros j u0 _ H0. split; [rewrite W1; reflexivity|]. split; [rewrite H1; auto|apply C1].
      * intros _ _. constructor; cbn [uw un ucl uph ucur uerr upend ucnt uclosed ufrom useen usince ugood]; auto.
        -- rewrite W1. exact b.
        -- rewrite H1. exact c.
        -- intros _. right. rewrite C1. symmetry. exact Cx.
        -- intros y Hy. inversion Hy; subst. split; auto. left. reflexivity.
        -- intros R1; discriminate.
        -- intros R1; discriminate.
        -- intros _. apply h. rewrite P. discriminate.
    + eapply BOk_same_blog; eauto.
  - (* EBuilt *)
    destruct (nth_error (us s) i) as [u|] eqn:Hu; [|exact Hs].
    destruct (uph u) eqn:P; try exact Hs.
    destruct (upend u) as [x|] eqn:Px; [|exact Hs].
    destruct (A i u Hu) as [a b c d e f g h k l].
    destruct (e x Px) as [e1 e2]. destruct h as [h1 h2]; [rewrite P; discriminate|].
    cbn [fst]. split; [exact I|]. split; [cbn [st us]; rewrite length_set_nth; exact L|]. split.
    + cbn [st us]. apply others_ok; auto.
      * intros j u0 _ H0. split; [reflexivity|]. split; auto.
      * intros _ _. destruct ok; constructor; fin.
        -- intros _. exists []. rewrite h1, h2. destruct (ucl u); auto.
        -- intros R1. contradiction R1. reflexivity.
        -- rewrite h1. intros k0 [<-|[]]. lia.
        -- rewrite h1. constructor; [intros []|constructor].
        -- rewrite h1. intros k0 [].
    + apply BOk_build with (u := u); auto.
      * destruct ok; reflexivity.
      * destruct ok; reflexivity.
  - (* EGetBegin *)
    destruct (nth_error (us s) i) as [u|] eqn:Hu; [|exact Hs].
    destruct (uph u) eqn:P; try exact Hs.
    destruct (upend u) as [x|] eqn:Px; [exact Hs|].
    destruct (ready_take (st s) (uw u)) as [s1 f0] eqn:RT.
    destruct (@ready_take_facts _ _ _ _ RT) as (M1 & H1 & _ & W1 & F1).
    destruct (A i u Hu) as [a b c d e f g h k l].
    rewrite a in *.
    assert (I1 : Inv s1).
    { pose proof (ready_take_Inv i I) as J. rewrite RT in J. exact J. }
    assert (Wi : nth_error (ws s1) i = Some (W (un u) false)).
    { rewrite W1, take_flag_nth, Nat.eqb_refl, b. reflexivity. }
    assert (Ff : f0 = usince u).
    { rewrite F1, take_flag_snd, b. reflexivity. }
    assert (Oth : forall j u0, j <> i -> nth_error (us s) j = Some u0 -> same_for (st s) s1 j (un u0)).
    { intros j u0 D H0. split; [rewrite W1, take_flag_nth; apply Nat.eqb_neq in D; rewrite Nat.eqb_sym, D; reflexivity|].
      split; [rewrite H1; auto|apply cur_eq_m; exact M1]. }
    destruct f0.
    + destruct (do_read s1 (un u) now) as [[s2 x]|] eqn:R; [|exact Hs].
      destruct (@do_read_some _ _ _ _ _ R) as (-> & Cx). destruct (read_facts s1 (un u) now) as (W2 & H2 & _ & C2).
      cbn [fst]. split; [apply read_Inv; exact I1|].
      split; [cbn [st us]; rewrite length_set_nth, W2, W1, take_flag_length; exact L|]. split.
      * cbn [st us]. apply others_ok; auto.
        -- intros j u0 D H0. destruct (Oth j u0 D H0) as (o1 & o2 & o3).
           split; [rewrite W2; exact o1|]. split; [rewrite H2; exact o2|rewrite C2; exact o3].
        -- intros _ _. constructor; fin.
           ++ rewrite W2. exact Wi.
           ++ rewrite H2, H1. exact c.
           ++ intros _. right. rewrite C2. symmetry. exact Cx.
           ++ intros y Hy. inversion Hy; subst. split; auto. right. reflexivity.
      * eapply BOk_same_blog; eauto.
    + cbn [fst]. split; [exact I1|].
      split; [cbn [st us]; rewrite length_set_nth, W1, take_flag_length; exact L|]. split.
      * cbn [st us]. apply others_ok; auto.
        intros _ _. constructor; fin.
        -- rewrite H1. exact c.
        -- intros _. right. rewrite (@cur_eq_m _ _ _ M1).
           destruct d as [d|d]; [right; exact P|rewrite <- Ff in d; discriminate|exact d].
      * eapply BOk_same_blog; eauto.
  - (* EGetEnd *)
    destruct (nth_error (us s) i) as [u|] eqn:Hu; [|exact Hs].
    destruct (uph u) eqn:P; try exact Hs.
    destruct (upend u) as [x|] eqn:Px; [|exact Hs].
    destruct (A i u Hu) as [a b c d e f g h k l].
    destruct (e x Px) as [e1 e2]. destruct (g P) as (rest & g1 & g2).
    cbn [fst]. split; [exact I|]. split; [cbn [st us]; rewrite length_set_nth; exact L|]. split.
    + cbn [st us]. apply others_ok; auto.
      * intros j u0 _ H0. split; [reflexivity|]. split; auto.
      * intros _ _. destruct ok; constructor; fin.
        -- intros _. exists (ugood u). split; [reflexivity|]. rewrite g2. destruct (ucl u); [rewrite g1; reflexivity|reflexivity].
        -- intros R1. contradiction R1. reflexivity.
        -- intros k0 [<-|Hk]; [lia|]. specialize (k k0 Hk). lia.
        -- constructor; auto. intros Hk. specialize (k _ Hk). lia.
        -- intros k0 Hk. specialize (k k0 Hk). lia.
    + apply BOk_build with (u := u); auto.
      * destruct ok; reflexivity.
      * destruct ok; reflexivity.
  - (* EErr *)
    destruct (nth_error (us s) i) as [u|] eqn:Hu; [|exact Hs].
    destruct (uph u), (upend u); exact Hs.
Qed.

Theorem exec_UInv : forall evs (s : ustate), UInv s -> UInv (exec s evs).
Proof.
  unfold exec. induction evs as [|e evs IH]; intros s H; cbn [run fst]; auto.
  pose proof (step_UInv e H) as H1. destruct (step s e) as [s1 o]. cbn [fst] in H1.
  specialize (IH s1 H1). destruct (run s1 evs) as [s2 os]. exact IH.
Qed.


(* ------------------------------------------------------------------ what the invariant says to a user *)

Theorem inv_user (s : ustate) i u : UInv s -> nth_error (us s) i = Some u -> uph u = PLive -> upend u = None ->
  flag_of (st s) i = usince u /\
  (flag_of (st s) i = true
   \/ (uerr u = false /\ ufrom u = cur (st s) (un u))
   \/ (uerr u = true /\ useen u = cur (st s) (un u))).
Proof.
  intros (I & L & A & Bk) Hu P Px. destruct (A i u Hu) as [a b c d e f g h k l].
  unfold flag_of. rewrite b. cbn [wflag]. split; [reflexivity|].
  destruct d as [d|d]; [right; exact P|left; exact d|]. right.
  destruct (uerr u) eqn:E; [right; auto|left]. split; auto. rewrite <- d. apply f; auto.
Qed.

(* ------------------------------------------------------------------ frame: events of other parties *)

Definition set_since (u : updater) (b : bool) : updater :=
  U (uw u) (un u) (ucl u) (uph u) (ucur u) (uerr u) (upend u) (ucnt u) (uclosed u) (ufrom u) (useen u) b (ugood u).

Lemma set_since_id (u : updater) : set_since u (usince u) = u.
Proof. destruct u; reflexivity. Qed.

Definition ev_installs (n : name) (e : event) : bool :=
  match e with EApply ups _ => has_install n ups | _ => false end.
Definition ev_last (n : name) (e : event) (acc : option (src V)) : option (src V) :=
  match e with EApply ups _ => last_install_in n ups acc | _ => acc end.
Definition installed (n : name) (evs : list event) : bool := existsb (ev_installs n) evs.
Definition quiet (i : nat) (evs : list event) : Prop := forall e, In e evs -> about i e = false.

Lemma set_other (s : ustate) (s1 : store) i j u u' bl :
  nth_error (us s) i = Some u -> j <> i ->
  nth_error (us (US s1 (set_nth j u' (us s)) bl)) i = Some (set_since u (usince u || false)).
Proof.
  intros Hu D. cbn [us]. rewrite nth_error_set_nth. apply Nat.eqb_neq in D. rewrite D.
  rewrite orb_false_r, set_since_id. exact Hu.
Qed.

Lemma step_frame (s : ustate) e i u : UInv s -> nth_error (us s) i = Some u -> about i e = false ->
  nth_error (us (fst (step s e))) i = Some (set_since u (usince u || ev_installs (un u) e)) /\
  cur (st (fst (step s e))) (un u) = ev_last (un u) e (cur (st s) (un u)).
Proof.
  intros Hs Hu Ab. pose proof Hs as (I & L & A & Bk).
  destruct (A i u Hu) as [a b c d e0 f g h k l].
  assert (Same : nth_error (us s) i = Some (set_since u (usince u || false))).
  { rewrite orb_false_r, set_since_id. exact Hu. }
  destruct e as [ups fok|n v b0 now|n ans now|n cl|j now|j ok|j now|j ok|j]; cbn [step about ev_installs ev_last] in *.
  - cbn [fst us st]. rewrite nth_error_map, Hu. cbn [option_map]. split; [reflexivity|].
    rewrite apply_updates_fst. destruct (@fold_apply1_watch i (un u) ups (st s) (usince u) I c b) as (_ & _ & _ & _ & F4). exact F4.
  - destruct (secret_locked (st s) n) as [s1 ok] eqn:E.
    destruct (@secret_locked_facts _ _ _ _ E) as (W1 & M1 & Al & H1 & K1 & _).
    destruct ok; [cbn [fst us st]; split; [exact Same|apply cur_eq_m; exact M1]|].
    destruct (allow (st s)); [|cbn [fst]; split; [exact Same|reflexivity]].
    cbn [fst us st]. split; [exact Same|]. unfold lookup_install. cbn [fst].
    set (s0 := with_m (st s) (upd n (Some (CE v b0 now false)) (m (st s)))).
    destruct (secret_locked s0 n) as [s2 ok2] eqn:E2.
    destruct (@secret_locked_facts _ _ _ _ E2) as (W2 & M2 & _ & H2 & _ & _). cbn [fst].
    rewrite (@cur_eq_m _ _ _ M2). unfold cur, entry, s0. cbn [m with_m]. rewrite find_upd_cases.
    destruct (neqb (un u) n) eqn:D; auto. apply neqb_true in D. exfalso.
    destruct I as [_ _ Hh]. specialize (Hh _ c). rewrite D in Hh. symmetry in K1. unfold known in K1.
    destruct (find n (m (st s))); congruence.
  - destruct ans as [[v b0]|]; [|cbn [fst]; split; [exact Same|reflexivity]].
    cbn [fst us st]. split; [exact Same|].
    destruct (@lookup_finish_facts (st s) n v b0 now I) as (_ & _ & _ & C1). apply C1. exact c.
  - destruct (secret_locked (st s) n) as [s1 ok] eqn:E.
    destruct (@secret_locked_facts _ _ _ _ E) as (W1 & M1 & Al & H1 & K1 & Hn).
    destruct ok; [|cbn [fst]; split; [exact Same|reflexivity]].
    unfold add_watcher. cbn [fst us st]. split.
    + rewrite nth_error_app1 by (apply nth_error_Some; congruence). exact Same.
    + rewrite cur_with_ws. apply cur_eq_m. exact M1.
  - apply Nat.eqb_neq in Ab. destruct (nth_error (us s) j) as [uj|] eqn:Hj; [|split; [exact Same|reflexivity]].
    destruct (uph uj); try (split; [exact Same|reflexivity]).
    destruct (do_read (st s) (un uj) now) as [[s1 x]|] eqn:R; [|split; [exact Same|reflexivity]].
    destruct (@do_read_some _ _ _ _ _ R) as (-> & _). destruct (read_facts (st s) (un uj) now) as (_ & _ & _ & C1).
    cbn [fst st]. split; [apply set_other; auto|apply C1].
  - apply Nat.eqb_neq in Ab. destruct (nth_error (us s) j) as [uj|] eqn:Hj; [|split; [exact Same|reflexivity]].
    destruct (uph uj); try (split; [exact Same|reflexivity]).
    destruct (upend uj); [|split; [exact Same|reflexivity]].
    cbn [fst st]. split; [apply set_other; auto|reflexivity].
  - apply Nat.eqb_neq in Ab. destruct (nth_error (us s) j) as [uj|] eqn:Hj; [|split; [exact Same|reflexivity]].
    destruct (uph uj); try (split; [exact Same|reflexivity]).
    destruct (upend uj); [split; [exact Same|reflexivity]|].
    destruct (ready_take (st s) (uw uj)) as [s1 f0] eqn:RT.
    destruct (@ready_take_facts _ _ _ _ RT) as (M1 & H1 & _ & W1 & F1).
    destruct f0.
    + destruct (do_read s1 (un uj) now) as [[s2 x]|] eqn:R; [|split; [exact Same|reflexivity]].
      destruct (@do_read_some _ _ _ _ _ R) as (-> & _). destruct (read_facts s1 (un uj) now) as (_ & _ & _ & C2).
      cbn [fst st]. split; [apply set_other; auto|]. rewrite C2. apply cur_eq_m. exact M1.
    + cbn [fst st]. split; [apply set_other; auto|]. apply cur_eq_m. exact M1.
  - apply Nat.eqb_neq in Ab. destruct (nth_error (us s) j) as [uj|] eqn:Hj; [|split; [exact Same|reflexivity]].
    destruct (uph uj); try (split; [exact Same|reflexivity]).
    destruct (upend uj); [|split; [exact Same|reflexivity]].
    cbn [fst st]. split; [apply set_other; auto|reflexivity].
  - destruct (nth_error (us s) j) as [uj|] eqn:Hj; [|split; [exact Same|reflexivity]].
    destruct (uph uj), (upend uj); split; try exact Same; reflexivity.
Qed.

Lemma last_install_step n e (evs : list event) acc : last_install n (e :: evs) acc = last_install n evs (ev_last n e acc).
Proof. destruct e; reflexivity. Qed.

Lemma exec_frame i : forall evs (s : ustate) u, UInv s -> nth_error (us s) i = Some u -> quiet i evs ->
  nth_error (us (exec s evs)) i = Some (set_since u (usince u || installed (un u) evs)) /\
  cur (st (exec s evs)) (un u) = last_install (un u) evs (cur (st s) (un u)).
Proof.
  unfold exec. induction evs as [|e evs IH]; intros s u Hs Hu Q.
  - cbn [run fst installed existsb last_install]. rewrite orb_false_r, set_since_id. auto.
  - assert (Qe : about i e = false) by (apply Q; left; reflexivity).
    assert (Q' : quiet i evs) by (intros e' He'; apply Q; right; exact He').
    destruct (@step_frame s e i u Hs Hu Qe) as (F1 & F2). pose proof (step_UInv e Hs) as Hs1.
    cbn [run]. destruct (step s e) as [s1 o]. cbn [fst] in *.
    destruct (IH s1 _ Hs1 F1 Q') as (G1 & G2). destruct (run s1 evs) as [s2 os]. cbn [fst] in *.
    cbn [set_since un usince] in G1, G2. split.
    + rewrite G1. unfold set_since. cbn [uw un ucl uph ucur uerr upend ucnt uclosed ufrom useen usince ugood installed existsb].
      rewrite orb_assoc. reflexivity.
    + rewrite G2, F2. rewrite last_install_step. reflexivity.
Qed.

Lemma last_install_in_some n : forall (ups : list (name * upd1 V)) acc x, last_install_in n ups None = Some x ->
  last_install_in n ups acc = Some x /\ has_install n ups = true.
Proof.
  induction ups as [|[n' [|v b]] ups IH]; intros acc x H; cbn [last_install_in has_install existsb is_install_on] in *.
  - discriminate.
  - apply IH. exact H.
  - destruct (neqb n' n) eqn:D.
    + rewrite orb_true_l. split; auto.
    + rewrite orb_false_l. apply IH. exact H.
Qed.

Lemma last_install_some n : forall (evs : list event) acc x, last_install n evs None = Some x ->
  last_install n evs acc = Some x /\ installed n evs = true.
Proof.
  induction evs as [|e evs IH]; intros acc x H; [discriminate|].
  rewrite last_install_step in *. unfold installed. cbn [existsb].
  destruct (ev_last n e None) as [y|] eqn:E.
  - destruct e; cbn [ev_last ev_installs] in *; try discriminate.
    destruct (@last_install_in_some n _ acc _ E) as (E1 & E2). rewrite E1, E2. split; auto.
  - destruct (IH (ev_last n e acc) x H) as (I1 & I2). split; auto.
    unfold installed in I2. rewrite I2. apply orb_true_r.
Qed.

(* ------------------------------------------------------------------ Get *)

Lemma get_flag (s : ustate) i u now ok : UInv s -> nth_error (us s) i = Some u -> uph u = PLive -> upend u = None ->
  usince u = true -> forall x, cur (st s) (un u) = Some x ->
  exists s', get s i now ok = (s', OVal (if ok then ucnt u else ucur u) (negb ok)) /\
    blog s' = blog s ++ [(i, ucnt u, snd x, ok)] /\
    exists u', nth_error (us s') i = Some u' /\ uph u' = PLive /\ upend u' = None /\ usince u' = false /\
      ucnt u' = S (ucnt u) /\ uerr u' = negb ok /\
      ucur u' = (if ok then ucnt u else ucur u) /\
      ufrom u' = (if ok then Some x else ufrom u) /\
      uclosed u' = (if ok then (if ucl u then ucur u :: uclosed u else uclosed u) else uclosed u).
Proof.
  intros (I & L & A & Bk) Hu P Px Sn x Cx. destruct (A i u Hu) as [a b c d e f g h k l].
  unfold get. cbn [step]. rewrite Hu, P, Px, a.
  destruct (ready_take (st s) i) as [s1 f0] eqn:RT.
  destruct (@ready_take_facts _ _ _ _ RT) as (M1 & H1 & _ & W1 & F1).
  rewrite take_flag_snd, b in F1. cbn [wflag] in F1. rewrite Sn in F1. subst f0.
  assert (I1 : Inv s1). { pose proof (ready_take_Inv i I) as J. rewrite RT in J. exact J. }
  assert (c1 : In (un u) (hs s1)) by (rewrite H1; exact c).
  destruct (@do_read_enabled s1 (un u) now I1 c1) as (s2 & x' & R). rewrite R.
  destruct (@do_read_some _ _ _ _ _ R) as (_ & Cx'). rewrite (@cur_eq_m _ _ _ M1), Cx in Cx'. inversion Cx'; subst x'.
  cbn [step us]. rewrite nth_error_set_nth, Nat.eqb_refl, Hu.
  cbn [uw un ucl uph ucur uerr upend ucnt uclosed ufrom useen usince ugood].
  destruct ok; cbn [ucur uerr negb]; eexists; (split; [reflexivity|]); cbn [blog us]; (split; [reflexivity|]);
    rewrite nth_error_set_nth, Nat.eqb_refl, nth_error_set_nth, Nat.eqb_refl, Hu; eexists; (split; [reflexivity|]);
    cbn [uw un ucl uph ucur uerr upend ucnt uclosed ufrom useen usince ugood]; repeat split; reflexivity.
Qed.

Lemma get_noflag (s : ustate) i u now ok : UInv s -> nth_error (us s) i = Some u -> uph u = PLive -> upend u = None ->
  usince u = false ->
  exists s', get s i now ok = (s', OVal (ucur u) (uerr u)) /\ blog s' = blog s /\
    exists u', nth_error (us s') i = Some u' /\ usince u' = false /\ ucur u' = ucur u /\ ucnt u' = ucnt u /\
               uclosed u' = uclosed u /\ uerr u' = uerr u.
Proof.
  intros (I & L & A & Bk) Hu P Px Sn. destruct (A i u Hu) as [a b c d e f g h k l].
  unfold get. cbn [step]. rewrite Hu, P, Px, a.
  destruct (ready_take (st s) i) as [s1 f0] eqn:RT.
  destruct (@ready_take_facts _ _ _ _ RT) as (M1 & H1 & _ & W1 & F1).
  rewrite take_flag_snd, b in F1. cbn [wflag] in F1. rewrite Sn in F1. subst f0.
  eexists. split; [reflexivity|]. cbn [blog us]. split; [reflexivity|].
  rewrite nth_error_set_nth, Nat.eqb_refl, Hu. eexists. split; [reflexivity|].
  cbn [uw un ucl uph ucur uerr upend ucnt uclosed ufrom useen usince ugood]. repeat split; reflexivity.
Qed.

(* no lost update, coalescing: after any events of other parties that install n at least once, the
   next Get hands the builder the NEWEST installed bytes (one call), and returns the new value *)
Theorem get_newest (s : ustate) i u evs x now ok :
  UInv s -> nth_error (us s) i = Some u -> uph u = PLive -> upend u = None -> quiet i evs ->
  last_install (un u) evs None = Some x ->
  let s1 := exec s evs in
  exists s2, get s1 i now ok = (s2, OVal (if ok then ucnt u else ucur u) (negb ok)) /\
    blog s2 = blog s1 ++ [(i, ucnt u, snd x, ok)] /\
    exists u', nth_error (us s2) i = Some u' /\ uph u' = PLive /\ upend u' = None /\ usince u' = false /\
      ucnt u' = S (ucnt u) /\ uerr u' = negb ok /\
      ucur u' = (if ok then ucnt u else ucur u) /\
      ufrom u' = (if ok then Some x else ufrom u) /\
      uclosed u' = (if ok then (if ucl u then ucur u :: uclosed u else uclosed u) else uclosed u).
Proof.
  intros Hs Hu P Px Q LI s1.
  destruct (@exec_frame i evs s u Hs Hu Q) as (F1 & F2). fold s1 in F1, F2.
  destruct (@last_install_some (un u) evs (cur (st s) (un u)) x LI) as (L1 & L2). rewrite L1 in F2. rewrite L2, orb_true_r in F1.
  pose proof (exec_UInv evs Hs) as Hs1. fold s1 in Hs1.
  exact (@get_flag s1 i (set_since u true) now ok Hs1 F1 P Px eq_refl x F2).
Qed.

(* rebuilt only if an install happened since the previous Get / the registration *)
Theorem get_unchanged (s : ustate) i u evs now ok :
  UInv s -> nth_error (us s) i = Some u -> uph u = PLive -> upend u = None -> usince u = false ->
  quiet i evs -> installed (un u) evs = false ->
  let s1 := exec s evs in
  exists s2, get s1 i now ok = (s2, OVal (ucur u) (uerr u)) /\ blog s2 = blog s1 /\
    exists u', nth_error (us s2) i = Some u' /\ usince u' = false /\ ucur u' = ucur u /\ ucnt u' = ucnt u /\
               uclosed u' = uclosed u /\ uerr u' = uerr u.
Proof.
  intros Hs Hu P Px Sn Q NI s1.
  destruct (@exec_frame i evs s u Hs Hu Q) as (F1 & _). fold s1 in F1. rewrite NI, Sn in F1. cbn [orb] in F1.
  pose proof (exec_UInv evs Hs) as Hs1. fold s1 in Hs1.
  exact (@get_noflag s1 i (set_since u false) now ok Hs1 F1 P Px eq_refl).
Qed.

(* every Get (and the registration) leaves "no install since" *)
Theorem get_resets (s : ustate) i now ok s' o : UInv s -> get s i now ok = (s', o) -> o <> OStuck ->
  exists u', nth_error (us s') i = Some u' /\ usince u' = false /\ uph u' = PLive /\ upend u' = None.
Proof.
  intros Hs G NS. pose proof Hs as (I & L & A & Bk).
  destruct (nth_error (us s) i) as [u|] eqn:Hu.
  2:{ unfold get in G. cbn [step] in G. rewrite Hu in G. inversion G; subst. contradiction NS; reflexivity. }
  destruct (uph u) eqn:P; try (unfold get in G; cbn [step] in G; rewrite Hu, P in G; inversion G; subst; contradiction NS; reflexivity).
  destruct (upend u) as [x|] eqn:Px; [unfold get in G; cbn [step] in G; rewrite Hu, P, Px in G; inversion G; subst; contradiction NS; reflexivity|].
  destruct (usince u) eqn:Sn.
  - destruct (A i u Hu) as [a b c d e f g h k l].
    destruct (@do_read_enabled (st s) (un u) 0%Z I c) as (s0 & x & R). destruct (@do_read_some _ _ _ _ _ R) as (_ & Cx).
    destruct (@get_flag s i u now ok Hs Hu P Px Sn x Cx) as (s2 & G2 & _ & u' & H1 & H2 & H3 & H4 & _).
    rewrite G in G2. inversion G2; subst. eauto.
  - destruct (@get_noflag s i u now ok Hs Hu P Px Sn) as (s2 & G2 & _ & u' & H1 & H2 & H3 & H4 & H5 & H6).
    rewrite G in G2. inversion G2; subst. exists u'. split; auto. split; auto.
    unfold get in G. cbn [step] in G. rewrite Hu, P, Px in G.
    destruct (A i u Hu) as [a b c d e f g h k l]. rewrite a in G.
    destruct (ready_take (st s) i) as [s1 f0] eqn:RT.
    destruct (@ready_take_facts _ _ _ _ RT) as (_ & _ & _ & _ & F1).
    rewrite take_flag_snd, b in F1. cbn [wflag] in F1. rewrite Sn in F1. subst f0.
    inversion G; subst. cbn [us] in H1. rewrite nth_error_set_nth, Nat.eqb_refl, Hu in H1. inversion H1; subst. auto.
Qed.

(* ------------------------------------------------------------------ Close *)

Theorem closed_once (s : ustate) i u : UInv s -> nth_error (us s) i = Some u -> uph u = PLive ->
  (ucl u = true -> forall k b, In (i, k, b, true) (blog s) ->
     count_occ Nat.eq_dec (uclosed u) k = if Nat.eqb k (ucur u) then 0 else 1) /\
  (ucl u = false -> uclosed u = []) /\
  (forall k, In k (uclosed u) -> k <> ucur u /\ exists b, In (i, k, b, true) (blog s)) /\
  (exists b, In (i, ucur u, b, true) (blog s)).
Proof.
  intros (I & L & A & B1 & B2) Hu P. destruct (A i u Hu) as [a b c d e f g h k l].
  destruct (g P) as (rest & g1 & g2). rewrite g1 in l. inversion l as [|x0 l0 NI ND]. clear a.
  split; [|split; [|split]].
  - intros Cl k0 b0 Hin. rewrite Cl in g2. rewrite g2.
    destruct (B1 _ _ _ _ Hin) as (u0 & Hu0 & _ & G). rewrite Hu in Hu0. inversion Hu0; subst u0.
    specialize (G eq_refl). rewrite g1 in G. destruct (Nat.eqb k0 (ucur u)) eqn:E.
    + apply Nat.eqb_eq in E. subst k0. apply count_occ_not_In. exact NI.
    + apply Nat.eqb_neq in E. destruct G as [G|G]; [congruence|].
      apply NoDup_count_occ'; auto.
  - intros Cl. rewrite Cl in g2. exact g2.
  - intros k0 Hk. assert (Hr : In k0 rest) by (rewrite g2 in Hk; destruct (ucl u); [exact Hk|destruct Hk]).
    split; [intros ->; contradiction|]. apply (B2 i u k0 Hu). rewrite g1. right. exact Hr.
  - apply (B2 i u (ucur u) Hu). rewrite g1. left. reflexivity.
Qed.

(* ------------------------------------------------------------------ registration race *)

Theorem registration_race (s : ustate) n cl s1 evs now :
  UInv s -> step s (EReg n cl) = (s1, OOk) -> let i := length (us s) in quiet i evs ->
  let s2 := exec s1 evs in
  exists s3 x u3, step s2 (ERead i now) = (s3, ONone) /\
    nth_error (us s3) i = Some u3 /\ uph u3 = PInit /\ upend u3 = Some x /\ un u3 = n /\
    Some x = last_install n evs (cur (st s1) n) /\
    UInv s3 /\
    forall evs2 u4, nth_error (us (exec s3 evs2)) i = Some u4 -> reading u4 ->
      flag_of (st (exec s3 evs2)) i = true \/ useen u4 = cur (st (exec s3 evs2)) (un u4).
Proof.
  intros Hs R i Q s2. pose proof (step_UInv (EReg n cl) Hs) as Hs1. rewrite R in Hs1. cbn [fst] in Hs1.
  assert (Hu1 : nth_error (us s1) i = Some (new_upd V i n cl)).
  { cbn [step] in R. destruct (secret_locked (st s) n) as [s0 ok] eqn:E. destruct ok; [|inversion R].
    unfold add_watcher in R. inversion R; subst. cbn [us]. destruct Hs as (_ & L & _).
    destruct (@secret_locked_facts _ _ _ _ E) as (W1 & _). rewrite W1, L.
    rewrite nth_error_app2 by (unfold i; lia). unfold i. rewrite Nat.sub_diag. reflexivity. }
  destruct (@exec_frame i evs s1 _ Hs1 Hu1 Q) as (F1 & F2). fold s2 in F1, F2. cbn [new_upd un usince orb] in F1, F2.
  pose proof (exec_UInv evs Hs1) as Hs2. fold s2 in Hs2.
  pose proof Hs2 as (I2 & L2 & A2 & B2). destruct (A2 _ _ F1) as [a b c d e f g h k l].
  cbn [set_since new_upd uw un] in c.
  destruct (@do_read_enabled (st s2) n now I2 c) as (s0 & x & Rd). destruct (@do_read_some _ _ _ _ _ Rd) as (-> & Cx).
  pose proof (step_UInv (ERead i now) Hs2) as Hs3.
  cbn [step] in *. rewrite F1 in *. cbn [set_since new_upd uw un ucl uph ucur uerr upend ucnt uclosed ufrom useen usince ugood] in *.
  rewrite Rd in *. cbn [fst] in Hs3.
  eexists. exists x. eexists. split; [reflexivity|]. cbn [us].
  rewrite nth_error_set_nth, Nat.eqb_refl, F1. split; [reflexivity|].
  cbn [uw un ucl uph ucur uerr upend ucnt uclosed ufrom useen usince ugood].
  split; [reflexivity|]. split; [reflexivity|]. split; [reflexivity|].
  split; [rewrite <- F2; symmetry; exact Cx|]. split; [exact Hs3|].
  intros evs2 u4 H4 R4. pose proof (exec_UInv evs2 Hs3) as (I4 & L4 & A4 & B4).
  destruct (A4 _ _ H4) as [a4 b4 c4 d4 e4 f4 g4 h4 k4 l4]. unfold flag_of. rewrite b4. cbn [wflag]. apply d4. exact R4.
Qed.

(* ------------------------------------------------------------------ late flights (the F8 repair) *)

(* a watched name has a value (its handle exists, handles never dangle, no stubs) *)
Lemma watched_has_value (s : ustate) i u : UInv s -> nth_error (us s) i = Some u ->
  exists e, entry (st s) (un u) = Some e.
Proof.
  intros (I & _ & A & _) Hu. destruct (A i u Hu) as [_ _ c _ _ _ _ _ _ _].
  destruct I as [_ N Hh]. specialize (Hh _ c). specialize (N (un u)). unfold entry.
  destruct (find (un u) (m (st s))) as [[e|]|]; try congruence. eauto.
Qed.

(* what the repair buys: the locked part of a flight that finishes on a name which already has a
   value hands out the handle and changes neither the map (value, version, stamps of every name) nor
   any watcher's flag nor any updater - so no install happens that a watcher is not told about *)
Theorem late_keeps (s : ustate) n v b now e : entry (st s) n = Some e ->
  let r := step s (ELate n (Some (v, b)) now) in
  snd r = OOk /\ m (st (fst r)) = m (st s) /\ ws (st (fst r)) = ws (st s) /\
  us (fst r) = us s /\ blog (fst r) = blog s /\ In n (hs (st (fst r))).
Proof.
  intros E. cbn [step fst snd st us blog].
  destruct (@lookup_finish_known V (st s) n v b now e E) as (M1 & W1 & _ & H1). repeat split; auto.
Qed.

(* in particular on every watched name, in every reachable state *)
Theorem late_on_watched (s : ustate) i u v b now : UInv s -> nth_error (us s) i = Some u ->
  let s' := fst (step s (ELate (un u) (Some (v, b)) now)) in
  m (st s') = m (st s) /\ cur (st s') (un u) = cur (st s) (un u) /\
  (forall j, flag_of (st s') j = flag_of (st s) j) /\ us s' = us s /\ blog s' = blog s.
Proof.
  intros Hs Hu. destruct (@watched_has_value s i u Hs Hu) as (e & E).
  destruct (@late_keeps s (un u) v b now e E) as (_ & M1 & W1 & U1 & B1 & _).
  repeat split; auto.
  - apply cur_eq_m. exact M1.
  - intros j. unfold flag_of. rewrite W1. reflexivity.
Qed.

(* a flight that is NOT overtaken (the name is still unknown when its locked part runs) is the
   install of the atomic ELookup *)
Lemma late_is_lookup (s : ustate) n v b now : known (st s) n = false -> allow (st s) = true ->
  step s (ELate n (Some (v, b)) now) = step s (ELookup n v b now).
Proof.
  intros K Al. cbn [step]. unfold secret_locked. rewrite K, Al, (lookup_finish_unknown _ _ _ _ _ K). reflexivity.
Qed.


(* ------------------------------------------------------------------ the cache's answer changes nothing *)

(* applyUpdates installs and notifies in its loop, then flushes: whatever Cache.Write answers, the store
   (values, versions, stamps, handles, every watcher's slot), every updater and the builder log are
   the same; only the error handed to Refresh differs *)
Lemma apply_state_ignores_flush (s : ustate) ups f1 f2 :
  fst (step s (EApply ups f1)) = fst (step s (EApply ups f2)).
Proof. reflexivity. Qed.

Lemma apply_result (s : ustate) ups f :
  snd (step s (EApply ups f)) = (if f then OOk else match ups with [] => OOk | _ => OFail end).
Proof. cbn [step snd]. destruct ups as [|u r]; cbn [apply_updates snd]; destruct f; reflexivity. Qed.

Definition forget_flush (e : event) : event := match e with EApply ups _ => EApply ups true | _ => e end.

Lemma step_forget_flush (s : ustate) e : fst (step s (forget_flush e)) = fst (step s e).
Proof. destruct e; reflexivity. Qed.

Lemma exec_forget_flush : forall evs (s : ustate), exec s (map forget_flush evs) = exec s evs.
Proof.
  unfold exec. induction evs as [|e evs IH]; intros s; [reflexivity|]. cbn [map run].
  pose proof (step_forget_flush s e) as E.
  destruct (step s (forget_flush e)) as [s1 o1]. destruct (step s e) as [s2 o2]. cbn [fst] in E. subst s2.
  specialize (IH s1). destruct (run s1 (map forget_flush evs)) as [a oa]. destruct (run s1 evs) as [b ob].
  cbn [fst] in *. exact IH.
Qed.

(* in particular: a poll that installs a version of updater i's secret while the cache fails leaves
   the watcher's slot full, exactly like one whose flush succeeds *)
Lemma apply_failed_flush_notifies (s : ustate) i u ups f : UInv s -> nth_error (us s) i = Some u ->
  has_install (un u) ups = true -> flag_of (st (fst (step s (EApply ups f)))) i = true.
Proof.
  intros Hs Hu Hi. pose proof Hs as (I & L & A & Bk). destruct (A i u Hu) as [a b c d e0 g h k l m0].
  cbn [step fst st]. rewrite apply_updates_fst.
  destruct (@fold_apply1_watch i (un u) ups (st s) (usince u) I c b) as (_ & _ & _ & F3 & _).
  unfold flag_of. rewrite F3. cbn [wflag]. rewrite Hi. apply orb_true_r.
Qed.


(* ------------------------------------------------------------------ a failed NewUpdater disturbs nobody *)
(* NewUpdater whose builder fails returns the error (store.go:768-771) and does nothing else: the store - every
   entry, every handle, EVERY watcher registration and slot, its own included - and every other updater are
   exactly what they were.  (Its own registration stays behind, unobservably: a slot nobody reads.) *)
Lemma failed_new_disturbs_nobody (s : ustate) j : st (fst (step s (EBuilt j false))) = st s /\
  forall i, i <> j -> nth_error (us (fst (step s (EBuilt j false)))) i = nth_error (us s) i.
Proof.
  cbn [step]. destruct (nth_error (us s) j) as [uj|]; [|auto]. destruct (uph uj); auto.
  destruct (upend uj); auto. cbn [fst st us]. split; [reflexivity|]. intros i D.
  rewrite nth_error_set_nth. destruct (Nat.eqb j i) eqn:E; [apply Nat.eqb_eq in E; congruence|reflexivity].
Qed.

End Proofs.

