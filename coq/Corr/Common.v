(* Shared helpers of the correspondence layer: everything here is executable and is
   evaluated by the kernel's VM on the cases recorded from the implementation. *)
From Coq Require Import List Bool NArith.
Import ListNotations.
Set Implicit Arguments.

Fixpoint mismatches_from {C} (check : C -> bool) (i : N) (cs : list C) : list N :=
  match cs with
  | [] => []
  | c :: cs' => if check c then mismatches_from check (N.succ i) cs'
                else i :: mismatches_from check (N.succ i) cs'
  end.

(* indices (0-based) of the cases on which model and implementation disagree *)
Definition mismatches {C} (check : C -> bool) (cs : list C) : list N := mismatches_from check 0%N cs.

Definition report {C} (check : C -> bool) (cs : list C) : N * list N :=
  (N.of_nat (length cs), mismatches check cs).

Fixpoint list_beq {X} (eq : X -> X -> bool) (a b : list X) : bool :=
  match a, b with
  | [], [] => true
  | x :: a', y :: b' => eq x y && list_beq eq a' b'
  | _, _ => false
  end.

Definition option_beq {X} (eq : X -> X -> bool) (a b : option X) : bool :=
  match a, b with
  | None, None => true
  | Some x, Some y => eq x y
  | _, _ => false
  end.

Definition bytes_beq : list N -> list N -> bool := list_beq N.eqb.
