(* Correspondence for property C04 (database file update is all-or-nothing).
   Four kinds of cases, all recorded from the real code:
   - DBc:    operation histories with refused saves on the real db.DB (the rollback half;
             judged by Run_DB.check_C04);
   - Trace:  the system calls (strace) of a child process performing ONE real db operation,
             restricted to the state directory, with the real bytes written: the verified
             monitor [atomic_replace_ok] is evaluated on it by the kernel;
   - Kill:   the same operation killed (SIGKILL injected by strace) at the entry of one of
             those system calls: the file-system model is run on the calls that completed
             and must predict what db.Open finds afterwards, which must be the complete
             pre-call or post-call state of the database MODEL;
   - Fault:  the same operation with one system call failing (EIO/ENOSPC injected): the
             monitor of the failed/completed save, the result class, the state the SAME
             process keeps serving, WriteGen, the directory listing, the file as a second
             db.Open sees it, and the retried call are compared with the model. *)
From Coq Require Import List Bool NArith.
Import ListNotations.
From Setec Require Import Base.SMap Acl.Glob Server.KV Server.DB Server.FSMap Server.FS Corr.Common Corr.Run_DB.
Open Scope N_scope.

Notation fop := (FS.op N).

(* what is found at the live path after the child is gone *)
Inductive fobs :=
| FAbsent                   (* no database file *)
| FBroken                   (* db.Open (or the dump) fails *)
| FState (d : disk_dump).   (* opens; decoded contents incl. counters *)

Inductive opk := XCreate | XCall (o : DB.op V).

Inductive case :=
| DBc (c : Run_DB.case)
| Trace (old : option (list N)) (new : list N) (tr : list fop)
| Kill (x : opk) (pre : disk_dump) (atr ptr : list fop) (obs : fobs)
| Fault (x : opk) (pre : disk_dump) (ftr : list fop)
        (res : result V) (served : option live_dump) (disk1 : fobs) (gen0 gen1 : N)
        (dir_live : bool) (dir_others : N)
        (retried : bool) (res2 : result V) (served2 : option live_dump) (gen2 : N) (final : fobs).

Definition fobs_beq (a b : fobs) : bool :=
  match a, b with
  | FAbsent, FAbsent | FBroken, FBroken => true
  | FState x, FState y => disk_beq x y
  | _, _ => false
  end.

Definition star : list N := [42].
Definition su : caller := Cl 1 [Rl [AGet; AInfo; APut; AActivate; ADelete] [star]].
Definition state_of (pre : disk_dump) (g : N) : dbstate V := {| kv := kvs_of_disk pre; gen := g; audit_dead := false |}.
Definition call (s : dbstate V) (o : DB.op V) (ok : bool) := db_step N.eqb {| save_ok := ok; audit := AOk |} s su o.

(* content tokens: the file as it was = [0]; the j-th chunk written = j+1 *)
Definition old_tok (x : opk) : option (list N) := match x with XCreate => None | XCall _ => Some [0] end.

Definition pre_obs (x : opk) (pre : disk_dump) : fobs := match x with XCreate => FAbsent | XCall _ => FState pre end.
Definition post_obs (x : opk) (pre : disk_dump) : fobs :=
  match x with
  | XCreate => FState []
  | XCall o => let '(s', _, _) := call (state_of pre 1) o true in FState (disk_of (kv s'))
  end.

Definition content_obs (x : opk) (pre : disk_dump) (newtok cur : option (list N)) : fobs :=
  match cur with
  | None => FAbsent
  | Some c => if option_beq bytes_beq cur (old_tok x) then pre_obs x pre
              else if option_beq bytes_beq cur newtok then post_obs x pre
              else FBroken
  end.

Definition check_kill (x : opk) (pre : disk_dump) (atr ptr : list fop) (obs : fobs) : bool :=
  let s0 := FS.init (old_tok x) in
  let newtok := FS.read (FS.exec s0 atr) Live in
  let expected := content_obs x pre newtok (FS.read (FS.exec s0 ptr) Live) in
  fobs_beq obs expected && (fobs_beq obs (pre_obs x pre) || fobs_beq obs (post_obs x pre)).

Definition served_ok (k : kvs V) (o : option live_dump) : bool :=
  match o with Some d => live_beq (live_of k) d | None => false end.

Definition count_others (dd : FS.dir N) : N :=
  N.of_nat (length (filter (fun kv => negb (path_eqb (fst kv) Live)) dd)).
Definition has_live (dd : FS.dir N) : bool := existsb (fun kv => path_eqb (fst kv) Live) dd.

Definition check_fault (x : opk) (pre : disk_dump) (ftr : list fop)
           (res : result V) (served : option live_dump) (disk1 : fobs) (gen0 gen1 : N)
           (dir_live : bool) (dir_others : N)
           (retried : bool) (res2 : result V) (served2 : option live_dump) (gen2 : N) (final : fobs) : bool :=
  let s0 := FS.init (old_tok x) in
  let s1 := FS.exec s0 ftr in
  let cur := FS.read s1 Live in
  let replaced := negb (option_beq bytes_beq cur (old_tok x)) in
  (* the verified monitor of a completed, resp. failed, save on the observed calls *)
  (if replaced then match cur with Some c => atomic_replace_ok N.eqb (old_tok x) c ftr | None => false end
   else error_ok (old_tok x) ftr)
  (* the directory as the model leaves it is the directory listed by the process *)
  && Bool.eqb (has_live (FS.d s1)) dir_live && (count_others (FS.d s1) =? dir_others)
  && match x with
     | XCreate =>
         if replaced
         then result_beq res ROk && fobs_beq disk1 (FState []) && (gen1 =? 1) && negb retried && fobs_beq final (FState [])
         else result_beq res ROther && fobs_beq disk1 FAbsent
              && retried && result_beq res2 ROk && served_ok [] served2 && (gen2 =? 1) && fobs_beq final (FState [])
     | XCall o =>
         let '(m1, r1, _) := call (state_of pre gen0) o replaced in
         result_beq r1 res && served_ok (kv m1) served && fobs_beq disk1 (FState (disk_of (kv m1))) && (gen m1 =? gen1)
         && (if replaced then negb retried && fobs_beq final (FState (disk_of (kv m1)))
             else (* reported an error: everything is the pre-call state, and the call can be repeated *)
               result_beq res ROther && retried
               && let '(m2, r2, _) := call m1 o true in
                  result_beq r2 res2 && served_ok (kv m2) served2 && (gen m2 =? gen2)
                  && fobs_beq final (FState (disk_of (kv m2))))
     end.

Definition check (c : case) : bool :=
  match c with
  | DBc c' => check_C04 c'
  | Trace old new tr => atomic_replace_ok N.eqb old new tr
  | Kill x pre atr ptr obs => check_kill x pre atr ptr obs
  | Fault x pre ftr res served disk1 gen0 gen1 dl dn retried res2 served2 gen2 final =>
      check_fault x pre ftr res served disk1 gen0 gen1 dl dn retried res2 served2 gen2 final
  end.
