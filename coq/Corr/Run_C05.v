(* Correspondence for property C05 (secrets are confidential and tamper-evident at rest).
   - Hist:   a history on the real db.DB under a REAL AES-256-GCM key-encryption key wrapped by
             a counting proxy, audit log in a real file (audit.NewFile), marker names/values.
             After every call: structure of the file (wrapper keys, version, data key unwraps
             with the v1 context only, DB blob opens with the v1 context only, decoded
             document), marker scan of every file of the state directory, mode bits, KEK uses
             - compared with the symbolic model (Server/Crypto.v) run on the database model.
             Some calls have their save REFUSED by the file system (HOp false): error, the
             pre-call state stays served, the file is untouched, no KEK use; in a third of the
             histories the key service is down between opens.
             The handle is dropped and the file REOPENED with the same key at random points
             (HRe): one KEK use per reopen, none by any call incl. the first write after it.
   - Opens:  a session of db.Open attempts IN ONE PROCESS on the database file ITSELF, in the
             live state directory of a database with several saves behind it, every attempt made
             right after a successful open of the original file with the right key and
             followed by another one: right key (AR), foreign keys on the original bytes (AF),
             right key on altered bytes (AT: bit flips, truncations, fields of another
             database, version edits).  Outcome and the uses of the key GIVEN to the attempt
             and of all OTHER keys are compared with the symbolic [c_open] (AR, AF) resp.
             judged by the verified monitors [tamper_ok], [open_uses_ok] (AT).
   - Keys:   KEK uses at creation and at each of several reopens.
   - Backup: the server's periodic backup task run for several minutes of virtual time on a
             database opened with the counting key, the key service failing in the later
             rounds: key uses and uploads per round against the model's HBackup step.
   - Long:   one process doing some 2100 successful saves, the key service failing during
             the middle third: key uses at the end, failures, final state against the model.
   - Mode:   permission bits of secret-bearing files at creation (temporary of the database
             from the strace trace, client cache file and directory). *)
From Coq Require Import List Bool NArith.
Import ListNotations.
From Setec Require Import Base.SMap Acl.Glob Server.KV Server.DB Server.DBFacts Server.Crypto Corr.Common Corr.Run_DB.
Open Scope N_scope.

(* observation after one call *)
Record sobs := {
  so_keys : list N;          (* member names of the wrapper object: 10 Version, 11 DEK, 12 DB, 99 anything else *)
  so_ver : N;                (* the Version member *)
  so_dek_v1 : bool;          (* DEK unwraps under the KEK with context "setec DEK v1" *)
  so_dek_other : bool;       (* ... with another context (must not) *)
  so_db_v1 : bool;           (* DB opens under the data key with "setec database v1" *)
  so_db_other : bool;        (* ... with another context (must not) *)
  so_doc : disk_dump;        (* the decrypted document *)
  so_val_hits : N;           (* marker VALUES found in any file of the state directory, any encoding *)
  so_name_hits : N;          (* marker NAMES found in the database file or a temporary *)
  so_mode_db : N;
  so_mode_audit : N;
  so_kek : N;                (* KEK uses during the call *)
  so_res : N;                (* outcome class of the call: 0 success, 1 not found, 2 any other error *)
  so_live : live_dump;       (* the state the handle serves (full dump through the API) *)
  so_files : list N          (* the files of the state directory: 1 the database file, 2 the audit log, 99 anything else *)
}.

Inductive fkind :=
| FTmpCreate       (* a temporary of the database at creation *)
| FCacheFile       (* the client cache file, freshly created *)
| FCacheDir
| FCacheOver       (* the client cache file after FileCache.Write over a PRE-EXISTING file with lax bits *)
| FDbOver.         (* the database file after a save over a valid database file that had been chmod'ed lax *)

Inductive hobs :=
| HOp (ok : bool) (o : DB.op V) (ob : sobs)   (* a call (ok = the file system accepts its save), probed afterwards *)
| HOpD (o : DB.op V) (ob : sobs)              (* the same call by a caller WITHOUT any grant: refused, recorded, nothing changes *)
| HRe (ob : sobs).                   (* handle dropped, file reopened with the same key, probed *)

Inductive akind := AR | AF | AT.
(* one open attempt: outcome (None = error, Some i = opened to the i-th dump of the case's
   table), uses of the key given to it, uses of all other keys of the session *)
(* ... and [side]: the number of files of the directory (other than by the harness's own
   writing of the attempt's bytes) created, removed or modified by the attempt *)
Inductive att := At (k : akind) (out : option N) (given others side : N).

(* one minute of the server's periodic backup task (server.VerifRunPeriodicBackup, fake object
   store, virtual clock): was the key service down, did a write precede the round, did that write fail, how often was
   the key-encryption key used during the minute (writes and the task together), how many
   uploads succeeded, and was what was uploaded byte for byte the database file of that moment *)
Inductive bround := BR (key_down wrote put_failed : bool) (kek_uses uploads : N) (body_is_file : bool).

Inductive case :=
| Hist (steps : list hobs)
| Opens (orig : disk_dump) (dumps : list disk_dump) (atts : list att)
| Keys (at_create : N) (at_reopens : list N)
| Backup (at_create : N) (rounds : list bround)
| Long (cycles : N) (at_create uses_end : N) (failed_down failed_up : N) (gen_end : N)
       (final : disk_dump) (dumps : list disk_dump) (right foreign : att)
| Mode (k : fkind) (m : N).

Definition kek : N := 7.
Definition dek : N := 9.
Definition su : caller := Cl 1 [Rl [AGet; AInfo; APut; AActivate; ADelete] [[42]]].
Definition okenv : env := {| save_ok := true; audit := AOk |}.

Definition is_some {X} (o : option X) : bool := match o with Some _ => true | None => false end.

(* what the symbolic file of the model state predicts for the structure probes *)
Definition probe (f : term) : list N * bool * bool * bool * bool :=
  match wrapper_fields f with
  | Some (ver, dekf, dbf) =>
      let k := match dec kek adDEK dekf with Some (Key d) => d | _ => 0 end in
      ([10; 11; 12],
       is_some (dec kek adDEK dekf), is_some (dec kek 99 dekf),
       is_some (dec k adDB dbf), is_some (dec k 99 dbf))
  | None => ([], false, false, false, false)
  end.

Definition check_probe (f : term) (uses : N) (model_doc : disk_dump) (o : sobs) : bool :=
  let '(keys, d1, d2, b1, b2) := probe f in
  list_beq N.eqb keys (so_keys o)
  && (so_ver o =? 1)
  && Bool.eqb d1 (so_dek_v1 o) && Bool.eqb d2 (so_dek_other o)
  && Bool.eqb b1 (so_db_v1 o) && Bool.eqb b2 (so_db_other o)
  (* the file opens, symbolically, to the document of the model state; so does the real one *)
  && is_some (open kek f)
  && disk_beq model_doc (so_doc o)
  (* nothing derivable: no marker anywhere *)
  && (so_val_hits o =? 0) && (so_name_hits o =? 0)
  && (so_mode_db o =? 384) && (so_mode_audit o =? 384)
  && (so_kek o =? uses)
  (* the database file and the audit log are there.  Policy: an ADDITIONAL file (code 99) is
     not judged here - its mere presence is C04's business (directory listing); C05 judges it
     by its effects: a marker in it (scan above) or a changed open outcome (Opens sessions,
     which run in this very directory) *)
  && existsb (N.eqb 1) (so_files o) && existsb (N.eqb 2) (so_files o).

Definition res_class (r : result V) : N :=
  match r with RNotFound => 1 | ROther | RDenied => 2 | _ => 0 end.

(* what the file holds after a call: the new state if it was saved, else what it held (which,
   disk being memory along these histories, is the pre-call state) *)
Definition kv_of_file (s s' : dbstate V) (saved : bool) : kvs V := if saved then kv s' else kv s.

(* [f]: the symbolic file on disk *)
Fixpoint run_hist (c : cstate) (s : dbstate V) (f : term) (steps : list hobs) : bool :=
  match steps with
  | [] => true
  | HOp ok o ob :: rest =>
      let '(s', r, fx) := db_step N.eqb {| save_ok := ok; audit := AOk |} s su o in
      let '(f', u) := c_save c 0 (doc_term (kv s')) in
      let saved := has_save fx in
      let f1 := if saved then f' else f in
      (* a refused save: the file keeps its contents, the handle serves the pre-call state, the
         call reports an error - and no key was used, although the key service may be down *)
      check_probe f1 (if saved then u else 0) (disk_of (kv_of_file s s' saved)) ob
      && (so_res ob =? res_class r) && live_beq (live_of (kv s')) (so_live ob)
      && run_hist c s' f1 rest
  | HOpD o ob :: rest =>
      let '(s', r, fx) := db_step N.eqb okenv s nobody o in
      check_probe f 0 (disk_of (kv s)) ob
      && (so_res ob =? res_class r) && live_beq (live_of (kv s')) (so_live ob)
      && negb (has_save fx)
      && run_hist c s' f rest
  | HRe ob :: rest =>
      match c_open kek f with
      | (Some (c', _), u) => check_probe f u (disk_of (kv s)) ob && (so_res ob =? 0) && live_beq (live_of (kv s)) (so_live ob)
                             && run_hist c' (db_open (kv s)) f rest
      | (None, _) => false
      end
  end.

(* ---- open attempts ---- *)
Definition sym_file : term := file_of kek dek 0 0 (Pub 0).
Definition foreign : N := 8.

Definition att_ok (orig : disk_dump) (dumps : list disk_dump) (a : att) : bool :=
  let '(At k out given others side) := a in
  (side =? 0) &&    (* opening is read-only: c_open is a function of file and key, with no effect *)
  let o : outcome disk_dump :=
    match out with
    | None => OErr
    | Some i => match nth_error dumps (N.to_nat i) with Some d => OOpened d | None => OOpened [([], [], 0, 77)] end
    end in
  let opened := is_some out in
  match k with
  | AR => let '(r, u) := c_open kek sym_file in
          Bool.eqb opened (is_some r) && tamper_ok disk_beq orig o && (given =? u) && (others =? 0)
  | AF => let '(r, u) := c_open foreign sym_file in
          Bool.eqb opened (is_some r) && (given =? u) && (others =? 0)
  | AT => tamper_ok disk_beq orig o && open_uses_ok opened given others
  end.

Definition expected_mode_ok (k : fkind) (m : N) : bool :=
  match k with
  | FTmpCreate => N.eqb (N.land m 63) 0      (* created with no group/other bits *)
  | FCacheFile | FCacheOver | FDbOver => m =? 384   (* 0600 *)
  | FCacheDir => m =? 448                     (* 0700 *)
  end.

(* ---- the backup task: the model's HBackup step copies the file and uses no key ---- *)
Definition bround_ok (b : bround) : bool :=
  let '(BR down wrote put_failed uses ups same) := b in
  let c := fst (c_create kek dek 0) in
  let f := first_file c 0 in
  (* one write (if any) and one backup round, from any state: the model's key uses *)
  let h := (if wrote then [HCall okenv su (OPut [97] 1) 0] else []) ++ [HBackup] in
  let '(files, _, u) := run_terms kek c (db_create V) f h in
  negb put_failed                               (* the write itself succeeds, key service up or down *)
  && (uses =? u)                                   (* 0: neither the write nor the task asks the key service *)
  && (ups =? (if wrote then 1 else 0))          (* a changed database is uploaded - key service up or DOWN *)
  && (if wrote then same else true).            (* and what goes out is the file as it is (the model's [f]) *)

(* ---- volume: [cycles] times (put a new version, activate it, delete the previous one) in one
   process, the key service failing during the middle third ---- *)
Definition nameA : name := [97].
Fixpoint long_ops (n : nat) (v : N) : list (DB.op V) :=
  match n with
  | O => []
  | S n' => OPut nameA (1 + v mod 2) :: OActivate nameA (v + 2) :: ODelVer nameA (v + 1) :: long_ops n' (v + 1)
  end.
Fixpoint long_run (s : dbstate V) (ops : list (DB.op V)) (failures : N) : dbstate V * N :=
  match ops with
  | [] => (s, failures)
  | o :: rest => let '(s', r, _) := db_step N.eqb okenv s su o in
                 long_run s' rest (failures + (if res_class r =? 0 then 0 else 1))
  end.
Definition long_hist (n : nat) : list hstep :=
  map (fun o => HCall okenv su o 0) (OPut nameA 2 :: long_ops n 0).

(* the API dump of an open attempt has no counters *)
Definition drop_latest (d : disk_dump) : disk_dump := map (fun '(n, vs, a, _) => (n, vs, a, 0)) d.

Definition check_long (cycles at_create uses_end failed_down failed_up gen_end : N)
           (final : disk_dump) (dumps : list disk_dump) (right foreign : att) : bool :=
  let n := N.to_nat cycles in
  let '(m, mf) := long_run (db_create V) (OPut nameA 2 :: long_ops n 0) 0 in
  let c := fst (c_create kek dek 0) in
  let '(_, _, u) := run_terms kek c (db_create V) (first_file c 0) (long_hist n) in
  (at_create =? snd (c_create kek dek 0))
  && (uses_end =? at_create + u)                 (* u = 0: no save, however many, uses the key *)
  && (failed_down + failed_up =? mf)             (* mf = 0: every write succeeds, key service down or not *)
  && (gen_end =? gen m)
  && disk_beq (disk_of (kv m)) final
  && att_ok (drop_latest final) dumps right && att_ok (drop_latest final) dumps foreign.

Definition check (c : case) : bool :=
  match c with
  | Hist steps => let c := fst (c_create kek dek 0) in run_hist c (db_create V) (first_file c 0) steps
  | Opens orig dumps atts => forallb (att_ok orig dumps) atts
  | Keys a bs => (a =? snd (c_create kek dek 0)) && forallb (fun b => b =? snd (c_open kek sym_file)) bs
                 && negb (match bs with [] => true | _ => false end)
  | Mode k m => expected_mode_ok k m
  | Backup a rounds => (a =? snd (c_create kek dek 0)) && forallb bround_ok rounds
                       && negb (match rounds with [] => true | _ => false end)
  | Long cy a ue fd fu g final dumps r f => check_long cy a ue fd fu g final dumps r f
  end.

(* compact constructor for generated terms *)
Definition So (keys : list N) (ver : N) (d1 d2 b1 b2 : bool) (doc : disk_dump) (vh nh md ma k rc : N) (lv : live_dump) (fl : list N) : sobs :=
  {| so_keys := keys; so_ver := ver; so_dek_v1 := d1; so_dek_other := d2; so_db_v1 := b1; so_db_other := b2;
     so_doc := doc; so_val_hits := vh; so_name_hits := nh; so_mode_db := md; so_mode_audit := ma; so_kek := k; so_res := rc; so_live := lv; so_files := fl |}.
