(* Correspondence for C07: acl.Secret.Match / Rules.Allow of the implementation
   against the model (bmatch, the code-shaped matcher) and the independent
   reference matcher bglob, evaluated in the kernel. *)
From Coq Require Import List Bool NArith.
Import ListNotations.
From Setec Require Import Acl.Glob Corr.Common.

Fixpoint level (alpha : list N) (k : nat) : list bytes :=
  match k with
  | O => [[]]
  | S k' => flat_map (fun a => map (cons a) (level alpha k')) alpha
  end.

Fixpoint upto (alpha : list N) (n : nat) : list bytes :=
  match n with
  | O => level alpha O
  | S n' => upto alpha n' ++ level alpha n
  end.

Fixpoint hits_from (f : bytes -> bool) (i : N) (names : list bytes) : list N :=
  match names with
  | [] => []
  | n :: r => if f n then i :: hits_from f (N.succ i) r else hits_from f (N.succ i) r
  end.

(* observed outcome of the implementation: 0 = false, 1 = true, 2 = panic *)
Definition obs_of_bool (b : bool) : N := if b then 1%N else 0%N.

Inductive case :=
| CRow (alpha : list N) (nlen : nat) (pat : bytes) (hits : list N)
    (* implementation: indices, in the canonical enumeration of all names over
       alpha up to length nlen, of the names pat matched; no panic occurred *)
| CPair (pat name : bytes) (res : N)
| CRules (rs : list rule) (a : action) (n : bytes) (res : N).

Definition check (c : case) : bool :=
  match c with
  | CRow alpha nlen pat hits =>
      let names := upto alpha nlen in
      list_beq N.eqb (hits_from (bmatch pat) 0%N names) hits
      && list_beq N.eqb (hits_from (bglob pat) 0%N names) hits
      && list_beq N.eqb (hits_from (bfast pat) 0%N names) hits
  | CPair pat name res =>
      (* long inputs: the polynomial matcher (C07_fast_agrees: equal to the other two) *)
      N.eqb (obs_of_bool (bfast pat name)) res
  | CRules rs a n res => N.eqb (obs_of_bool (allow rs a n)) res
  end.
