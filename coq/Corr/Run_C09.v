(* Correspondence for C09: DB-level histories (Run_DB.check_C09), client probes
   (Run_Http.check_C09), and gated races of a conditional get with an activate. *)
From Coq Require Import List Bool NArith.
Import ListNotations.
From Setec Require Import Base.SMap Acl.Glob Server.KV Server.DB Corr.Run_DB Corr.Run_Http.
Open Scope N_scope.

Inductive case :=
| C9Hist (c : Run_DB.case)
| C9Probes (c : Run_Http.case)
| C9Race (st : disk_dump) (n : name) (v : N) (res : result V).
    (* on the database [st], GetConditional n v by a caller allowed everything, while another
       goroutine tries to run Activate n v in the middle of it; [res] is what the get answered *)

Definition race_super : caller :=
  {| principal := 1; rules := [ {| r_actions := [AGet; AInfo; APut; AActivate; ADelete]; r_secrets := [[42]] |} ] |}.
Definition race_env : env := {| save_ok := true; audit := AOk |}.

(* "at that moment": the answer must be the model's answer in the state before the activate or in
   the state after it - the two instants a call that is atomic with respect to writes can see *)
Definition race_ok (st : disk_dump) (n : name) (v : N) (res : result V) : bool :=
  let s0 := {| kv := kvs_of_disk st; gen := 1; audit_dead := false |} in
  let r0 := snd (fst (db_step N.eqb race_env s0 race_super (OGetCond n v))) in
  let s1 := fst (fst (db_step N.eqb race_env s0 race_super (OActivate n v))) in
  let r1 := snd (fst (db_step N.eqb race_env s1 race_super (OGetCond n v))) in
  result_beq res r0 || result_beq res r1.

Definition check (c : case) : bool :=
  match c with
  | C9Hist h => Run_DB.check_C09 h
  | C9Probes p => Run_Http.check_C09 p
  | C9Race st n v res => race_ok st n v res
  end.
