(* Correspondence for C09: DB-level histories (Run_DB.check_C09) and client probes (Run_Http.check_C09). *)
From Coq Require Import List Bool NArith.
From Setec Require Import Corr.Run_DB Corr.Run_Http.

Inductive case := C9Hist (c : Run_DB.case) | C9Probes (c : Run_Http.case).

Definition check (c : case) : bool :=
  match c with
  | C9Hist h => Run_DB.check_C09 h
  | C9Probes p => Run_Http.check_C09 p
  end.
