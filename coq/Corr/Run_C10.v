(* Correspondence for C10: one case = one call of setec.NewStore inside a synctest bubble with a
   scripted (or file) client, followed - on success - by a probe poll and by reading every declared
   name.  The model (Client/Init.new_store, then Client/Store.refresh for the probe) is run on the
   same inputs; the visiting order of each round is the one observed.  No proofs here. *)
From Coq Require Import List Bool NArith ZArith.
Import ListNotations.
From Setec Require Import Base.SMap Base.Bytes Corr.Common Client.Store Client.Init Client.InitFile.
From Setec Require Server.DB Server.Http.

Definition V := N.

Fixpoint assoc {X} (n : name) (l : list (name * X)) : option X :=
  match l with [] => None | (k, x) :: r => if neqb k n then Some x else assoc n r end.

Definition mk_map {X} (l : list (name * X)) : @smap name X := fold_left (fun acc '(k, x) => upd k x acc) l [].

(* ---- inputs *)
(* a scripted answer, paired with the sentinel the client reports for it when it is a failure
   (0 none, 1 api.ErrNotFound, 2 api.ErrAccessDenied, 3 api.ErrValueNotChanged) *)
Definition sans : Type := (answer V * N)%type.
Definition A (lat_ns ver val : N) : sans := (ANS lat_ns (Some (ver, val)), 0%N).
Definition AF (lat_ns kind : N) : sans := (ANS lat_ns None, kind).

(* the network client (client/setec/client.go) over a scripted HTTP transport: the script is an HTTP
   response - status and either a JSON api.SecretValue or some other body - after lat_ns, or a server that
   accepts the request and never answers.  What setec.Client makes of a response is client.go's
   status -> sentinel map as modelled (and proved against the server's error -> status map) in Server/Http.v;
   for Store construction only a decoded value is a success, everything else a failed fetch. *)
Definition cres_of (status : N) (body : option (N * V)) : Http.cres V :=
  Http.client_of_response
    (Http.Build_response status match body with Some (v, b) => Http.BodyResult (DB.RVal v b) | None => Http.BodyConst end).
Definition AH (lat_ns status : N) (body : option (N * V)) : sans :=
  match cres_of status body with
  | Http.CResult (DB.RVal v b) => (ANS lat_ns (Some (v, b)), 0%N)
  | Http.CNotFound => (ANS lat_ns None, 1%N)
  | Http.CDenied => (ANS lat_ns None, 2%N)
  | Http.CNotChanged => (ANS lat_ns None, 3%N)
  | _ => (ANS lat_ns None, 0%N)
  end.
(* never answers: the request lasts until its context ends (2^62 ns, about 146 years, otherwise) *)
Definition hang_ns : N := 4611686018427387904%N.
Definition AHang : sans := (ANS hang_ns None, 0%N).

(* an outage in compact form: n times the answer a, then l *)
Definition Rep (n : nat) (a : sans) (l : list sans) : list sans := repeat a n ++ l.

(* per name: the answers to its first requests, then the answer to every later one *)
Definition stab := list (name * (list sans * sans)).
Definition sans_of (tb : stab) (n : name) (j : nat) : sans :=
  match assoc n tb with Some (l, d) => nth j l d | None => AF 0 1 end.
Definition script_of (tb : stab) : name -> nat -> answer V := fun n j => fst (sans_of tb n j).

(* round k visits the names in the observed order, then the keys nobody asked about *)
Definition order_of (rounds : list (list name)) : nat -> list name -> list name :=
  fun k keys => let r := nth k rounds [] in r ++ filter (fun n => negb (mem n r)) keys.

(* cache document entries as decoded by encoding/json *)
Definition CV (n : name) (ver val : N) (last : Z) : name * rentry V := (n, Some (Some (ver, val), last)).
Definition CNull (n : name) : name * rentry V := (n, None).
Definition CNoSecret (n : name) (last : Z) : name * rentry V := (n, Some (None, last)).

Definition Cf (client file : bool) (names : list name) (allow hascache : bool) (age : Z) : config :=
  CFG client file names allow hascache age.

(* what the service says at the probe poll: per name the active (version, value), or absent (error);
   names not listed: not changed *)
Definition ptab := list (name * option (N * N)).
Definition probe_ans (p : ptab) : name -> N -> resp V :=
  fun n v => match assoc n p with
             | Some (Some (v', b)) => if (v' =? v)%N then RNotChanged else RValue v' b
             | Some None => RErr
             | None => RNotChanged
             end.

(* ---- observations *)
Inductive oreq := OR (n : name) (ts te : N) (r : option (N * N)).
Inductive oent := OD (n : name) (ver val : N) (last : Z) | ONull (n : name).

Inductive obs :=
| ObsErr (t : N) (reqs : list oreq)
         (sent : N)                          (* which api sentinel the returned error is (errors.Is): 0 none, 1 not found, 2 access denied, 3 not changed *)
| ObsOk (t : N) (reqs : list oreq)
        (writes : list (list oent))          (* payloads of Cache.Write during NewStore *)
        (preqs : list (name * N))            (* GetIfChanged calls of the probe poll *)
        (pok : bool)                         (* Refresh returned nil *)
        (pwrites : list (list oent))         (* payloads of Cache.Write during the probe *)
        (vals : list (name * option N))      (* Secret(n).Get() for every declared name: token, None = nil handle *)
        (fields : list (option N)).          (* the tagged struct fields, as populated at construction *)

Inductive case :=
| Case (cfg : config) (cache : option (list (name * rentry V))) (tb : stab) (strict : bool)
       (deadline : option N) (t0 : N) (epoch : Z) (rounds : list (list name))
       (snames : list name)                  (* the struct-tagged names (also part of c_names): Fields.Apply looks each up and reads it *)
       (probe_dt : N) (pt : ptab) (o : obs)
(* client = a real FileClient over this file (the members of its JSON object as NewFileClient decodes them): the
   model derives the service script and the probe poll's answers from it (Client/InitFile.v); tb and pt are unused *)
| FileCase (file : list (name * fentry V)) (c : case).

Definition Fe (secret : bool) (ver : N) (value text : option N) : fentry V := FE secret ver value text.

(* ---- comparison *)
Definition oN2_beq (a b : option (N * N)) : bool :=
  option_beq (fun x y => (fst x =? fst y)%N && (snd x =? snd y)%N) a b.

Definition ev_reqs (tr : list (ev V)) : list oreq :=
  flat_map (fun e => match e with EvReq n ts te r => [OR n ts te r] | EvSleep _ _ => [] end) tr.

Definition oreq_beq (a b : oreq) : bool :=
  match a, b with OR n ts te r, OR n' ts' te' r' => neqb n n' && (ts =? ts')%N && (te =? te')%N && oN2_beq r r' end.

Definition oent_of (d : doc_entry V) : oent :=
  match d with (n, Some (v, b, t)) => OD n v b t | (n, None) => ONull n end.
Definition oent_key (e : oent) : name := match e with OD n _ _ _ => n | ONull n => n end.
Definition oent_beq (a b : oent) : bool :=
  match a, b with
  | OD n v b t, OD n' v' b' t' => neqb n n' && (v =? v')%N && (b =? b')%N && (t =? t')%Z
  | ONull n, ONull n' => neqb n n'
  | _, _ => false
  end.
(* documents are compared as maps (the order of a JSON object's members is irrelevant) *)
Definition norm_doc (d : list oent) : list oent := map snd (mk_map (map (fun e => (oent_key e, e)) d)).
Definition doc_beq (a b : list oent) : bool := list_beq oent_beq (norm_doc a) (norm_doc b).
Definition fx_docs (fx : list (effect V)) : list (list oent) :=
  map (fun e => match e with Flush d => map oent_of d end) fx.

Definition preq_beq (a b : name * N) : bool := neqb (fst a) (fst b) && (snd a =? snd b)%N.
Definition norm_preqs (l : list (name * N)) : list (name * N) := mk_map l.

Definition val_of (s : store V) (n : name) : option N :=
  match find n (m s) with Some (Some e) => Some (val e) | _ => None end.

(* rounds: a 31-minute outage takes 13 + 1852 s / 4.096 s = 466 rounds *)
Definition fuel : nat := 700.

(* the request whose failure ended construction (`return err` at store.go:704), if that is how it ended:
   the last event of the trace is a failed request returning with the context dead.  Result: was the failure
   caused by the context (cut off / refused because already dead) and the sentinel of the scripted answer. *)
Fixpoint stop_cause (w : world V) (tb : stab) (seen : list name) (tr : list (ev V)) : option (bool * N) :=
  match tr with
  | [] => None
  | EvReq n ts te r :: rest =>
    match rest, r with
    | [], None =>
      if dead w te then
        let j := length (filter (neqb n) seen) in
        let '(a, kind) := sans_of tb n j in
        let by_ctx := if dead w ts then w_strict w || (0 <? a_lat a)%N
                      else match w_deadline w with Some d => (d <? ts + a_lat a)%N | None => false end in
        Some (by_ctx, kind)
      else None
    | _, _ => stop_cause w tb (n :: seen) rest
    end
  | EvSleep _ _ :: rest => stop_cause w tb seen rest
  end.
(* an error caused by the end of the context is never reported as a verdict of the service ("not found",
   "access denied"); an error the service did give may be passed on or replaced *)
Definition sent_ok (w : world V) (tb : stab) (tr : list (ev V)) (sent : N) : bool :=
  match stop_cause w tb [] tr with
  | Some (true, _) => (sent =? 0)%N
  | Some (false, kind) => (sent =? 0)%N || (sent =? kind)%N
  | None => true
  end.

Definition check_gen (file : option (list (name * fentry V))) (c : case) : bool :=
  match c with
  | FileCase _ _ => false
  | Case cfg cache tb strict deadline t0 epoch rounds snames probe_dt pt o =>
    let scr := match file with Some f => file_script (mk_map f) | None => script_of tb end in
    let pans := match file with Some f => file_poll (mk_map f) | None => probe_ans pt end in
    let w := WORLD scr strict deadline (order_of rounds) epoch t0 in
    match new_store cfg (option_map mk_map cache) w fuel, o with
    | OMisconfig _, ObsErr t reqs _ => (t =? t0)%N && match reqs with [] => true | _ => false end
    | OFail t tr, ObsErr t' reqs sent => (t =? t')%N && (c_file cfg || list_beq oreq_beq (ev_reqs tr) reqs) && sent_ok w tb tr sent
    | OOk s0 t tr fx, ObsOk t' reqs writes preqs pok pwrites vals fields =>
      (* Fields.Apply (store.go:252): LookupSecret + Get of every tagged name, after the flush *)
      let s := fold_left (fun acc n => fst (read (fst (secret_locked acc n)) n (now_s w t))) snames s0 in
      let now_ns := (epoch * 1000000000 + Z.of_N (t + probe_dt))%Z in
      let snap := snapshot s now_ns in
      let '(s', pfx, ok) := refresh s now_ns pans in
      (t =? t')%N && (c_file cfg || list_beq oreq_beq (ev_reqs tr) reqs)
      && list_beq doc_beq (fx_docs fx) writes
      && list_beq (option_beq N.eqb) (map (val_of s0) snames) fields
      && (c_file cfg || list_beq preq_beq (norm_preqs (requests snap)) (norm_preqs preqs))
      && Bool.eqb ok pok
      && list_beq doc_beq (if c_cache cfg then fx_docs pfx else []) pwrites   (* flushCacheLocked writes only if a Cache is configured *)
      && list_beq (fun x y => neqb (fst x) (fst y) && option_beq N.eqb (snd x) (snd y))
                  (map (fun n => (n, val_of s' n)) (norm_names (c_names cfg))) (mk_map vals)
    | _, _ => false
    end
  end.

Definition check (c : case) : bool :=
  match c with
  | FileCase f inner => check_gen (Some f) inner
  | _ => check_gen None c
  end.
