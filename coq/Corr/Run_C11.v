(* C11 correspondence: the recorded timeline of one real setec.Store (synctest, scripted service,
   every request of every poll released one at a time) is re-run through Client/Poll.v in the
   kernel; per event the model's outputs (version carried by each request and the answer the
   service must give, Refresh results incl. coalesced callers, every Cache.Write document, handle
   values) must equal the observed ones, and each poll must have issued exactly one request per
   non-expired name.  Values are tokens (N).  No proofs here. *)
From Coq Require Import List Bool NArith ZArith.
Import ListNotations.
From Setec Require Import Base.SMap Corr.Common Client.Store Client.Poll.
Set Implicit Arguments.
Local Open Scope N_scope.

Definition ev := event N.
Definition ot := out N.

Definition resp_beq (a b : resp N) : bool :=
  match a, b with
  | RNotChanged, RNotChanged => true
  | RValue v x, RValue w y => (v =? w) && (x =? y)
  | RErr, RErr => true
  | _, _ => false
  end.
Definition dent_beq (a b : doc_entry N) : bool :=
  bytes_beq (fst a) (fst b) &&
  option_beq (fun '(v, x, t) '(w, y, u) => (v =? w) && (x =? y) && (t =? u)%Z) (snd a) (snd b).
Definition out_beq (a b : ot) : bool :=
  match a, b with
  | OReq o r, OReq p q => option_beq N.eqb o p && resp_beq r q
  | ORes x, ORes y => Bool.eqb x y
  | OCtx, OCtx => true
  | OFlush d, OFlush e => list_beq dent_beq d e
  | OFlushF d, OFlushF e => list_beq dent_beq d e
  | OHandle x, OHandle y => option_beq Bool.eqb x y
  | OVal x, OVal y => option_beq N.eqb x y
  | OLookup x, OLookup y => Bool.eqb x y
  | _, _ => false
  end.
Definition is_res (o : ot) : bool := match o with ORes _ => true | _ => false end.

(* short constructors for the generated terms *)
Definition R (now_ns : N) : ev := ERefresh (Z.of_N now_ns).
Definition Q (n : name) (fail full : bool) : ev := EReq n fail full.
Definition E_ : ev := EEnd.
Definition EF : ev := EEndF.
Definition SS (n : name) (v b : N) : ev := ESrv (SSet n v b).
Definition SD (n : name) : ev := ESrv (SDel n).
Definition H (n : name) : ev := ESecret n.
Definition G (n : name) (now_s : N) : ev := ERead n (Z.of_N now_s).
Definition L (n : name) (now_s : N) (fail : bool) : ev := ELookup n (Z.of_N now_s) fail.
Definition X : ev := EShutdown.
Definition C (k : N) : ev := ECancel (N.to_nat k).

Definition rn : resp N := RNotChanged.
Definition rv (v b : N) : resp N := RValue v b.
Definition re : resp N := RErr.
Definition oq (old : option N) (r : resp N) : ot := OReq old r.
Definition os (ok : bool) : ot := ORes ok.
Definition oc : ot := OCtx.
Definition D (n : name) (v b last : N) : doc_entry N := (n, Some (v, b, Z.of_N last)).
Definition ofl (d : list (doc_entry N)) : ot := OFlush d.
Definition off (d : list (doc_entry N)) : ot := OFlushF d.
Definition oh (h : option bool) : ot := OHandle h.
Definition ov (v : option N) : ot := OVal v.
Definition ol (ok : bool) : ot := OLookup ok.

(* an observed step: the event, whether Refresh results are observable (not for ticker polls),
   the observed outputs *)
(* Sf: a step (lookup, shutdown, construction) whose Cache.Write failed: store.go only logs that
   error, so the model's outputs are the same with the write marked as failed *)
Inductive ostep := St (e : ev) (o : list ot) | Sb (e : ev) (o : list ot) | Sf (e : ev) (o : list ot).
Definition markf (o : ot) : ot := match o with OFlush d => OFlushF d | x => x end.

Inductive case :=
| Scn (names : list name) (cache : option (list (name * (N * N * N)))) (sv0 : list (name * (N * N)))
      (now_s : N) (allow : bool) (age_ns : N) (init_out : list ot) (steps : list ostep)
| Cad (i t0 : N) (ticks : list N)
| Cad2 (i t0 : N) (polls : list (N * N)).   (* observed (start, end) instants of consecutive polls *)

Definition mk_cache (l : list (name * (N * N * N))) : @smap name (rentry N) :=
  fold_left (fun acc '(n, (v, b, t)) => upd n (Some (Some (v, b), Z.of_N t)) acc) l [].
Definition mk_server (l : list (name * (N * N))) : server N :=
  fold_left (fun acc '(n, vb) => upd n vb acc) l [].

(* which requests a poll must have issued by its end: exactly one per live name of the snapshot;
   after a failed request, or once the leader's context has ended, the rest may be skipped (the
   poll fails either way), but never duplicated or invented *)
Definition req_failed (fl : flight N) : bool :=
  existsb (fun '(n, i) => match req_version (fsnap fl) n with
                          | Some v => match answer i n v with RErr => true | _ => false end
                          | None => true end) (finst fl).
Fixpoint nodupb (l : list name) : bool :=
  match l with [] => true | x :: r => negb (mem x r) && nodupb r end.
Definition well_requested (fl : flight N) : bool :=
  if req_failed fl || lead_dead fl
  then (let want := map fst (requests (fsnap fl)) in let got := map fst (finst fl) in
        nodupb got && forallb (fun n => mem n want) got)
  else complete fl.

Fixpoint steps_ok (w : world N) (l : list ostep) : bool :=
  match l with
  | [] => true
  | s :: r =>
    let '(e, strict, obs, wf) := match s with St e o => (e, true, o, false) | Sb e o => (e, false, o, false) | Sf e o => (e, true, o, true) end in
    let pre := match e, wfl w with
               | EEnd, Some fl | EEndF, Some fl => well_requested fl
               | EEnd, None | EEndF, None => false
               | EReq _ _ _, None => false
               | _, _ => true
               end in
    let '(w', mo0) := step w e in
    let mo := if wf : bool then map markf mo0 else mo0 in
    let same := if strict : bool then list_beq out_beq mo obs
                else list_beq out_beq (filter (fun o => negb (is_res o)) mo) (filter (fun o => negb (is_res o)) obs)
                     && forallb (fun o => negb (is_res o) || existsb (out_beq o) mo) obs in
    pre && same && steps_ok w' r
  end.

Definition check (c : case) : bool :=
  match c with
  | Scn names cache sv0 now_s allow age io steps =>
    let '(w, o) := construct names (option_map mk_cache cache) (mk_server sv0) (Z.of_N now_s) allow (Z.of_N age) in
    list_beq out_beq o io && steps_ok w steps
  | Cad i t0 ticks => cadence_ok (Z.of_N i) (Z.of_N t0) (map Z.of_N ticks)
  | Cad2 i t0 polls => cadence2_ok (Z.of_N i) (Z.of_N t0) (map (fun '(a, b) => (Z.of_N a, Z.of_N b)) polls)
  end.
