(* C12 correspondence: the proved-sound monitor Readers.reads_ok is evaluated by the kernel on the
   install order and the read logs recorded from REAL goroutines (race-detector build).  Value-ids
   are numbers (the version served for that name); names are byte strings.  No proofs here. *)
From Coq Require Import List Bool NArith ZArith.
Import ListNotations.
From Setec Require Import Base.SMap Corr.Common Client.Store Client.Readers.
Set Implicit Arguments.
Local Open Scope N_scope.

(* a logged read: reader, name, value-id, floor (number of installs known complete before the read began) *)
Definition RL (r : N) (n : name) (v : N) (pos : N) : rd N := RD (N.to_nat r) n v (N.to_nat pos).

Inductive case :=
| Log (installs : list (name * N)) (log : list (rd N))
(* ... plus, per drained Updater, the sequence of notifications (polls that installed a new version of
   its name) and takes (Updater.Get: was the value rebuilt?) observed in quiescent windows *)
| LogW (installs : list (name * N)) (log : list (rd N)) (watches : list (name * list wstep)).

Definition check (c : case) : bool :=
  match c with
  | Log installs log => reads_ok N.eqb installs log
  | LogW installs log watches => reads_ok N.eqb installs log && forallb (fun '(n, l) => watch_ok N n l) watches
  end.
