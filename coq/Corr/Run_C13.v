(* Correspondence for C13: what harness/c13*.go records from the real setec.Store / FileClient /
   FileCache, re-run on the models (Client/Store.v composed by Client/CacheHist.v, the document
   model Client/CacheDoc.v, the trace shape Client/CacheFile.v) and compared.  No proofs here. *)
From Coq Require Import List Bool NArith ZArith.
Import ListNotations.
From Setec Require Import Base.SMap Corr.Common Client.Store Client.CacheDoc Client.CacheHist Client.CacheFile.
From Setec Require Server.FSMap Server.FS.
Set Implicit Arguments.

(* ---- short constructors for the generated terms (cases are elaborated in N_scope) *)
Definition JN : json := JNull.
Definition JT : json := JBool true.
Definition JF : json := JBool false.
Definition JI (n : N) : json := JNum (NInt (Z.of_N n)).
Definition JM (n : N) : json := JNum (NInt (- Z.of_N n)).      (* negative integer literal *)
Definition JX : json := JNum NOther.
Definition JS (s : bytes) : json := JStr s.
Definition JA (l : list json) : json := JArr l.
Definition JO (l : list (bytes * json)) : json := JObj l.

Definition zp (n : N) : Z := Z.of_N n.
Definition zn (n : N) : Z := (- Z.of_N n)%Z.

(* ---- base64 as observed: pairs (raw bytes, base64 text), canonical encodings first *)
Definition b64tbl : Type := list (bytes * bytes).
Fixpoint tbl_enc (t : b64tbl) (b : bytes) : bytes :=
  match t with [] => [255; 255; 255]%N | (r, e) :: t' => if neqb r b then e else tbl_enc t' b end.
Fixpoint tbl_dec (t : b64tbl) (s : bytes) : option bytes :=
  match t with [] => None | (r, e) :: t' => if neqb e s then Some r else tbl_dec t' s end.

(* ---- tree comparison: objects are unordered, "Value": null stands for the empty value *)
Definition fix_value (k : bytes) (v : json) : json :=
  if neqb k k_Value then match v with JNull => JStr [] | _ => v end else v.
Fixpoint jnorm (j : json) : json :=
  match j with
  | JArr l => JArr (map jnorm l)
  | JObj l => JObj ((fix go (l : list (bytes * json)) : list (bytes * json) :=
                       match l with
                       | [] => []
                       | (k, v) :: r => upd k (fix_value k (jnorm v)) (go r)
                       end) l)
  | x => x
  end.
Definition num_eqb (a b : num) : bool :=
  match a, b with NInt x, NInt y => (x =? y)%Z | NOther, NOther => true | _, _ => false end.
Fixpoint jeq (a b : json) {struct a} : bool :=
  match a, b with
  | JNull, JNull => true
  | JBool x, JBool y => eqb x y
  | JNum x, JNum y => num_eqb x y
  | JStr x, JStr y => neqb x y
  | JArr x, JArr y =>
    (fix go (l1 l2 : list json) : bool :=
       match l1, l2 with
       | [], [] => true
       | h1 :: t1, h2 :: t2 => jeq h1 h2 && go t1 t2
       | _, _ => false end) x y
  | JObj x, JObj y =>
    (fix go (l1 l2 : list (bytes * json)) : bool :=
       match l1, l2 with
       | [], [] => true
       | kv1 :: t1, kv2 :: t2 => neqb (fst kv1) (fst kv2) && jeq (snd kv1) (snd kv2) && go t1 t2
       | _, _ => false end) x y
  | _, _ => false
  end.
Definition jmatch (a b : json) : bool := jeq (jnorm a) (jnorm b).

(* ---- recorded observations *)
(* a second store started from the cache content with a dead service *)
Inductive restart := RS (ok : bool) (nreq : N) (served : list (name * option (N * bytes))).
(* NewFileClient on a file with the same bytes: per name Get and GetIfChanged for some old versions *)
Inductive fcobs := FC (ok : bool) (ans : list (name * (fcres * list (N * fcres)))).
Inductive sobs := SO (r : res bytes) (written : option json) (rs : option restart) (fc : option fcobs).

Inductive case :=
| CHist (tbl : b64tbl) (rfail : bool) (cin : cache_input) (names : list name) (allow : bool) (age : Z)
        (init_ans : list (name * option (N * bytes))) (now0 : Z) (probe : list name)
        (cons_ok : bool) (cons_reqs : list name) (cons_wok : bool) (cobs : sobs)
        (steps : list (ev bytes * bool * sobs))
| CConc (h : case) (now : Z) (evs : list (ev bytes)) (writes : list json) (rs : option restart) (fc : option fcobs)
        (served1 : list (name * option bytes))   (* h: the sequential prefix (a CHist); then the concurrent block *)
| CTrace (expect_ok : bool) (t : list fop)               (* one FileCache.Write under strace; expect_ok = it returned nil *)
| CInject (panicked : bool) (content : N) (t : list fop)  (* kill / error injection: file content 0 = old, 1 = new, 2 = neither *)
| CSlow (h : case) (offered landed : list json) (rs : option restart) (fc : option fcobs)
        (* h: a sequential history (a CHist) some of whose Cache.Write calls took virtual seconds to minutes;
           then, after ample time: the payloads in the order they were OFFERED to and LANDED in the cache *)
| CLife (h : case) (names2 : list name) (ans2 : list (name * option (N * bytes))) (now2 : Z)
        (ok2 : bool) (writes2 : list json) (rs : option restart) (fc : option fcobs)
        (* three lifetimes on one cache: h = run 1 (a CHist ending in a good cache); run 2 = a start with
           more declared names that the service cannot all answer before the caller's context ends;
           run 3 = a start with run 1's names and a dead service, from whatever the cache holds now *)
| CRetain (h : case) (kept : list (json * cache_input))
        (* h ran over a cache that RETAINS the slices it is given; kept: each payload as it was when
           written and as the retained slice reads after all later flushes and Close *)
| CFc (tbl : b64tbl) (cin : cache_input) (fc : fcobs)     (* NewFileClient on a hand-written file *)
| CFs (old : option (list N)) (new : list N) (tr : list (Setec.Server.FS.op N)).
    (* one FileCache.Write traced with real bytes, in the vocabulary of the file-system model of C04 *)

Definition sv_eqb (a b : option (N * bytes)) : bool :=
  option_beq (fun x y => (fst x =? fst y)%N && neqb (snd x) (snd y)) a b.
Definition served_eqb (a b : list (name * option (N * bytes))) : bool :=
  list_beq (fun x y => neqb (fst x) (fst y) && sv_eqb (snd x) (snd y)) a b.
Definition fcres_eqb (a b : fcres) : bool :=
  match a, b with
  | FCValue v x, FCValue w y => (v =? w)%N && neqb x y
  | FCNotFound, FCNotFound => true
  | FCNotChanged, FCNotChanged => true
  | _, _ => false
  end.

Fixpoint assoc_ans (l : list (name * option (N * bytes))) (n : name) : option (N * bytes) :=
  match l with [] => None | (k, a) :: t => if neqb k n then a else assoc_ans t n end.

Definition res_eqb (a b : res bytes) : bool :=
  match a, b with
  | RLookup r1 o1, RLookup r2 o2 => eqb r1 r2 && eqb o1 o2
  | RRead x, RRead y => option_beq neqb x y
  | RPoll q1 o1, RPoll q2 o2 => list_beq (fun x y => neqb (fst x) (fst y) && (snd x =? snd y)%N) q1 q2 && eqb o1 o2
  | RClose, RClose => true
  | _, _ => false
  end.

Section Check.
Variable tbl : b64tbl.
Let enc := tbl_enc tbl.
Let dec := tbl_dec tbl.

Definition decode_in (c : cache_input) : option (@smap name (rentry bytes)) :=
  match c with Some (Some j) => decode_cache dec j | _ => None end.

(* the cache write of one step: none expected and none seen, or the seen tree is the model's document *)
Definition written_ok (fx : list (effect bytes)) (w : option json) : bool :=
  match fx, w with
  | [], None => true
  | [Flush d], Some t => jmatch t (encode_cache enc d)
  | _, _ => false
  end.

Definition next_cin (c : cache_input) (w : option json) (wok : bool) : cache_input :=
  match w with Some t => if wok then Some (Some t) else c | None => c end.

(* restart from the current cache content, service dead *)
Definition restart_ok (c : cache_input) (names : list name) (age : Z) (now : Z) (probe : list name)
                      (cur : option (store bytes)) (o : option restart) : bool :=
  match o with
  | None => true
  | Some (RS ok nreq sv) =>
    match new_store (decode_in c) names true age (fun _ => None) now with
    | Some (s2, _, reqs) =>
      ok && (nreq =? 0)%N && match reqs with [] => true | _ => false end
      && served_eqb sv (map (fun n => (n, served (m s2) n)) probe)
      && match cur with
         | Some s => served_eqb sv (map (fun n => (n, served (m s) n)) probe)   (* = what the first store serves now *)
         | None => true end
    | None => negb ok
    end
  end.

Definition fc_ok (c : cache_input) (o : option fcobs) : bool :=
  match o, c with
  | None, _ => true
  | Some (FC ok ans), Some (Some j) =>
    match fc_raw dec j with
    | Some raw =>
      ok && forallb (fun '(n, (g, gs)) =>
                       fcres_eqb g (fc_get raw n)
                       && forallb (fun '(old, r) => fcres_eqb r (fc_get_if_changed raw n old)) gs) ans
    | None => negb ok
    end
  | Some (FC ok _), Some None => negb ok     (* content that does not parse: NewFileClient reports an error *)
  | Some _, None => false
  end.

Fixpoint run_steps (names : list name) (age : Z) (probe : list name)
                   (s : store bytes) (c : cache_input) (clean alive : bool)
                   (steps : list (ev bytes * bool * sobs))
                   (k : store bytes -> cache_input -> bool -> bool -> bool) : bool :=
  match steps with
  | [] => k s c clean alive
  | (e, wok, SO r w rs fc) :: rest =>
    let '(s', fx, r', alive') := step_alive alive s e in
    let c' := next_cin c w wok in
    let clean' := match fx with [] => clean | _ => wok end in
    let now := match e with ELookup _ _ t => t | ERead _ t => t | EPoll t _ => (t / 1000000000)%Z | EClose => 0%Z end in
    res_eqb r r' && written_ok fx w
    && restart_ok c' names age now probe (if clean' then Some s' else None) rs
    && fc_ok c' fc
    && run_steps names age probe s' c' clean' alive' rest k
  end.

(* rfail: Cache.Read failed at construction (the content `cin` exists but was not seen) *)
Definition check_hist (rfail : bool) (cin : cache_input) (names : list name) (allow : bool) (age : Z)
                      (init_ans : list (name * option (N * bytes))) (now0 : Z) (probe : list name)
                      (cons_ok : bool) (cons_reqs : list name) (cons_wok : bool) (cobs : sobs)
                      (steps : list (ev bytes * bool * sobs))
                      (k : store bytes -> cache_input -> bool -> bool -> bool) : bool :=
  let seen : cache_input := if rfail then None else cin in
  match new_store (decode_in seen) names allow age (assoc_ans init_ans) now0 with
  | None => negb cons_ok
  | Some (s, fx, reqs) =>
    let '(SO _ w rs fc) := cobs in
    let c' := next_cin cin w cons_wok in
    (* "clean": the cache content corresponds to the state (usable cache or a successful write) *)
    let clean := match fx with
                 | [] => match usable dec seen with Some _ => true | None => negb rfail && match m s with [] => true | _ => false end end
                 | _ => cons_wok end in
    cons_ok && list_beq neqb cons_reqs reqs && written_ok fx w
    && restart_ok c' names age now0 probe (if clean then Some s else None) rs
    && fc_ok c' fc
    && run_steps names age probe s c' clean true steps k
  end.

(* ---- a block of CONCURRENT calls (harness: the first call's Cache.Write is held on a gate while the
   others are started, then released).  Every call's install + cache write is one locked step, so
   whatever the interleaving, the documents must have reached the cache in the order of SOME
   serialization of the calls, each being the document of the state right after its step. *)
Fixpoint insert_all {A} (x : A) (l : list A) : list (list A) :=
  match l with
  | [] => [[x]]
  | y :: r => (x :: l) :: map (cons y) (insert_all x r)
  end.
Fixpoint perms {A} (l : list A) : list (list A) :=
  match l with
  | [] => [[]]
  | x :: r => flat_map (insert_all x) (perms r)
  end.

Fixpoint run_serial (s : store bytes) (alive : bool) (es : list (ev bytes)) : store bytes * bool * list (list (doc_entry bytes)) :=
  match es with
  | [] => (s, alive, [])
  | e :: r =>
    let '(s', fx, _, alive') := step_alive alive s e in
    let '(sf, af, ds) := run_serial s' alive' r in
    (sf, af, (match fx with [Flush d] => [d] | _ => [] end) ++ ds)
  end.

Definition bytes_served_eqb (a b : list (name * option bytes)) : bool :=
  list_beq (fun x y => neqb (fst x) (fst y) && option_beq neqb (snd x) (snd y)) a b.

Definition check_conc (names : list name) (age now : Z) (probe : list name)
                      (evs : list (ev bytes)) (writes : list json) (rs : option restart) (fc : option fcobs)
                      (served1 : list (name * option bytes))
                      (s : store bytes) (c : cache_input) (clean alive : bool) : bool :=
  existsb (fun es =>
             let '(sf, _, ds) := run_serial s alive es in
             let c' := match rev writes with t :: _ => Some (Some t) | [] => c end in
             let clean' := match writes with [] => clean | _ => true end in
             list_beq jmatch writes (map (encode_cache enc) ds)
             && restart_ok c' names age now probe (if clean' then Some sf else None) rs
             && fc_ok c' fc
             && bytes_served_eqb served1 (map (fun n => (n, option_map snd (served (m sf) n))) probe))
          (perms evs).

(* after a history with slow writes: every document landed, in the order offered; the content at
   rest is the last one; restart and file client from it agree with the final state *)
Definition check_slow (names : list name) (age : Z) (probe : list name)
                      (offered landed : list json) (rs : option restart) (fc : option fcobs)
                      (s : store bytes) (c : cache_input) (clean alive : bool) : bool :=
  list_beq jeq offered landed
  && match rev landed, c with
     | t :: _, Some (Some t') => jeq t t'
     | [], _ => true
     | _, _ => false
     end
  && restart_ok c names age 0%Z probe (if clean then Some s else None) rs
  && fc_ok c fc.

(* ---- a failed start in the middle.  The model: a start that cannot obtain every declared name
   performs NO cache write.  Tolerated as well (the property allows it): complete valid documents
   that keep everything the cache held and add only values the service really gave. *)
Definition acceptable_progress (loaded : @smap name (option (centry bytes))) (ans2 : list (name * option (N * bytes))) (t : json) : bool :=
  match decode_cache dec t with
  | Some d =>
    cache_valid d
    && forallb (fun '(k, e) => match e with
                               | Some (Some (v, b), _) =>
                                 sv_eqb (served loaded k) (Some (v, b)) || sv_eqb (assoc_ans ans2 k) (Some (v, b))
                               | _ => false end) d
    && forallb (fun '(k, oe) => match oe with
                                | Some e => match find k d with
                                            | Some (Some (Some (v, b), _)) => (v =? ver e)%N && neqb b (val e)
                                            | _ => false end
                                | None => true end) loaded
  | None => false
  end.

Definition check_life (names : list name) (age : Z) (probe : list name)
                      (names2 : list name) (ans2 : list (name * option (N * bytes))) (now2 : Z)
                      (ok2 : bool) (writes2 : list json) (rs : option restart) (fc : option fcobs)
                      (s : store bytes) (c : cache_input) (clean alive : bool) : bool :=
  match new_store (decode_in c) names2 true age (assoc_ans ans2) now2 with
  | Some _ => false                       (* the generated second start is one that cannot succeed *)
  | None =>
    let loaded := load_cache (decode_in c) in
    let c2 := match rev writes2 with t :: _ => Some (Some t) | [] => c end in
    negb ok2
    && forallb (acceptable_progress loaded ans2) writes2
    && clean
    && restart_ok c2 names age now2 probe None rs            (* run 3: 0 requests, serves what the content says ... *)
    && match new_store (decode_in c2) names true age (fun _ => None) now2 with
       | Some (s3, _, _) =>                                   (* ... which includes everything run 1 left *)
         forallb (fun '(k, _) => sv_eqb (served (m s3) k) (served (m s) k)) (m s)
       | None => false
       end
    && fc_ok c2 fc
  end.

Definition check_retain (kept : list (json * cache_input))
                        (s : store bytes) (c : cache_input) (clean alive : bool) : bool :=
  forallb (fun '(t, now) => match now with Some (Some t') => jeq t t' | _ => false end) kept.

End Check.

(* ---- the file-system model of C04 (Server/FS.v) applied to the cache file: constructors under
   names that do not clash with the store model's *)
Notation xop := (Setec.Server.FS.op N).
Definition XLive := Setec.Server.FS.Live.
Definition XTmp := Setec.Server.FS.Tmp.
Definition XOther := Setec.Server.FS.Other.
Definition XStat : Setec.Server.FS.path -> xop := @Setec.Server.FS.Stat N.
Definition XCreateExcl : N -> Setec.Server.FS.path -> N -> xop := @Setec.Server.FS.CreateExcl N.
Definition XOpenW : N -> Setec.Server.FS.path -> bool -> xop := @Setec.Server.FS.OpenW N.
Definition XWrite : N -> list N -> xop := @Setec.Server.FS.Write N.
Definition XChmod : N -> N -> xop := @Setec.Server.FS.Chmod N.
Definition XTrunc : N -> xop := @Setec.Server.FS.Trunc N.
Definition XFsync : N -> xop := @Setec.Server.FS.Fsync N.
Definition XClose : N -> xop := @Setec.Server.FS.Close N.
Definition XRename : Setec.Server.FS.path -> Setec.Server.FS.path -> xop := @Setec.Server.FS.Rename N.
Definition XUnlink : Setec.Server.FS.path -> xop := @Setec.Server.FS.Unlink N.
Definition XUnknown : Setec.Server.FS.path -> xop := @Setec.Server.FS.Unknown N.

Definition check (c : case) : bool :=
  match c with
  | CHist tbl rfail cin names allow age ia now0 probe cok creqs cwok cobs steps =>
    check_hist tbl rfail cin names allow age ia now0 probe cok creqs cwok cobs steps (fun _ _ _ _ => true)
  | CConc (CHist tbl rfail cin names allow age ia now0 probe cok creqs cwok cobs steps) now evs writes rs fc served1 =>
    check_hist tbl rfail cin names allow age ia now0 probe cok creqs cwok cobs steps
               (check_conc tbl names age now probe evs writes rs fc served1)
  | CConc _ _ _ _ _ _ _ => false
  | CSlow (CHist tbl rfail cin names allow age ia now0 probe cok creqs cwok cobs steps) offered landed rs fc =>
    check_hist tbl rfail cin names allow age ia now0 probe cok creqs cwok cobs steps
               (check_slow tbl names age probe offered landed rs fc)
  | CSlow _ _ _ _ _ => false
  | CLife (CHist tbl rfail cin names allow age ia now0 probe cok creqs cwok cobs steps) names2 ans2 now2 ok2 writes2 rs fc =>
    check_hist tbl rfail cin names allow age ia now0 probe cok creqs cwok cobs steps
               (check_life tbl names age probe names2 ans2 now2 ok2 writes2 rs fc)
  | CLife _ _ _ _ _ _ _ _ => false
  | CRetain (CHist tbl rfail cin names allow age ia now0 probe cok creqs cwok cobs steps) kept =>
    check_hist tbl rfail cin names allow age ia now0 probe cok creqs cwok cobs steps (check_retain kept)
  | CRetain _ _ => false
  | CFc tbl cin fc => fc_ok tbl cin (Some fc)
  | CTrace expect_ok t => if expect_ok then atomic_write_ok t else failed_write_ok t
  | CInject panicked content t => negb panicked && ((content =? 0)%N || (content =? 1)%N) && failed_write_ok t
  | CFs old new tr => Setec.Server.FS.atomic_replace_ok N.eqb old new tr
  end.
