(* Correspondence for C14: a concurrent history recorded from real goroutines calling
   the real db.DB (directly or through the HTTP handlers), stamped by one global atomic
   counter, plus the final sequential dump, is decided by the verified checker. *)
From Coq Require Import List Bool NArith.
Import ListNotations.
From Setec Require Import Base.SMap Acl.Glob Server.KV Server.DB Server.Lin Server.LinDB Corr.Common Corr.Run_DB.
Open Scope N_scope.

(* one segment of a run between two quiescent points: the dump (file with counters, write
   generation) before the segment, the stamped calls, the dump after it *)
Inductive case :=
| LCase (cs : list caller) (d0 : disk_dump) (g0 : N) (calls : list lcall) (live : live_dump) (disk : disk_dump) (g : N).

Definition check (c : case) : bool :=
  match c with LCase cs d0 g0 calls live disk g => db_lin_check cs (state_of_dump d0 g0) live disk g calls end.

(* compact constructor used by the generated case files:
   invocation stamp, response stamp, caller index, operation, observed result *)
Definition LC (i r : N) (c : nat) (o : op V) (res : result V) : lcall :=
  {| inv := i; rsp := r; cop := (c, true, o); cres := res |}.
(* the same for a call made while the state directory was unreachable (a refused save) *)
Definition LCf (i r : N) (c : nat) (o : op V) (res : result V) : lcall :=
  {| inv := i; rsp := r; cop := (c, false, o); cres := res |}.
