(* Correspondence for C15: the trace recorded from the real setec.Store / setec.Updater (driven inside
   a testing/synctest bubble against a scripted service) is replayed on the model Client/Updater.v
   (which runs on the shared store model Client/Store.v) and every observable the property talks
   about is compared: what each Get returned (which build, Err afterwards), every builder call
   with the bytes it received and in which order per updater, every Close call per value, the
   outcome of NewUpdater, whether a lookup request was sent, and the names a poll requested.
   Late flights (F8): a caller that passed the unknown-name check and is held in the window before the
   flight (TLateBegin), the flight's locked part when it is released (TLate / TLateNew, replayed as
   Updater.ELate = Store.lookup_finish), and what the store serves for a name (TRead).
   No proofs here. *)
From Coq Require Import List Bool NArith ZArith.
Import ListNotations.
From Setec Require Import Base.SMap Client.Store Client.Updater Corr.Common.

Definition V := N.

(* what the harness saw, flattened in the order it happened *)
Inductive titem :=
| TSnap                                             (* a Refresh has taken its snapshot and is blocked at the service *)
| TPoll (ans : list (name * N * resp V)) (cls : N) (nw : N) (wfail : bool)
       (* ... the service answered; the poll finished.  cls = what Refresh returned: 0 no error, 1 the poll
          failed, 2 the cache's write error.  nw = Cache.Write calls made by the apply phase; wfail = the
          cache (an input) refused that write *)
| TRefresh (ans : list (name * N * resp V)) (cls : N) (nw : N) (wfail : bool)
       (* a whole Refresh; ans: name, the version the client said it has, the answer *)
| TNew (n : name) (closer : bool) (look : option (option (N * V)))
       (* NewUpdater called; look: None = no request sent, Some None = request failed, Some (Some (v,b)) = answered *)
| TNewDone (ok : bool)                              (* NewUpdater returned *)
| TGet (i : nat)                                    (* Get called on updater i *)
| TBuilt (i : nat) (ok : bool)                      (* the builder of updater i returned *)
| TGot (i : nat) (k : nat) (err : bool)             (* Get returned the value of build k; Err() afterwards *)
| TErr (i : nat) (err : bool)
| TLook (n : name) (look : option (option (N * V))) (ok : bool)
       (* LookupSecret(n) by an undisturbed caller; look as for TNew; ok = a handle was returned *)
| TLateBegin (n : name)
       (* a caller of LookupSecret / NewUpdater found n unknown with lookups allowed and is held in the
          window before it joins or starts a flight *)
| TLate (n : name) (look : option (option (N * V))) (ok : bool)
       (* the held LookupSecret caller was released and returned; look = None: it sent no request *)
| TLateNew (n : name) (closer : bool) (look : option (option (N * V)))
       (* the held NewUpdater caller was released: flight, then registration and first read *)
| TRead (n : name) (tok : option V).
       (* Store.Secret(n): None = nil / panic, Some b = the bytes the handle returned *)

Inductive case :=
| Case15 (allow : bool) (init : list (name * N * V)) (tr : list titem)
         (blog : list (nat * nat * V * bool)) (closes : list (list nat)).

Definition init_store (allow : bool) (init : list (name * N * V)) : store V :=
  ST (fold_left (fun mm '(n, v, b) => upd n (Some (CE v b 0%Z true)) mm) init []) [] [] allow 0%Z.

Definition ans_fun (ans : list (name * N * resp V)) (n : name) (_ : N) : resp V :=
  match List.find (fun '(n', _, _) => neqb n' n) ans with
  | Some (_, _, r) => r
  | None => RErr
  end.

Record drv := D { ds : ustate V; dsnap : option (list (snap_entry)); dnew : list (option nat); dok : bool }.
(* dnew: the NewUpdater calls in progress, innermost first (a builder may itself call NewUpdater): Some i = registered as
   updater i (its builder will run), None = refused *)

Definition fail (d : drv) : drv := D (ds d) (dsnap d) (dnew d) false.

Definition req_beq (a b : name * N) : bool := bytes_beq (fst a) (fst b) && N.eqb (snd a) (snd b).
(* the poll asks for exactly the names the model's snapshot has, each with the version the model's store holds *)
Definition do_poll (d : drv) (snap : list snap_entry) (ans : list (name * N * resp V)) (cls nw : N) (wfail : bool) : drv :=
  if negb (list_beq req_beq (requests snap) (map fst ans)) then fail d
  else match poll snap (ans_fun ans) with
       | None => if (cls =? 1)%N && (nw =? 0)%N then D (ds d) None (dnew d) (dok d) else fail d
       | Some ups =>
           (* installs + notifications happen whatever the cache answers; the flush is attempted once
              iff there was something to apply; its failure is what Refresh reports *)
           let '(s', o) := step (ds d) (EApply ups (negb wfail)) in
           let want_nw := N.of_nat (length (snd (apply_updates (st (ds d)) ups))) in
           let want_cls := match o with OOk => 0%N | _ => 2%N end in
           if (cls =? want_cls)%N && (nw =? want_nw)%N then D s' None (dnew d) (dok d) else fail d
       end.

Definition is_out_ok (o : out) : bool := match o with OOk => true | _ => false end.

Definition titem_step (d : drv) (t : titem) : drv :=
  let s := ds d in
  match t with
  | TSnap => D s (Some (snapshot (st s) 0%Z)) (dnew d) (dok d)
  | TPoll ans cls nw wf => match dsnap d with Some snap => do_poll d snap ans cls nw wf | None => fail d end
  | TRefresh ans cls nw wf => do_poll d (snapshot (st s) 0%Z) ans cls nw wf
  | TNew n cl look =>
      let unknown := negb (known (st s) n) in
      let wants := unknown && allow (st s) in
      match look with
      | None => if wants then fail d
                else let '(s1, o) := step s (EReg n cl) in
                     if is_out_ok o then let '(s2, o2) := step s1 (ERead (length (us s)) 0%Z) in
                                         D s2 (dsnap d) (Some (length (us s)) :: dnew d) (dok d)
                     else D s1 (dsnap d) (None :: dnew d) (dok d)
      | Some None => if wants then D s (dsnap d) (None :: dnew d) (dok d) else fail d
      | Some (Some (v, b)) =>
          if wants then
            let '(s0, _) := step s (ELookup n v b 0%Z) in
            let '(s1, o) := step s0 (EReg n cl) in
            if is_out_ok o then let '(s2, o2) := step s1 (ERead (length (us s)) 0%Z) in
                                D s2 (dsnap d) (Some (length (us s)) :: dnew d) (dok d)
            else fail d
          else fail d
      end
  | TNewDone ok =>
      match dnew d with
      | None :: r => if ok then fail d else D s (dsnap d) r (dok d)
      | Some i :: r =>
          (* the builder must have run: that updater is live iff NewUpdater succeeded *)
          match nth_error (us s) i with
          | Some u => match uph u, ok with
                      | PLive, true | PDead, false => D s (dsnap d) r (dok d)
                      | _, _ => fail d
                      end
          | None => fail d
          end
      | [] => fail d
      end
  | TGet i =>
      let '(s1, o) := step s (EGetBegin i 0%Z) in
      match o with OStuck => fail d | _ => D s1 (dsnap d) (dnew d) (dok d) end
  | TBuilt i ok =>
      match nth_error (us s) i with
      | Some u =>
          let '(s1, o) := step s (match uph u with PInit => EBuilt i ok | _ => EGetEnd i ok end) in
          match o with OStuck => fail d | _ => D s1 (dsnap d) (dnew d) (dok d) end
      | None => fail d
      end
  | TGot i k err =>
      match nth_error (us s) i with
      | Some u => match uph u, upend u with
                  | PLive, None => if Nat.eqb (ucur u) k && Bool.eqb (uerr u) err then d else fail d
                  | _, _ => fail d
                  end
      | None => fail d
      end
  | TErr i err =>
      match step s (EErr i) with
      | (_, OErr e) => if Bool.eqb e err then d else fail d
      | _ => fail d
      end
  | TLook n look ok =>
      let wants := negb (known (st s) n) && allow (st s) in
      match look with
      | None => if wants then fail d
                else let '(s1, o) := step s (ELookup n 0%N 0%N 0%Z) in   (* known: handle; refused: error; no install *)
                     if Bool.eqb (is_out_ok o) ok then D s1 (dsnap d) (dnew d) (dok d) else fail d
      | Some None => if wants && negb ok then d else fail d
      | Some (Some (v, b)) =>
          if wants && ok then D (fst (step s (ELookup n v b 0%Z))) (dsnap d) (dnew d) (dok d) else fail d
      end
  | TLateBegin n => if negb (known (st s) n) && allow (st s) then d else fail d
  | TLate n look ok =>
      match look with
      | None => (* no request although the caller had found the name unknown: only acceptable if the name
                   is known by now (an implementation that re-checks); then it is the plain handle *)
          if known (st s) n && ok then D (fst (step s (ELookup n 0%N 0%N 0%Z))) (dsnap d) (dnew d) (dok d) else fail d
      | Some ans =>
          let '(s1, o) := step s (ELate n ans 0%Z) in
          if Bool.eqb (is_out_ok o) ok then D s1 (dsnap d) (dnew d) (dok d) else fail d
      end
  | TLateNew n cl look =>
      let reg (s0 : ustate V) :=
        let '(s1, o) := step s0 (EReg n cl) in
        if is_out_ok o then let '(s2, o2) := step s1 (ERead (length (us s0)) 0%Z) in
                            D s2 (dsnap d) (Some (length (us s0)) :: dnew d) (dok d)
        else fail d in
      match look with
      | None => if known (st s) n then reg s else fail d
      | Some None => D s (dsnap d) (None :: dnew d) (dok d)
      | Some (Some (v, b)) => reg (fst (step s (ELate n (Some (v, b)) 0%Z)))
      end
  | TRead n tok =>
      match entry (st s) n, tok with
      | Some e, Some b =>
          if N.eqb (val e) b then D (US (fst (secret_locked (st s) n)) (us s) (Updater.blog s)) (dsnap d) (dnew d) (dok d)
          else fail d
      | None, None => d
      | _, _ => fail d
      end
  end.

Definition brec_beq (a b : nat * nat * V * bool) : bool :=
  let '(i, k, x, ok) := a in let '(i', k', x', ok') := b in
  Nat.eqb i i' && Nat.eqb k k' && N.eqb x x' && Bool.eqb ok ok'.

Fixpoint closes_ok (usl : list (updater V)) (closes : list (list nat)) : bool :=
  match usl, closes with
  | [], [] => true
  | u :: r, c :: rc => list_beq Nat.eqb (rev (uclosed u)) c && closes_ok r rc
  | _, _ => false
  end.

Definition check (c : case) : bool :=
  match c with
  | Case15 allow init tr blog closes =>
      let d := fold_left titem_step tr (D (US (init_store allow init) [] []) None [] true) in
      dok d
      && match dnew d with [] => true | _ => false end
      && list_beq brec_beq (Updater.blog (ds d)) blog
      && closes_ok (us (ds d)) closes
  end.
