(* Correspondence for C16: (1) the four entry points on known / unknown names with lookups on / off,
   (2) concurrent lookups of one undeclared name under testing/synctest virtual time, against the
   models of Client/Lookup.v evaluated in the kernel.  No proofs here. *)
From Coq Require Import List Bool NArith ZArith.
Import ListNotations.
From Setec Require Import Base.SMap Client.Store Client.Lookup Corr.Common.
From Setec Require Server.DB Server.Http.
Open Scope N_scope.

Definition V := N.

(* what a call did: class (0 handle, 1 nil, 2 panic, 3 refused "lookup is not enabled"/other error,
   4 handle after a fetch), number of requests the service saw during the call, and the value token
   read through the handle (0 when there is none) *)
(* what the scripted HTTP transport does with a request: answer after [delay] ms with [status] and either a
   JSON api.SecretValue (Some (version, bytes)) or some other body; or hang until the request's context ends *)
Inductive hscript := HResp (delay : N) (status : N) (body : option (N * V)) | HHang.

(* what setec.Client makes of the response: client.go's status -> sentinel map, as modelled (and proved
   against the server's error -> status map) in Server/Http.v *)
Definition cres_of (status : N) (body : option (N * V)) : Http.cres V :=
  Http.client_of_response
    (Http.Build_response status match body with Some (v, b) => Http.BodyResult (DB.RVal v b) | None => Http.BodyConst end).

(* ... and what that is for a lookup: only a decoded value is an answer, every sentinel or other error
   (incl. "not changed" and an undecodable 200) is a failure reported to the callers *)
Definition svc_of_http (h : hscript) : svc V :=
  match h with
  | HHang => SHang
  | HResp d st body => match cres_of st body with
                       | Http.CResult (DB.RVal v b) => SAns d v b
                       | _ => SFail d
                       end
  end.

(* ... and for a poll's conditional get *)
Definition resp_of_http (h : hscript) : resp V :=
  match h with
  | HHang => RErr
  | HResp _ st body => match cres_of st body with
                       | Http.CResult (DB.RVal v b) => RValue v b
                       | Http.CNotChanged => RNotChanged
                       | _ => RErr
                       end
  end.
Definition delay_of (h : hscript) : N := match h with HResp d _ _ => d | HHang => 0 end.

Inductive case :=
| CPolicy (allow : bool) (decl : list (name * N * V)) (ep : N) (n : name) (svc_has : option (N * V))
          (cls : N) (nreq : N) (tok : V)
          (wfail : bool)                            (* INPUT: the cache refuses every write made by the call *)
          (a_secret : bool) (nreq2 : N) (a_polled a_cached : bool) (bump_tok after_tok : V)
          (* afterwards: Secret(n) is a live handle; requests sent by one more LookupSecret(n); the next
             Refresh asked about n; the cache's contents include n.  Before that Refresh the service
             activated a new version carrying bump_tok; after_tok: what the handle / Updater handed out by the
             call then serves (0: none) *)
| CFlight (decl : list (name * N * V)) (n : name) (callers : list caller) (scripts : list (svc V)) (wins : list nat)
          (obs_done : list (N * N * V))            (* per caller, by index: class, instant, token *)
          (obs_log : list mark) (maxconc : N)
          (after_secret after_polled after_cached : bool)
          (solo : bool)                             (* no other name was looked up in the same store *)
          (fl_seen fl_ok : bool) (fl_tok : V) (fl_cached : bool)
          (* the first Cache.Write whose document contains n: happened; the cache's answer (INPUT);
             the bytes the document carries for n; whether the cache's contents included n right after *)
          (a_req : bool)                            (* one more LookupSecret(n) afterwards sent a request *)
          (eps : list N) (bump_tok : V) (obs_after : list V)
          (* per caller its entry point (1 LookupSecret, 2 NewUpdater, 3 Apply); AFTERWARDS the service activates
             a new version carrying bump_tok and a poll follows; obs_after: what each caller's handle /
             Updater.Get then serves (0: the caller got nothing) *)
| CFlightH (decl : list (name * N * V)) (n : name) (callers : list caller) (hscripts : list hscript) (wins : list nat)
           (obs_done : list (N * N * V)) (obs_log : list mark) (maxconc : N)
           (after_secret after_polled after_cached : bool) (solo : bool)
           (fl_seen fl_ok : bool) (fl_tok : V) (fl_cached : bool) (a_req : bool)
           (eps : list N) (bump_tok : V) (obs_after : list V)
           (* as CFlight, but the store talks to the service through the REAL network client setec.Client
              (client/setec/client.go) over a scripted HTTP transport: the scripts are HTTP responses *)
| CPollH (decl : list (name * N * V)) (ans : list (name * hscript))
         (cls : N) (nreqs : list (name * N)) (dur : N) (vals : list (name * V))
         (* one Refresh through the real client: per requested name the HTTP answer to its conditional
            get; observed: Refresh's result (0 ok, 1 error), requests per name, virtual duration, the
            bytes each name serves afterwards *)
| CLate (decl : list (name * N * V)) (n : name) (first second : option (N * V)) (held : bool)
        (b_cls : N) (b_tok : V) (a_cls : N) (a_tok : V) (a_nreq : N) (served : V) (polled_ver : N).
        (* an overtaken flight (F8): caller A is held between its unknown-name check and its flight; B (if
           first <> None) completes a lookup answered `first`; A is released, its request is answered
           `second`.  classes as for CPolicy; a_nreq = requests during A's release; served = token
           Secret(n).Get() serves afterwards; polled_ver = the version the next poll asks about *)

Definition init_store (allow : bool) (init : list (name * N * V)) : store V :=
  ST (fold_left (fun mm '(n, v, b) => SMap.upd n (Some (CE v b 0%Z true)) mm) init []) [] [] allow 0%Z.

Definition ep_of (k : N) : entry_point :=
  match k with 0 => EPSecret | 1 => EPLookup | 2 => EPUpdater | _ => EPApply end.

Definition val_of (s : store V) (n : name) : V := match entry s n with Some e => val e | None => 0 end.
Definition ver_of (s : store V) (n : name) : N := match entry s n with Some e => ver e | None => 0 end.

Definition in_names (n : name) (l : list name) : bool := existsb (neqb n) l.

Definition check_policy allow decl ep n (svc_has : option (N * V)) cls nreq tok
           (wfail a_secret : bool) (nreq2 : N) (a_polled a_cached : bool) (bump_tok after_tok : V) : bool :=
  let s := init_store allow decl in
  (* the store after the call: only a successful fetch changes the map (a handle may be created) *)
  let fetched := match policy s (ep_of ep) n, svc_has with PFetch, Some _ => true | _, _ => false end in
  let s' := match policy s (ep_of ep) n, svc_has with
            | PFetch, Some (v, b) => fst (lookup_finish s n v b 0%Z)
            | PHandle, _ => fst (secret_locked s n)
            | _, _ => s
            end in
  match policy s (ep_of ep) n with
  | PHandle => (cls =? 0) && (nreq =? 0) && (tok =? val_of s n)
  | PNil => (cls =? 1) && (nreq =? 0)
  | PPanic => (cls =? 2) && (nreq =? 0)
  | PGateErr => (cls =? 3) && (nreq =? 0)
  | PFetch => match svc_has with
              | Some (v, b) => (cls =? 4) && (nreq =? 1) && (tok =? b)   (* whatever the cache answers *)
              | None => (cls =? 3) && (nreq =? 1)      (* not found at the service: reported, nothing else *)
              end
  end
  && Bool.eqb a_secret (known s' n)
  && (nreq2 =? (if sends_request (policy s' EPLookup n) then 1 else 0))
  && Bool.eqb a_polled (in_names n (map fst (requests (snapshot s' 0%Z))))
  (* the cache holds the construction-time document, and the lookup's iff it was accepted *)
  && Bool.eqb a_cached (in_names n (map fst (doc s)) || (fetched && negb wfail && in_names n (map fst (doc s'))))
  (* afterwards the service activates a new version and a poll applies it: what the call handed out - a handle,
     or an Updater whose watcher lookupWatcher registered (Store.add_watcher) on whichever path the name became
     known: declared, or looked up by this very registration - serves the new bytes *)
  && (let got := match policy s (ep_of ep) n, svc_has with PHandle, _ => true | PFetch, Some _ => true | _, _ => false end in
      if got && known s' n then
        let s1 := if ep =? 2 then fst (add_watcher s' n) else s' in
        let s2 := fst (apply_updates s1 [(n, Install (ver_of s' n + 1) bump_tok)]) in
        forallb (fun w => wflag w) (ws s2) && (after_tok =? val_of s2 n)
      else after_tok =? 0).

(* result classes of a flight caller: 0 handle, 1 service error, 2 own deadline, 3 own cancellation *)
Definition cls_of (r : res) : N :=
  match r with RHandle => 0 | RSvcErr => 1 | ROwn KDeadline => 2 | ROwn KCanceled => 3 end.

Fixpoint find_done (i : nat) (d : list (nat * res * N)) : option (res * N) :=
  match d with
  | [] => None
  | (j, r, t) :: rest => if Nat.eqb i j then Some (r, t) else find_done i rest
  end.

Fixpoint done_ok (s : store V) (n : name) (d : list (nat * res * N)) (i : nat) (obs : list (N * N * V)) : bool :=
  match obs with
  | [] => true
  | (c, t, tok) :: rest =>
      match find_done i d with
      | Some (r, t') => (cls_of r =? c) && (t' =? t)
                        && (match r with RHandle => tok =? val_of s n | _ => true end)
      | None => false
      end && done_ok s n d (S i) rest
  end.

Definition rout_beq (a b : rout) : bool :=
  match a, b with OAnswered, OAnswered | OFailed, OFailed | OCtx, OCtx => true | _, _ => false end.
Definition mark_beq (a b : mark) : bool :=
  match a, b with
  | MStart o t, MStart o' t' => Nat.eqb o o' && (t =? t')
  | MEnd o t r, MEnd o' t' r' => Nat.eqb o o' && (t =? t') && rout_beq r r'
  | _, _ => false
  end.


Definition check_late decl n (first second : option (N * V)) (held : bool) b_cls b_tok a_cls a_tok a_nreq served polled_ver : bool :=
  let s0 := init_store true decl in
  held && negb (known s0 n) &&
  (* B is an undisturbed caller: check and flight in one go, on a name that is unknown *)
  let s1 := match first with
            | Some (v, b) => fst (lookup_finish s0 n v b 0%Z)
            | None => s0
            end in
  (match first with Some (v, b) => (b_cls =? 0) && (b_tok =? b) | None => true end) &&
  (* A's flight: one request, then the locked part in whatever state the store is by now *)
  match second with
  | Some (v, b) =>
      let s2 := fst (lookup_finish s1 n v b 0%Z) in
      (a_cls =? 0) && (a_nreq =? 1) && (a_tok =? val_of s2 n) && (served =? val_of s2 n) && (polled_ver =? ver_of s2 n)
      && in_names n (map fst (requests (snapshot s2 0%Z)))
  | None => false
  end.

(* AFTERWARDS.  Every caller that left with a handle keeps it; every NewUpdater caller that succeeded has a watcher
   registered by lookupWatcher (Store.add_watcher, after the lookup - on whichever entry ended up installed:
   by an earlier lookup, by this very registration's flight, or by the flight of another caller it joined).
   Then the service activates a new version and a poll applies it (Store.apply_updates: install, then notify
   every watcher of the name).  A handle reads the store; an Updater rebuilds iff its watcher's slot is full. *)
Fixpoint updaters_of (eps : list N) (d : list (nat * res * N)) : list nat :=
  match d with
  | [] => []
  | (i, RHandle, _) :: r => if nth i eps 0 =? 2 then i :: updaters_of eps r else updaters_of eps r
  | _ :: r => updaters_of eps r
  end.
Fixpoint index_of (i : nat) (l : list nat) (k : nat) : option nat :=
  match l with [] => None | x :: r => if Nat.eqb i x then Some k else index_of i r (S k) end.
Fixpoint after_ok (st st2 : store V) (n : name) (d : list (nat * res * N)) (eps : list N) (ups : list nat)
         (i : nat) (obs : list V) : bool :=
  match obs with
  | [] => true
  | tok :: rest =>
      (match find_done i d with
       | Some (RHandle, _) =>
           if nth i eps 0 =? 2
           then match index_of i ups 0 with
                | Some k => tok =? (if match nth_error (ws st2) k with Some w => wflag w | None => false end
                                    then val_of st2 n else val_of st n)
                | None => false
                end
           else tok =? val_of st2 n
       | _ => tok =? 0
       end) && after_ok st st2 n d eps ups (S i) rest
  end.
Definition check_after (st : store V) (n : name) (d : list (nat * res * N)) (eps : list N) (bump_tok : V) (obs_after : list V) : bool :=
  let ups := updaters_of eps d in
  let st1 := fold_left (fun s _ => fst (add_watcher s n)) ups st in
  let st2 := if known st n then fst (apply_updates st1 [(n, Install (ver_of st n + 1) bump_tok)]) else st1 in
  Nat.eqb (length obs_after) (length eps)
  && (negb (known st n) || forallb (fun w => wflag w) (ws st2))   (* the model wakes every registered watcher *)
  && after_ok st st2 n d eps ups 0 obs_after.

Definition check_flight decl n callers scr wn obs_done obs_log maxconc (a_secret a_polled a_cached solo fl_seen fl_ok : bool)
           (fl_tok : V) (fl_cached a_req : bool) (eps : list N) (bump_tok : V) (obs_after : list V) : bool :=
      (* the model WITH a cache; the cache's answer to the (only possible) install flush is an input *)
      match crun n (fuel_for callers) (cinit callers scr wn (init_store true decl) [fl_ok]) with
      | None => false
      | Some c =>
          let s := core c in
          let st := lst s in
          let landed_has := existsb (fun d => in_names n (map fst d)) (landed c) in
          (Nat.eqb (length obs_done) (length callers))
          && done_ok st n (done s) 0 obs_done
          && forallb (res_ok callers) (done s)
          && list_beq mark_beq (log s) obs_log
          && alternates false obs_log
          && forallb (end_ok callers) obs_log      (* no request outlives the context of the caller it was made for *)
          && (maxconc <=? 1)
          && Bool.eqb (known st n) a_secret
          && Bool.eqb (in_names n (map fst (requests (snapshot st 0%Z)))) a_polled
          (* exactly the model's documents were offered to the cache, carrying the installed bytes *)
          && Nat.eqb (length (offered c)) (if fl_seen then 1 else 0)
          && forallb (fun d => existsb (fun '(k, oe) => neqb k n && match oe with Some (_, b, _) => b =? fl_tok | None => false end) d)
                     (offered c)
          && (negb fl_seen || Bool.eqb fl_cached landed_has)
          (* at the end the cache has the name iff its document landed (a later flush of ANOTHER name's
             lookup may bring it along: then anything goes) *)
          && (if solo then Bool.eqb a_cached landed_has
              else if landed_has then a_cached else if known st n then true else negb a_cached)
          && Bool.eqb a_req (sends_request (policy st EPLookup n))
          && check_after st n (done s) eps bump_tok obs_after
      end.

(* one Refresh through the real client, against Store.refresh of the shared store model *)
Definition name_n_beq (a b : name * N) : bool := bytes_beq (fst a) (fst b) && (snd a =? snd b).
Definition check_pollh decl (ans : list (name * hscript)) (cls : N) (nreqs : list (name * N)) (dur : N) (vals : list (name * V)) : bool :=
  let s := init_store true decl in
  let reqs := requests (snapshot s 0%Z) in
  let script n := match List.find (fun '(n', _) => neqb n' n) ans with Some (_, h) => h | None => HHang end in
  let '(s', _, ok) := refresh s 0%Z (fun n _ => resp_of_http (script n)) in
  (* exactly ONE request per name of the snapshot - a slow answer is not asked for again *)
  list_beq name_n_beq (map (fun '(n, _) => (n, 1)) reqs) nreqs
  && (cls =? (if ok then 0 else 1))
  (* the requests are made one after the other: the poll lasts as long as the answers take *)
  && (dur =? fold_left N.add (map (fun '(n, _) => delay_of (script n)) reqs) 0)
  && forallb (fun '(n, tok) => tok =? val_of s' n) vals.

Definition check (c : case) : bool :=
  match c with
  | CLate decl n first second held b_cls b_tok a_cls a_tok a_nreq served polled_ver =>
      check_late decl n first second held b_cls b_tok a_cls a_tok a_nreq served polled_ver
  | CPolicy allow decl ep n svc_has cls nreq tok wfail a_secret nreq2 a_polled a_cached bump_tok after_tok =>
      check_policy allow decl ep n svc_has cls nreq tok wfail a_secret nreq2 a_polled a_cached bump_tok after_tok
  | CFlight decl n callers scr wn obs_done obs_log maxconc a_secret a_polled a_cached solo fl_seen fl_ok fl_tok fl_cached a_req eps bump_tok obs_after =>
      check_flight decl n callers scr wn obs_done obs_log maxconc a_secret a_polled a_cached solo fl_seen fl_ok fl_tok fl_cached a_req eps bump_tok obs_after
  | CFlightH decl n callers hscr wn obs_done obs_log maxconc a_secret a_polled a_cached solo fl_seen fl_ok fl_tok fl_cached a_req eps bump_tok obs_after =>
      (* the model is the same: the HTTP answers are mapped to what the service did by client.go's map *)
      check_flight decl n callers (map svc_of_http hscr) wn obs_done obs_log maxconc a_secret a_polled a_cached solo fl_seen fl_ok fl_tok fl_cached a_req eps bump_tok obs_after
  | CPollH decl ans cls nreqs dur vals => check_pollh decl ans cls nreqs dur vals
  end.
