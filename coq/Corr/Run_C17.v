(* Correspondence for C17: the real periodicBackup loop, driven in a virtual-time bubble
   against an in-memory object store that follows the scenario's script, is compared with
   Server/Backup.v on: the upload log (start instant, which file version the body is, whether
   the store acknowledged it) and the instant the task returned; the property's clause
   monitors are evaluated on the observed log as well. *)
From Coq Require Import List Bool NArith.
Import ListNotations.
From Setec Require Import Server.Backup Corr.Common.
Open Scope N_scope.

Inductive case :=
| Sc (ws : list N) (sc : list upl) (c : N)          (* the timeline *)
     (ups : list obs_upload)                        (* requests the store received *)
     (exit : option N)                              (* instant the task returned; None = it did not *)
     (final_gen : N) (racing : N).                  (* generation of the file at the end; writes made by the store side *)

Definition U (d : N) (ok : bool) (race : N) : upl := {| u_dur := d; u_ok := ok; u_race := race |}.

Definition obs_of (a : attempt) : obs_upload := (a_t a, a_gen a, a_ok a).

Definition upload_beq (x y : obs_upload) : bool :=
  let '(t, g, ok) := x in let '(t', g', ok') := y in (t =? t') && (g =? g') && Bool.eqb ok ok'.

Definition check (cs : case) : bool :=
  match cs with
  | Sc ws sc c ups ex fg racing =>
      match backup_run {| writes := ws; script := sc; cancel := c |} with
      | None => false
      | Some (its, x) =>
          list_beq upload_beq (map obs_of (attempts its)) ups
          && option_beq N.eqb (Some x) ex
          && mon_first ups && mon_rate ups && mon_change 0 ups && mon_snapshot ws racing ups
      end
  end.
