(* Correspondence for C17: the real periodicBackup loop, driven in a virtual-time bubble
   against an in-memory object store that follows the scenario's script, is compared with
   Server/Backup.v on: the upload log (start instant, which file version the body is, whether
   the store acknowledged it) and the instant the task returned; the property's clause
   monitors are evaluated on the observed log as well. *)
From Coq Require Import List Bool NArith.
Import ListNotations.
From Setec Require Import Server.Backup Corr.Common.
Open Scope N_scope.

Inductive case :=
| Sc (ws : list N)                                  (* instants of successful client writes *)
     (fs : list N)                                  (* instants of write attempts whose save failed *)
     (rs : list N)                                  (* instants of client reads (list, get, info) *)
     (sc : list upl) (c : N)                        (* the store's script, the cancellation instant *)
     (ups : list obs_upload)                        (* requests the store received *)
     (bids : list N)                                (* per request: identifier of the body's bytes (exact comparison) *)
     (exit : option N)                              (* instant the task returned; None = it did not *)
     (final_gen : N) (racing : N).                  (* WriteGen at the end; writes made by the store side *)

Definition timeline_of (ws fs rs : list N) (sc : list upl) (c : N) : timeline :=
  {| writes := map (fun w => (w, true)) ws ++ map (fun w => (w, false)) (fs ++ rs); script := sc; cancel := c |}.

Definition U (d : N) (ok : bool) (race : N) : upl := {| u_dur := d; u_ok := ok; u_race := race |}.

Definition obs_of (a : attempt) : obs_upload := (a_t a, a_gen a, a_ok a).

Definition upload_beq (x y : obs_upload) : bool :=
  let '(t, g, ok) := x in let '(t', g', ok') := y in (t =? t') && (g =? g') && Bool.eqb ok ok'.

Definition check (cs : case) : bool :=
  match cs with
  | Sc ws fs rs sc c ups bids ex fg racing =>
      match backup_run (timeline_of ws fs rs sc c) with
      | None => false
      | Some (its, x) =>
          list_beq upload_beq (map obs_of (attempts its)) ups
          && option_beq N.eqb (Some x) ex
          && mon_first ups && mon_rate ups && mon_change 0 ups && mon_snapshot ws racing ups
          (* two consecutive acknowledged uploads never carry identical bytes *)
          && Nat.eqb (length bids) (length ups)
          && mon_bytes None (combine (map (fun u : obs_upload => snd u) ups) bids)
          (* the generation moved exactly once per successful write: a failed save or a read
             does not advance it *)
          && (fg =? 1 + racing + N.of_nat (length ws))
      end
  end.
