(* Correspondence for C17: the real periodicBackup loop, driven in a virtual-time bubble
   against an in-memory object store that follows the scenario's script, is compared with
   Server/Backup.v on: the upload log (start instant, which file version the body is, whether
   the store acknowledged it) and the instant the task returned; the property's clause
   monitors are evaluated on the observed log as well. *)
From Coq Require Import List Bool NArith.
Import ListNotations.
From Setec Require Import Base.SMap Server.KV Server.Backup Corr.Common.
Open Scope N_scope.

Inductive case :=
| Sc (prior : list dbev)                            (* calls of an EARLIER lifetime on the same database file (the handle was
                                                       dropped and the file reopened with db.Open before the task started) *)
     (evs : list dbev)                              (* the clients' mutating calls in time order: instant, "a save can
                                                       succeed", call (put / activate / delete-version / delete) *)
     (rs : list N)                                  (* instants of client reads (list, get, info) *)
     (sc : list upl) (c : N)                        (* the store's script, the cancellation instant *)
     (ups : list obs_upload)                        (* requests the store received *)
     (bids : list N)                                (* per request: identifier of the body's bytes (exact comparison) *)
     (exit : option N)                              (* instant the task returned; None = it did not *)
     (final_gen : N) (racing : N)                   (* WriteGen at the end; writes made by the store side *)
     (final_bid : N)                                (* identifier of the bytes of the live file at the end (0 = never uploaded) *)
     (rf : list (N * N))                            (* intervals during which the database file could not be read (moved aside /
                                                       a directory in its place) *)
(* the task as started by the real server.New (bucket configured, the context given to New
   cancelled at c), observed in real time from outside: same observables, except that the
   instant the task returns cannot be seen - only that no request arrives after c *)
| ScW (prior evs : list dbev) (rs : list N) (c : N) (ups : list obs_upload) (bids : list N)
      (final_gen final_bid : N) (rf : list (N * N)).

(* which calls are writes is the MODEL's verdict: the store model is run over the calls *)
Definition timeline_of (prior evs : list dbev) (rs : list N) (sc : list upl) (c : N) (rf : list (N * N)) : timeline :=
  {| writes := fst (classify (snd (classify [] prior)) evs) ++ map (fun w => (w, false)) rs; script := sc; cancel := c;
     read_faults := rf |}.

Definition EPut (t : N) (ok : bool) (n : name) (v : N) : dbev := (t, ok, KPut n v).
Definition EAct (t : N) (ok : bool) (n : name) (v : N) : dbev := (t, ok, KSetActive n v).
Definition EDelV (t : N) (ok : bool) (n : name) (v : N) : dbev := (t, ok, KDelVer n v).
Definition EDel (t : N) (ok : bool) (n : name) : dbev := (t, ok, KDel n).

(* the bytes of the newest acknowledged upload *)
Definition last_acked_bid (ups : list obs_upload) (bids : list N) : N :=
  fold_left (fun acc (p : obs_upload * N) => if snd (fst p) then snd p else acc) (combine ups bids) 0.

Definition U (d : N) (ok : bool) (race : N) : upl := {| u_dur := d; u_ok := ok; u_race := race |}.

Definition obs_of (a : attempt) : obs_upload := (a_t a, a_gen a, a_ok a).

Definition upload_beq (x y : obs_upload) : bool :=
  let '(t, g, ok) := x in let '(t', g', ok') := y in (t =? t') && (g =? g') && Bool.eqb ok ok'.

Definition check_run (exit_seen : bool) (prior evs : list dbev) (rs : list N) (sc : list upl) (c : N)
           (ups : list obs_upload) (bids : list N) (ex : option N) (fg racing fbid : N) (rf : list (N * N)) : bool :=
  let tl := timeline_of prior evs rs sc c rf in
  let okw := ok_writes tl in
  match backup_run tl with
  | None => false
  | Some (its, x) =>
      list_beq upload_beq (map obs_of (sent its)) ups
      && (if exit_seen then option_beq N.eqb (Some x) ex else true)
      && (mon_first ups || read_fails rf 0) && mon_rate ups && mon_change 0 ups && mon_snapshot okw racing ups
      (* two consecutive acknowledged uploads never carry identical bytes *)
      && Nat.eqb (length bids) (length ups)
      && mon_bytes None (combine (map (fun u : obs_upload => snd u) ups) bids)
      (* the generation of THIS lifetime moved exactly once per write (as the store model
         classifies the calls, continuing from the state the earlier lifetime left) *)
      && (fg =? 1 + racing + N.of_nat (length okw))
      (* caught up at the end: when the newest acknowledged backup covers the last generation,
         it is byte-identical to the live file *)
      && (if lastok 0 its =? 1 + n_races (attempts its) + N.of_nat (length okw)
          then last_acked_bid ups bids =? fbid else true)
  end.

Definition check (cs : case) : bool :=
  match cs with
  | Sc prior evs rs sc c ups bids ex fg racing fbid rf => check_run true prior evs rs sc c ups bids ex fg racing fbid rf
  | ScW prior evs rs c ups bids fg fbid rf => check_run false prior evs rs [] c ups bids None fg 0 fbid rf
  end.
