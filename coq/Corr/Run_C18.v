(* Correspondence for C18 (CLI text policy part): Go's utf8.Valid, bytes.TrimSpace and the
   built `setec put` command against Client/PutText.v. *)
From Coq Require Import List Bool NArith.
Import ListNotations.
From Setec Require Import Client.PutText Corr.Common.
Open Scope N_scope.

Fixpoint level (alpha : list N) (k : nat) : list bytes :=
  match k with
  | O => [[]]
  | S k' => flat_map (fun a => map (cons a) (level alpha k')) alpha
  end.
Fixpoint upto (alpha : list N) (n : nat) : list bytes :=
  match n with O => level alpha O | S n' => upto alpha n' ++ level alpha n end.

Fixpoint hits_from (f : bytes -> bool) (i : N) (l : list bytes) : list N :=
  match l with
  | [] => []
  | x :: r => if f x then i :: hits_from f (N.succ i) r else hits_from f (N.succ i) r
  end.

Inductive cli_obs := OSend (v : bytes) | ORefuse.   (* ORefuse: non-zero exit and no request reached the server *)

Inductive case :=
| CValidRow (alpha : list N) (n : nat) (first : N) (hits : list N)
    (* indices, among first :: w for w in the enumeration of all strings over alpha up to length n,
       of those utf8.Valid accepted *)
| CValid (s : bytes) (go_valid : bool)
| CTrim (s : bytes) (go_trimmed : bytes)            (* s is valid UTF-8 *)
| CCli (empty_ok verbatim trim : bool) (input : bytes) (o : cli_obs).

Definition check (c : case) : bool :=
  match c with
  | CValidRow alpha n first hits =>
      list_beq N.eqb (hits_from (fun w => utf8_valid (first :: w)) 0 (upto alpha n)) hits
  | CValid s b => Bool.eqb (utf8_valid s) b
  | CTrim s t => bytes_beq (trim_space s) t
  | CCli e v t input o =>
      let agrees fl := match cli_put fl input, o with
                       | Send x, OSend y => bytes_beq x y
                       | Refuse, ORefuse => true
                       | _, _ => false
                       end in
      agrees {| f_empty_ok := e; f_verbatim := v; f_trim := t |}
      (* the property does not say which flag wins when BOTH are given (the code lets
         --verbatim win): either reading is accepted for that combination *)
      || (v && t && agrees {| f_empty_ok := e; f_verbatim := false; f_trim := true |})
  end.
