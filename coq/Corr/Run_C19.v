(* Correspondence for C19: one case = one history of a real setec.Store inside a synctest bubble
   (construction from a crafted cache document, handles, reads, lookups, updaters, polls - some held
   in mid-flight while other calls happen -, clock advances, clean and abrupt restarts), with what
   was observed at every step.  The model (Client/Expiry.step over Client/Store) is run on the same
   operations; every observable is compared.  No proofs here. *)
From Coq Require Import List Bool NArith ZArith.
Import ListNotations.
From Setec Require Import Base.SMap Base.Bytes Corr.Common Client.Store Client.Expiry Corr.Run_C10.

Definition hstate := Expiry.hstate V.

(* what was done, and what was seen.  `at_` = virtual instant (ns since the epoch second) *)
Inductive op :=
| OSecret (n : name) (got : bool)                                  (* Store.Secret(n): a handle came back *)
| ORead (n : name) (at_ : N) (done : bool) (val : N)               (* calling the handle obtained earlier (done = we had one) *)
| OLookup (n : name) (at_ : N) (ans : option (N * N)) (ok called : bool) (docs : list (list oent))
| OUpdater (n : name) (at_ : N) (ans : option (N * N)) (ok called : bool) (val : N) (docs : list (list oent))
| OApply (n : name) (at_ : N) (ans : option (N * N)) (ok called : bool) (val : N) (docs : list (list oent))
    (* ParseFields + Fields.Apply of a struct with one []byte field tagged n: LookupSecret(n) (which hands out the
       handle record, fetching an unknown name first) and a read of the value at that instant; val = the field *)
| OPollBegin (at_ : N) (gated : bool) (reqs : list (name * N))     (* Refresh starts; gated = it issued requests (held until OPollEnd) *)
| OPollEnd (pt : ptab) (ok : bool) (docs : list (list oent))       (* the requests are answered, Refresh returns *)
| ORestart (clean : bool) (names : list name) (allow_lookup : bool) (age : Z) (at_ : N)
           (ft : list (name * (N * N))) (reqs : list name) (docs : list (list oent))
| OEnd (d : list oent).                                            (* Close: the poller's shutdown flush *)

Inductive case := Hist (epoch : Z) (cdoc0 : list (name * option (N * N * Z))) (ops : list op).

Definition sec (epoch : Z) (t : N) : Z := (epoch + Z.of_N (t / 1000000000))%Z.
Definition nsec (epoch : Z) (t : N) : Z := (epoch * 1000000000 + Z.of_N t)%Z.

Definition docs_beq (a b : list (list oent)) : bool := list_beq doc_beq a b.
Definition doc_of (d : list (doc_entry V)) : list oent := map oent_of d.
(* the writes a step caused: the document changed <-> it was rewritten *)
Definition wrote (h h' : hstate) : list (list oent) :=
  if doc_beq (doc_of (cdoc h)) (doc_of (cdoc h')) then [] else [doc_of (cdoc h')].

Definition names_beq (a b : list name) : bool := list_beq neqb (norm_names a) (norm_names b).
Definition is_some {X} (o : option X) : bool := match o with Some _ => true | None => false end.

Definition do_lookup (epoch : Z) (h : hstate) (n : name) (at_ : N) (ans : option (N * N)) : hstate * bool * bool :=
  let kn := known (st h) n in
  let called := negb kn && allow (st h) in
  let ok := kn || (allow (st h) && is_some ans) in
  (step h (lookup_event h n ans (sec epoch at_)), ok, called).

Definition step_op (epoch : Z) (h : hstate) (o : op) : option hstate :=
  match o with
  | OSecret n got =>
    let r := snd (secret (st h) n) in
    if Bool.eqb got (match r with Some true => true | _ => false end) then Some (step h (ESecret n)) else None
  | ORead n at_ done val =>
    let hh := has_handle (st h) n in
    if negb (Bool.eqb done hh) then None
    else if hh then
      match snd (read (st h) n (sec epoch at_)) with
      | Some v => if (v =? val)%N then Some (step h (ERead n (sec epoch at_))) else None
      | None => None
      end
    else Some h
  | OLookup n at_ ans ok called docs =>
    let '(h', ok', called') := do_lookup epoch h n at_ ans in
    if Bool.eqb ok ok' && Bool.eqb called called' && docs_beq docs (wrote h h') then Some h' else None
  | OUpdater n at_ ans ok called val docs =>
    let '(h1, ok', called') := do_lookup epoch h n at_ ans in
    if negb (Bool.eqb ok ok' && Bool.eqb called called') then None
    else if ok' then
      let h2 := step h1 (EWatch n) in
      match snd (read (st h2) n (sec epoch at_)) with
      | Some v => let h3 := step h2 (ERead n (sec epoch at_)) in
                  if (v =? val)%N && docs_beq docs (wrote h h3) then Some h3 else None
      | None => None
      end
    else if docs_beq docs (wrote h h1) then Some h1 else None
  | OApply n at_ ans ok called val docs =>
    let '(h1, ok', called') := do_lookup epoch h n at_ ans in
    if negb (Bool.eqb ok ok' && Bool.eqb called called') then None
    else if ok' then
      match snd (read (st h1) n (sec epoch at_)) with
      | Some v => let h2 := step h1 (ERead n (sec epoch at_)) in
                  if (v =? val)%N && docs_beq docs (wrote h h2) then Some h2 else None
      | None => None
      end
    else if docs_beq docs (wrote h h1) then Some h1 else None
  | OPollBegin at_ gated reqs =>
    match pend h with
    | Some _ => None
    | None =>
      let h' := step h (ESnap (nsec epoch at_)) in
      match pend h' with
      | Some (_, snap) =>
        let rq := requests snap in
        if Bool.eqb gated (match rq with [] => false | _ => true end)
           && list_beq preq_beq (norm_preqs rq) (norm_preqs reqs) then Some h' else None
      | None => None
      end
    end
  | OPollEnd pt ok docs =>
    match pend h with
    | None => None
    | Some (_, snap) =>
      let h' := step h (EApply (probe_ans pt)) in
      (* applyUpdates flushes iff the update map is non-empty - even when all it holds is a deletion
         mark that is then skipped because of a handle (the document is rewritten unchanged) *)
      let exp := match poll snap (probe_ans pt) with
                 | Some (_ :: _) => [doc_of (cdoc h')]
                 | _ => []
                 end in
      if Bool.eqb ok (is_some (poll snap (probe_ans pt))) && docs_beq docs exp then Some h' else None
    end
  | ORestart clean names al ag at_ ft reqs docs =>
    let h1 := if clean : bool then step h (@EFlush V) else h in
    let fetch := fun n => match assoc n ft with Some x => x | None => (0%N, 0%N) end in
    let h' := step h1 (ERestart names al ag fetch (sec epoch at_)) in
    let missing := filter (fun n => negb (mem n (map fst (cdoc h1)))) (norm_names names) in
    if names_beq reqs missing
       && docs_beq docs ((if clean : bool then [doc_of (cdoc h1)] else []) ++ wrote h1 h')
    then Some h' else None
  | OEnd d => if doc_beq d (doc_of (doc (st h))) then Some h else None
  end.

Fixpoint run_ops (epoch : Z) (h : hstate) (ops : list op) : bool :=
  match ops with
  | [] => true
  | o :: r => match step_op epoch h o with Some h' => run_ops epoch h' r | None => false end
  end.

Definition check (c : case) : bool :=
  match c with
  | Hist epoch cdoc0 ops => run_ops epoch (HS (ST [] [] [] true 0%Z) None (mk_map cdoc0)) ops
  end.

(* diagnostics (replay files): index of the first step at which model and observation part *)
Fixpoint fail_index (epoch : Z) (h : hstate) (ops : list op) (i : N) : option N :=
  match ops with
  | [] => None
  | o :: r => match step_op epoch h o with Some h' => fail_index epoch h' r (N.succ i) | None => Some i end
  end.
Definition first_failure (c : case) : option N :=
  match c with Hist epoch cdoc0 ops => fail_index epoch (HS (ST [] [] [] true 0%Z) None (mk_map cdoc0)) ops 0 end.
