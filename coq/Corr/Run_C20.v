(* Correspondence for C20: the struct-tag plumbing of client/setec/fields.go (through
   setec.NewStore with StoreConfig.Structs, and through setec.ParseFields + Fields.Apply on an
   existing store) against the model Client/Fields.v, evaluated in the kernel.  No proofs here.

   Tokens.  Secret values are numbered 1.. by the harness (distinct byte strings = distinct
   numbers; 999999 = bytes that are in no table).  JSON decode results are numbered per field
   type, 0 = the content the field had before.  After the run the harness gives every name a second
   version whose value token is 1000 + (index of the name in svc) and refreshes the store. *)
From Coq Require Import List Bool NArith ZArith.
Import ListNotations.
From Setec Require Import Base.SMap Base.Path Client.Store Client.Fields Corr.Common.

Definition ty_of (t : N) : ftype :=
  match t with
  | 0 => TBytes | 1 => TString | 2 => THandle | 3 => TUnmVal | 4 => TUnmPtr true | 5 => TUnmPtr false
  | t => TOther t
  end%N.

(* short constructors for the generated terms *)
Definition Fd (nm : N) (tag : option bstr) (t : N) : field := F nm tag (ty_of t).
Definition AP := AStructPtr.
Definition AS := AStruct.
Definition AN := ANonStruct.
Definition AZ := ANil.                 (* ParseFields(nil) / Struct{Value: nil} *)
Definition AZP := ANilStructPtr.       (* a nil pointer of type pointer-to-T, T the struct of the given shape *)

(* one leaf field after the run: unchanged?, native projection (value token), JSON projection
   (decode-result token), value token served by a handle after the refresh (0 = not a handle / no store) *)
Inductive oloc := OL (i j : N) (unch : bool) (vt dt v2 : N).

(* error class: 0 = nil, 1 = rejected with no request made, 2 = error after requests / from Apply;
   nerrs = number of joined errors; reqs = names asked of the service (ordered for MApp, sorted for MNew);
   intact = after overwriting every populated []byte field the store still serves the original bytes *)
Inductive obs := Ob (errclass nerrs : N) (reqs : list name) (locs : list oloc) (intact : bool).

Inductive mode :=
| MNew (allow : bool) (extra : list name)        (* NewStore{Structs: {ptr, prefix}, Secrets: extra} *)
| MApp (allow : bool) (declared : list name)     (* store built over `declared`, then ParseFields + Apply *)
| MDecl (allow : bool) (extra : list name) (sec1 sec2 : list name)
| MRe (allow1 : bool) (declared1 : list name) (same : bool) (allow2 : bool) (declared2 : list name)
      (svc2 : list (name * (N * N))) (o1 : obs).
       (* f := ParseFields; NewStore{Secrets: f.Secrets() (the very slice; ++ extra)}; the harness then
          sorts / reverses / overwrites that slice; f.Apply; f.Secrets() again.
          sec1, sec2 = what the two Secrets() calls returned (OBSERVATIONS, carried here to leave the
          shape of `obs` alone) *)
       (* MRe: ONE parsed Fields applied twice.  First to a store over declared1 (service = the case's svc,
          AllowLookup allow1): o1 = what was observed after that Apply (OBSERVATION).  Then, same = false:
          to a SECOND store over declared2 / allow2 whose service is svc2 (other bytes for the same names);
          same = true: to the same store after every name in svc2 got that new version and a Refresh
          installed it.  The case's obs is what was observed after the second Apply: "unchanged" there
          means unchanged since the first Apply (handle, json-verb and non-built-in-typed fields are put
          back to their sentinel by the harness in between, unmarshaler call counters zeroed); the handle
          refresh tokens refer to svc2 *)

(* several struct values in one process *)
Inductive mmode :=
| MSNew (allow : bool) (extra : list name)
       (* NewStore{Structs: [{&v1, p1}; {&v2, p2}; ...], Secrets: extra} *)
| MSApp (allow : bool) (declared : list name) (order : list nat).
       (* store over `declared`; ParseFields(&v1, p1), ParseFields(&v2, p2), ... in THAT order; then
          Apply of the parsed values in the order `order` (a permutation of the indices) *)

(* ec / ne: NewStore's error class and joined-error count (MSNew);  per: class and joined-error count of every
   Apply in the order they were made (MSApp);  reqs as for `obs`;  locs: the leaf fields of EVERY value *)
Inductive mobs := MOb (ec ne : N) (per : list (N * N)) (reqs : list name) (locs : list (list oloc)) (intact : bool).

Inductive case :=
| CMulti (md : mmode) (entries : list (list item * bstr)) (svc : list (name * (N * N))) (unmfail : list N)
         (jt : list (N * N * (N * bool))) (o : mobs)
| CRun (md : mode) (a : arg) (pfx : bstr) (svc : list (name * (N * N))) (unmfail : list N)
       (jt : list (N * N * (N * bool))) (o : obs)
| CJoin (a b r : bstr)        (* path.Join(a, b) = r of the Go library (ties path_join2 and go_join) *)
| CJoinRow (alpha : list N) (swap : bool) (a h : bstr) (n : nat) (codes : list N)
       (* exhaustive sweep: for the prefix a and EVERY name b = h ++ w, w over the alphabet alpha of length
          <= n in the order of [upto alpha n] (swap: a is the NAME and b runs over the prefixes; the head h
          only serves to cut long rows into pieces), the Go library's
          path.Join(prefix, name), each result written as one number
          (digits = 1 + index of the byte in alpha, base |alpha|+1; 0 = a byte outside alpha) *)
| CDomain (what : N).         (* inputs outside the property's domain, recorded only *)

(* all strings over alpha of length exactly k / up to n, shortest first, in the order of alpha *)
Fixpoint level (alpha : list N) (k : nat) : list bstr :=
  match k with
  | O => [[]]
  | S k' => flat_map (fun a => map (cons a) (level alpha k')) alpha
  end.
Fixpoint upto (alpha : list N) (n : nat) : list bstr :=
  match n with O => level alpha O | S n' => upto alpha n' ++ level alpha n end.

Fixpoint idx_in (c : N) (alpha : list N) (i : N) : N :=
  match alpha with [] => 0%N | x :: r => if N.eqb c x then i else idx_in c r (N.succ i) end.
Definition code_of (alpha : list N) (s : bstr) : N :=
  let base := N.succ (N.of_nat (length alpha)) in
  fold_left (fun acc c => (acc * base + idx_in c alpha 1)%N) s 0%N.

(* both forms of the path model must give the library's answer *)
Definition join_row_ok (alpha : list N) (swap : bool) (a h : bstr) (n : nat) (codes : list N) : bool :=
  let others := upto alpha n in
  let pair w := if swap then (h ++ w, a) else (a, h ++ w) in
  list_beq N.eqb (map (fun b => let '(x, y) := pair b in code_of alpha (path_join2 x y)) others) codes
  && list_beq N.eqb (map (fun b => let '(x, y) := pair b in code_of alpha (go_join [x; y])) others) codes.

Fixpoint assoc {X} (n : name) (l : list (name * X)) : option X :=
  match l with [] => None | (k, x) :: r => if neqb n k then Some x else assoc n r end.

Fixpoint index_of (n : name) (l : list (name * (N * N))) (i : N) : N :=
  match l with [] => 0%N | (k, _) :: r => if neqb n k then i else index_of n r (N.succ i) end.

Definition jlookup (jt : list (N * N * (N * bool))) (t : ftype) (v : N) : N * bool :=
  match List.find (fun e => N.eqb (fst (fst e)) (tid t) && N.eqb (snd (fst e)) v) jt with
  | Some e => snd e
  | None => (999998%N, false)
  end.

Definition subset (a b : list name) : bool := forallb (fun n => mem n b) a.
Definition same_set (a b : list name) : bool := subset a b && subset b a && Nat.eqb (length a) (length b).

Definition initial_store (allow : bool) (declared : list name) (ans : name -> option (N * N)) : store N :=
  let mm := fst (declare (@nil (name * option (centry N))) (norm_names declared)) in
  ST (fst (init_round mm ans 0%Z)) [] [] allow 0%Z.

Definition cur_val (s : store N) (n : name) : N :=
  match entry s n with Some e => val e | None => 999997%N end.

(* A nil pointer-to-unmarshaler field that carries a tag is allocated by checkUnmarshal while
   PARSING (fields.go:254-256), whatever happens afterwards; the model does not track that allocation,
   so for such a field "untouched" is only required to mean "UnmarshalBinary was not called". *)
Definition alloc_at_parse (f : field) : bool :=
  match fty f, ftag f with TUnmPtr true, Some _ => true | _, _ => false end.

Definition check_loc (s' : store N) (svc : list (name * (N * N))) (live lenient : bool)
           (c : content N N) (o : oloc) : bool :=
  match o with
  | OL _ _ unch vt dt v2 =>
    match c with
    | CUntouched => unch || (lenient && N.eqb vt 0)
    | CBytes _ v => negb unch && N.eqb vt v
    | CString v => negb unch && N.eqb vt v
    | CUnm v => negb unch && N.eqb vt v
    | CHandle n => negb unch && N.eqb vt (cur_val s' n)
                   && N.eqb v2 (if live then (1000 + index_of n svc 0)%N else 0%N)
    | CJson d => N.eqb dt d
    end
  end.

Fixpoint check_locs (s' : store N) svc live (frs : list (fres N N)) (ls : list (loc * field)) (os : list oloc) : bool :=
  match ls, os with
  | [], [] => true
  | (l, f) :: lr, (OL i j _ _ _ _ as o) :: or =>
      loc_eqb l (i, j) && check_loc s' svc live (alloc_at_parse f) (content_at frs l) o && check_locs s' svc live frs lr or
  | _, _ => false
  end.

Definition all_unchanged (ls : list (loc * field)) (os : list oloc) : bool :=
  check_locs (ST [] [] [] false 0%Z) [] false [] ls os.

Definition poked_by (frs : list (fres N N)) (b : bufid) : bool :=
  existsb (fun r => match rcontent r with CBytes b' _ => bufid_eqb b b' | _ => false end) frs.

Definition intact_model (s' : store N) (frs : list (fres N N)) (svc : list (name * (N * N))) : bool :=
  forallb (fun '(n, _) =>
             option_beq (option_beq N.eqb) (served s' (poked_by frs) n) (served s' (fun _ => false) n)) svc.

(* the struct whose leaf fields the harness can look at afterwards (none behind a nil pointer) *)
Definition shape_of (a : arg) : list item :=
  match a with AStructPtr sh => sh | AStruct sh => sh | ANonStruct | ANil | ANilStructPtr _ => [] end.

(* an observation against the model's result of one Apply *)
Definition applied_obs (a : arg) (svc : list (name * (N * N))) (o : obs) (ordered live : bool)
           (init_rq : list name) (s' : store N) (frs : list (fres N N)) (rq : list name) : bool :=
  match o with
  | Ob ec ne reqs locs intact =>
        let errs := reported frs in
        N.eqb ec (match errs with [] => 0 | _ => 2 end)%N
        && (match errs with [] => true | _ => N.eqb ne (N.of_nat (length errs)) end)
        && (if ordered then list_beq bytes_beq reqs rq else same_set reqs (init_rq ++ rq))
        && check_locs s' svc live frs (all_locs (shape_of a)) locs
        && Bool.eqb intact (intact_model s' frs svc)
  end.

(* the store after a poll installed the versions svc2 holds for the names it knows *)
Definition bump (s : store N) (ans2 : name -> option (N * N)) : store N :=
  with_m s (map (fun '(n, oe) => (n, match oe, ans2 n with
                                     | Some e, Some (v, b) => Some (CE v b (last e) (decl e))
                                     | _, _ => oe
                                     end)) (m s)).

Definition check_run (md : mode) (a : arg) (pfx : bstr) svc unmfail jt (o : obs) : bool :=
  let ans := fun n => assoc n svc in
  let jdec := jlookup jt in
  let unm_ok := fun (_ : ftype) (v : N) => negb (existsb (N.eqb v) unmfail) in
  match o with
  | Ob ec ne reqs locs intact =>
    let rejected := N.eqb ec 1 && list_beq bytes_beq reqs [] && all_unchanged (all_locs (shape_of a)) locs && intact in
    let applied := applied_obs a svc o in
    match md with
    | MRe allow1 declared1 same allow2 declared2 svc2 o1 =>
      match parse_fields a with
      | inl _ => rejected
      | inr pfs =>
        let ans2 := fun n => assoc n svc2 in
        let sA := initial_store allow1 declared1 ans in
        let sB := if same then bump (fst (fst (apply jdec unm_ok ans 0%Z pfx sA pfs))) ans2
                  else initial_store allow2 declared2 ans2 in
        match apply jdec unm_ok ans 0%Z pfx sA pfs, apply jdec unm_ok ans2 0%Z pfx sB pfs with
        | (sA', frs1, rq1), (sB', frs2, rq2) =>
            applied_obs a svc o1 true false [] sA' frs1 rq1
            && applied_obs a svc2 o true true [] sB' frs2 rq2
        end
      end
    | MApp allow declared =>
      match parse_apply jdec unm_ok ans 0%Z a pfx (initial_store allow declared ans) with
      | (_, inl _, _) => rejected
      | (s', inr frs, rq) => applied true true [] s' frs rq
      end
    | MDecl allow extra sec1 sec2 =>
      match parse_fields a with
      | inl _ => rejected && list_beq bytes_beq sec1 [] && list_beq bytes_beq sec2 []
      | inr pfs =>
        (* Secrets(): the names in FIELD order, both times *)
        list_beq bytes_beq sec1 (secrets_of pfx pfs)
        && match declare_apply jdec unm_ok ans 0%Z allow extra (fun l => l) a pfx with
           | (NSInitMissing _, s2) => N.eqb ec 3 && list_beq bytes_beq sec2 s2
           | (NSDone init_rq s' frs rq, s2) => applied false true init_rq s' frs rq && list_beq bytes_beq sec2 s2
           | _ => false
           end
      end
    | MNew allow extra =>
      match new_store jdec unm_ok ans 0%Z allow extra a pfx with
      | NSReject _ => rejected
      | NSInitMissing _ => N.eqb ec 3
      | NSDone init_rq s' frs rq =>
          applied false (match reported frs with [] => true | _ => false end) init_rq s' frs rq
      | _ => false
      end
    end
  end.

Fixpoint locs_multi (s' : store N) svc (live : bool) (shapes : list (list item)) (frss : list (option (list (fres N N))))
         (locs : list (list oloc)) : bool :=
  match shapes, frss, locs with
  | [], [], [] => true
  | sh :: sr, fo :: fr, lo :: lr =>
      match fo with
      | Some frs => check_locs s' svc live frs (all_locs sh) lo      (* this value was applied *)
      | None => all_unchanged (all_locs sh) lo                        (* never reached: untouched *)
      end && locs_multi s' svc live sr fr lr
  | _, _, _ => false
  end.

Definition err_pair (frs : list (fres N N)) : N * N :=
  match reported frs with [] => (0, 0) | errs => (2, N.of_nat (length errs)) end%N.

Definition pair_beq (a b : N * N) : bool := N.eqb (fst a) (fst b) && N.eqb (snd a) (snd b).

(* MSApp: the Applies in the given order, threading the store *)
Fixpoint apply_in_order jdec unm_ok ans (ps : list (bstr * list pfield)) (order : list nat) (s : store N)
  : store N * list (nat * list (fres N N)) * list name :=
  match order with
  | [] => (s, [], [])
  | k :: r =>
    match nth_error ps k with
    | Some (pfx, pfs) =>
        let '(s1, frs, rq) := apply jdec unm_ok ans 0%Z pfx s pfs in
        let '(s2, rest, rq2) := apply_in_order jdec unm_ok ans ps r s1 in
        (s2, (k, frs) :: rest, rq ++ rq2)
    | None => apply_in_order jdec unm_ok ans ps r s
    end
  end.

Definition result_of (k : nat) (done : list (nat * list (fres N N))) : option (list (fres N N)) :=
  match List.find (fun '(j, _) => Nat.eqb j k) done with Some (_, frs) => Some frs | None => None end.

Definition check_multi (md : mmode) (entries : list (list item * bstr)) svc unmfail jt (o : mobs) : bool :=
  let ans := fun n => assoc n svc in
  let jdec := jlookup jt in
  let unm_ok := fun (_ : ftype) (v : N) => negb (existsb (N.eqb v) unmfail) in
  let shapes := map fst entries in
  let args := map (fun '(sh, pfx) => (AStructPtr sh, pfx)) entries in
  let nobody := map (fun _ => @None (list (fres N N))) entries in
  match o with
  | MOb ec ne per reqs locs intact =>
    let rejected := N.eqb ec 1 && list_beq bytes_beq reqs []
                    && locs_multi (ST [] [] [] false 0%Z) [] false shapes nobody locs && intact in
    match md with
    | MSNew allow extra =>
      match new_store_structs jdec unm_ok ans 0%Z allow extra args with
      | NMReject _ => rejected
      | NMInitMissing _ => N.eqb ec 3
      | NMDone init_rq s' frss rq failed =>
          let n_applied := length frss in
          let frso := map (fun i => nth_error frss i) (seq 0 (length entries)) in
          (match failed with
           | None => N.eqb ec 0
           | Some k => match nth_error frss k with
                       | Some frs => pair_beq (ec, ne) (err_pair frs) && N.eqb ec 2
                       | None => false
                       end
           end)
          && same_set reqs (init_rq ++ rq)
          && locs_multi s' svc (match failed with None => true | Some _ => false end) shapes frso locs
          && Bool.eqb intact (forallb (fun frs => intact_model s' frs svc) frss)
      | NMBadNames => false
      end
    | MSApp allow declared order =>
      match parse_all args with
      | inl _ => rejected
      | inr ps =>
        let '(s', done, rq) := apply_in_order jdec unm_ok ans ps order (initial_store allow declared ans) in
        list_beq pair_beq per (map (fun '(_, frs) => err_pair frs) done)
        && list_beq bytes_beq reqs rq
        && locs_multi s' svc true shapes (map (fun i => result_of i done) (seq 0 (length entries))) locs
        && Bool.eqb intact (forallb (fun '(_, frs) => intact_model s' frs svc) done)
      end
    end
  end.

Definition check (c : case) : bool :=
  match c with
  | CMulti md entries svc unmfail jt o => check_multi md entries svc unmfail jt o
  | CRun md a pfx svc unmfail jt o => check_run md a pfx svc unmfail jt o
  | CJoin a b r => bytes_beq (path_join2 a b) r && bytes_beq (go_join [a; b]) r
  | CJoinRow alpha swap a h n codes => join_row_ok alpha swap a h n codes
  | CDomain _ => true
  end.
