(* Correspondence for the database-level properties (C01 C02 C03 C04-rollback C06
   C09): histories executed on the real db.DB, with the projected observables of
   every step, are compared here with Server/DB.v.  Values are tokens (N). *)
From Coq Require Import List Bool NArith.
Import ListNotations.
From Setec Require Import Base.SMap Acl.Glob Server.KV Server.DB Corr.Common.
Open Scope N_scope.

Definition V := N.
Notation kvsN := (kvs V).

(* dumps as observed: (name, [(version, value)], active, latest) sorted by name / version *)
Definition disk_dump := list (name * list (N * V) * N * N).
Definition live_dump := list (name * list (N * V) * N).

Definition disk_of (k : kvsN) : disk_dump := map (fun '(n, x) => (n, vers x, active x, latest x)) k.
Definition live_of (k : kvsN) : live_dump := map (fun '(n, x) => (n, vers x, active x)) k.
Definition live_of_disk (d : disk_dump) : live_dump := map (fun '(n, vs, a, _) => (n, vs, a)) d.
Definition kvs_of_disk (d : disk_dump) : kvsN :=
  map (fun '(n, vs, a, l) => (n, {| vers := vs; active := a; latest := l |})) d.

Inductive live_obs :=
| LiveSame            (* the state served equals the reopened file (names, versions, bytes, active) *)
| LiveDump (d : live_dump)
| LiveNA.             (* not observable (audit sink dead) *)

Record obs := {
  o_res : result V;
  o_fx : list effect;      (* audit records and file replacements in the order observed *)
  o_live : live_obs;
  o_disk : disk_dump;      (* file reopened with the same key in a second handle, decoded incl. counters *)
  o_gen : N                (* WriteGen after the call *)
}.

Record step := { s_env : env; s_caller : nat; s_op : op V; s_obs : obs }.

Inductive case :=
| Case (callers : list caller) (steps : list step)
| Golden (expected observed : disk_dump)    (* a file written by the pinned release, reopened by the current tree *)
| Conc (callers : list caller) (calls : list (nat * op V)) (log : list entry)
    (* concurrent callers on a real audit file: the parsed lines of the file afterwards *)
| AuditFile (tr : list N).
    (* the system calls a server process made on its audit log file (audit.NewFile), abstracted by the
       harness: 1 = opened O_WRONLY|O_APPEND|O_CREAT with mode 0600, 2 = a write of exactly one complete
       JSON line, 3 = a successful fsync, 4 = close; 7 = opened otherwise, 8 = any other write, 9 = a call
       that modifies the file in another way (truncate, rename, unlink, chmod) *)

Definition nobody : caller := {| principal := 0; rules := [] |}.
Definition get_caller (cs : list caller) (i : nat) : caller := nth i cs nobody.

(* ---------- decidable equalities on observables ---------- *)
Definition pair_beq {X Y} (ex : X -> X -> bool) (ey : Y -> Y -> bool) (a b : X * Y) : bool :=
  ex (fst a) (fst b) && ey (snd a) (snd b).

Definition vers_beq : list (N * V) -> list (N * V) -> bool := list_beq (pair_beq N.eqb N.eqb).

Definition disk_beq : disk_dump -> disk_dump -> bool :=
  list_beq (fun a b => let '(n1, v1, a1, l1) := a in let '(n2, v2, a2, l2) := b in
                       bytes_beq n1 n2 && vers_beq v1 v2 && (a1 =? a2) && (l1 =? l2)).
Definition live_beq : live_dump -> live_dump -> bool :=
  list_beq (fun a b => let '(n1, v1, a1) := a in let '(n2, v2, a2) := b in
                       bytes_beq n1 n2 && vers_beq v1 v2 && (a1 =? a2)).

Definition result_beq (a b : result V) : bool :=
  match a, b with
  | RList l1, RList l2 =>
      list_beq (fun x y => let '(n1, v1, a1) := x in let '(n2, v2, a2) := y in
                           bytes_beq n1 n2 && list_beq N.eqb v1 v2 && (a1 =? a2)) l1 l2
  | RInfo v1 a1, RInfo v2 a2 => list_beq N.eqb v1 v2 && (a1 =? a2)
  | RVal v1 b1, RVal v2 b2 => (v1 =? v2) && (b1 =? b2)
  | RVer v1, RVer v2 => v1 =? v2
  | ROk, ROk | RNotChanged, RNotChanged | RDenied, RDenied | RNotFound, RNotFound | ROther, ROther => true
  | _, _ => false
  end.

Definition entry_beq (a b : entry) : bool :=
  (e_principal a =? e_principal b) && action_eqb (e_action a) (e_action b)
  && bytes_beq (e_secret a) (e_secret b) && (e_version a =? e_version b)
  && Bool.eqb (e_authorized a) (e_authorized b).

Definition effect_beq (a b : effect) : bool :=
  match a, b with
  | EAudit x, EAudit y => entry_beq x y
  | EAuditFail, EAuditFail | ESyncFail, ESyncFail | ESave, ESave | ESaveFail, ESaveFail => true
  | _, _ => false
  end.

(* what can be observed of an effect list: a failed save and a refused audit
   write leave no trace of their own (they show in the result) *)
Definition visible (fx : list effect) : list effect :=
  filter (fun e => match e with ESaveFail | EAuditFail => false | _ => true end) fx.

Definition live_ok (model : kvsN) (o : obs) : bool :=
  match o_live o with
  | LiveSame => live_beq (live_of model) (live_of_disk (o_disk o))
  | LiveDump d => live_beq (live_of model) d
  | LiveNA => true
  end.

(* the live state as observed, when it can be *)
Definition observed_live (o : obs) : option live_dump :=
  match o_live o with
  | LiveSame => Some (live_of_disk (o_disk o))
  | LiveDump d => Some d
  | LiveNA => None
  end.

(* ---------- generic runners ---------- *)

(* index of the first step on which [judge] fails, running the model on its own
   state from [s0] *)
Fixpoint run_pure (judge : dbstate V -> dbstate V -> result V -> list effect -> step -> bool)
         (cs : list caller) (s : dbstate V) (steps : list step) : bool :=
  match steps with
  | [] => true
  | st :: rest =>
      let '(s', r, fx) := db_step N.eqb (s_env st) s (get_caller cs (s_caller st)) (s_op st) in
      judge s s' r fx st && run_pure judge cs s' rest
  end.

(* the same, but before every step the model state is re-synchronised with the
   state observed after the previous step, so that each step is judged on its own
   (a deviation belonging to another property does not propagate) *)
Fixpoint run_resync (judge : dbstate V -> dbstate V -> result V -> list effect -> option live_dump -> step -> bool)
         (cs : list caller) (s : dbstate V) (prev_live : option live_dump) (steps : list step) : bool :=
  match steps with
  | [] => true
  | st :: rest =>
      let '(s', r, fx) := db_step N.eqb (s_env st) s (get_caller cs (s_caller st)) (s_op st) in
      let o := s_obs st in
      let s_next := {| kv := kvs_of_disk (o_disk o); gen := o_gen o; audit_dead := audit_dead s' |} in
      judge s s' r fx prev_live st && run_resync judge cs s_next (observed_live o) rest
  end.

Definition start : dbstate V := db_create V.

(* ---------- C02: every result and the state served equal the model's ---------- *)
Definition judge_C02 (s s' : dbstate V) (r : result V) (fx : list effect) (st : step) : bool :=
  result_beq r (o_res (s_obs st)) && live_ok (kv s') (s_obs st).

Definition check_C02 (c : case) : bool :=
  match c with Case cs steps => run_pure judge_C02 cs start steps | _ => true end.

(* ---------- C03: the reopened file equals the acknowledged state, counters included ---------- *)
Definition judge_C03 (s s' : dbstate V) (r : result V) (fx : list effect) (st : step) : bool :=
  disk_beq (disk_of (kv s')) (o_disk (s_obs st)).

Definition check_C03 (c : case) : bool :=
  match c with
  | Case cs steps => run_pure judge_C03 cs start steps
  | Golden expected observed => disk_beq expected observed
  | Conc _ _ _ => true
  | AuditFile _ => true
  end.

(* ---------- C04 (rollback part): after a failed save the state served, the file, the
   write generation and all later results are those of the model ---------- *)
Definition judge_C04 (s s' : dbstate V) (r : result V) (fx : list effect) (st : step) : bool :=
  result_beq r (o_res (s_obs st)) && live_ok (kv s') (s_obs st)
  && disk_beq (disk_of (kv s')) (o_disk (s_obs st)) && (gen s' =? o_gen (s_obs st)).

Definition check_C04 (c : case) : bool :=
  match c with Case cs steps => run_pure judge_C04 cs start steps | _ => true end.

(* ---------- C01: the access decision and its consequences, step by step ---------- *)
Definition is_denied (r : result V) : bool := match r with RDenied => true | _ => false end.
Definition carries_data (r : result V) : bool :=
  match r with RList _ | RInfo _ _ | RVal _ _ | RVer _ => true | _ => false end.

Definition list_names_ok (c : caller) (pre : live_dump) (r : result V) : bool :=
  match r with
  | RList l =>
      list_beq (fun x y => let '(n1, v1, a1) := x in let '(n2, v2, a2) := y in
                           bytes_beq n1 n2 && list_beq N.eqb v1 v2 && (a1 =? a2))
               l (map (fun '(n, vs, a) => (n, map fst vs, a))
                      (filter (fun '(n, _, _) => allow (rules c) AInfo n) pre))
  | _ => true
  end.

(* names whose entry (versions with bytes, active version) differs between two observed states *)
Definition entry_of (d : live_dump) (n : name) : option (list (N * V) * N) :=
  match filter (fun '(k, _, _) => bytes_beq k n) d with
  | (_, vs, a) :: _ => Some (vs, a)
  | [] => None
  end.
Definition same_entry (x y : option (list (N * V) * N)) : bool :=
  match x, y with
  | None, None => true
  | Some (v1, a1), Some (v2, a2) => list_beq (fun p q => (fst p =? fst q) && (snd p =? snd q)) v1 v2 && (a1 =? a2)
  | _, _ => false
  end.
Definition changed_names (a b : live_dump) : list name :=
  filter (fun n => negb (same_entry (entry_of a n) (entry_of b n)))
         (map (fun '(k, _, _) => k) a ++ map (fun '(k, _, _) => k) b).

Definition judge_C01 (cs : list caller)
           (s s' : dbstate V) (r : result V) (fx : list effect) (prev : option live_dump) (st : step) : bool :=
  let o := s_obs st in
  let c := get_caller cs (s_caller st) in
  (* same access decision as the model (a function of caller and request only) *)
  Bool.eqb (is_denied r) (is_denied (o_res o))
  (* a denied call reveals nothing and changes nothing *)
  && (if is_denied r then
        negb (carries_data (o_res o))
        && match prev, observed_live o with Some a, Some b => live_beq a b | _, _ => true end
      else true)
  (* whatever the call changed, it changed only secrets on which the caller holds the required action
     (a call that is allowed on the name it carries must not reach a secret under another name) *)
  && match need (s_op st), prev, observed_live o with
     | Some a, Some before, Some after => forallb (fun n => allow (rules c) a n) (changed_names before after)
     | _, _, _ => true
     end
  (* what a permitted read discloses is the data of exactly the secret it names: the model's answer
     on the state observed before the call (the model is re-synchronised at every step) *)
  && (if is_denied r then true
      else match s_op st with
           | OGet _ | OGetVer _ _ | OGetCond _ _ | OInfo _ =>
               if carries_data (o_res o) || carries_data r then result_beq r (o_res o) else true
           | _ => true
           end)
  (* list = exactly the secrets on which the caller holds info, names and version numbers *)
  && match s_op st, prev with
     | OList, Some pre => list_names_ok c pre (o_res o)
     | _, _ => true
     end.

Definition check_C01 (c : case) : bool :=
  match c with Case cs steps => run_resync (judge_C01 cs) cs start (Some []) steps | _ => true end.

(* ---------- C06: audit records and their order relative to effects and results ---------- *)
Definition judge_C06 (s s' : dbstate V) (r : result V) (fx : list effect) (prev : option live_dump) (st : step) : bool :=
  let o := s_obs st in
  list_beq effect_beq (visible fx) (visible (o_fx o))
  (* fail-closed: when the model says the record could not be written, no data, no change *)
  && (if existsb (fun e => match e with EAuditFail | ESyncFail => true | _ => false end) fx
      then negb (carries_data (o_res o))
           && match prev, observed_live o with Some a, Some b => live_beq a b | _, _ => true end
      else Bool.eqb (carries_data r) (carries_data (o_res o))).

(* multiset equality of record lists *)
Fixpoint remove_first (e : entry) (l : list entry) : option (list entry) :=
  match l with
  | [] => None
  | x :: r => if entry_beq e x then Some r
              else match remove_first e r with Some r' => Some (x :: r') | None => None end
  end.
Fixpoint perm_beq (a b : list entry) : bool :=
  match a with
  | [] => match b with [] => true | _ => false end
  | x :: a' => match remove_first x b with Some b' => perm_beq a' b' | None => false end
  end.

(* the one record each (audited) call must have produced *)
Definition expected_entry (cs : list caller) (call : nat * op V) : entry :=
  let c := get_caller cs (fst call) in
  let o := snd call in
  let a := match need o with Some a => a | None => AInfo end in
  {| e_principal := principal c; e_action := a; e_secret := target o;
     e_version := match o with OGetVer _ v | OActivate _ v | ODelVer _ v => v | _ => 0 end;
     e_authorized := match o with OList => true | _ => allow (rules c) a (target o) end |}.

(* "appended and synced": the log is opened append-only and owner-only; every record is ONE write of one
   complete line, and it is followed by a successful fsync before the next record (i.e. before the call
   that wrote it goes on to take effect); nothing else ever touches the file; closing may sync once more *)
Fixpoint audit_records_ok (tr : list N) : bool :=
  match tr with
  | [] => true
  | 2 :: 3 :: r => audit_records_ok r
  | [3; 4] | [4] => true
  | _ => false
  end.
Definition audit_file_ok (tr : list N) : bool :=
  match tr with
  | 1 :: 2 :: 3 :: r => audit_records_ok r   (* at least one record was written *)
  | _ => false
  end.

Definition check_C06 (c : case) : bool :=
  match c with
  | Case cs steps => run_resync judge_C06 cs start (Some []) steps
  | Conc cs calls log => perm_beq (map (expected_entry cs) calls) log
  | Golden _ _ => true
  | AuditFile tr => audit_file_ok tr
  end.

(* ---------- C09: conditional get ---------- *)
Definition judge_C09 (s s' : dbstate V) (r : result V) (fx : list effect) (prev : option live_dump) (st : step) : bool :=
  match s_op st with
  | OGetCond _ _ | OGet _ => result_beq r (o_res (s_obs st))
  | _ => true
  end.

Definition check_C09 (c : case) : bool :=
  match c with Case cs steps => run_resync judge_C09 cs start (Some []) steps | _ => true end.

(* ---------- compact constructors used by the generated case files ---------- *)
Definition St (ok : bool) (au : afault) (c : nat) (o : op V) (r : result V) (fx : list effect)
           (lv : live_obs) (d : disk_dump) (g : N) : step :=
  {| s_env := {| save_ok := ok; audit := au |}; s_caller := c; s_op := o;
     s_obs := {| o_res := r; o_fx := fx; o_live := lv; o_disk := d; o_gen := g |} |}.
Definition EA (p : N) (a : action) (n : name) (v : N) (auth : bool) : effect :=
  EAudit {| e_principal := p; e_action := a; e_secret := n; e_version := v; e_authorized := auth |}.
Definition Cl (p : N) (rs : list rule) : caller := {| principal := p; rules := rs |}.
Definition Rl (acts : list action) (secs : list bytes) : rule := {| r_actions := acts; r_secrets := secs |}.
