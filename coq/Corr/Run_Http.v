(* Correspondence for C08 (HTTP front door) and the client surfaces of C09. *)
From Coq Require Import List Bool NArith.
Import ListNotations.
From Setec Require Import Base.SMap Acl.Glob Server.KV Server.DB Server.Http Corr.Common Corr.Run_DB.
Open Scope N_scope.

(* what the recorder saw of a response body *)
Inductive obody :=
| OBEmpty
| OBResult (r : result V)     (* a 200 body decoded as the endpoint's result type *)
| OBText.                     (* any other text *)

Record hobs := {
  h_status : N;
  h_body : obody;
  h_leak : bool;              (* a stored secret value (plain/base64/hex) occurs in a non-200 body *)
  h_ctype_json : bool;        (* Content-Type: application/json on 200 / 304 *)
  h_fx : list effect;         (* audit records / file replacement, in order *)
  h_disk : disk_dump;         (* database after the request *)
  h_gen : N
}.

(* one request of a session; the model is re-synchronised with the observed state *)
Record hstep := { hs_env : env; hs_rq : request V; hs_obs : hobs }.

(* client probes of C09 *)
Inductive probe :=
| PClient (c : caller) (n : name) (old : N) (res : cres V)       (* setec.Client.GetIfChanged through the handlers *)
| PFile (n : name) (old : N) (res : cres V)                      (* FileClient.GetIfChanged on a file holding the active versions *)
| PFileGet (n : name) (res : cres V).

Inductive case :=
| HSession (pre : disk_dump) (gen : N) (steps : list hstep)
| HProbes (state : disk_dump) (probes : list probe).

Definition status_class (st : N) : N :=
  if st =? 200 then 200 else if st =? 304 then 304 else if st =? 403 then 403 else if st =? 404 then 404
  else if (400 <=? st) && (st <? 600) then 500 (* some other 4xx/5xx *) else 0 (* anything else: wrong *).

Definition obody_ok (expected : rbody V) (o : obody) : bool :=
  match expected, o with
  | BodyResult r, OBResult r' => result_beq r r'
  | BodyEmpty, OBEmpty => true
  | BodyConst, OBText => true
  | BodyConst, OBEmpty => true
  | _, _ => false
  end.

Definition judge_http (s : dbstate V) (st : hstep) : bool :=
  let o := hs_obs st in
  match gate (hs_rq st) with
  | Reject _ =>
      (* non-2xx, nothing reached the store, no secret material *)
      (400 <=? h_status o) && (h_status o <? 600)
      && disk_beq (disk_of (kv s)) (h_disk o) && (gen s =? h_gen o)
      && match h_fx o with [] => true | _ => false end
      && negb (h_leak o)
  | Accept c q =>
      let '(s', r, fx) := db_step N.eqb (hs_env st) s c (dispatch q) in
      let rsp := respond r in
      (status_class (status rsp) =? status_class (h_status o))
      && negb (status_class (h_status o) =? 0)
      && (if status rsp =? 200 then obody_ok (rb rsp) (h_body o)
                                    && (h_ctype_json o || negb (is_api (rq_endpoint (hs_rq st))))
          else if status rsp =? 304 then obody_ok (rb rsp) (h_body o)
          else negb (h_leak o) && match h_body o with OBResult _ => false | _ => true end)
      (* the principal recorded and the permissions applied are the identified caller's *)
      && list_beq effect_beq (visible fx) (visible (h_fx o))
      && disk_beq (disk_of (kv s')) (h_disk o)
  end.

Fixpoint run_http (s : dbstate V) (steps : list hstep) : bool :=
  match steps with
  | [] => true
  | st :: rest =>
      let o := hs_obs st in
      judge_http s st
      && run_http {| kv := kvs_of_disk (h_disk o); gen := h_gen o; audit_dead := false |} rest
  end.

Definition cres_beq (a b : cres V) : bool :=
  match a, b with
  | CResult x, CResult y => result_beq x y
  | CNotChanged, CNotChanged | CNotFound, CNotFound | CDenied, CDenied | COtherErr, COtherErr => true
  | _, _ => false
  end.

(* the file a FileClient reads: the active version of every secret *)
Definition active_map (k : kvs V) : @smap name (N * V) :=
  flat_map (fun '(n, x) => match find (active x) (vers x) with Some b => [(n, (active x, b))] | None => [] end) k.

Definition okenv : env := {| save_ok := true; audit := AOk |}.

Definition judge_probe (s : dbstate V) (p : probe) : bool :=
  match p with
  | PClient c n old res =>
      let '(_, r, _) := db_step N.eqb okenv s c (dispatch (client_getifchanged_req V n old)) in
      cres_beq (client_of_response (respond r)) res
  | PFile n old res => cres_beq (fc_getifchanged (active_map (kv s)) n old) res
  | PFileGet n res => cres_beq (fc_get (active_map (kv s)) n) res
  end.

Definition check_C08 (c : case) : bool :=
  match c with
  | HSession pre g steps => run_http {| kv := kvs_of_disk pre; gen := g; audit_dead := false |} steps
  | HProbes _ _ => true
  end.

Definition check_C09 (c : case) : bool :=
  match c with
  | HSession _ _ _ => true
  | HProbes st probes =>
      forallb (judge_probe {| kv := kvs_of_disk st; gen := 1; audit_dead := false |}) probes
  end.

(* compact constructors for generated files *)
Definition Wh (fail : bool) (tags login : option N) (bare https : capval) : whois :=
  {| w_fail := fail; w_tags := tags; w_login := login; w_cap_bare := bare; w_cap_https := https |}.
Definition Rq (e : endpoint) (m : meth) (ct : ctype) (h : nbhdr) (addr : bool) (w : whois) (b : body V) : request V :=
  {| rq_endpoint := e; rq_meth := m; rq_ctype := ct; rq_hdr := h; rq_addr_ok := addr; rq_whois := w; rq_body := b; rq_empty := 0 |}.
Definition Ho (st : N) (b : obody) (leak ctj : bool) (fx : list effect) (d : disk_dump) (g : N) : hobs :=
  {| h_status := st; h_body := b; h_leak := leak; h_ctype_json := ctj; h_fx := fx; h_disk := d; h_gen := g |}.
Definition Hs (au : afault) (rq : request V) (o : hobs) : hstep :=
  {| hs_env := {| save_ok := true; audit := au |}; hs_rq := rq; hs_obs := o |}.
