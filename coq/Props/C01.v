(* C01 - no operation takes effect or reveals data without a matching ACL grant.
   Statements only.  For every value type, rule set, caller, operation, name,
   environment (audit/save faults) and state. *)
From Coq Require Import List Bool NArith.
Import ListNotations.
From Setec Require Import Base.SMap Acl.Glob Acl.GlobProofs Server.KV Server.KVProofs Server.DB Server.DBFacts Server.DBProofs.
Open Scope N_scope.

Section C01.
Variable V : Type.
Variable veqb : V -> V -> bool.

(* data, a state change or a save only if one rule grants the required action on that very name *)
Theorem C01_only_if_granted : forall ev (s : dbstate V) c o a s' r fx,
  need o = Some a -> db_step veqb ev s c o = (s', r, fx) ->
  (carries_data r = true \/ kv s' <> kv s \/ has_save fx = true) ->
  allow (rules c) a (target o) = true.
Proof. first [exact (@only_if_granted V veqb) | exact (@only_if_granted V veqb) | exact (@only_if_granted V)]. Qed.

(* otherwise the call is refused - as access-denied whenever it is well-formed -
   and nothing is revealed, changed or saved *)
Theorem C01_denied_refused : forall ev (s : dbstate V) c o a s' r fx,
  need o = Some a -> allow (rules c) a (target o) = false ->
  db_step veqb ev s c o = (s', r, fx) ->
  r = (if wellformed o then RDenied else ROther)
  /\ kv s' = kv s /\ gen s' = gen s /\ has_save fx = false /\ carries_data r = false.
Proof. first [exact (@denied_refused V veqb) | exact (@denied_refused V veqb) | exact (@denied_refused V)]. Qed.

(* the refusal is identical whether or not the secret exists: a function of
   caller and request only, for any two states and environments *)
Theorem C01_denied_blind : forall ev1 ev2 (s1 s2 : dbstate V) c o a,
  need o = Some a -> allow (rules c) a (target o) = false ->
  snd (fst (db_step veqb ev1 s1 c o)) = snd (fst (db_step veqb ev2 s2 c o)).
Proof. first [exact (@denied_blind V veqb) | exact (@denied_blind V veqb) | exact (@denied_blind V)]. Qed.

(* list changes nothing and returns exactly the secrets on which the caller holds info *)
Theorem C01_list_result : forall ev (s : dbstate V) c s' r fx,
  db_step veqb ev s c OList = (s', r, fx) ->
  kv s' = kv s /\ gen s' = gen s /\ has_save fx = false
  /\ (r = RList (list_payload c (kv s)) \/ (r = ROther /\ audit_failed fx = true)).
Proof. first [exact (@list_result V veqb) | exact (@list_result V veqb) | exact (@list_result V)]. Qed.

Theorem C01_list_exact : forall c (k : kvs V) n vs a, sorted k ->
  (In (n, vs, a) (list_payload c k) <->
   exists x, find n k = Some x /\ allow (rules c) AInfo n = true /\ vs = map fst (vers x) /\ a = active x).
Proof. exact (@list_payload_spec V). Qed.

(* names and version numbers only, never values: the answer is a function of the metadata *)
Theorem C01_list_no_values : forall c (k1 k2 : kvs V), meta k1 = meta k2 -> list_payload c k1 = list_payload c k2.
Proof. exact (@list_no_values V). Qed.

End C01.

(* "granted" means: one single rule lists the action and has a pattern matching the exact name *)
Theorem C01_granted_means : forall rs a n, allow rs a n = true <->
  exists r, In r rs /\ In a (r_actions r) /\ exists p, In p (r_secrets r) /\ bspec p n.
Proof. exact allow_iff. Qed.

Print Assumptions C01_only_if_granted.
Print Assumptions C01_denied_refused.
Print Assumptions C01_denied_blind.
Print Assumptions C01_list_result.
Print Assumptions C01_list_exact.
Print Assumptions C01_list_no_values.
Print Assumptions C01_granted_means.

(* non-vacuity: a caller holding {info} on "a" is denied GetVersion on "a" (existing)
   and on "zz" (absent) identically, while list shows "a" with its version numbers *)
Definition ex_state : dbstate N :=
  {| kv := [([97], {| vers := [(1, 5); (2, 6)]; active := 1; latest := 2 |}); ([98], {| vers := [(1, 7)]; active := 1; latest := 1 |})];
     gen := 4; audit_dead := false |}.
Definition ex_caller : caller := {| principal := 9; rules := [ {| r_actions := [AInfo]; r_secrets := [[97]] |} ] |}.
Definition ex_env : env := {| save_ok := true; audit := AOk |}.
Example C01_ex_denied_existing : snd (fst (db_step N.eqb ex_env ex_state ex_caller (OGetVer [97] 1))) = RDenied.
Proof. vm_compute. reflexivity. Qed.
Example C01_ex_denied_absent : snd (fst (db_step N.eqb ex_env ex_state ex_caller (OGetVer [122; 122] 1))) = RDenied.
Proof. vm_compute. reflexivity. Qed.
Example C01_ex_list : snd (fst (db_step N.eqb ex_env ex_state ex_caller OList)) = RList [([97], [1; 2], 1)].
Proof. vm_compute. reflexivity. Qed.
