(* C02 - the versioned secret store behaves exactly as its sequential specification.
   Statements only; every proof is [exact <lemma of Server/KVProofs.v>].  All
   theorems hold for every value type V with a decidable equality (the model never
   inspects a value), every save outcome, and every state satisfying the invariant -
   which every reachable state does (C02_reachable_inv). *)
From Coq Require Import List Bool NArith.
Import ListNotations.
From Setec Require Import Base.SMap Server.KV Server.KVProofs.
Open Scope N_scope.

Section C02.
Variable V : Type.
Variable veqb : V -> V -> bool.
Hypothesis veqb_spec : forall a b, veqb a b = true <-> a = b.

(* every state reachable from the empty store by any history with any save outcomes *)
Theorem C02_reachable_inv : forall h s' rs, kv_run veqb [] h = (s', rs) -> Inv s'.
Proof. first [exact (@reachable_inv V veqb veqb_spec) | exact (@reachable_inv V veqb) | exact (@reachable_inv V)]. Qed.

(* refinement: with a successful (or unneeded) save the step IS the plain-map
   specification's step; with a failed save it is a no-op reporting the error *)
Theorem C02_refines_spec : forall s o, Inv s ->
  let '(s', r, sv) := kv_step veqb true s o in
  let '(t, q) := spec_step veqb s o in
  s' = t /\ r = q /\ sv = (if needs_save veqb s o then Saved else NoSave).
Proof. first [exact (@refines_spec_ok V veqb veqb_spec) | exact (@refines_spec_ok V veqb) | exact (@refines_spec_ok V)]. Qed.

Theorem C02_refines_spec_failed_save : forall s o, Inv s ->
  let '(s', r, sv) := kv_step veqb false s o in
  if needs_save veqb s o then s' = s /\ r = KSaveErr /\ sv = SaveFailed
  else (s', r) = spec_step veqb s o /\ sv = NoSave.
Proof. first [exact (@refines_spec_fail V veqb veqb_spec) | exact (@refines_spec_fail V veqb) | exact (@refines_spec_fail V)]. Qed.

(* the first put of a name creates version 1 and makes it active *)
Theorem C02_first_put : forall (s : kvs V) n b, find n s = None ->
  kv_put veqb true s n b = (upd n {| vers := [(1, b)]; active := 1; latest := 1 |} s, KVer 1, Saved).
Proof. first [exact (@first_put V veqb veqb_spec) | exact (@first_put V veqb) | exact (@first_put V)]. Qed.

(* a later put: returns the latest number iff the bytes equal those of the most
   recently assigned version and that version still exists (state unchanged);
   otherwise stores under latest+1, strictly above every existing number, and
   leaves the active version alone *)
Theorem C02_put_existing : forall ok s n b x s' r sv, Inv s -> find n s = Some x ->
  kv_put veqb ok s n b = (s', r, sv) ->
  (dedupes x b /\ s' = s /\ r = KVer (latest x) /\ sv = NoSave)
  \/ (~ dedupes x b /\ ok = true /\ r = KVer (latest x + 1) /\ sv = Saved
      /\ find n s' = Some {| vers := upd (latest x + 1) b (vers x); active := active x; latest := latest x + 1 |}
      /\ (forall v b', In (v, b') (vers x) -> v < latest x + 1))
  \/ (~ dedupes x b /\ ok = false /\ s' = s /\ r = KSaveErr /\ sv = SaveFailed).
Proof. first [exact (@put_existing V veqb veqb_spec) | exact (@put_existing V veqb) | exact (@put_existing V)]. Qed.

(* numbers are never reused while the secret exists: after ANY history that does
   not delete the whole secret, a stored put gets a number above the counter at the
   start of that history and above every version that existed then *)
Theorem C02_never_reused : forall h s s1 rs n x b s2 k,
  Inv s -> find n s = Some x ->
  (forall ok, ~ In (ok, KDel n) h) ->
  kv_run veqb s h = (s1, rs) ->
  kv_put veqb true s1 n b = (s2, KVer k, Saved) ->
  latest x < k /\ (forall v b', In (v, b') (vers x) -> v < k).
Proof. first [exact (@never_reused V veqb veqb_spec) | exact (@never_reused V veqb) | exact (@never_reused V)]. Qed.

Theorem C02_put_retrievable : forall ok s n b s' k sv, Inv s ->
  kv_put veqb ok s n b = (s', KVer k, sv) -> kv_get_version s' n k = KVal k b.
Proof. first [exact (@put_retrievable V veqb veqb_spec) | exact (@put_retrievable V veqb) | exact (@put_retrievable V)]. Qed.

Theorem C02_active_exists : forall (s : kvs V) n x, Inv s -> find n s = Some x ->
  exists b, kv_get s n = KVal (active x) b.
Proof. first [exact (@active_exists V veqb veqb_spec) | exact (@active_exists V veqb) | exact (@active_exists V)]. Qed.

Theorem C02_active_undeletable : forall ok (s : kvs V) n x, find n s = Some x ->
  exists r, kv_delete_version ok s n (active x) = (s, r, NoSave) /\ is_err r = true.
Proof. first [exact (@active_undeletable V veqb veqb_spec) | exact (@active_undeletable V veqb) | exact (@active_undeletable V)]. Qed.

Theorem C02_only_activate_moves_active : forall ok s o s' r sv n x x',
  Inv s -> kv_step veqb ok s o = (s', r, sv) -> find n s = Some x -> find n s' = Some x' ->
  active x' = active x \/ (exists v, o = KSetActive n v /\ r = KOk /\ active x' = v).
Proof. first [exact (@only_activate_moves_active V veqb veqb_spec) | exact (@only_activate_moves_active V veqb) | exact (@only_activate_moves_active V)]. Qed.

Theorem C02_bytes_immutable : forall ok s o s' r sv n x v b,
  Inv s -> kv_step veqb ok s o = (s', r, sv) -> find n s = Some x -> find v (vers x) = Some b ->
  (exists x', find n s' = Some x' /\ find v (vers x') = Some b) \/ o = KDelVer n v \/ o = KDel n.
Proof. first [exact (@bytes_immutable V veqb veqb_spec) | exact (@bytes_immutable V veqb) | exact (@bytes_immutable V)]. Qed.

Theorem C02_failed_is_noop : forall ok s o s' r sv,
  Inv s -> kv_step veqb ok s o = (s', r, sv) -> is_err r = true -> s' = s.
Proof. first [exact (@failed_is_noop V veqb veqb_spec) | exact (@failed_is_noop V veqb) | exact (@failed_is_noop V)]. Qed.

Theorem C02_frame : forall ok s o s' r sv n,
  Inv s -> kv_step veqb ok s o = (s', r, sv) -> ktarget o <> Some n -> find n s' = find n s.
Proof. first [exact (@frame V veqb veqb_spec) | exact (@frame V veqb) | exact (@frame V)]. Qed.

End C02.

Print Assumptions C02_reachable_inv.
Print Assumptions C02_refines_spec.
Print Assumptions C02_refines_spec_failed_save.
Print Assumptions C02_first_put.
Print Assumptions C02_put_existing.
Print Assumptions C02_never_reused.
Print Assumptions C02_put_retrievable.
Print Assumptions C02_active_exists.
Print Assumptions C02_active_undeletable.
Print Assumptions C02_only_activate_moves_active.
Print Assumptions C02_bytes_immutable.
Print Assumptions C02_failed_is_noop.
Print Assumptions C02_frame.

(* non-vacuity: a concrete reachable state with two names, a deleted newest version
   and a moved active version satisfies the invariant, and the F1 witness behaves *)
Definition ex_hist : list (bool * kop N) :=
  [(true, KPut [97] 1); (true, KPut [97] 2); (true, KPut [98] 7); (true, KSetActive [97] 2);
   (false, KPut [97] 3); (true, KPut [97] 3); (true, KDelVer [97] 3); (true, KPut [97] 0)].
Example C02_ex_run :
  kv_run N.eqb [] ex_hist =
  ([([97], {| vers := [(1, 1); (2, 2); (4, 0)]; active := 2; latest := 4 |});
    ([98], {| vers := [(1, 7)]; active := 1; latest := 1 |})],
   [(KVer 1, Saved); (KVer 2, Saved); (KVer 1, Saved); (KOk, Saved); (KSaveErr, SaveFailed);
    (KVer 3, Saved); (KOk, Saved); (KVer 4, Saved)]).
Proof. vm_compute. reflexivity. Qed.
