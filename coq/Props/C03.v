(* C03 - acknowledged state survives restart exactly; schema-v1 files stay readable.
   Statements only. *)
From Coq Require Import List Bool NArith.
Import ListNotations.
From Setec Require Import Base.SMap Acl.Glob Server.KV Server.KVProofs Server.DB Server.DBFacts Server.DBProofs
  Server.Persist Server.PersistProofs.
Open Scope N_scope.

Section C03.
Variable V : Type.
Variable veqb : V -> V -> bool.
Hypothesis veqb_spec : forall a b, veqb a b = true <-> a = b.

(* Over ANY history of calls by any callers with any pattern of refused saves and
   audit faults, the file (= what the last successful save wrote) is exactly the
   state the server holds: nothing acknowledged is lost, nothing deleted reappears. *)
Theorem C03_disk_is_memory : forall h (s : dbstate V) disk s' disk',
  Inv (kv s) -> disk = kv s -> db_run_disk veqb s disk h = (s', disk') -> disk' = kv s' /\ Inv (kv s').
Proof. first [exact (@disk_is_memory V veqb veqb_spec) | exact (@disk_is_memory V veqb) | exact (@disk_is_memory V)]. Qed.

(* a call that reports a save failure or any other error (or writes nothing) leaves the file's contents in force *)
Theorem C03_unsaved_unchanged : forall ev (s : dbstate V) c o s' r fx,
  Inv (kv s) -> db_step veqb ev s c o = (s', r, fx) ->
  Inv (kv s') /\ (has_save fx = false -> kv s' = kv s) /\ (has_save fx = true -> save_ok ev = true).
Proof. first [exact (@db_step_inv V veqb veqb_spec) | exact (@db_step_inv V veqb) | exact (@db_step_inv V)]. Qed.

(* decoding the persisted document of any invariant state yields exactly that state:
   names, version sets, bytes, active versions and the next-version counters *)
Theorem C03_roundtrip : forall s : kvs V, Inv s -> load (doc_of s) = s.
Proof. exact (@load_doc_of V). Qed.

End C03.

(* opening an existing file serves its contents and writes nothing (db_open is a pure
   function of the decoded contents; generation restarts at 1) *)
Theorem C03_open_is_readonly : forall (V : Type) (k : kvs V), kv (db_open k) = k /\ gen (db_open k) = 1.
Proof. exact (fun V k => conj eq_refl eq_refl). Qed.

Print Assumptions C03_disk_is_memory.
Print Assumptions C03_unsaved_unchanged.
Print Assumptions C03_roundtrip.
Print Assumptions C03_open_is_readonly.

(* non-vacuity: a history with a refused save; the disk follows only acknowledged changes *)
Definition su : caller := {| principal := 1; rules := [ {| r_actions := [AGet; AInfo; APut; AActivate; ADelete]; r_secrets := [[42]] |} ] |}.
Definition okenv := {| save_ok := true; audit := AOk |}.
Definition badenv := {| save_ok := false; audit := AOk |}.
Example C03_ex : snd (db_run_disk N.eqb (db_create N) [] [(okenv, su, OPut [97] 1); (badenv, su, OPut [97] 2); (okenv, su, OPut [98] 3); (okenv, su, ODel [97])])
  = [([98], {| vers := [(1, 3)]; active := 1; latest := 1 |})].
Proof. vm_compute. reflexivity. Qed.
Example C03_ex_roundtrip :
  load (doc_of [([97], {| vers := [(1, 1); (3, 4)]; active := 3; latest := 5 |}); ([98], {| vers := [(1, 3)]; active := 1; latest := 1 |})])
  = [([97], {| vers := [(1, 1); (3, 4)]; active := 3; latest := 5 |}); ([98], {| vers := [(1, 3)]; active := 1; latest := 1 |})].
Proof. vm_compute. reflexivity. Qed.
