(* C04 - database file update is all-or-nothing under crashes and I/O failures.
   Statements only; proofs are in Server/FSProofs.v, Server/KVProofs.v, Server/DBProofs.v, Server/RollbackProofs.v. *)
From Coq Require Import List Bool NArith.
Import ListNotations.
From Setec Require Import Base.SMap Acl.Glob Server.KV Server.KVProofs Server.DB Server.DBFacts Server.DBProofs
  Server.RollbackProofs Server.FSMap Server.FS Server.FSProofs.
Open Scope N_scope.

(* ================= the file protocol ================= *)
Section C04_file.
Variable B : Type.                         (* bytes *)
Variable beq : B -> B -> bool.
Hypothesis beq_spec : forall a b, beq a b = true <-> a = b.

(* "If the process is killed at any instant during a mutating call, the database file
   afterwards holds either the complete pre-call or the complete post-call state - never a
   mixture, a truncation": for EVERY trace of effective system calls accepted by the monitor,
   every kill point between two calls or inside one (after any prefix of a write), the live
   path holds exactly [old] (absent, for creation) or exactly [new]. *)
Theorem C04_crash_atomic : forall (old : option (list B)) (new : list B) (tr : list (op B)),
  atomic_replace_ok beq old new tr = true ->
  forall s, crash_state (init old) tr s -> read s Live = old \/ read s Live = Some new.
Proof. exact (@monitor_crash_atomic B beq beq_spec). Qed.

(* a save that runs to completion installs exactly the new contents, mode 0600, flushed *)
Theorem C04_completes : forall old new (tr : list (op B)),
  atomic_replace_ok beq old new tr = true ->
  afind Live (d (exec (init old) tr)) = Some {| data := new; mode := 384; stable := new |}.
Proof. exact (@monitor_completes B beq beq_spec). Qed.

(* "New contents are ... flushed to stable storage before they replace the live file":
   at every kill point the file at the live path is entirely on stable storage, owner-only *)
Theorem C04_flushed_before_visible : forall old new (tr : list (op B)),
  atomic_replace_ok beq old new tr = true ->
  forall s, crash_state (init old) tr s ->
  forall f, afind Live (d s) = Some f -> stable f = data f /\ mode f = 384.
Proof. exact (@monitor_flushed_before_visible B beq beq_spec). Qed.

(* "written to a separate file ... the live file is never written in place": the only call
   of the trace that can alter the live path is the rename of the temporary onto it *)
Theorem C04_never_in_place : forall old new (tr : list (op B)),
  atomic_replace_ok beq old new tr = true ->
  forall k o, nth_error tr k = Some o -> touches_live (exec (init old) (firstn k tr)) o = true ->
  exists t, o = Rename (Tmp t) Live.
Proof. exact (@monitor_never_in_place B beq beq_spec). Qed.

(* "If instead the call reports an error because any file-system step failed, the file on
   disk is exactly the pre-call state" (also if the process is killed during the cleanup),
   and no temporary remains *)
Theorem C04_error_atomic : forall (old : option (list B)) (tr : list (op B)),
  error_ok old tr = true ->
  (forall s, crash_state (init old) tr s -> read s Live = old)
  /\ (forall t, afind (Tmp t) (d (exec (init old) tr)) = None).
Proof. exact (@error_atomic B). Qed.

(* the code of tailscale.com/atomicfile.WriteFile (modelled line by line) stays inside the
   two monitored classes whichever single step fails - create-temp, the write after any
   partial transfer, chmod, fsync, close, rename, and the two stats whose errors it ignores *)
Theorem C04_writefile_all_faults : forall fd t (bytes : list B) (fail : option wstep) (partial : list B) old,
  let '(tr, ok) := write_file fd t bytes fail partial in
  if ok then atomic_replace_ok beq old bytes tr = true else error_ok old tr = true.
Proof. exact (@write_file_sound B beq beq_spec). Qed.

End C04_file.

(* ================= the state the running server serves ================= *)
Section C04_memory.
Variable V : Type.
Variable veqb : V -> V -> bool.
Hypothesis veqb_spec : forall a b, veqb a b = true <-> a = b.

(* "both the file on disk and the state the running server serves are exactly the pre-call
   state": each of the five rollback branches of kv.go (mutate, save fails, undo) restores
   EXACTLY the previous maps (Leibniz equality of canonical maps = Go map equality) *)
Theorem C04_rollback : forall (s : kvs V) o s' r sv,
  Inv s -> kv_step veqb false s o = (s', r, sv) -> s' = s.
Proof. first [exact (@rollback_exact V veqb veqb_spec) | exact (@rollback_exact V veqb)]. Qed.

(* at the API: a refused save changes neither the store nor the write generation and
   replaces no file *)
Theorem C04_refused_save_changes_nothing : forall ev (s : dbstate V) c o s' r fx,
  Inv (kv s) -> save_ok ev = false -> db_step veqb ev s c o = (s', r, fx) ->
  kv s' = kv s /\ gen s' = gen s /\ has_save fx = false.
Proof. first [exact (@failed_save_rollback V veqb veqb_spec) | exact (@failed_save_rollback V veqb)]. Qed.

(* the write generation advances exactly when a save succeeded *)
Theorem C04_gen_iff_saved : forall ev (s : dbstate V) c o s' r fx,
  db_step veqb ev s c o = (s', r, fx) -> gen s' = (if has_save fx then gen s + 1 else gen s).
Proof. first [exact (@gen_counts_saves V veqb veqb_spec) | exact (@gen_counts_saves V veqb)]. Qed.

(* "and later calls succeed normally": after a refused call the store is the one before it,
   so the same call with a working file system behaves exactly as if the failure had never
   happened (same new state, same result) *)
Theorem C04_retry : forall (s : kvs V) o s1 r1 sv1,
  Inv s -> kv_step veqb false s o = (s1, r1, sv1) ->
  kv_step veqb true s1 o = kv_step veqb true s o /\ Inv s1.
Proof. first [exact (@retry_after_refusal V veqb veqb_spec) | exact (@retry_after_refusal V veqb) | exact (@retry_after_refusal V)]. Qed.

End C04_memory.

Print Assumptions C04_crash_atomic.
Print Assumptions C04_completes.
Print Assumptions C04_flushed_before_visible.
Print Assumptions C04_never_in_place.
Print Assumptions C04_error_atomic.
Print Assumptions C04_writefile_all_faults.
Print Assumptions C04_rollback.
Print Assumptions C04_refused_save_changes_nothing.
Print Assumptions C04_gen_iff_saved.
Print Assumptions C04_retry.

(* ---------- non-vacuity ---------- *)
(* the trace of a save as recorded from the real code is accepted ... *)
Definition good : list (op N) :=
  [Stat Live; CreateExcl 0 (Tmp 0) 384; Write 0 [1;2]; Write 0 [3]; Chmod 0 384; Fsync 0; Close 0; Stat Live; Rename (Tmp 0) Live].
Example C04_ex_good : atomic_replace_ok N.eqb (Some [9]) [1;2;3] good = true.
Proof. vm_compute. reflexivity. Qed.
Example C04_ex_good_create : atomic_replace_ok N.eqb None [1;2;3] good = true.
Proof. vm_compute. reflexivity. Qed.
(* ... truncate-and-write (os.WriteFile) is rejected *)
Example C04_ex_in_place : atomic_replace_ok N.eqb (Some [9]) [1;2;3] [OpenW 0 Live true; Write 0 [1;2;3]; Close 0] = false.
Proof. vm_compute. reflexivity. Qed.
(* ... and the model shows why: killed after the truncating open, the file is empty *)
Example C04_ex_in_place_fatal : read (exec (init (Some [9])) (firstn 1 [OpenW 0 Live true; Write 0 [1;2;3]; Close 0])) Live = Some [].
Proof. vm_compute. reflexivity. Qed.
(* rename before the flush *)
Example C04_ex_no_fsync : atomic_replace_ok N.eqb (Some [9]) [1;2;3]
  [CreateExcl 0 (Tmp 0) 384; Write 0 [1;2;3]; Chmod 0 384; Close 0; Rename (Tmp 0) Live] = false.
Proof. vm_compute. reflexivity. Qed.
(* a write after the last flush *)
Example C04_ex_write_after_fsync : atomic_replace_ok N.eqb (Some [9]) [1;2;3]
  [CreateExcl 0 (Tmp 0) 384; Write 0 [1;2]; Fsync 0; Write 0 [3]; Close 0; Rename (Tmp 0) Live] = false.
Proof. vm_compute. reflexivity. Qed.
(* temporary readable by others *)
Example C04_ex_mode : atomic_replace_ok N.eqb (Some [9]) [1]
  [CreateExcl 0 (Tmp 0) 420; Write 0 [1]; Chmod 0 384; Fsync 0; Close 0; Rename (Tmp 0) Live] = false.
Proof. vm_compute. reflexivity. Qed.
(* temporary not created exclusively *)
Example C04_ex_not_excl : atomic_replace_ok N.eqb (Some [9]) [1]
  [OpenW 0 (Tmp 0) true; Write 0 [1]; Chmod 0 384; Fsync 0; Close 0; Rename (Tmp 0) Live] = false.
Proof. vm_compute. reflexivity. Qed.
(* the temporary does not hold the announced contents *)
Example C04_ex_short : atomic_replace_ok N.eqb (Some [9]) [1;2;3]
  [CreateExcl 0 (Tmp 0) 384; Write 0 [1;2]; Chmod 0 384; Fsync 0; Close 0; Rename (Tmp 0) Live] = false.
Proof. vm_compute. reflexivity. Qed.
(* a failed save that cleans up is accepted by the error monitor; one that leaves the temporary is not *)
Example C04_ex_error_good : error_ok (Some [9]) [Stat Live; CreateExcl 0 (Tmp 0) 384; Write 0 [1:N]; Close 0; Unlink (Tmp 0)] = true.
Proof. vm_compute. reflexivity. Qed.
Example C04_ex_error_leftover : error_ok (Some [9]) [Stat Live; CreateExcl 0 (Tmp 0) 384; Write 0 [1:N]; Close 0] = false.
Proof. vm_compute. reflexivity. Qed.
Example C04_ex_error_renamed : error_ok (Some [9]) [CreateExcl 0 (Tmp 0) 384; Write 0 [1:N]; Close 0; Rename (Tmp 0) Live] = false.
Proof. vm_compute. reflexivity. Qed.
(* the model of WriteFile: the no-fault trace is the recorded one *)
Example C04_ex_writefile : fst (write_file 0 0 [1;2;3] None []) =
  [Stat Live; CreateExcl 0 (Tmp 0) 384; Write 0 [1;2;3]; Chmod 0 384; Fsync 0; Close 0; Stat Live; Rename (Tmp 0) Live].
Proof. vm_compute. reflexivity. Qed.
(* rollback: a non-trivial invariant state and a refused new version / activate / delete *)
Definition st0 : kvs N := [([97], {| vers := [(1, 5); (2, 6)]; active := 1; latest := 3 |}); ([98], {| vers := [(1, 7)]; active := 1; latest := 1 |})].
Example C04_ex_rollback_put : fst (fst (kv_step N.eqb false st0 (KPut [97] 8))) = st0.
Proof. vm_compute. reflexivity. Qed.
Example C04_ex_rollback_activate : kv_step N.eqb false st0 (KSetActive [97] 2) = (st0, KSaveErr, SaveFailed).
Proof. vm_compute. reflexivity. Qed.
Example C04_ex_rollback_delete : kv_step N.eqb false st0 (KDel [98]) = (st0, KSaveErr, SaveFailed).
Proof. vm_compute. reflexivity. Qed.

(* ---------- the end-to-end chain ----------
   The composition of the server-side models (DB/KV - Persist - Crypto - FS; statements in
   Props/Chain_Server.v, proofs in Server/EndToEndProofs.v) is built and its assumptions are
   checked with every C04 run. *)
From Setec Require Props.Chain_Server.
Print Assumptions Chain_Server.Chain_outcome.
Print Assumptions Chain_Server.Chain_crash.
Print Assumptions Chain_Server.Chain_history.
Print Assumptions Chain_Server.Chain_call_is_spec_step.
Print Assumptions Chain_Server.Chain_secrecy.
Print Assumptions Chain_Server.Chain_seen_complete.
